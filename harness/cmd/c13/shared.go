package main

// Scenario class "shared computation between overlapping calls".
//
// Many list calls (tools/list, prompts/list, resources/list, resources/templates/list) and tools/call / prompts/get /
// resources/read calls of clients the context functions and filters treat differently overlap in time WITHOUT any
// barrier inside the filters / handlers that would need all of them to be inside at once: the user code is merely slow
// (a yield loop, a short sleep, or a gate the harness opens once every request of the round has been received by the
// server - i.e. after the other requests have been sent - plus a grace). A library that computes an answer once and
// hands it to the other callers that arrived meanwhile (single-flight, a cache keyed on method / name / arguments /
// request id) is not held up by any of this, and the callers that were handed the shared answer are exposed by the value
// oracle: every answer must reflect the caller's own context values. The requests of different clients are made as
// alike as possible on purpose (same JSON-RPC ids, same arguments): only the request context tells them apart.
//
// The overlap is measured, not assumed: every filter / handler counts the other requests it finds inside the same stage
// when it enters (overlapping pairs), so the evidence shows how much of the overlap was real and a run without it ends
// without a verdict.

import (
	"context"
	"encoding/json"
	"fmt"
	"math/rand"
	"net/http"
	"runtime"
	"sort"
	"strings"
	"sync"
	"sync/atomic"
	"time"

	mcp "trpc.group/trpc-go/trpc-mcp-go"

	"verifharness/lib/kit"
	"verifharness/lib/vh"
)

const sharedHdr = "X-Verif-Shared"

type sharedMethod struct {
	method, field, key, prefix string
	staged                     bool // user code (filter / handler) runs for it
}

var sharedMethods = []sharedMethod{
	{"tools/list", "tools", "name", "t-", true},
	{"prompts/list", "prompts", "name", "p-", true},
	{"resources/list", "resources", "name", "r-", true},
	{"tools/call", "", "", "", true},
	{"prompts/get", "", "", "", true},
	{"resources/read", "", "", "", true},
	{"resources/templates/list", "resourceTemplates", "name", "", false},
}

var sharedListMethods = []string{"tools/list", "prompts/list", "resources/list"}

func sharedMethodByName(m string) sharedMethod {
	for _, x := range sharedMethods {
		if x.method == m {
			return x
		}
	}
	panic(m)
}

type sharedRound struct {
	name    string
	mode    string // spin | sleep | gate
	spin    int
	sleep   time.Duration
	release chan struct{}
	passed  atomic.Int64 // requests of this round that went through the first context function (= received by the server)
	inside  atomic.Int64 // stage entries of this round
}

type sharedSrv struct {
	kind kit.Kind
	K    int
	in   *kit.Instance
	cur  atomic.Pointer[sharedRound]
	rv   rvScen

	inStage  map[string]*atomic.Int64 // method -> requests inside its filter / handler right now
	pairs    map[string]*atomic.Int64 // method -> overlapping pairs observed (entries x others of the same method inside)
	inAny    atomic.Int64
	pairsAny atomic.Int64
	maxIn    atomic.Int64
}

// stage is the slow part of every filter / handler.
func (ss *sharedSrv) stage(method string) {
	rd := ss.cur.Load()
	n := ss.inStage[method].Add(1)
	a := ss.inAny.Add(1)
	defer ss.inAny.Add(-1)
	defer ss.inStage[method].Add(-1)
	if n > 1 {
		ss.pairs[method].Add(n - 1)
	}
	if a > 1 {
		ss.pairsAny.Add(a - 1)
	}
	for {
		m := ss.maxIn.Load()
		if a <= m || ss.maxIn.CompareAndSwap(m, a) {
			break
		}
	}
	if rd == nil {
		return
	}
	rd.inside.Add(1)
	switch rd.mode {
	case "spin":
		for i := 0; i < rd.spin; i++ {
			runtime.Gosched()
		}
	case "sleep":
		time.Sleep(rd.sleep)
	case "gate":
		t := time.NewTimer(4 * rvBound) // safety only: the harness opens the gate after rvBound at the latest
		select {
		case <-rd.release:
		case <-t.C:
		}
		t.Stop()
	}
}

type sharedEcho struct {
	Tok1  string `json:"tok1"`
	Tok2  string `json:"tok2"`
	Chain string `json:"chain"`
	Sess  string `json:"sess"`
}

func sharedEchoOf(ctx context.Context) string {
	e := sharedEcho{Tok1: tokOf(ctx)}
	e.Tok2, _ = ctx.Value(k2{}).(string)
	e.Chain, _ = ctx.Value(k3{}).(string)
	if s := mcp.ClientSessionFromContext(ctx); s != nil {
		if v, _ := view(s); v.Has {
			e.Sess = v.ID
		}
	}
	if e.Sess == "" {
		if s, ok := mcp.GetSessionFromContext(ctx); ok {
			if v, _ := view(s); v.Has {
				e.Sess = v.ID
			}
		}
	}
	b, _ := json.Marshal(e)
	return string(b)
}

const sharedF = 3 // context functions of the shared-computation servers

func buildShared(kind kit.Kind, K int) *sharedSrv {
	ss := &sharedSrv{kind: kind, K: K, inStage: map[string]*atomic.Int64{}, pairs: map[string]*atomic.Int64{}}
	for _, m := range sharedMethods {
		ss.inStage[m.method] = &atomic.Int64{}
		ss.pairs[m.method] = &atomic.Int64{}
	}
	first := func(ctx context.Context, r *http.Request) context.Context {
		if v := r.Header.Get(sharedHdr); v != "" {
			if rd := ss.cur.Load(); rd != nil && rd.name == v {
				rd.passed.Add(1)
			}
		}
		return ctxFn1(ctx, r)
	}
	toolFilter := func(ctx context.Context, tools []*mcp.Tool) []*mcp.Tool {
		ss.stage("tools/list")
		var out []*mcp.Tool
		for _, t := range tools {
			if allowed(t.Name, "t-", tokOf(ctx), K) {
				out = append(out, t)
			}
		}
		return out
	}
	promptFilter := func(ctx context.Context, ps []*mcp.Prompt) []*mcp.Prompt {
		ss.stage("prompts/list")
		var out []*mcp.Prompt
		for _, p := range ps {
			if allowed(p.Name, "p-", tokOf(ctx), K) {
				out = append(out, p)
			}
		}
		return out
	}
	resFilter := func(ctx context.Context, rs []*mcp.Resource) []*mcp.Resource {
		ss.stage("resources/list")
		var out []*mcp.Resource
		for _, x := range rs {
			if allowed(x.Name, "r-", tokOf(ctx), K) {
				out = append(out, x)
			}
		}
		return out
	}
	var in *kit.Instance
	if kind == kit.LSSE {
		all := func(ctx context.Context, r *http.Request) context.Context {
			return extraFn(3)(ctxFn2(first(ctx, r), r), r)
		}
		in = kit.Start(kind, kit.Opts{SSEOpts: []mcp.SSEOption{mcp.WithSSEContextFunc(all), mcp.WithSSEToolListFilter(toolFilter), mcp.WithSSEPromptListFilter(promptFilter), mcp.WithSSEResourceListFilter(resFilter)}})
	} else {
		in = kit.Start(kind, kit.Opts{ServerOpts: []mcp.ServerOption{mcp.WithHTTPContextFunc(first), mcp.WithHTTPContextFunc(ctxFn2), mcp.WithHTTPContextFunc(extraFn(3)),
			mcp.WithToolListFilter(toolFilter), mcp.WithPromptListFilter(promptFilter), mcp.WithResourceListFilter(resFilter)}})
	}
	ss.in = in
	names := []string{"all", "even", "odd"}
	for k := 0; k < K; k++ {
		names = append(names, fmt.Sprintf("only-%d", k))
	}
	for _, n := range names {
		n := n
		in.RegisterTool(mcp.NewTool("t-"+n), func(ctx context.Context, req *mcp.CallToolRequest) (*mcp.CallToolResult, error) {
			return mcp.NewTextResult("x"), nil
		})
		in.RegisterPrompt(&mcp.Prompt{Name: "p-" + n}, func(ctx context.Context, req *mcp.GetPromptRequest) (*mcp.GetPromptResult, error) {
			return &mcp.GetPromptResult{}, nil
		})
		in.RegisterResource(&mcp.Resource{URI: "res://" + n, Name: "r-" + n}, func(ctx context.Context, req *mcp.ReadResourceRequest) (mcp.ResourceContents, error) {
			return mcp.TextResourceContents{URI: "res://" + n, Text: "x"}, nil
		})
	}
	// the echoing tool / prompt / resource: hidden from every list by the filters, called by everybody with the SAME
	// arguments (only the request context distinguishes the callers)
	in.RegisterTool(mcp.NewTool("ctxecho"), func(ctx context.Context, req *mcp.CallToolRequest) (*mcp.CallToolResult, error) {
		ss.stage("tools/call")
		return mcp.NewTextResult(sharedEchoOf(ctx)), nil
	})
	in.RegisterPrompt(&mcp.Prompt{Name: "ctxecho-p"}, func(ctx context.Context, req *mcp.GetPromptRequest) (*mcp.GetPromptResult, error) {
		ss.stage("prompts/get")
		return &mcp.GetPromptResult{Description: sharedEchoOf(ctx)}, nil
	})
	in.RegisterResource(&mcp.Resource{URI: "res://ctxecho", Name: "ctxecho-r"}, func(ctx context.Context, req *mcp.ReadResourceRequest) (mcp.ResourceContents, error) {
		ss.stage("resources/read")
		return mcp.TextResourceContents{URI: "res://ctxecho", Text: sharedEchoOf(ctx)}, nil
	})
	for _, t := range []string{"tpl-a", "tpl-b"} {
		tpl := mcp.NewResourceTemplate("tpl://"+t+"/{id}", t)
		h := func(ctx context.Context, req *mcp.ReadResourceRequest) ([]mcp.ResourceContents, error) {
			return []mcp.ResourceContents{mcp.TextResourceContents{URI: req.Params.URI, Text: "x"}}, nil
		}
		switch {
		case in.Server != nil:
			in.Server.RegisterResourceTemplate(tpl, h)
		case in.SSE != nil:
			in.SSE.RegisterResourceTemplate(tpl, h)
		}
	}
	return ss
}

// waitUntil is a watchdog-bounded wait of the harness (never a verdict).
func waitUntil(cond func() bool, d time.Duration) bool {
	deadline := time.Now().Add(d)
	for !cond() {
		if time.Now().After(deadline) {
			return false
		}
		time.Sleep(20 * time.Microsecond)
	}
	return true
}

type sharedReq struct {
	client int
	tok    string
	m      sharedMethod
	id     string
	ex     *kit.Exchange
}

type sharedCombo struct{ method, mode, shape string }

var sharedSeq atomic.Int64

// sharedScenario runs the combos (method x slowness mode x shape) against one server with K clients.
func sharedScenario(r *vh.Run, kind kit.Kind, K int, combos []sharedCombo, rng *rand.Rand) {
	ss := buildShared(kind, K)
	in := ss.in
	defer in.Close()
	ctx := context.Background()
	scn := sharedSeq.Add(1)
	type cli struct {
		tok string
		c   *kit.RawConn
	}
	var clients []cli
	defer func() {
		for _, c := range clients {
			c.c.Close()
		}
	}()
	for k := 0; k < K; k++ {
		c, err := in.Dial(ctx)
		if err != nil {
			r.Fatal("shared: dial: %v", err)
		}
		c.Headers[hdr] = fmt.Sprintf("tok-%d", k)
		clients = append(clients, cli{fmt.Sprintf("tok-%d", k), c})
		if err := c.Handshake(ctx); err != nil {
			r.Fatal("shared: handshake: %v", err)
		}
	}
	where := fmt.Sprintf("%s shared-computation K=%d", kind, K)
	pairsBefore := func() map[string]int64 {
		m := map[string]int64{"*": ss.pairsAny.Load()}
		for k, v := range ss.pairs {
			m[k] = v.Load()
		}
		return m
	}
	for round, cb := range combos {
		rd := &sharedRound{name: fmt.Sprintf("s%d/%d", scn, round), mode: cb.mode, release: make(chan struct{})}
		stagger := false
		switch cb.mode {
		case "spin":
			rd.spin = []int{200, 2000, 20000}[rng.Intn(3)]
		case "sleep":
			rd.sleep = time.Duration(200+rng.Intn(1800)) * time.Microsecond
		case "gate-stagger":
			rd.mode, stagger = "gate", true
		}
		if rd.mode == "gate" && !ss.rv.on(r, "shared:received") {
			// the breaker tripped: no gate any more, the user code is just slow
			rd.mode, rd.spin, stagger = "spin", 2000, false
		}
		// the requests of the round
		var reqs []*sharedReq
		for k, cl := range clients {
			n := 1
			if cb.shape == "burst" {
				n = 3
			}
			for j := 0; j < n; j++ {
				m := sharedMethodByName(cb.method)
				if cb.shape == "mixed" && rng.Intn(3) > 0 {
					m = sharedMethods[rng.Intn(len(sharedMethods))]
				}
				// the same ids for every client: ids are scoped to the session
				reqs = append(reqs, &sharedReq{client: k, tok: cl.tok, m: m, id: fmt.Sprintf(`"s%d-%d"`, round, j)})
			}
		}
		before := pairsBefore()
		ss.cur.Store(rd)
		var wg sync.WaitGroup
		var answered atomic.Int64
		send := func(q *sharedReq) {
			wg.Add(1)
			go func() {
				defer wg.Done()
				defer answered.Add(1)
				params := ""
				switch q.m.method {
				case "tools/call":
					params = `,"params":{"name":"ctxecho","arguments":{}}`
				case "prompts/get":
					params = `,"params":{"name":"ctxecho-p"}`
				case "resources/read":
					params = `,"params":{"uri":"res://ctxecho"}`
				}
				q.ex = clients[q.client].c.Post(ctx, []byte(fmt.Sprintf(`{"jsonrpc":"2.0","id":%s,"method":"%s"%s}`, q.id, q.m.method, params)),
					kit.PostOpts{WantID: q.id, Wait: 60 * time.Second, Headers: map[string]string{sharedHdr: rd.name}})
			}()
		}
		rwhere := fmt.Sprintf("%s round %d (%s, %s, %s)", where, round, cb.method, cb.mode, cb.shape)
		rest := reqs
		if stagger {
			// the first client's requests go first; the others are sent once one of them is inside its filter / handler
			// (held there by the gate) - or has been answered, or the watchdog fired
			lead := 0
			for lead < len(reqs) && reqs[lead].client == 0 {
				send(reqs[lead])
				lead++
			}
			rest = reqs[lead:]
			leadStaged := false
			for _, q := range reqs[:lead] {
				leadStaged = leadStaged || q.m.staged
			}
			if leadStaged && ss.rv.on(r, "shared:leader-inside") {
				waitUntil(func() bool { return rd.inside.Load() >= 1 || answered.Load() >= int64(lead) }, rvBound)
				ss.rv.result(r, "shared:leader-inside", rd.inside.Load() >= 1, rwhere+" (leader inside its filter / handler before the followers are sent)")
			}
		}
		for _, q := range rest {
			send(q)
		}
		if rd.mode == "gate" {
			// the gate opens once every request of the round has been received by the server (went through the first
			// context function) - or answered, or the watchdog fired -, plus a grace for them to reach the handler's
			// entry. Nothing waits for anybody to be INSIDE a filter.
			n := int64(len(reqs))
			waitUntil(func() bool { return rd.passed.Load() >= n || answered.Load() >= n }, rvBound)
			ss.rv.result(r, "shared:received", rd.passed.Load() >= n, fmt.Sprintf("%s (%d of %d requests received while the first ones are held)", rwhere, rd.passed.Load(), n))
			for i := 0; i < 300; i++ {
				runtime.Gosched()
			}
			time.Sleep(300 * time.Microsecond)
		}
		close(rd.release)
		wg.Wait()
		ss.cur.Store(nil)
		// overlap actually observed in this round
		after := pairsBefore()
		overlapAny := after["*"] > before["*"]
		overlapOf := func(m string) bool { return after[m] > before[m] }
		r.Count("shared_rounds", 1)
		if overlapAny {
			r.Count("shared_rounds_with_overlap", 1)
		}
		if cb.shape != "mixed" && sharedMethodByName(cb.method).staged {
			r.Count("shared_same_method_rounds|"+cb.method, 1)
			if overlapOf(cb.method) {
				r.Count("shared_same_method_rounds_with_overlap|"+cb.method, 1)
			}
		}
		// the value oracle: every answer reflects the caller's own context values
		for _, q := range reqs {
			r.Eval(1)
			sig := func(symptom string) string {
				return fmt.Sprintf("C13|%s|shared-computation|%s|%s", kind, q.m.method, symptom)
			}
			wit := map[string]interface{}{"kind": kind, "requester": q.tok, "method": q.m.method, "round_method": cb.method, "slowness": cb.mode, "shape": cb.shape, "clients": K}
			f := ""
			if q.ex != nil {
				f = answerFrame(q.ex.Frames)
			}
			if f == "" || !strings.Contains(f, `"result"`) {
				r.Count("shared_unanswered", 1)
				r.Inconclusive(fmt.Sprintf("%s: %s of %s was not answered with a result (timed out: %v): %.200s", rwhere, q.m.method, q.tok, q.ex != nil && q.ex.TimedOut, f))
				continue
			}
			ok := false
			switch {
			case q.m.method == "resources/templates/list":
				// no filter, nothing of the caller in it: traffic next to the others, counted only
				got := namesOf(f, q.m.field, q.m.key)
				if strings.Join(got, ",") == "tpl-a,tpl-b" {
					r.Count("shared_template_lists_complete", 1)
				} else {
					r.Count("shared_template_lists_other", 1)
				}
				continue
			case q.m.field != "":
				got := namesOf(f, q.m.field, q.m.key)
				want := visible(q.m.prefix, q.tok, K)
				wit["got"], wit["want"] = got, want
				if strings.Join(got, ",") != strings.Join(want, ",") {
					r.Violation(sig("list-of-other-caller"), fmt.Sprintf("%s: %s for %s returned %v, the filter admits %v for this caller (overlapping callers, slow filter)", where, q.m.method, q.tok, got, want), wit)
				} else {
					ok = true
				}
			default:
				e, parsed := sharedParseEcho(q.m.method, f)
				wit["echo"] = e
				switch {
				case !parsed:
					r.Count("shared_unparsed", 1)
					r.Inconclusive(fmt.Sprintf("%s: answer to %s of %s not understood: %.200s", rwhere, q.m.method, q.tok, f))
				case e.Tok1 != q.tok || e.Tok2 != wantTok2(q.tok, sharedF) || e.Chain != wantChain(q.tok, sharedF):
					r.Violation(sig("context-value-of-other-request"), fmt.Sprintf("%s: the %s handler answering %s saw the context values %q / %q / %q", where, q.m.method, q.tok, e.Tok1, e.Tok2, e.Chain), wit)
				case (kind.Stateful() || kind == kit.LSSE) && e.Sess != clients[q.client].c.SessionID:
					r.Violation(sig("session-of-other-request"), fmt.Sprintf("%s: the %s handler answering %s (session %q) saw session %q", where, q.m.method, q.tok, clients[q.client].c.SessionID, e.Sess), wit)
				default:
					ok = true
				}
			}
			if !ok {
				continue
			}
			r.Count("shared_answers_own|"+q.m.method, 1)
			// an answer counts as a case of this class only when the round's requests really overlapped inside the
			// user code of that method (same-method rounds) / of any method (mixed rounds)
			if (cb.shape == "mixed" && overlapAny) || (cb.shape != "mixed" && overlapOf(q.m.method)) {
				r.Count("shared_answers_own_in_overlapping_rounds", 1)
				r.Distinct(fmt.Sprintf("%s|shared|%s|%s|%s", kind, q.m.method, cb.mode, cb.shape))
			}
		}
	}
	for m, v := range ss.pairs {
		r.Count("shared_overlapping_pairs|"+m, v.Load())
	}
	r.Count("shared_overlapping_pairs_any_method", ss.pairsAny.Load())
	r.Max("shared_requests_inside_user_code_at_once", ss.maxIn.Load())
	r.Max("shared_requests_inside_user_code_at_once_"+string(kind), ss.maxIn.Load())
	if K >= 6 && kind == kit.SLJSON {
		r.Sample(map[string]interface{}{"shared_computation_scenario": map[string]interface{}{"kind": kind, "clients": K, "rounds": len(combos),
			"overlapping_pairs_tools_list": ss.pairs["tools/list"].Load(), "overlapping_pairs_prompts_list": ss.pairs["prompts/list"].Load(), "overlapping_pairs_resources_list": ss.pairs["resources/list"].Load(),
			"max_inside_user_code_at_once": ss.maxIn.Load()}})
	}
}

func sharedParseEcho(method, frame string) (sharedEcho, bool) {
	var m struct {
		Result struct {
			Content []struct {
				Text string `json:"text"`
			} `json:"content"`
			Description string `json:"description"`
			Contents    []struct {
				Text string `json:"text"`
			} `json:"contents"`
		} `json:"result"`
	}
	var e sharedEcho
	if json.Unmarshal([]byte(frame), &m) != nil {
		return e, false
	}
	txt := ""
	switch method {
	case "tools/call":
		if len(m.Result.Content) == 1 {
			txt = m.Result.Content[0].Text
		}
	case "prompts/get":
		txt = m.Result.Description
	case "resources/read":
		if len(m.Result.Contents) == 1 {
			txt = m.Result.Contents[0].Text
		}
	}
	if txt == "" || json.Unmarshal([]byte(txt), &e) != nil {
		return e, false
	}
	return e, true
}

// sharedSweep: every (method, slowness mode, shape) combination on every server kind and client count, in an order
// drawn from the seed (thorough: several passes with fresh draws of the slowness parameters and mixes).
func sharedSweep(r *vh.Run) {
	rng := r.Rand("shared-computation")
	var base []sharedCombo
	for _, m := range sharedMethods {
		if !m.staged {
			continue
		}
		for _, mode := range []string{"spin", "sleep", "gate", "gate-stagger"} {
			for _, shape := range []string{"same", "mixed", "burst"} {
				base = append(base, sharedCombo{m.method, mode, shape})
			}
		}
	}
	// list methods are what the class is mostly about: they come twice
	for _, c := range append([]sharedCombo{}, base...) {
		if strings.HasSuffix(c.method, "/list") {
			base = append(base, c)
		}
	}
	type cfg struct {
		kind kit.Kind
		K    int
	}
	var cfgs []cfg
	for _, kind := range []kit.Kind{kit.SJSON, kit.SSSE, kit.SLJSON, kit.SLSSE, kit.LSSE} {
		for _, K := range []int{2, 6, r.Pick(12, 24)} {
			cfgs = append(cfgs, cfg{kind, K})
		}
	}
	cfgs = append(cfgs, cfg{kit.SNoSess, 4})
	for _, c := range cfgs {
		var combos []sharedCombo
		for pass, n := 0, r.Pick(1, 6); pass < n; pass++ {
			for _, i := range rng.Perm(len(base)) {
				combos = append(combos, base[i])
			}
		}
		sharedScenario(r, c.kind, c.K, combos, rng)
	}
}

// sharedVerdict: the class counts as observed only when requests really were inside the same user code at the same
// time, for every list method - otherwise no verdict (a violation found by the value oracle takes precedence).
func sharedVerdict(r *vh.Run) {
	var missing []string
	for _, m := range sharedListMethods {
		all, with := r.Counter("shared_same_method_rounds|"+m), r.Counter("shared_same_method_rounds_with_overlap|"+m)
		if r.Counter("shared_overlapping_pairs|"+m) == 0 || with*2 < all {
			missing = append(missing, fmt.Sprintf("%s: %d overlapping pairs inside the filter, %d of %d same-method rounds with overlap", m, r.Counter("shared_overlapping_pairs|"+m), with, all))
		}
	}
	sort.Strings(missing)
	r.Require(len(missing) == 0, "shared-computation scenarios: overlapping calls did not overlap inside the filters (overlap not achieved; a library that serialises or coalesces these calls is not thereby violating C13, but the class was not observed): %s", strings.Join(missing, "; "))
	r.Require(r.Counter("shared_answers_own_in_overlapping_rounds") > 0, "shared-computation scenarios: no answer was judged in a round with real overlap")
}
