package main

// Id sweep: the structure of the request and the texts stay fixed, the request's ID walks over the JSON number and string
// space — integers at and beyond ±2^53, ±2^63, 2^64, 1e19, 1e21, 1e308, negative zero, fractions, every exponent
// spelling, very long digit strings, strings that look like numbers, the empty and very long strings, seeded random
// numbers — on every server configuration and for every kind of outcome (result, tool result with isError, handler
// failure, unknown method, unknown tool, parameters of the wrong shape, initialize). "A response has ... the request's
// id": the id of the answer is compared with the id of the request as a JSON VALUE, computed from the raw text of both with
// math/big (never through float64 / int64). A JSON receiver may hold numbers as IEEE doubles (RFC 8259 §6), so an answer
// whose number rounds to the same double as the request's is accepted and counted apart; anything else is not the request's id.
// A server may refuse an id it does not serve (non-2xx, or an error object; one of class -32600 / -32700 may bear a null id).

import (
	"context"
	"encoding/json"
	"fmt"
	"math"
	"math/big"
	"strings"
	"sync"
	"time"

	"verifharness/lib/gen"
	"verifharness/lib/kit"
	"verifharness/lib/vh"
)

type idCase struct {
	raw   string // the id as spelt in the request
	class string // value class, stable across seeds (signatures)
	plain bool   // an integer of magnitude <= 2^53 or a non-empty string: every implementation serves these
}

var (
	two53 = new(big.Rat).SetInt(new(big.Int).Lsh(big.NewInt(1), 53))
	two63 = new(big.Rat).SetInt(new(big.Int).Lsh(big.NewInt(1), 63))
)

// numValue is the exact value of a JSON number literal. ok is false for a text that is no JSON number or whose exponent
// is too large to expand.
func numValue(raw string) (*big.Rat, bool) {
	if raw == "" || !(raw[0] == '-' || (raw[0] >= '0' && raw[0] <= '9')) || !json.Valid([]byte(raw)) {
		return nil, false
	}
	if i := strings.IndexAny(raw, "eE"); i >= 0 {
		e := strings.TrimLeft(raw[i+1:], "+-0")
		if len(e) > 4 {
			return nil, false
		}
	}
	v, ok := new(big.Rat).SetString(raw)
	return v, ok
}

func classifyID(raw string) idCase {
	c := idCase{raw: raw}
	if strings.HasPrefix(raw, `"`) {
		var s string
		_ = json.Unmarshal([]byte(raw), &s)
		_, numeric := numValue(s)
		switch {
		case s == "":
			c.class = "string:empty"
		case len(s) > 1000:
			c.class = "string:long"
			c.plain = true
		case numeric:
			c.class = "string:number-looking"
			c.plain = true
		default:
			c.class = "string:other"
			c.plain = true
		}
		return c
	}
	v, ok := numValue(raw)
	if !ok {
		c.class = "number:unparsed"
		return c
	}
	abs := new(big.Rat).Abs(v)
	f, _ := v.Float64()
	switch {
	case math.IsInf(f, 0):
		c.class = "number:beyond-double-range"
	case !v.IsInt():
		c.class = "number:fraction"
	case v.Sign() == 0:
		c.class = "number:zero"
		c.plain = true
	case abs.Cmp(two53) <= 0:
		c.class = "number:int<=2^53"
		c.plain = true
	case abs.Cmp(two63) < 0:
		c.class = "number:int(2^53,2^63)"
	default:
		c.class = "number:int>=2^63"
	}
	if strings.ContainsAny(raw, "eE.") {
		c.class += "(exp/point)"
	}
	if strings.HasPrefix(raw, "-") {
		c.class += "(neg)"
	}
	return c
}

func idCatalogue(r *vh.Run) []idCase {
	digits := func(n int) string {
		var b strings.Builder
		for i := 0; i < n; i++ {
			b.WriteByte(byte('1' + i%9))
		}
		return b.String()
	}
	raws := []string{
		"0", "-0", "0.0", "-0.0", "0e0", "-0e5", "1", "-1", "7", "1.0", "1.5", "-2.25", "0.1", "0.5", "1e0", "1E0", "1e+0", "1e-0", "1e2", "1E+2", "100e-2",
		"1.5e1", "12e-1", "2.5e-1", "2147483647", "2147483648", "-2147483649", "4294967295", "4294967296", "999999", "1000000", "1e6", "1e7", "1.0e6",
		"123456789012", "1e15", "9007199254740991", "9007199254740992", "9007199254740993", "9007199254740994", "-9007199254740991", "-9007199254740992",
		"-9007199254740993", "9.007199254740992e15", "1e16", "1e17", "1e18", "9223372036854775807", "9223372036854775808", "9223372036854775809",
		"9223372036854777856", "-9223372036854775807", "-9223372036854775808", "-9223372036854775809", "-9223372036854777856",
		"9223372036854775808.0", "9.223372036854775808e18", "-9.223372036854775808e18", "9223372036854775807.5", "18446744073709551615",
		"18446744073709551616", "18446744073709551617", "18446744073709551615.0", "-18446744073709551615", "-18446744073709551616", "1e19", "-1e19", "1E19",
		"1.0e19", "1e+19", "10000000000000000000", "-10000000000000000000", "1e20", "1e21", "-1e21", "1e22", "1e23", "1000000000000000000000", "1e100", "1e308",
		"-1e308", "1.7976931348623157e308", "1e309", "-1e309", "1e400", "5e-324", "1e-7", "1e-400", "0.30000000000000004", "0.123456789012345678901234567890",
		"1.0000000000000000000000001", "123456789012345678901234567890", digits(40), "-" + digits(41), digits(310), digits(400), "1" + strings.Repeat("0", 25),
		"0." + digits(300), digits(20) + "." + digits(20) + "e3",
		`"1"`, `"0"`, `"-0"`, `"-1"`, `"1.0"`, `"1e19"`, `"1.5"`, `"9007199254740993"`, `"9223372036854775808"`, `"-9223372036854775808"`, `"18446744073709551615"`,
		`"1e400"`, `""`, `" "`, `" 1"`, `"1 "`, `"null"`, `"true"`, `"[1]"`, `"{}"`, `"0x10"`, `"NaN"`, `"Infinity"`, `"+1"`, `"01"`, `"١٢٣"`,
		`"` + digits(400) + `"`, `"` + strings.Repeat("id-", 7000) + `"`,
	}
	rng := r.Rand("c03-ids")
	for i, n := 0, r.Pick(16, 150); i < n; i++ {
		var b strings.Builder
		if rng.Intn(3) == 0 {
			b.WriteByte('-')
		}
		b.WriteByte(byte('1' + rng.Intn(9)))
		for j, l := 0, rng.Intn(40); j < l; j++ {
			b.WriteByte(byte('0' + rng.Intn(10)))
		}
		switch rng.Intn(4) {
		case 0:
			b.WriteByte('.')
			for j, l := 0, 1+rng.Intn(20); j < l; j++ {
				b.WriteByte(byte('0' + rng.Intn(10)))
			}
		case 1:
			fmt.Fprintf(&b, "%s%s%d", []string{"e", "E"}[rng.Intn(2)], []string{"", "+", "-"}[rng.Intn(3)], rng.Intn(40))
		}
		s := b.String()
		if rng.Intn(8) == 0 {
			s = `"` + s + `"`
		}
		raws = append(raws, s)
	}
	// around the powers of two where integer representations end
	for _, sh := range []uint{31, 32, 52, 53, 62, 63, 64, 65, 100, 127, 128} {
		p := new(big.Int).Lsh(big.NewInt(1), sh)
		for _, d := range []int64{-1, 0, 1} {
			v := new(big.Int).Add(p, big.NewInt(d))
			raws = append(raws, v.String(), new(big.Int).Neg(v).String())
		}
	}
	seen := map[string]bool{}
	var out []idCase
	for _, raw := range raws {
		if seen[raw] {
			continue
		}
		seen[raw] = true
		out = append(out, classifyID(raw))
	}
	return out
}

// compareID: "exact" (the same JSON value), "nearest-double" (not the same exact value, but both numbers round to the same
// IEEE double), "differs".
func compareID(sent, got string) string {
	ss, gs := strings.HasPrefix(sent, `"`), strings.HasPrefix(got, `"`)
	if ss || gs {
		if !(ss && gs) {
			return "differs"
		}
		var a, b string
		if json.Unmarshal([]byte(sent), &a) != nil || json.Unmarshal([]byte(got), &b) != nil || a != b {
			return "differs"
		}
		return "exact"
	}
	a, oka := numValue(sent)
	b, okb := numValue(got)
	if !oka || !okb {
		return "differs"
	}
	if a.Cmp(b) == 0 {
		return "exact"
	}
	// a receiver holding numbers as IEEE doubles writes back SOME decimal text of the double it read (Go: the shortest one
	// that reads back as the same double, e.g. 4611686018427388000 for 2^62): the same id iff both texts denote the same double
	f, _ := a.Float64()
	g, _ := b.Float64()
	if math.IsInf(f, 0) || math.IsInf(g, 0) || f != g {
		return "differs"
	}
	return "nearest-double"
}

type idFlow struct {
	name   string
	method string
	exp    gen.Expect
	body   func(id, lit string) string
}

func idFlows() []idFlow {
	res := gen.Expect{Class: "result"}
	return []idFlow{
		{"ping", "ping", res, call("ping", "")},
		{"tools/list", "tools/list", res, call("tools/list", "")},
		{"tools/call|result", "tools/call", res, call("tools/call", `{"name":"c03text","arguments":{"src":"arg","mode":"result","text":"idsweep"}}`)},
		{"tools/call|isError", "tools/call", res, call("tools/call", `{"name":"c03text","arguments":{"src":"arg","mode":"iserr","text":"idsweep"}}`)},
		{"tools/call|handler-error", "", gen.Expect{Class: "error", Codes: []int{-32603}, MsgHas: "idsweep-failure"}, call("tools/call", `{"name":"c03text","arguments":{"src":"arg","mode":"error","text":"idsweep-failure"}}`)},
		{"prompts/get|result", "prompts/get", res, call("prompts/get", `{"name":"c03prompt","arguments":{"src":"arg","text":"idsweep"}}`)},
		{"resources/read|result", "resources/read", res, call("resources/read", `{"uri":"c03res://one"}`)},
		{"unknown-method", "", gen.Expect{Class: "error", Codes: []int{-32601}}, call("c03/no-such-method", "{}")},
		{"unknown-tool", "", gen.Expect{Class: "error", Codes: []int{-32601, -32602}}, call("tools/call", `{"name":"c03-no-such-tool","arguments":{}}`)},
		{"tools/call|params-wrong-shape", "", gen.Expect{Class: "error", Codes: []int{-32602}}, call("tools/call", `{"name":5}`)},
		{"initialize", "initialize", gen.Expect{Class: "answered"}, call("initialize", `{"protocolVersion":"2025-03-26","clientInfo":{"name":"idsweep","version":"1"},"capabilities":{}}`)},
	}
}

func idKind(r *vh.Run, tl *contentTally, kind kit.Kind, cat []idCase) {
	in := kit.Start(kind, kit.Opts{})
	defer in.Close()
	sl := &slot{}
	contentFixture(in, sl)
	ctx, cancel := context.WithTimeout(context.Background(), 30*time.Minute)
	defer cancel()
	c, err := in.Dial(ctx)
	if err != nil {
		r.Fatal("id sweep: dial %s: %v", kind, err)
	}
	defer c.Close()
	if err := c.Handshake(ctx); err != nil {
		r.Violation(fmt.Sprintf("C03|ids:handshake|%s|failed", kind), err.Error(), nil)
		return
	}
	d := &cdriver{r: r, kind: kind, c: c, old: map[string]bool{`"init-0"`: true}}
	sampled := map[string]bool{}
	for _, ic := range cat {
		for _, fl := range idFlows() {
			sl.set("idsweep", "result")
			body := fl.body(ic.raw, "")
			ex, unanswered := d.do(ctx, []byte(body))
			r.Eval(1)
			tl.add(kind, "requests", 1)
			o := gen.Observe(kind, ex)
			r.Count("frames_validated", int64(len(o.Frames)))
			sym, detail := judgeID(r, tl, kind, fl, ic, ex, o, unanswered)
			if sym == "inconclusive" {
				return
			}
			if sym != "" {
				wit := map[string]interface{}{"kind": kind, "flow": fl.name, "id_class": ic.class, "request": boundedS(body), "outcome": o, "details": detail}
				if ex.HTTP != nil {
					wit["http_body"] = boundedS(ex.HTTP.BodyS)
				}
				if rest := d.resync(ctx); len(rest) > 0 {
					wit["also_written"] = boundedFrames(rest)
				}
				tl.add(kind, "violations", 1)
				r.Violation(fmt.Sprintf("C03|ids:%s|%s|id=%s|%s", fl.name, kind, ic.class, sym),
					fmt.Sprintf("%s: %s with the request id %s: %s %s", kind, fl.name, boundedS(ic.raw), sym, detail), wit)
			}
			if unanswered != "" {
				r.Note(fmt.Sprintf("id sweep on %s stopped after an unanswered request (%s, id %s, %s)", kind, fl.name, boundedS(ic.raw), unanswered))
				return
			}
			if sym != "" {
				continue
			}
			r.Distinct(fmt.Sprintf("%s|ids:%s|id=%s|%s", kind, fl.name, ic.class, o.Class))
			r.SetAdd("id_classes", ic.class)
			if key := ic.class; (kind == kit.SJSON || kind == kit.SSSE) && fl.name == "unknown-method" && strings.HasPrefix(ic.class, "number:int>=2^63") && !sampled[key] {
				sampled[key] = true
				r.Sample(map[string]interface{}{"kind": kind, "flow": fl.name, "id_class": ic.class, "request": boundedS(body), "frames": boundedFrames(o.Frames)})
			}
		}
	}
	ex, _ := d.do(ctx, []byte(`{"jsonrpc":"2.0","id":"ids-final-ping","method":"ping"}`))
	if o := gen.Observe(kind, ex); o.Class != "result" {
		r.Violation(fmt.Sprintf("C03|ids:final-ping|%s|not-served", kind), fmt.Sprintf("%s: ping after the id sweep not served: %+v", kind, o), o)
	}
	if p := in.ErrLog.Panics(); len(p) > 0 {
		r.Violation(fmt.Sprintf("C03|server-panic|%s|ids", kind), "http server logged a panic: "+p[0], p)
	}
}

// judgeID: "" conforms, "inconclusive" (recorded), or the symptom.
func judgeID(r *vh.Run, tl *contentTally, kind kit.Kind, fl idFlow, ic idCase, ex *kit.Exchange, o gen.Outcome, unanswered string) (string, string) {
	if unanswered != "" && o.Class != "result" && o.Class != "error" && o.Class != "http-refuse" {
		if unanswered == "unanswered(server-silent)" {
			r.Inconclusive(fmt.Sprintf("id sweep, %s, %s: no answer and no answer to a later ping within the watchdogs (slow or stuck server; not judged)", kind, fl.name))
			return "inconclusive", ""
		}
		if len(o.Problems) == 0 {
			return "no-answer", "nothing was written for the request although a ping sent 10 s later was answered"
		}
	}
	exp := fl.exp
	if !ic.plain {
		exp = gen.Expect{Class: "answered"} // an id a server need not serve: refused or served, both conform
	}
	rq := gen.Req{Label: "ids:" + fl.name, Method: fl.method, Expect: exp}
	if sym := gen.Judge(rq, o); sym != "" {
		return sym, strings.Join(append(append([]string{}, o.Problems...), gen.ShapeProblems(rq, o)...), "; ")
	}
	ans := answerOf(ex.Frames)
	if ans == nil || (o.Class != "result" && o.Class != "error") {
		tl.add(kind, "refused_without_frame", 1)
		return "", ""
	}
	if ans.ID == "" {
		if o.Class == "error" && !ic.plain && (o.Code == -32600 || o.Code == -32700) {
			tl.add(kind, "refused_with_null_id", 1)
			return "", ""
		}
		return "id-not-echoed", fmt.Sprintf("the %s bears no id / a null id", o.Class)
	}
	switch compareID(ic.raw, ans.ID) {
	case "exact":
		tl.add(kind, "ids_exact", 1)
		tl.add(kind, "ids_exact_"+o.Class, 1)
		if !ic.plain {
			tl.add(kind, "ids_exact_beyond_plain", 1)
		}
	case "nearest-double":
		tl.add(kind, "ids_nearest_double", 1)
	default:
		return "id-not-echoed", fmt.Sprintf("the %s bears the id %s: not the request's id as a JSON value (nor a number that rounds to the same IEEE double)", o.Class, boundedS(ans.ID))
	}
	return "", ""
}

func idSweep(r *vh.Run) {
	cat := idCatalogue(r)
	tl := &contentTally{kind: map[kit.Kind]map[string]int64{}}
	var wg sync.WaitGroup
	for _, kind := range kit.AllKinds {
		wg.Add(1)
		go func(k kit.Kind) { defer wg.Done(); idKind(r, tl, k, cat) }(kind)
	}
	wg.Wait()
	r.Count("ids_in_catalogue", int64(len(cat)))
	for _, kind := range kit.AllKinds {
		m := tl.kind[kind]
		for k, v := range m {
			r.Count("ids_"+k, v)
		}
		r.Require(m["violations"] > 0 || m["ids_exact_result"] > 0 && m["ids_exact_error"] > 0 && m["ids_exact_beyond_plain"] > 0,
			"id sweep on %s observed nothing to compare (exact ids in results %d, in errors %d, beyond the plain ids %d)", kind,
			m["ids_exact_result"], m["ids_exact_error"], m["ids_exact_beyond_plain"])
	}
}
