// C03 — every emitted message is a well-formed JSON-RPC 2.0 / MCP message, faults carry the code of their class.
package main

import (
	"context"
	"fmt"
	"sync"
	"time"

	"verifharness/lib/gen"
	"verifharness/lib/kit"
	"verifharness/lib/vh"
)

func kindClass(kind kit.Kind) string { return string(kind) }

func runKind(r *vh.Run, kind kit.Kind, level int) {
	in := kit.Start(kind, kit.Opts{})
	defer in.Close()
	kit.StdFixture(in)
	ctx, cancel := context.WithTimeout(context.Background(), 20*time.Minute)
	defer cancel()
	c, err := in.Dial(ctx)
	if err != nil {
		r.Fatal("dial %s: %v", kind, err)
	}
	defer c.Close()
	if err := c.Handshake(ctx); err != nil {
		r.Violation(fmt.Sprintf("C03|handshake|%s|failed", kind), err.Error(), nil)
		return
	}
	ids := gen.NewIDGen("c03-"+string(kind), 1000)
	reqs := gen.Requests(kind, r.Rand("c03-"+string(kind)), ids, level)
	reqs = append(reqs, gen.HTTPLevel(kind, in, ids)...)
	sess := gen.NewSession(c, kind)
	for _, rq := range reqs {
		ex, o := sess.Do(ctx, rq)
		r.Eval(1)
		r.Count("frames_validated", int64(len(o.Frames)))
		sym := gen.Judge(rq, o)
		if sym != "" {
			wit := map[string]interface{}{"kind": kind, "label": rq.Label, "request": boundedS(string(rq.Body)), "expect": rq.Expect, "outcome": o, "shape_problems": gen.ShapeProblems(rq, o)}
			if ex.HTTP != nil {
				wit["http_body"] = ex.HTTP.BodyS
				wit["content_type"] = ex.HTTP.CT
			}
			r.Violation(fmt.Sprintf("C03|%s|%s|%s", rq.Label, kindClass(kind), sym), fmt.Sprintf("%s: request class %q: %s (status %d, answer class %s, code %d)", kind, rq.Label, sym, o.Status, o.Class, o.Code), wit)
		} else {
			r.Distinct(fmt.Sprintf("%s|%s|%s", kind, rq.Label, o.Class))
		}
		r.SetAdd("answer_classes", o.Class)
		if kind == kit.SSSE && (rq.Label == "valid|tools/call|echo" || rq.Label == "valid|unknown-method") {
			r.Sample(map[string]interface{}{"kind": kind, "label": rq.Label, "request": string(rq.Body), "status": o.Status, "frames": o.Frames})
		}
	}
	// the server must still serve after all of that
	ex := c.Post(ctx, []byte(`{"jsonrpc":"2.0","id":"final-ping","method":"ping"}`), kit.PostOpts{WantID: `"final-ping"`})
	if o := gen.Observe(kind, ex); o.Class != "result" {
		r.Violation(fmt.Sprintf("C03|final-ping|%s|not-served", kind), fmt.Sprintf("%s: ping after the request sequence not served: %+v", kind, o), o)
	}
	if p := in.ErrLog.Panics(); len(p) > 0 {
		r.Violation(fmt.Sprintf("C03|server-panic|%s", kind), "http server logged a panic: "+p[0], p)
	}
	r.Count("requests_"+string(kind), int64(len(reqs)))
}

func boundedS(s string) string {
	if len(s) > 500 {
		return s[:500] + fmt.Sprintf("...(%d bytes)", len(s))
	}
	return s
}

func main() {
	kit.MaybeServeStdioChild()
	kit.Silence()
	r := vh.NewRun("C03", "exploration")
	level := r.Pick(0, 1)
	var wg sync.WaitGroup
	for _, kind := range kit.AllKinds {
		wg.Add(1)
		go func(k kit.Kind) { defer wg.Done(); runKind(r, k, level) }(kind)
	}
	wg.Wait()
	for _, kind := range kit.AllKinds {
		wg.Add(1)
		go func(k kit.Kind) { defer wg.Done(); sparseKind(r, k) }(kind)
	}
	wg.Wait()
	contentSweep(r)
	idSweep(r)
	serverInitiated(r)
	r.Finish("per server configuration: every valid request of the standard fixture, then structural mutations (params and each parameter removed / retyped to every JSON type / extra / duplicated; envelope members removed / retyped / duplicated; notifications; responses never asked for; non-object and unparsable bodies; deep and large values; HTTP-level wrong path / verb / headers / session id; thorough adds truncation at every offset, bit flips, random bytes) x handler outcomes {value, error, unencodable, isError, nil content}; every frame written back is validated by the hand-written JSON-RPC/MCP oracle and the answer class compared with the reference classifier. A second sweep repeats the handshake, every list method and read/get/call on registries other than the standard fixture (nothing registered, tools registered and all unregistered again, only a template, one bare tool / prompt / resource with every optional member left out, the standard fixture filtered down to an empty and to a nil list). A content sweep (content.go) keeps the structure fixed and varies the TEXT: a catalogue of texts (percent signs in every position and printf verbs of every form, backslashes and quotes, texts that look like escapes, control characters, CR / LF / CRLF / U+2028 / U+2029 / NEL, texts that look like SSE fields or whole injected events, JSON- and JSON-RPC-looking texts, HTML, Unicode edge cases, white space, the empty string, very long texts, Go strings that are not valid UTF-8, seeded random compositions; from the peer additionally the same literal spelt with \\uXXXX escapes / Go's escaping, lone surrogate escapes, raw invalid UTF-8, raw control characters and invalid escapes) x every place where text flows into an answer (string ids of answered, failed and refused requests; unknown method / tool / prompt / resource names and URIs; tool result, isError, structured content (values and member names), embedded resource, prompt description and messages, resource text / mime type / blob, handler errors plain and wrapped, each once handed in by the peer as an argument and once held by the application; initialize parameters; in a second registry the texts as names, descriptions, argument names, URIs and mime types of registered tools / prompts / resources (list results, and every entry called by its name in every spelling) and as the server's own name and version) x all seven configurations: every frame must be one well-formed JSON-RPC message of the class the reference classifier expects, bear the request's id as the same JSON value, carry the handler's message in a -32603 error and, in a result, exactly the texts the handler returned (the handler records them). The same texts travel, behind a marker naming them, as values, member names, array elements and nested members in the params of every server-initiated frame of the third sweep, as progress and log messages of the in-call sender and inside caller-given string ids of server-issued requests. A third sweep (initiated.go) judges every frame a server writes on its own initiative: on stateful Streamable servers the listening stream opened fresh, resumed with the last event id seen after the previous stream was closed, superseding an open stream with and without Last-Event-ID, resumed with event ids never issued (odd header values; thorough: a random walk over these), each with every sender API driven against it (Server.SendNotification / BroadcastNotification / SendFilteredNotification with nil, empty, flat, nested, _meta-carrying and seeded random params; Server.SendRequest with generated, numeric and string ids, without and with object / array params; ListRoots, SendNotification and SendRequest from a tool handler and from a notification handler; registrations changing while the stream is open) plus whatever the server writes there by itself (the resumption notice); the POST event stream with every in-call sender method on stateful, stateless and session-less servers; the legacy SSE session stream (endpoint event and keep-alive comments skipped, every other event judged) with SSEServer.SendNotification / SendRequest / ListRoots / the session's notification channel; every stdout line of the stdio server with StdioServer.SendRequest / ListRoots / the session's notification and message channels. A fourth sweep (ids.go) keeps structure and texts fixed and varies the request's ID over the JSON number and string space (zero and negative zero, small integers, integers at and around +-2^31, 2^32, 2^53, 2^63, 2^64, 2^100, 2^128, 1e19 .. 1e23, 1e100, 1e308, numbers beyond the double range, fractions, every exponent / decimal-point spelling of integers, digit strings of 40 to 400 digits, seeded random numbers; strings that look like numbers, the empty string, white space, very long strings) x {ping, tools/list, tools/call with a result / an isError result / a failing handler / a wrong params shape / an unknown tool, prompts/get, resources/read, unknown method, initialize} x all seven configurations: the answer must be of the class the reference classifier expects and bear the request's id, compared as a JSON value computed from the raw text of both with math/big. Distinct = (configuration, [registry,] request class, answer class) that conformed, for the id sweep (configuration, request class, id class, answer class) that conformed, for the content sweep (configuration, flow, text class incl. spelling, answer class) that conformed, and for the third sweep (configuration, stream kind, origin API, frame kind) of frames that conformed; a run that saw no frame on a resumed listening stream is a harness error, one that saw only API frames there is inconclusive.",
		[]string{"the hand-written validators in lib/wire are the trusted base (the official schema file is not in the sandbox)",
			"where the statement fixes no code (unknown tool/prompt/resource) -32601 and -32602 are both accepted; ignorable optional parameters may be served or refused",
			"a missing answer on stdio / legacy SSE is confirmed by a second post with a 3 s wait before it counts",
			"server-initiated frames are attributed to the API call that caused them by a method name unique to the call; a frame that never shows up is counted (initiated_frames_expected vs _seen), not reported: delivery is not C03's subject",
			"content sweep: an ill-formed string literal (lone surrogate escape, raw invalid UTF-8, raw control character, invalid escape) may be refused or served; when served, ids and texts are compared after decoding and a difference is counted, not reported. A Go string that is not valid UTF-8 cannot travel unchanged in JSON: only the well-formedness of the frame is judged. A list may leave entries out, but what it lists must have been registered. A request of the content sweep that stays unanswered while a ping sent 10 s later is answered is reported; when the ping stays unanswered too the run is inconclusive; either way the rest of that configuration's sweep is not run",
			"that a result carries the texts the handler returned is read out of 'every message ... in reaction to any input is one valid ... object ... for its kind' together with 'the request's id' and 'the handler's message': the message written is the handler's outcome, not something else that happens to be schema-valid",
			"id sweep: JSON leaves the precision of numbers to the receiver (RFC 8259 section 6), so an answer whose number rounds to the same IEEE double as the request's counts as the request's id (counted apart: ids_nearest_double); any other number, a number for a string or a string for a number does not. Only integers of magnitude <= 2^53 and non-empty strings must be served; any other id may be refused (non-2xx, or an error object which, when of class -32600 / -32700, may bear a null id), but when it is answered the answer bears it",
			"request params are handed to SendRequest as an untyped nil, an object or an array; a typed nil map inside the interface (encoded as \"params\":null) is treated as a caller error and not exercised"})
}
