// C03 — every emitted message is a well-formed JSON-RPC 2.0 / MCP message, faults carry the code of their class.
package main

import (
	"context"
	"fmt"
	"strings"
	"sync"
	"time"

	mcp "trpc.group/trpc-go/trpc-mcp-go"

	"verifharness/lib/gen"
	"verifharness/lib/kit"
	"verifharness/lib/vh"
	"verifharness/lib/wire"
)

func kindClass(kind kit.Kind) string { return string(kind) }

func runKind(r *vh.Run, kind kit.Kind, level int) {
	in := kit.Start(kind, kit.Opts{})
	defer in.Close()
	kit.StdFixture(in)
	ctx, cancel := context.WithTimeout(context.Background(), 20*time.Minute)
	defer cancel()
	c, err := in.Dial(ctx)
	if err != nil {
		r.Fatal("dial %s: %v", kind, err)
	}
	defer c.Close()
	if err := c.Handshake(ctx); err != nil {
		r.Violation(fmt.Sprintf("C03|handshake|%s|failed", kind), err.Error(), nil)
		return
	}
	ids := gen.NewIDGen("c03-"+string(kind), 1000)
	reqs := gen.Requests(kind, r.Rand("c03-"+string(kind)), ids, level)
	reqs = append(reqs, gen.HTTPLevel(kind, in, ids)...)
	sess := gen.NewSession(c, kind)
	for _, rq := range reqs {
		ex, o := sess.Do(ctx, rq)
		r.Eval(1)
		r.Count("frames_validated", int64(len(o.Frames)))
		sym := gen.Judge(rq, o)
		if sym != "" {
			wit := map[string]interface{}{"kind": kind, "label": rq.Label, "request": boundedS(string(rq.Body)), "expect": rq.Expect, "outcome": o, "shape_problems": gen.ShapeProblems(rq, o)}
			if ex.HTTP != nil {
				wit["http_body"] = ex.HTTP.BodyS
				wit["content_type"] = ex.HTTP.CT
			}
			r.Violation(fmt.Sprintf("C03|%s|%s|%s", rq.Label, kindClass(kind), sym), fmt.Sprintf("%s: request class %q: %s (status %d, answer class %s, code %d)", kind, rq.Label, sym, o.Status, o.Class, o.Code), wit)
		} else {
			r.Distinct(fmt.Sprintf("%s|%s|%s", kind, rq.Label, o.Class))
		}
		r.SetAdd("answer_classes", o.Class)
		if rq.Label == "valid|tools/call|echo" || rq.Label == "valid|unknown-method" {
			r.Sample(map[string]interface{}{"kind": kind, "label": rq.Label, "request": string(rq.Body), "status": o.Status, "frames": o.Frames})
		}
	}
	// the server must still serve after all of that
	ex := c.Post(ctx, []byte(`{"jsonrpc":"2.0","id":"final-ping","method":"ping"}`), kit.PostOpts{WantID: `"final-ping"`})
	if o := gen.Observe(kind, ex); o.Class != "result" {
		r.Violation(fmt.Sprintf("C03|final-ping|%s|not-served", kind), fmt.Sprintf("%s: ping after the request sequence not served: %+v", kind, o), o)
	}
	if p := in.ErrLog.Panics(); len(p) > 0 {
		r.Violation(fmt.Sprintf("C03|server-panic|%s", kind), "http server logged a panic: "+p[0], p)
	}
	r.Count("requests_"+string(kind), int64(len(reqs)))
}

func boundedS(s string) string {
	if len(s) > 500 {
		return s[:500] + fmt.Sprintf("...(%d bytes)", len(s))
	}
	return s
}

// serverInitiated checks the frames a server writes on its own initiative: in-call notifications on a POST SSE
// stream, notifications and requests on the listening stream / legacy stream.
func serverInitiated(r *vh.Run) {
	ctx, cancel := context.WithTimeout(context.Background(), 60*time.Second)
	defer cancel()
	// POST-SSE notifications
	for _, kind := range []kit.Kind{kit.SSSE, kit.SLSSE} {
		in := kit.Start(kind, kit.Opts{})
		kit.StdFixture(in)
		c, _ := in.Dial(ctx)
		if err := c.Handshake(ctx); err == nil {
			ex := c.Post(ctx, []byte(`{"jsonrpc":"2.0","id":501,"method":"tools/call","params":{"name":"notify","arguments":{"nonce":"c03n","n":9}}}`), kit.PostOpts{})
			nn := 0
			for _, f := range ex.Frames {
				m := wire.Parse(f)
				r.Eval(1)
				r.Count("frames_validated", 1)
				if len(m.Problem) > 0 {
					r.Violation(fmt.Sprintf("C03|in-call-notification|%s|malformed-frame", kind), fmt.Sprintf("%s: frame on POST SSE stream: %v", kind, m.Problem), f)
				}
				if m.Kind == "notification" {
					nn++
				}
			}
			if nn == 9 {
				r.Distinct(fmt.Sprintf("%s|in-call-notifications", kind))
			} else {
				r.Note(fmt.Sprintf("%s: %d of 9 in-call notifications seen on the POST stream", kind, nn))
			}
		}
		c.Close()
		in.Close()
	}
	// listening stream (Streamable) and legacy stream: server.SendNotification + server-issued request
	{
		in := kit.Start(kit.SSSE, kit.Opts{})
		kit.StdFixture(in)
		c, _ := in.Dial(ctx)
		if err := c.Handshake(ctx); err == nil {
			if _, err := c.OpenGet(ctx); err == nil {
				time.Sleep(50 * time.Millisecond)
				from := c.Log.Len()
				_ = in.Server.SendNotification(c.SessionID, "notifications/verif", map[string]interface{}{"a": 1, "_meta": map[string]interface{}{"m": true}})
				_ = in.Server.SendNotification(c.SessionID, "notifications/empty", nil)
				go func() {
					rctx, rc := context.WithTimeout(ctx, 300*time.Millisecond)
					defer rc()
					in.Server.SendRequest(rctx, c.SessionID, newReq("roots/list"))
				}()
				c.Log.WaitFor(from, 5*time.Second, func(f kit.Frame) bool { return strings.Contains(f.Data, "roots/list") })
				for _, f := range c.Log.Since(from) {
					m := wire.Parse(f.Data)
					r.Eval(1)
					r.Count("frames_validated", 1)
					if len(m.Problem) > 0 {
						r.Violation("C03|listening-stream|S-sse|malformed-frame", fmt.Sprintf("frame on GET stream: %v", m.Problem), f)
					} else {
						r.Distinct("S-sse|listening-stream|" + m.Kind)
					}
				}
			}
		}
		c.Close()
		in.Close()
	}
}

func main() {
	kit.MaybeServeStdioChild()
	kit.Silence()
	r := vh.NewRun("C03", "exploration")
	level := r.Pick(0, 1)
	var wg sync.WaitGroup
	for _, kind := range kit.AllKinds {
		wg.Add(1)
		go func(k kit.Kind) { defer wg.Done(); runKind(r, k, level) }(kind)
	}
	wg.Wait()
	for _, kind := range kit.AllKinds {
		wg.Add(1)
		go func(k kit.Kind) { defer wg.Done(); sparseKind(r, k) }(kind)
	}
	wg.Wait()
	serverInitiated(r)
	r.Finish("per server configuration: every valid request of the standard fixture, then structural mutations (params and each parameter removed / retyped to every JSON type / extra / duplicated; envelope members removed / retyped / duplicated; notifications; responses never asked for; non-object and unparsable bodies; deep and large values; HTTP-level wrong path / verb / headers / session id; thorough adds truncation at every offset, bit flips, random bytes) x handler outcomes {value, error, unencodable, isError, nil content}; every frame written back is validated by the hand-written JSON-RPC/MCP oracle and the answer class compared with the reference classifier. A second sweep repeats the handshake, every list method and read/get/call on registries other than the standard fixture (nothing registered, tools registered and all unregistered again, only a template, one bare tool / prompt / resource with every optional member left out, the standard fixture filtered down to an empty and to a nil list). Distinct = (configuration, [registry,] request class, answer class) that conformed.",
		[]string{"the hand-written validators in lib/wire are the trusted base (the official schema file is not in the sandbox)",
			"where the statement fixes no code (unknown tool/prompt/resource) -32601 and -32602 are both accepted; ignorable optional parameters may be served or refused",
			"a missing answer on stdio / legacy SSE is confirmed by a second post with a 3 s wait before it counts"})
}

func newReq(method string) *mcp.JSONRPCRequest {
	rq := &mcp.JSONRPCRequest{JSONRPC: "2.0"}
	rq.Method = method
	return rq
}
