package main

// Registry shapes other than the standard fixture: what a server writes for the list methods and the handshake when
// a registry is empty, was emptied again, holds only templates, holds entries with every optional member left out, or is
// filtered down to nothing. The oracle is the same as for the main sweep (lib/wire): an answer is either a well-formed
// error object or a result of the shape MCP prescribes for the method — "tools"/"prompts"/"resources"/
// "resourceTemplates" are arrays, never null or absent.

import (
	"context"
	"fmt"
	"time"

	mcp "trpc.group/trpc-go/trpc-mcp-go"

	"verifharness/lib/gen"
	"verifharness/lib/kit"
	"verifharness/lib/vh"
)

type sparseVariant struct {
	name  string
	opts  func(kind kit.Kind) (kit.Opts, bool) // false: variant not expressible on this kind
	setup func(in *kit.Instance)
}

func okTool(name string, opts ...mcp.ToolOption) (*mcp.Tool, kit.ToolFn) {
	return mcp.NewTool(name, opts...), func(ctx context.Context, req *mcp.CallToolRequest) (*mcp.CallToolResult, error) {
		return mcp.NewTextResult("ok"), nil
	}
}

func registerTemplate(in *kit.Instance, t *mcp.ResourceTemplate) {
	h := func(ctx context.Context, req *mcp.ReadResourceRequest) ([]mcp.ResourceContents, error) {
		return []mcp.ResourceContents{mcp.TextResourceContents{URI: req.Params.URI, Text: "t"}}, nil
	}
	switch s := in.Srv().(type) {
	case *mcp.Server:
		s.RegisterResourceTemplate(t, h)
	case *mcp.SSEServer:
		s.RegisterResourceTemplate(t, h)
	case *mcp.StdioServer:
		s.RegisterResourceTemplate(t, h)
	}
}

func filterOpts(kind kit.Kind, mode string) (kit.Opts, bool) {
	tf := func(ctx context.Context, x []*mcp.Tool) []*mcp.Tool {
		if mode == "nil" {
			return nil
		}
		return []*mcp.Tool{}
	}
	pf := func(ctx context.Context, x []*mcp.Prompt) []*mcp.Prompt {
		if mode == "nil" {
			return nil
		}
		return []*mcp.Prompt{}
	}
	rf := func(ctx context.Context, x []*mcp.Resource) []*mcp.Resource {
		if mode == "nil" {
			return nil
		}
		return []*mcp.Resource{}
	}
	switch {
	case kind.IsStreamable():
		return kit.Opts{ServerOpts: []mcp.ServerOption{mcp.WithToolListFilter(tf), mcp.WithPromptListFilter(pf), mcp.WithResourceListFilter(rf)}}, true
	case kind == kit.LSSE:
		return kit.Opts{SSEOpts: []mcp.SSEOption{mcp.WithSSEToolListFilter(tf), mcp.WithSSEPromptListFilter(pf), mcp.WithSSEResourceListFilter(rf)}}, true
	}
	return kit.Opts{}, false // the stdio server has no list filters
}

// nilHandlers registers one entry of each kind whose handler succeeds with nothing in hand: the zero value of its result
// type (nil slices inside), or a nil result with a nil error.
func nilHandlers(in *kit.Instance, nilResult bool) {
	in.RegisterTool(mcp.NewTool("bare"), func(ctx context.Context, req *mcp.CallToolRequest) (*mcp.CallToolResult, error) {
		if nilResult {
			return nil, nil
		}
		return &mcp.CallToolResult{}, nil
	})
	in.RegisterPrompt(&mcp.Prompt{Name: "bare"}, func(ctx context.Context, req *mcp.GetPromptRequest) (*mcp.GetPromptResult, error) {
		if nilResult {
			return nil, nil
		}
		return &mcp.GetPromptResult{}, nil
	})
	in.RegisterResources(&mcp.Resource{URI: "bare://r", Name: "bare"}, func(ctx context.Context, req *mcp.ReadResourceRequest) ([]mcp.ResourceContents, error) {
		if nilResult {
			return nil, nil
		}
		return []mcp.ResourceContents{}, nil
	})
	// the single-content registration: its handler hands back one ResourceContents, so "nothing" is a nil interface
	// (nil error) when nilResult is set, and an empty text otherwise
	in.RegisterResource(&mcp.Resource{URI: "bare://single", Name: "bare-single"}, func(ctx context.Context, req *mcp.ReadResourceRequest) (mcp.ResourceContents, error) {
		if nilResult {
			return nil, nil
		}
		return mcp.TextResourceContents{URI: "bare://single"}, nil
	})
	h := func(ctx context.Context, req *mcp.ReadResourceRequest) ([]mcp.ResourceContents, error) {
		return nil, nil
	}
	t := mcp.NewResourceTemplate("tmpl://{id}", "tmpl")
	switch s := in.Srv().(type) {
	case *mcp.Server:
		s.RegisterResourceTemplate(t, h)
	case *mcp.SSEServer:
		s.RegisterResourceTemplate(t, h)
	case *mcp.StdioServer:
		s.RegisterResourceTemplate(t, h)
	}
}

func plainOpts(kit.Kind) (kit.Opts, bool) { return kit.Opts{}, true }

var sparseVariants = []sparseVariant{
	{"nothing-registered", plainOpts, func(in *kit.Instance) {}},
	{"tools-registered-then-all-unregistered", plainOpts, func(in *kit.Instance) {
		t1, h1 := okTool("t1")
		t2, h2 := okTool("t2")
		in.RegisterTool(t1, h1)
		in.RegisterTool(t2, h2)
		_ = in.UnregisterTools("t1", "t2")
	}},
	{"only-a-resource-template", plainOpts, func(in *kit.Instance) {
		registerTemplate(in, mcp.NewResourceTemplate("tmpl://{id}", "tmpl"))
	}},
	{"only-one-bare-tool", plainOpts, func(in *kit.Instance) { t, h := okTool("bare"); in.RegisterTool(t, h) }},
	{"only-one-bare-prompt", plainOpts, func(in *kit.Instance) {
		in.RegisterPrompt(&mcp.Prompt{Name: "bare"}, func(ctx context.Context, req *mcp.GetPromptRequest) (*mcp.GetPromptResult, error) {
			return &mcp.GetPromptResult{}, nil
		})
	}},
	{"only-one-bare-resource", plainOpts, func(in *kit.Instance) {
		in.RegisterResource(&mcp.Resource{URI: "bare://r", Name: "bare"}, func(ctx context.Context, req *mcp.ReadResourceRequest) (mcp.ResourceContents, error) {
			return mcp.TextResourceContents{URI: "bare://r", Text: ""}, nil
		})
	}},
	{"handlers-return-zero-values", plainOpts, func(in *kit.Instance) { nilHandlers(in, false) }},
	{"handlers-return-nil-nil", plainOpts, func(in *kit.Instance) { nilHandlers(in, true) }},
	{"std-fixture-filtered-to-empty", func(k kit.Kind) (kit.Opts, bool) { return filterOpts(k, "empty") }, kit.StdFixture},
	{"std-fixture-filtered-to-nil", func(k kit.Kind) (kit.Opts, bool) { return filterOpts(k, "nil") }, kit.StdFixture},
}

// sparseRequests: the handshake answer, every list method, and the read/get/call of the bare entries. Expect "answered":
// a result of the right shape or a well-formed error — which one is the registry's business, the shape is C03's.
func sparseRequests(ids *gen.IDGen) []gen.Req {
	mk := func(label, method, params string) gen.Req {
		raw := ids.Next()
		body := fmt.Sprintf(`{"jsonrpc":"2.0","id":%s,"method":"%s"`, raw, method)
		if params != "" {
			body += `,"params":` + params
		}
		body += "}"
		return gen.Req{Label: label, Method: method, RawID: kit.CanonID([]byte(raw)), Body: []byte(body), Expect: gen.Expect{Class: "answered"}}
	}
	return []gen.Req{
		mk("tools/list", "tools/list", ""),
		mk("tools/list|params={}", "tools/list", "{}"),
		mk("prompts/list", "prompts/list", ""),
		mk("resources/list", "resources/list", ""),
		mk("resources/list|cursor", "resources/list", `{"cursor":""}`),
		mk("resources/templates/list", "resources/templates/list", ""),
		mk("tools/call|bare", "tools/call", `{"name":"bare"}`),
		mk("prompts/get|bare", "prompts/get", `{"name":"bare"}`),
		mk("resources/read|bare", "resources/read", `{"uri":"bare://r"}`),
		mk("resources/read|bare-single", "resources/read", `{"uri":"bare://single"}`),
		mk("resources/read|template", "resources/read", `{"uri":"tmpl://7"}`),
	}
}

func sparseKind(r *vh.Run, kind kit.Kind) {
	ctx, cancel := context.WithTimeout(context.Background(), 5*time.Minute)
	defer cancel()
	for _, v := range sparseVariants {
		o, ok := v.opts(kind)
		if !ok {
			continue
		}
		in := kit.Start(kind, o)
		v.setup(in)
		c, err := in.Dial(ctx)
		if err != nil {
			in.Close()
			r.Fatal("dial %s/%s: %v", kind, v.name, err)
		}
		// the handshake answer itself
		ex := c.Post(ctx, kit.InitBody(`"sparse-init"`, ""), kit.PostOpts{WantID: `"sparse-init"`, NoSessionID: true})
		if kind.IsStreamable() && ex.HTTP != nil && ex.HTTP.Sess != "" {
			c.SessionID = ex.HTTP.Sess
		}
		io := gen.Observe(kind, ex)
		r.Eval(1)
		r.Count("frames_validated", int64(len(io.Frames)))
		if sym := gen.Judge(gen.Req{Label: "initialize", Method: "initialize", RawID: `"sparse-init"`, Expect: gen.Expect{Class: "result"}}, io); sym != "" {
			r.Violation(fmt.Sprintf("C03|registry=%s|initialize|%s|%s", v.name, kind, sym), fmt.Sprintf("%s with %s: initialize answer: %s", kind, v.name, sym), map[string]interface{}{"outcome": io})
		} else {
			r.Distinct(fmt.Sprintf("%s|registry=%s|initialize|%s", kind, v.name, io.Class))
		}
		c.Post(ctx, []byte(kit.InitializedBody), kit.PostOpts{NoWait: true})
		sess := gen.NewSession(c, kind)
		ids := gen.NewIDGen("c03-sparse-"+string(kind)+v.name, 5000)
		for _, rq := range sparseRequests(ids) {
			ex, o := sess.Do(ctx, rq)
			r.Eval(1)
			r.Count("frames_validated", int64(len(o.Frames)))
			if sym := gen.Judge(rq, o); sym != "" {
				wit := map[string]interface{}{"kind": kind, "registry": v.name, "request": string(rq.Body), "outcome": o, "shape_problems": gen.ShapeProblems(rq, o)}
				if ex.HTTP != nil {
					wit["http_body"] = ex.HTTP.BodyS
				}
				r.Violation(fmt.Sprintf("C03|registry=%s|%s|%s|%s", v.name, rq.Label, kind, sym), fmt.Sprintf("%s with %s: %s: %s %v", kind, v.name, rq.Label, sym, gen.ShapeProblems(rq, o)), wit)
			} else {
				r.Distinct(fmt.Sprintf("%s|registry=%s|%s|%s", kind, v.name, rq.Label, o.Class))
				if o.Class == "result" && rq.Label == "resources/list" && kind == kit.SJSON && v.name == "nothing-registered" {
					r.Sample(map[string]interface{}{"kind": kind, "registry": v.name, "label": rq.Label, "frames": o.Frames})
				}
			}
		}
		r.Count("sparse_registries", 1)
		c.Close()
		in.Close()
	}
}
