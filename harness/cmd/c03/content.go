package main

// The CHARACTER CONTENT of what ends up inside emitted messages. The request lattice of the main sweep varies structure
// and types with a handful of plain ASCII values; this sweep keeps the structure fixed and varies the text: for every
// place where text flows into an answer — string ids echoed back, method / tool / prompt / resource names and URIs
// echoed in not-found errors, handler result texts, handler error messages (Go errors), isError texts, structured
// content (values and keys), prompt arguments echoed by handlers, resource texts / mime types / blobs, names,
// descriptions and URIs of registered entries in list results, the server's own name and version in the handshake
// answer — every text of a catalogue is sent through, on all seven server configurations:
//
//	percent signs in every position (%, %s, %d, %!, 100%, %%, %20, trailing %, % before a quote / backslash / line break /
//	HTML-escaped character, verbs with flags, width, index), backslashes and quotes, texts that look like JSON escapes,
//	real control characters, CR / LF / CRLF / U+2028 / U+2029 / NEL, texts that look like SSE fields (data:, id:, event:,
//	retry:, comment, whole injected events), JSON-looking and JSON-RPC-looking texts, HTML (<, >, &), Unicode edge cases,
//	white space, the empty string, very long texts, Go strings that are not valid UTF-8 (application side only), seeded
//	random compositions of all of these; from the peer's side additionally other spellings of the same literal (every
//	UTF-16 unit as \uXXXX, Go's own escaping) and ill-formed literals (lone surrogate escapes, raw invalid UTF-8, raw
//	control characters, invalid escapes).
//
// Oracle (the text of C03, nothing more): every frame written back is exactly one JSON value that lib/wire accepts as a
// JSON-RPC 2.0 message, the answer has the class and code the reference classifier expects for the request's structure
// (gen.Judge, unchanged), a response bears the request's id — EQUAL AS A JSON VALUE, i.e. a string id comes back as the
// same string however either side chose to escape it —, a handler failure is reported with the handler's message (the
// error message contains the text of the Go error), and a result is the handler's result: the texts in it are the
// texts the handler returned (known exactly: the handler records what it returned). Where the statement leaves the
// outcome open it is accepted: an ill-formed literal may be refused or served (and then the id / text is compared after
// decoding, a mismatch is counted, not reported); a Go string that is not valid UTF-8 cannot travel unchanged in JSON, so
// only the well-formedness of the frame is judged; a list may leave entries out but an entry it carries must be one that
// was registered.

import (
	"bytes"
	"context"
	"encoding/base64"
	"encoding/json"
	"errors"
	"fmt"
	"reflect"
	"strings"
	"sync"
	"time"
	"unicode/utf16"
	"unicode/utf8"

	mcp "trpc.group/trpc-go/trpc-mcp-go"

	"verifharness/lib/gen"
	"verifharness/lib/kit"
	"verifharness/lib/vh"
	"verifharness/lib/wire"
)

// ---------------------------------------------------------------------------------------------------------------------
// the catalogue

type ctext struct {
	class string // stable class name (part of signatures)
	name  string // printable, for witnesses
	val   string // the Go value: what the application hands out / what a JSON decoder makes of the literal
	lit   string // the raw JSON string literal a peer sends ("" for application-only texts)
	form  string // how lit spells val: min | u-escapes | go | ill-formed
	// wellFormed: lit is a valid JSON string in valid UTF-8 without lone surrogates — its value is unambiguous
	wellFormed bool
	appOnly    bool // a Go string that no well-formed request can carry (not valid UTF-8): handed out by the application
}

// litMin spells s with the fewest escapes JSON allows: only quote, backslash and C0 controls are escaped; everything
// else (non-ASCII, <, >, &, U+2028, DEL, and any byte that is not valid UTF-8) goes out raw.
func litMin(s string) string {
	var b strings.Builder
	b.WriteByte('"')
	for i := 0; i < len(s); i++ {
		c := s[i]
		switch {
		case c == '"' || c == '\\':
			b.WriteByte('\\')
			b.WriteByte(c)
		case c < 0x20:
			fmt.Fprintf(&b, `\u%04x`, c)
		default:
			b.WriteByte(c)
		}
	}
	b.WriteByte('"')
	return b.String()
}

// litU spells every UTF-16 unit of s as \uXXXX (s must be valid UTF-8).
func litU(s string) string {
	var b strings.Builder
	b.WriteByte('"')
	for _, u := range utf16.Encode([]rune(s)) {
		fmt.Fprintf(&b, `\u%04X`, u)
	}
	b.WriteByte('"')
	return b.String()
}

func litGo(s string) string {
	b, _ := json.Marshal(s)
	return string(b)
}

var contentFragments = []string{"%", "%s", "%d", "%!", "%%", "\"", "\\", "\n", "\r", "\r\n", "\u2028", "\u2029", "\x00", "\x1f", "\x7f", "<", ">", "&",
	"data: ", "id: ", "event: ", ": ", "{", "}", "[", "]", ",", ":", "é", "😀", "a", "Z", "0", " ", "\t", "(", ")", "\ufffd", "\\u0041", "\\n", "'", "/"}

func catalogue(r *vh.Run) []ctext {
	var out []ctext
	seen := map[string]bool{}
	add := func(class, name, s string) {
		if seen[s] {
			return
		}
		seen[s] = true
		if !utf8.ValidString(s) {
			// application side: the Go string itself; peer side: the same bytes raw inside a literal (ill-formed input)
			out = append(out, ctext{class: class, name: name, val: s, appOnly: true})
			out = append(out, ctext{class: class + "(peer,raw)", name: name, val: decodeLit(litMin(s)), lit: litMin(s), form: "ill-formed"})
			return
		}
		out = append(out, ctext{class: class, name: name, val: s, lit: litMin(s), form: "min", wellFormed: true})
	}
	list := func(class string, ss ...string) {
		for i, s := range ss {
			n := s
			if len(n) > 40 {
				n = n[:40] + "..."
			}
			add(class, fmt.Sprintf("%s#%d %q", class, i, n), s)
		}
	}
	list("percent", "%", "%s", "%d", "%v", "%!", "100%", "job-100%", "%%", "%%%", "%20", "%2", "%-08.3f", "%[1]d", "%[2]*[1]d", "%*d", "%1$s", "50%d one, 7%s left",
		"a%", "% ", "% d", "%+v", "%#v", "%.", "%.2", "{%s}", "%\"", "\"%", "%\\", "\\%", "%\n", "\n%", "%\r\n", "%\t", "%\x00", "%<", "%&", "%\u2028", "%é", "é%", "%😀",
		"%!s(MISSING)", "%!(EXTRA string=x)", "%!d(string=x)", "%!(NOVERB)", "%!(BADINDEX)", "%c%U%e%g%o%p%q%t%x%X%b%T%w%n%O", "a%sb%dc%vd", "%%s", "%%%s", "%s%", "%\\n", "%\\\"")
	list("escape", "\\", "\\\\", "\"", "\"\"", "\\\"", "\"\\", "a\\b\"c\\", "\\n", "\\r\\n", "\\t", "\\u0041", "\\u", "\\u00", "\\ud800", "\\x41", "\\0", "/", "\\/", "'", "`", "\\'", "a\"", "\"a", "\\\\\"")
	list("control", "\x00", "a\x00b", "\x00\x00", "\x01", "\x1f", "\x7f", "\b", "\f", "\t", "\v", "\x1b[31mred\x1b[0m", "\x07bell",
		"\x00\x01\x02\x03\x04\x05\x06\x07\x08\x0b\x0c\x0e\x0f\x10\x11\x12\x13\x14\x15\x16\x17\x18\x19\x1a\x1b\x1c\x1d\x1e\x1f")
	list("linebreak", "\n", "\r", "\r\n", "\n\n", "\r\n\r\n", "\n\r", "a\nb", "a\rb", "a\r\nb", "trailing\n", "\nleading", "\u2028", "\u2029", "a\u2028b\u2029c", "\u0085", "a\u0085b", "l1\r\nl2\rl3\nl4\u2028l5")
	list("sse-field", "data: x", "data:", "data", "id: 5", "id:", "event: message", "event: endpoint", ": comment", ":", "retry: 10",
		"\ndata: {\"jsonrpc\":\"2.0\",\"method\":\"notifications/injected\"}\n\n", "\n\nevent: endpoint\ndata: /evil?sessionId=x\n\n", "\r\rdata: x\r\r", "x\nid: 9\n", "\n: keepalive\n\n",
		"\r\n\r\nevent: message\r\ndata: {}\r\n\r\n", "\ufeffdata: bom", "data: a\ndata: b")
	list("json-like", `{"jsonrpc":"2.0","id":1,"result":{}}`, `{"jsonrpc":"2.0","method":"notifications/injected"}`, `{"jsonrpc":"2.0","id":null,"error":{"code":-32700,"message":"x"}}`,
		`[1,2,3]`, `null`, `true`, `123`, `1e400`, `"quoted"`, `{"a":`, `}`, `]}`, `","id":0,"x":"`, `"}}`, `{}`, `[]`, `{"text":"%s"}`)
	list("html", "<", ">", "&", "<>&", "<script>alert(\"x\")</script>", "&amp;&lt;&#37;", "<!-- -->", "</data>", "]]>", "<%= x %>", "a<b>c&d")
	list("empty", "")
	list("unicode", "héllo wörld", "日本語テキスト", "😀", "👨\u200d👩\u200d👧\u200d👦", "\ufeff", "\ufffd", "\uffff", "\ufffe", "\u200b\u200e\u202e", "\U0010ffff", "e\u0301", "\u00a0", "\ud7ff\ue000", "\U00010000", "ÿ", "\u0080\u009f")
	list("whitespace", " ", "   ", " lead", "trail ", "\t\t", " \n ")
	list("mixed", nasty, "100% \"sure\"\\ \r\nid: 1\ndata: {\"%s\":\"%d\"}\u2028<b>&amp;</b>\x00%", "%\"%\\%\n%\r%<%>%&%\u2028%\x00%")
	longN := 64 << 10
	if !r.Quick() {
		longN = 1 << 20
	}
	add("long", fmt.Sprintf("long: %d x A", longN), strings.Repeat("A", longN))
	add("long", fmt.Sprintf("long: %d x %%d", longN/2), strings.Repeat("%d", longN/2))
	add("long", fmt.Sprintf("long: %d x mixed", longN/8), strings.Repeat("é\n\"\\%<\u2028", longN/8))
	add("long", fmt.Sprintf("long: %d x emoji", longN/4), strings.Repeat("😀", longN/4))
	add("long", "long: 4 KiB of % then a quote", strings.Repeat("%", 4096)+"\"")
	if !r.Quick() {
		add("long", "long: 3 MiB of %s\\n", strings.Repeat("%s\n", 1<<20))
	}
	list("invalid-utf8", "\xff", "\xfe\xff", "a\xffb", "\xc3", "\xc3(", "\xe2\x82", "\xf0\x9f\x98", "\xed\xa0\x80", "\xc0\xaf", "\xf4\x90\x80\x80", "ok\x80", "%\xff", "\xff%", "\xff\n", "\xff\"", "\xff\\")
	// seeded random compositions
	rng := r.Rand("c03-content-catalogue")
	for i, n := 0, r.Pick(16, 300); i < n; i++ {
		var sb strings.Builder
		for j, k := 0, 1+rng.Intn(8); j < k; j++ {
			sb.WriteString(contentFragments[rng.Intn(len(contentFragments))])
		}
		add("random", fmt.Sprintf("random#%d %q", i, sb.String()), sb.String())
	}
	// other spellings of well-formed literals: quick — the percent, escape and line-break classes and a few more; thorough — all
	n := len(out)
	for i := 0; i < n; i++ {
		t := out[i]
		if !t.wellFormed || len(t.val) > 2048 || t.val == "" {
			continue
		}
		if r.Quick() && !(t.class == "percent" || t.class == "escape" || t.class == "linebreak" || t.class == "html" || i%5 == 0) {
			continue
		}
		if u := litU(t.val); u != t.lit {
			out = append(out, ctext{class: t.class + "(\\u-escaped)", name: t.name, val: t.val, lit: u, form: "u-escapes", wellFormed: true})
		}
		if g := litGo(t.val); g != t.lit {
			out = append(out, ctext{class: t.class + "(go-escaped)", name: t.name, val: t.val, lit: g, form: "go", wellFormed: true})
		}
	}
	// literals only a peer can write
	for i, l := range []string{`"\ud800"`, `"\udfff"`, `"a\ud800b"`, `"\ud800\ud800"`, `"\ude00\ud83d"`, `"\ud83d"`, `"%\ud800"`, `"\ud800%"`, `"\ud800\u0041"`, `"\uDBFF"`} {
		out = append(out, ctext{class: "surrogate(peer,lone)", name: fmt.Sprintf("surrogate#%d %s", i, l), val: decodeLit(l), lit: l, form: "ill-formed"})
	}
	out = append(out, ctext{class: "surrogate(peer,pair)", name: `pair "\ud83d\ude00"`, val: "😀", lit: `"\ud83d\ude00"`, form: "u-escapes", wellFormed: true},
		ctext{class: "surrogate(peer,pair)", name: `pair "%\uD83D\uDE00%"`, val: "%😀%", lit: `"%\uD83D\uDE00%"`, form: "u-escapes", wellFormed: true})
	for i, l := range []string{"\"a\x01b\"", "\"tab\there\"", "\"del\x7f\x1fus\"", `"\q"`, `"\u12G4"`, `"\x41"`, `"%\q"`, `"\U00000041"`} {
		out = append(out, ctext{class: "bad-escape-or-raw-control(peer)", name: fmt.Sprintf("illformed#%d %q", i, l), val: decodeLit(l), lit: l, form: "ill-formed"})
	}
	return out
}

// decodeLit: what encoding/json makes of a literal ("" when it refuses it).
func decodeLit(l string) string {
	var s string
	if json.Unmarshal([]byte(l), &s) != nil {
		return ""
	}
	return s
}

// ---------------------------------------------------------------------------------------------------------------------
// fixture: handlers that hand back the text they are given (argument) or the text the application holds (slot), and
// record what they returned

type slot struct {
	mu       sync.Mutex
	text     string // what the application hands out
	mode     string // result | error (resources: the only way in)
	ran      int
	returned string
}

func (s *slot) set(text, mode string) {
	s.mu.Lock()
	s.text, s.mode, s.ran, s.returned = text, mode, 0, ""
	s.mu.Unlock()
}

func (s *slot) get() (string, string) {
	s.mu.Lock()
	defer s.mu.Unlock()
	return s.text, s.mode
}

func (s *slot) record(text string) {
	s.mu.Lock()
	s.ran++
	s.returned = text
	s.mu.Unlock()
}

func (s *slot) outcome() (int, string) {
	s.mu.Lock()
	defer s.mu.Unlock()
	return s.ran, s.returned
}

func contentFixture(in *kit.Instance, sl *slot) {
	in.RegisterTool(mcp.NewTool("c03text", mcp.WithString("src"), mcp.WithString("mode"), mcp.WithString("text")), func(ctx context.Context, req *mcp.CallToolRequest) (*mcp.CallToolResult, error) {
		a := req.Params.Arguments
		text, _ := sl.get()
		if src, _ := a["src"].(string); src == "arg" {
			text, _ = a["text"].(string)
		}
		mode, _ := a["mode"].(string)
		sl.record(text)
		switch mode {
		case "error":
			return nil, errors.New(text)
		case "wrapped-error":
			return nil, fmt.Errorf("c03 wrapped: %w", errors.New(text))
		case "iserr":
			return mcp.NewErrorResult(text), nil
		case "structured":
			return &mcp.CallToolResult{Content: []mcp.Content{mcp.NewTextContent(text)}, StructuredContent: map[string]interface{}{"text": text, "c03key:" + text: "as-key", "list": []string{text, text}}}, nil
		case "multi":
			return &mcp.CallToolResult{Content: []mcp.Content{mcp.NewTextContent(text), mcp.NewTextContent(text),
				mcp.NewEmbeddedResource(mcp.TextResourceContents{URI: "c03res://embedded", MIMEType: "text/plain", Text: text})}}, nil
		}
		return mcp.NewTextResult(text), nil
	})
	in.RegisterPrompt(&mcp.Prompt{Name: "c03prompt", Arguments: []mcp.PromptArgument{{Name: "src"}, {Name: "mode"}, {Name: "text"}}},
		func(ctx context.Context, req *mcp.GetPromptRequest) (*mcp.GetPromptResult, error) {
			a := req.Params.Arguments
			text, _ := sl.get()
			if a["src"] == "arg" {
				text = a["text"]
			}
			sl.record(text)
			if a["mode"] == "error" {
				return nil, errors.New(text)
			}
			return &mcp.GetPromptResult{Description: text, Messages: []mcp.PromptMessage{
				{Role: mcp.RoleUser, Content: mcp.NewTextContent(text)},
				{Role: mcp.RoleAssistant, Content: mcp.NewTextContent("ack:" + text)},
			}}, nil
		})
	in.RegisterResource(&mcp.Resource{URI: "c03res://one", Name: "one"}, func(ctx context.Context, req *mcp.ReadResourceRequest) (mcp.ResourceContents, error) {
		text, mode := sl.get()
		sl.record(text)
		if mode == "error" {
			return nil, errors.New(text)
		}
		return mcp.TextResourceContents{URI: "c03res://one", MIMEType: "text/plain", Text: text}, nil
	})
	in.RegisterResources(&mcp.Resource{URI: "c03res://many", Name: "many"}, func(ctx context.Context, req *mcp.ReadResourceRequest) ([]mcp.ResourceContents, error) {
		text, mode := sl.get()
		sl.record(text)
		if mode == "error" {
			return nil, errors.New(text)
		}
		return []mcp.ResourceContents{
			mcp.TextResourceContents{URI: "c03res://many#1", MIMEType: text, Text: text},
			mcp.BlobResourceContents{URI: "c03res://many#2", MIMEType: "application/octet-stream", Blob: base64.StdEncoding.EncodeToString([]byte(text))},
		}, nil
	})
}

// ---------------------------------------------------------------------------------------------------------------------
// flows: where the text goes

type cflow struct {
	name    string
	method  string // for the result-shape validation
	handler string // "" | "result" | "error": a content handler runs and hands the text back this way
	peer    bool   // the text travels in the request (skipped for application-only texts)
	idText  bool   // the request's id is the text
	exp     gen.Expect
	// body renders the request; id is the raw id to use (the text's literal when idText), lit the text's literal
	body func(id, lit string) string
	// texts extracts from the result what must equal the text the handler returned (want)
	texts func(result json.RawMessage, want string) []textCheck
}

type textCheck struct {
	where string
	got   *string // nil: not there / not a string
	want  string
	opt   bool // may be absent (omitempty member and empty text)
}

func call(method, params string) func(id, lit string) string {
	return func(id, lit string) string {
		p := strings.ReplaceAll(params, "$T", lit)
		if p == "" {
			return fmt.Sprintf(`{"jsonrpc":"2.0","id":%s,"method":%q}`, id, method)
		}
		return fmt.Sprintf(`{"jsonrpc":"2.0","id":%s,"method":%q,"params":%s}`, id, method, p)
	}
}

func dig(raw json.RawMessage, path ...interface{}) *string {
	cur := raw
	for _, p := range path {
		switch k := p.(type) {
		case string:
			var o map[string]json.RawMessage
			if json.Unmarshal(cur, &o) != nil {
				return nil
			}
			v, ok := o[k]
			if !ok {
				return nil
			}
			cur = v
		case int:
			var a []json.RawMessage
			if json.Unmarshal(cur, &a) != nil || k >= len(a) {
				return nil
			}
			cur = a[k]
		}
	}
	if !bytes.HasPrefix(bytes.TrimSpace(cur), []byte(`"`)) {
		return nil
	}
	var s string
	if json.Unmarshal(cur, &s) != nil {
		return nil
	}
	return &s
}

func toolTexts(n int) func(json.RawMessage, string) []textCheck {
	return func(res json.RawMessage, want string) []textCheck {
		var out []textCheck
		for i := 0; i < n; i++ {
			out = append(out, textCheck{where: fmt.Sprintf("content[%d].text", i), got: dig(res, "content", i, "text"), want: want})
		}
		return out
	}
}

func contentFlows() []cflow {
	res := gen.Expect{Class: "result"}
	notFound := gen.Expect{Class: "error", Codes: []int{-32601, -32602}}
	failed := gen.Expect{Class: "error", Codes: []int{-32603}}
	promptTexts := func(res json.RawMessage, want string) []textCheck {
		return []textCheck{
			{where: "messages[0].content.text", got: dig(res, "messages", 0, "content", "text"), want: want},
			{where: "messages[1].content.text", got: dig(res, "messages", 1, "content", "text"), want: "ack:" + want},
			{where: "description", got: dig(res, "description"), want: want, opt: want == ""},
		}
	}
	return []cflow{
		{name: "id|ping", method: "ping", peer: true, idText: true, exp: res, body: call("ping", "")},
		{name: "id|unknown-method", peer: true, idText: true, exp: gen.Expect{Class: "error", Codes: []int{-32601}}, body: call("c03/no-such-method", "{}")},
		{name: "id|tools/call", method: "tools/call", peer: true, idText: true, handler: "result", exp: res, body: call("tools/call", `{"name":"c03text","arguments":{"src":"arg","mode":"result","text":$T}}`), texts: toolTexts(1)},
		{name: "id|handler-error", peer: true, idText: true, handler: "error", exp: failed, body: call("tools/call", `{"name":"c03text","arguments":{"src":"arg","mode":"error","text":$T}}`)},
		{name: "method-name", peer: true, exp: gen.Expect{Class: "refuse", Codes: []int{-32601, -32600}}, body: func(id, lit string) string {
			return fmt.Sprintf(`{"jsonrpc":"2.0","id":%s,"method":%s,"params":{}}`, id, lit)
		}},
		{name: "unknown-tool-name", peer: true, exp: notFound, body: call("tools/call", `{"name":$T,"arguments":{}}`)},
		{name: "unknown-prompt-name", peer: true, exp: notFound, body: call("prompts/get", `{"name":$T}`)},
		{name: "unknown-resource-uri", peer: true, exp: notFound, body: call("resources/read", `{"uri":$T}`)},
		{name: "tool-result|arg", method: "tools/call", peer: true, handler: "result", exp: res, body: call("tools/call", `{"name":"c03text","arguments":{"src":"arg","mode":"result","text":$T}}`), texts: toolTexts(1)},
		{name: "tool-iserror|arg", method: "tools/call", peer: true, handler: "result", exp: res, body: call("tools/call", `{"name":"c03text","arguments":{"src":"arg","mode":"iserr","text":$T}}`), texts: toolTexts(1)},
		{name: "tool-error|arg", peer: true, handler: "error", exp: failed, body: call("tools/call", `{"name":"c03text","arguments":{"src":"arg","mode":"error","text":$T}}`)},
		{name: "tool-structured|arg", method: "tools/call", peer: true, handler: "result", exp: res, body: call("tools/call", `{"name":"c03text","arguments":{"src":"arg","mode":"structured","text":$T}}`),
			texts: func(res json.RawMessage, want string) []textCheck {
				return []textCheck{
					{where: "content[0].text", got: dig(res, "content", 0, "text"), want: want},
					{where: "structuredContent.text", got: dig(res, "structuredContent", "text"), want: want},
					{where: "structuredContent[c03key:<text>]", got: dig(res, "structuredContent", "c03key:"+want), want: "as-key"},
					{where: "structuredContent.list[1]", got: dig(res, "structuredContent", "list", 1), want: want},
				}
			}},
		{name: "tool-result|app", method: "tools/call", handler: "result", exp: res, body: call("tools/call", `{"name":"c03text","arguments":{"src":"slot","mode":"multi"}}`),
			texts: func(res json.RawMessage, want string) []textCheck {
				return append(toolTexts(2)(res, want), textCheck{where: "content[2].resource.text", got: dig(res, "content", 2, "resource", "text"), want: want})
			}},
		{name: "tool-iserror|app", method: "tools/call", handler: "result", exp: res, body: call("tools/call", `{"name":"c03text","arguments":{"src":"slot","mode":"iserr"}}`), texts: toolTexts(1)},
		{name: "tool-error|app", handler: "error", exp: failed, body: call("tools/call", `{"name":"c03text","arguments":{"src":"slot","mode":"error"}}`)},
		{name: "tool-wrapped-error|app", handler: "error", exp: failed, body: call("tools/call", `{"name":"c03text","arguments":{"src":"slot","mode":"wrapped-error"}}`)},
		{name: "prompt-result|arg", method: "prompts/get", peer: true, handler: "result", exp: res, body: call("prompts/get", `{"name":"c03prompt","arguments":{"src":"arg","mode":"result","text":$T}}`), texts: promptTexts},
		{name: "prompt-error|arg", peer: true, handler: "error", exp: failed, body: call("prompts/get", `{"name":"c03prompt","arguments":{"src":"arg","mode":"error","text":$T}}`)},
		{name: "prompt-result|app", method: "prompts/get", handler: "result", exp: res, body: call("prompts/get", `{"name":"c03prompt","arguments":{"src":"slot","mode":"result"}}`), texts: promptTexts},
		{name: "resource-result|app", method: "resources/read", handler: "result", exp: res, body: call("resources/read", `{"uri":"c03res://one"}`),
			texts: func(res json.RawMessage, want string) []textCheck {
				return []textCheck{{where: "contents[0].text", got: dig(res, "contents", 0, "text"), want: want}}
			}},
		{name: "resource-error|app", handler: "error", exp: failed, body: call("resources/read", `{"uri":"c03res://one"}`)},
		{name: "resources-result|app", method: "resources/read", handler: "result", exp: res, body: call("resources/read", `{"uri":"c03res://many"}`),
			texts: func(res json.RawMessage, want string) []textCheck {
				return []textCheck{
					{where: "contents[0].text", got: dig(res, "contents", 0, "text"), want: want},
					{where: "contents[0].mimeType", got: dig(res, "contents", 0, "mimeType"), want: want, opt: want == ""},
					{where: "contents[1].blob", got: dig(res, "contents", 1, "blob"), want: base64.StdEncoding.EncodeToString([]byte(want))},
				}
			}},
		{name: "resources-error|app", handler: "error", exp: failed, body: call("resources/read", `{"uri":"c03res://many"}`)},
		{name: "initialize|version+client-name", method: "initialize", peer: true, exp: gen.Expect{Class: "answered"}, body: call("initialize", `{"protocolVersion":$T,"clientInfo":{"name":$T,"version":$T},"capabilities":{}}`)},
	}
}

// ---------------------------------------------------------------------------------------------------------------------
// driver: one request, the frames written for it

type cdriver struct {
	r    *vh.Run
	kind kit.Kind
	c    *kit.RawConn
	old  map[string]bool // canonical raw ids of the handshake and of the fences: an answer bearing one is not for the request at hand
	seq  int
}

func (d *cdriver) nextID() string {
	d.seq++
	if d.seq%2 == 0 {
		return fmt.Sprintf(`"c03c-%s-%d"`, d.kind, d.seq)
	}
	return fmt.Sprintf("%d", 8_000_000+d.seq)
}

// pending reports whether the frame is something to judge for the current request. Requests are posted one at a time
// and each is waited for, so everything is, except the answer to a fence or to the handshake and well-formed
// notifications / requests of the server (judged by the third sweep). A frame that does not parse is always judged.
func (d *cdriver) pending(f kit.Frame) bool {
	id, has, hasMethod := kit.FrameID(f.Data)
	if hasMethod || (has && d.old[id]) {
		return false
	}
	return true
}

// fence posts a ping with an id of its own and waits for its answer; everything else that arrived is returned.
func (d *cdriver) fence(ctx context.Context, from int, wait time.Duration) (answered bool, others []string) {
	d.seq++
	fid := fmt.Sprintf(`"c03c-fence-%d"`, d.seq)
	d.c.Post(ctx, []byte(`{"jsonrpc":"2.0","id":`+fid+`,"method":"ping"}`), kit.PostOpts{NoWait: true})
	_, answered = d.c.Log.WaitFor(from, wait, func(f kit.Frame) bool {
		id, has, hm := kit.FrameID(f.Data)
		return has && !hm && id == fid
	})
	if answered {
		time.Sleep(50 * time.Millisecond)
	}
	d.old[fid] = true
	for _, f := range d.c.Log.Since(from) {
		if d.pending(f) {
			others = append(others, f.Data)
		}
	}
	return answered, others
}

// do posts one request. unanswered: "" | "unanswered(later-request-answered)" | "unanswered(server-silent)".
func (d *cdriver) do(ctx context.Context, body []byte) (ex *kit.Exchange, unanswered string) {
	async := d.kind == kit.Stdio || d.kind == kit.LSSE
	if !async {
		return d.c.Post(ctx, body, kit.PostOpts{}), ""
	}
	from := d.c.Log.Len()
	ex = d.c.Post(ctx, body, kit.PostOpts{NoWait: true})
	if ex.Frames != nil || (ex.HTTP != nil && ex.HTTP.Status != 202) {
		return ex, "" // answered on the POST itself (legacy SSE: a refusal)
	}
	if f, ok := d.c.Log.WaitFor(from, 10*time.Second, d.pending); ok {
		ex.Frames = []string{f.Data}
		return ex, ""
	}
	// nothing within the watchdog: is the server still answering at all?
	answered, others := d.fence(ctx, from, 10*time.Second)
	if len(others) > 0 {
		ex.Frames = others
		return ex, ""
	}
	if answered {
		return ex, "unanswered(later-request-answered)"
	}
	return ex, "unanswered(server-silent)"
}

// resync is called after an anomaly on an asynchronous transport: whatever else the server wrote for the request (the
// rest of a frame that was split in two, say) is taken off the stream so that it is not attributed to the next request.
func (d *cdriver) resync(ctx context.Context) []string {
	if d.kind != kit.Stdio && d.kind != kit.LSSE {
		return nil
	}
	_, others := d.fence(ctx, d.c.Log.Len(), 5*time.Second)
	return others
}

func answerOf(frames []string) *wire.Msg {
	for _, f := range frames {
		if m := wire.Parse(f); m.Kind == "response" || m.Kind == "error" {
			return m
		}
	}
	return nil
}

// sameJSONValue compares two raw JSON values as values (numbers by their text after decoding, strings by content).
func sameJSONValue(a, b string) bool {
	dec := func(s string) (interface{}, bool) {
		d := json.NewDecoder(strings.NewReader(s))
		d.UseNumber()
		var v interface{}
		if d.Decode(&v) != nil {
			return nil, false
		}
		return v, true
	}
	va, oka := dec(a)
	vb, okb := dec(b)
	return oka && okb && reflect.DeepEqual(va, vb)
}

func shortText(s string) string {
	if len(s) > 120 {
		return fmt.Sprintf("%q...(%d bytes)", s[:120], len(s))
	}
	return fmt.Sprintf("%q", s)
}

type contentTally struct {
	mu   sync.Mutex
	kind map[kit.Kind]map[string]int64
}

func (t *contentTally) add(k kit.Kind, what string, n int64) {
	t.mu.Lock()
	if t.kind[k] == nil {
		t.kind[k] = map[string]int64{}
	}
	t.kind[k][what] += n
	t.mu.Unlock()
}

// judgeContent judges one exchange of the content sweep; returns the symptom ("" = conforms) and details.
func judgeContent(r *vh.Run, tl *contentTally, kind kit.Kind, fl cflow, t ctext, sentID string, ex *kit.Exchange, unanswered string, ran int, returned string) (string, []string, gen.Outcome) {
	o := gen.Observe(kind, ex)
	r.Count("frames_validated", int64(len(o.Frames)))
	r.Count("content_frames_validated", int64(len(o.Frames)))
	if unanswered != "" && o.Class != "result" && o.Class != "error" && o.Class != "http-refuse" {
		if unanswered == "unanswered(server-silent)" {
			r.Inconclusive(fmt.Sprintf("content sweep, %s, %s: no answer and no answer to a later ping within the watchdogs (slow or stuck server; not judged)", kind, fl.name))
			return "", nil, o
		}
		if len(o.Problems) == 0 && fl.exp.Class != "accepted" {
			return "no-answer", []string{"nothing was written for the request although a ping sent 10 s later was answered"}, o
		}
	}
	exp := fl.exp
	strict := true
	if !t.wellFormed && !t.appOnly {
		exp = gen.Expect{Class: "answered"} // an ill-formed literal: refused or served, both conform
		strict = false
	}
	rq := gen.Req{Label: fl.name, Method: fl.method, Expect: exp}
	if sym := gen.Judge(rq, o); sym != "" {
		return sym, append(append([]string{}, o.Problems...), gen.ShapeProblems(rq, o)...), o
	}
	ans := answerOf(ex.Frames)
	if ans == nil || (o.Class != "result" && o.Class != "error") {
		if !strict {
			tl.add(kind, "illformed_refused", 1)
		}
		return "", nil, o
	}
	// the request's id, equal as a JSON value
	switch {
	case ans.ID == "" && (o.Class == "result" || (strict && exp.Class != "refuse")):
		return "id-not-echoed", []string{fmt.Sprintf("request id %s, answer has no id / a null id", boundedS(sentID))}, o
	case ans.ID == "":
	case sameJSONValue(ans.ID, sentID):
		tl.add(kind, "ids_compared", 1)
		if fl.idText {
			tl.add(kind, "text_ids_compared", 1)
		}
	case !strict && fl.idText:
		tl.add(kind, "illformed_id_echo_differs", 1)
	default:
		return "id-not-echoed", []string{fmt.Sprintf("request id %s, answer id %s: not the same JSON value", boundedS(sentID), boundedS(ans.ID))}, o
	}
	if !strict {
		tl.add(kind, "illformed_served", 1)
	}
	if fl.handler == "" || ran == 0 {
		return "", nil, o
	}
	tl.add(kind, "handler_runs", 1)
	if !utf8.ValidString(returned) {
		tl.add(kind, "texts_not_compared(not valid UTF-8)", 1)
		return "", nil, o
	}
	switch {
	case o.Class == "error" && fl.handler == "error":
		if ans.Error == nil || !strings.Contains(ans.Error.Message, returned) {
			msg := ""
			if ans.Error != nil {
				msg = ans.Error.Message
			}
			return "message-lost", []string{fmt.Sprintf("the handler failed with the message %s; the error object's message is %s", shortText(returned), shortText(msg))}, o
		}
		tl.add(kind, "error_messages_compared", 1)
	case o.Class == "result" && fl.handler == "result" && fl.texts != nil:
		var bad []string
		for _, c := range fl.texts(ans.Result, returned) {
			switch {
			case c.got == nil && c.opt:
			case c.got == nil:
				bad = append(bad, fmt.Sprintf("%s: absent or not a string, the handler returned %s", c.where, shortText(c.want)))
			case *c.got != c.want:
				bad = append(bad, fmt.Sprintf("%s is %s, the handler returned %s", c.where, shortText(*c.got), shortText(c.want)))
			default:
				tl.add(kind, "result_texts_compared", 1)
			}
		}
		if len(bad) > 0 {
			return "result-text-altered", bad, o
		}
	}
	return "", nil, o
}

// ---------------------------------------------------------------------------------------------------------------------
// sweep 1: the content fixture

func contentKind(r *vh.Run, tl *contentTally, kind kit.Kind, cat []ctext) {
	in := kit.Start(kind, kit.Opts{})
	defer in.Close()
	sl := &slot{}
	contentFixture(in, sl)
	ctx, cancel := context.WithTimeout(context.Background(), 30*time.Minute)
	defer cancel()
	c, err := in.Dial(ctx)
	if err != nil {
		r.Fatal("content sweep: dial %s: %v", kind, err)
	}
	defer c.Close()
	if err := c.Handshake(ctx); err != nil {
		r.Violation(fmt.Sprintf("C03|content:handshake|%s|failed", kind), err.Error(), nil)
		return
	}
	d := &cdriver{r: r, kind: kind, c: c, old: map[string]bool{`"init-0"`: true}}
	flows := contentFlows()
	sampled := map[string]bool{}
	for _, t := range cat {
		for _, fl := range flows {
			if fl.peer && t.appOnly {
				continue // a text no peer can spell goes through the application flows only
			}
			if !fl.peer && !t.appOnly && t.form != "min" {
				continue // the application flows do not depend on how a peer would spell the text
			}
			id := d.nextID()
			if fl.idText {
				id = t.lit
			}
			mode := "result"
			if fl.handler == "error" {
				mode = "error"
			}
			sl.set(t.val, mode)
			body := fl.body(id, t.lit)
			ex, unanswered := d.do(ctx, []byte(body))
			ran, returned := sl.outcome()
			r.Eval(1)
			r.Count("content_requests", 1)
			sym, details, o := judgeContent(r, tl, kind, fl, t, id, ex, unanswered, ran, returned)
			if sym != "" {
				wit := map[string]interface{}{"kind": kind, "flow": fl.name, "text_class": t.class, "text": t.name, "request": boundedS(body), "outcome": o, "details": details}
				if ex.HTTP != nil {
					wit["http_body"] = ex.HTTP.BodyS
				}
				if rest := d.resync(ctx); len(rest) > 0 {
					wit["also_written"] = boundedFrames(rest)
				}
				tl.add(kind, "violations", 1)
				r.Violation(fmt.Sprintf("C03|content:%s|%s|text=%s|%s", fl.name, kind, baseClass(t.class), sym),
					fmt.Sprintf("%s: %s with the text %s (spelt %s): %s %s", kind, fl.name, t.name, t.form, sym, strings.Join(details, "; ")), wit)
			}
			if unanswered != "" {
				// an answer that is still on its way would be taken for the next request's: the rest of this sweep is not run
				r.Note(fmt.Sprintf("content sweep on %s stopped after an unanswered request (%s, %s)", kind, fl.name, unanswered))
				return
			}
			if sym != "" {
				continue
			}
			r.Distinct(fmt.Sprintf("%s|content:%s|text=%s|%s", kind, fl.name, t.class, o.Class))
			r.SetAdd("content_text_classes", t.class)
			if kind == kit.LSSE && (t.class == "percent" || t.class == "sse-field") && !sampled[fl.name+t.class] && (fl.name == "id|ping" || fl.name == "tool-error|arg") {
				sampled[fl.name+t.class] = true
				r.Sample(map[string]interface{}{"kind": kind, "flow": fl.name, "text": t.name, "request": boundedS(body), "frames": o.Frames})
			}
		}
	}
	// the server must still serve after all of that
	ex, _ := d.do(ctx, []byte(`{"jsonrpc":"2.0","id":"content-final-ping","method":"ping"}`))
	if o := gen.Observe(kind, ex); o.Class != "result" {
		r.Violation(fmt.Sprintf("C03|content:final-ping|%s|not-served", kind), fmt.Sprintf("%s: ping after the content sweep not served: %+v", kind, o), o)
	}
	if p := in.ErrLog.Panics(); len(p) > 0 {
		r.Violation(fmt.Sprintf("C03|server-panic|%s|content", kind), "http server logged a panic: "+p[0], p)
	}
}

// baseClass strips the spelling from a text class: signatures name the kind of text, not how the peer escaped it.
func baseClass(c string) string {
	if i := strings.IndexByte(c, '('); i > 0 {
		return c[:i]
	}
	return c
}

func boundedFrames(fs []string) []string {
	var out []string
	for i, f := range fs {
		if i == 5 {
			break
		}
		out = append(out, boundedS(f))
	}
	return out
}

// ---------------------------------------------------------------------------------------------------------------------
// sweep 2: the texts as names, descriptions and URIs of registered entries, and as the server's own name and version

func namedKind(r *vh.Run, tl *contentTally, kind kit.Kind, cat []ctext) {
	srvName := "verif %s \"srv\"\\ <&>\n\u2028 data: x %"
	srvVersion := "9.9%d\r\n\"%"
	in := kit.Start(kind, kit.Opts{Name: srvName, Version: srvVersion})
	defer in.Close()
	names := map[string]bool{}
	var reg []ctext
	for _, t := range cat {
		if !t.wellFormed || t.form != "min" || t.val == "" || len(t.val) > 64<<10 {
			continue // names are Go strings of the application; an empty name is not registered by the library
		}
		name := t.val
		names[name] = true
		reg = append(reg, t)
		in.RegisterTool(mcp.NewTool(name, mcp.WithDescription(name), mcp.WithString(name, mcp.Description(name))), func(ctx context.Context, req *mcp.CallToolRequest) (*mcp.CallToolResult, error) {
			return mcp.NewTextResult("tool:" + name), nil
		})
		in.RegisterPrompt(&mcp.Prompt{Name: name, Description: name, Arguments: []mcp.PromptArgument{{Name: name, Description: name}}}, func(ctx context.Context, req *mcp.GetPromptRequest) (*mcp.GetPromptResult, error) {
			return &mcp.GetPromptResult{Description: name, Messages: []mcp.PromptMessage{{Role: mcp.RoleUser, Content: mcp.NewTextContent("prompt:" + name)}}}, nil
		})
		in.RegisterResource(&mcp.Resource{URI: name, Name: name, Description: name, MimeType: name}, func(ctx context.Context, req *mcp.ReadResourceRequest) (mcp.ResourceContents, error) {
			return mcp.TextResourceContents{URI: name, MIMEType: name, Text: "resource:" + name}, nil
		})
	}
	ctx, cancel := context.WithTimeout(context.Background(), 30*time.Minute)
	defer cancel()
	c, err := in.Dial(ctx)
	if err != nil {
		r.Fatal("content sweep (names): dial %s: %v", kind, err)
	}
	defer c.Close()
	d := &cdriver{r: r, kind: kind, c: c, old: map[string]bool{}}
	report := func(flow, class, text, body, sym string, details []string, o gen.Outcome, ex *kit.Exchange) {
		wit := map[string]interface{}{"kind": kind, "flow": flow, "text_class": class, "text": text, "request": boundedS(body), "outcome": o, "details": details}
		if ex.HTTP != nil {
			wit["http_body"] = ex.HTTP.BodyS
		}
		if rest := d.resync(ctx); len(rest) > 0 {
			wit["also_written"] = boundedFrames(rest)
		}
		tl.add(kind, "violations", 1)
		r.Violation(fmt.Sprintf("C03|content:%s|%s|text=%s|%s", flow, kind, baseClass(class), sym), fmt.Sprintf("%s: %s with the text %s: %s %s", kind, flow, text, sym, strings.Join(details, "; ")), wit)
	}
	// one request; check receives the result and says which texts in it must be what
	dead := false
	one := func(flow, method, class, text, params string, exp gen.Expect, check func(res json.RawMessage) []textCheck) {
		if dead {
			return
		}
		id := d.nextID()
		body := call(method, params)(id, "")
		ex, unanswered := d.do(ctx, []byte(body))
		if unanswered != "" {
			dead = true // an answer still on its way would be taken for the next request's
			r.Note(fmt.Sprintf("content sweep (names) on %s stopped after an unanswered request (%s, %s)", kind, flow, unanswered))
		}
		r.Eval(1)
		r.Count("content_requests", 1)
		fl := cflow{name: flow, method: method, exp: exp}
		sym, details, o := judgeContent(r, tl, kind, fl, ctext{wellFormed: true}, id, ex, unanswered, 0, "")
		if sym == "" && o.Class == "result" && check != nil {
			if ans := answerOf(ex.Frames); ans != nil {
				for _, c := range check(ans.Result) {
					switch {
					case c.got == nil && c.opt:
					case c.got == nil:
						details = append(details, fmt.Sprintf("%s: absent or not a string, registered was %s", c.where, shortText(c.want)))
					case *c.got != c.want:
						details = append(details, fmt.Sprintf("%s is %s, registered / returned was %s", c.where, shortText(*c.got), shortText(c.want)))
					default:
						tl.add(kind, "result_texts_compared", 1)
					}
				}
				if len(details) > 0 {
					sym = "result-text-altered"
				}
			}
		}
		if sym != "" {
			report(flow, class, text, body, sym, details, o, ex)
			return
		}
		r.Distinct(fmt.Sprintf("%s|content:%s|text=%s|%s", kind, flow, class, o.Class))
	}
	// the handshake answer carries the server's name and version
	{
		body := string(kit.InitBody(`"names-init"`, ""))
		ex := c.Post(ctx, []byte(body), kit.PostOpts{WantID: `"names-init"`, NoSessionID: true})
		if kind.IsStreamable() && ex.HTTP != nil && ex.HTTP.Sess != "" {
			c.SessionID = ex.HTTP.Sess
		}
		d.old[`"names-init"`] = true
		r.Eval(1)
		sym, details, o := judgeContent(r, tl, kind, cflow{name: "initialize|server-name+version", method: "initialize", exp: gen.Expect{Class: "result"}}, ctext{wellFormed: true}, `"names-init"`, ex, "", 0, "")
		if sym == "" {
			if ans := answerOf(ex.Frames); ans != nil {
				for _, ck := range []textCheck{{where: "serverInfo.name", got: dig(ans.Result, "serverInfo", "name"), want: srvName}, {where: "serverInfo.version", got: dig(ans.Result, "serverInfo", "version"), want: srvVersion}} {
					if ck.got == nil || *ck.got != ck.want {
						g := "absent"
						if ck.got != nil {
							g = shortText(*ck.got)
						}
						details = append(details, fmt.Sprintf("%s is %s, the server was created with %s", ck.where, g, shortText(ck.want)))
					} else {
						tl.add(kind, "result_texts_compared", 1)
					}
				}
				if len(details) > 0 {
					sym = "result-text-altered"
				}
			}
		}
		if sym != "" {
			report("initialize|server-name+version", "mixed", "server name / version", body, sym, details, o, ex)
			if o.Class != "result" {
				return
			}
		} else {
			r.Distinct(fmt.Sprintf("%s|content:initialize|server-name+version|%s", kind, o.Class))
		}
		c.Post(ctx, []byte(kit.InitializedBody), kit.PostOpts{NoWait: true})
	}
	// list results: whatever is listed must be something that was registered
	listed := func(member string, fields ...string) func(res json.RawMessage) []textCheck {
		return func(res json.RawMessage) []textCheck {
			var o map[string]json.RawMessage
			var arr []json.RawMessage
			if json.Unmarshal(res, &o) != nil || json.Unmarshal(o[member], &arr) != nil {
				return nil
			}
			var out []textCheck
			for i := range arr {
				for _, f := range fields {
					got := dig(arr[i], f)
					if got == nil {
						continue
					}
					want := *got
					if !names[want] {
						want = "(one of the registered texts)"
					}
					out = append(out, textCheck{where: fmt.Sprintf("%s[%d].%s", member, i, f), got: got, want: want})
				}
			}
			tl.add(kind, "list_entries_seen", int64(len(arr)))
			return out
		}
	}
	res := gen.Expect{Class: "result"}
	one("list|tools", "tools/list", "all", "all registered names", "", res, listed("tools", "name", "description"))
	one("list|prompts", "prompts/list", "all", "all registered names", "", res, listed("prompts", "name", "description"))
	one("list|resources", "resources/list", "all", "all registered names", "", res, listed("resources", "uri", "name", "description", "mimeType"))
	// every entry called by its name, in every spelling of the catalogue
	for _, t := range cat {
		if !t.wellFormed || !names[t.val] {
			continue
		}
		name := t.val
		one("named-tool|call", "tools/call", t.class, t.name, `{"name":`+t.lit+`,"arguments":{}}`, res, func(res json.RawMessage) []textCheck {
			return []textCheck{{where: "content[0].text", got: dig(res, "content", 0, "text"), want: "tool:" + name}}
		})
		one("named-prompt|get", "prompts/get", t.class, t.name, `{"name":`+t.lit+`}`, res, func(res json.RawMessage) []textCheck {
			return []textCheck{{where: "messages[0].content.text", got: dig(res, "messages", 0, "content", "text"), want: "prompt:" + name}, {where: "description", got: dig(res, "description"), want: name}}
		})
		one("named-resource|read", "resources/read", t.class, t.name, `{"uri":`+t.lit+`}`, res, func(res json.RawMessage) []textCheck {
			return []textCheck{{where: "contents[0].uri", got: dig(res, "contents", 0, "uri"), want: name}, {where: "contents[0].mimeType", got: dig(res, "contents", 0, "mimeType"), want: name},
				{where: "contents[0].text", got: dig(res, "contents", 0, "text"), want: "resource:" + name}}
		})
	}
	r.Count("content_named_entries_registered", int64(3*len(reg)))
	if p := in.ErrLog.Panics(); len(p) > 0 {
		r.Violation(fmt.Sprintf("C03|server-panic|%s|content-names", kind), "http server logged a panic: "+p[0], p)
	}
}

// ---------------------------------------------------------------------------------------------------------------------

func contentSweep(r *vh.Run) {
	cat := catalogue(r)
	tl := &contentTally{kind: map[kit.Kind]map[string]int64{}}
	var wg sync.WaitGroup
	for _, kind := range kit.AllKinds {
		wg.Add(2)
		go func(k kit.Kind) { defer wg.Done(); contentKind(r, tl, k, cat) }(kind)
		go func(k kit.Kind) { defer wg.Done(); namedKind(r, tl, k, cat) }(kind)
	}
	wg.Wait()
	r.Count("content_texts_in_catalogue", int64(len(cat)))
	// what was actually observed; a configuration on which nothing of the kind was compared makes the run void
	for _, kind := range kit.AllKinds {
		m := tl.kind[kind]
		for k, v := range m {
			r.Count("content_"+k, v)
		}
		r.Require(m["violations"] > 0 || m["text_ids_compared"] > 0 && m["result_texts_compared"] > 0 && m["error_messages_compared"] > 0 && m["list_entries_seen"] > 0,
			"content sweep on %s observed nothing to compare (ids %d, result texts %d, error messages %d, list entries %d)", kind,
			m["text_ids_compared"], m["result_texts_compared"], m["error_messages_compared"], m["list_entries_seen"])
	}
}
