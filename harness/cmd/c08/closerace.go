package main

import (
	"context"
	"fmt"
	"os"
	"path/filepath"
	"sort"
	"strings"
	"sync"
	"time"

	mcp "trpc.group/trpc-go/trpc-mcp-go"

	"verifharness/lib/kit"
	"verifharness/lib/leak"
	"verifharness/lib/vh"
)

// ---- Close racing a call that is still ESTABLISHING something ----
//
// The peer stalls the exchange at one message boundary of Initialize (legacy: the GET of the event stream
// before / inside its response head, after the head before / inside the endpoint event, the initialize POST
// before it is forwarded / before its 202, the initialize answer on the stream, the POST of
// notifications/initialized; Streamable: the initialize POST before / inside its head, after the head, inside the
// body, the notification's POST before its 202, the GET of the listening stream before / inside / after its
// head; stdio: before / inside the child's answer line), of the first ordinary call, or of the open of the
// listening stream. The caller's context never ends the call (context.Background(), or a deadline half an hour
// away that nobody cancels). While the exchange is stalled the client is closed; THEN the peer continues: the
// stall is released, the real server behind the relay answers and keeps whatever stream it opened open.
//
// Oracle (C08): the stalled call returns - through Close, or at the latest once the peer has continued - with an
// error or with its own complete answer (the statement does not make Close end a call whose connection and
// context are intact); Close returns; the pending table is empty. After Close nothing the library created for
// that call is left, whatever the peer did afterwards: client-side goroutines with library frames, net/http
// persistConn loops, fds, child processes and the connections the RELAY still sees open (the peer's view: a
// stream the server opened after the stall has to be closed by the client) are measured before, after n and
// after 2n more cycles - a residue that is there after n and larger after 2n more is a per-cycle leak, a single
// bounded residue is not. A Streamable client is reusable after Close (the lifecycle batch relies on it): an
// Initialize that returns SUCCESS after Close linearises as Close ; Initialize and leaves a live client that
// its caller owns - the harness closes it once more (counted), and then nothing may be left.

type crPhase struct {
	Name   string // point of the stall (signature class)
	Target string // init | call | getstream
	Frac   float64 // byte offset inside the unit the point names (the -mid points), evidence only
	mk     func(prefix string) *Plan
}

func crPhases(kind kit.Kind, thorough bool) []crPhase {
	hold := func(method, contains, point string, frac float64) func(string) *Plan {
		return func(prefix string) *Plan {
			return &Plan{Kind: "hold", Point: point, ReqMethod: method, ReqContains: strings.ReplaceAll(contains, "$NONCE", prefix), Frac: frac, Count: 1}
		}
	}
	stream := func(data string, frac float64) func(string) *Plan {
		return func(prefix string) *Plan {
			// Frac == 0 and Abs == 0: before any byte of the chunk that carries `data`
			return &Plan{Kind: "hold", Point: "stream-data", ReqMethod: "GET", DataContains: strings.ReplaceAll(data, "$NONCE", prefix), Frac: frac, Count: 1}
		}
	}
	const (
		initReq  = `"method":"initialize"`
		notifReq = `"method":"notifications/initialized"`
		callReq  = `"nonce":"$NONCE`
	)
	mids := []float64{0.5}
	if thorough {
		mids = []float64{0.0001, 0.31, 0.5, 0.77, 0.9999}
	}
	var out []crPhase
	add := func(target, name string, mk func(string) *Plan) {
		out = append(out, crPhase{Name: name, Target: target, mk: mk})
	}
	addMid := func(target, name string, mk func(frac float64) func(string) *Plan) {
		for _, f := range mids {
			add(target, name, mk(f))
			out[len(out)-1].Frac = f
		}
	}
	if kind == kit.LSSE {
		// the open of the event stream is the first thing Initialize does
		add("init", "init:get:pre-request", hold("GET", "", "pre-request", 0))
		add("init", "init:get:post-request", hold("GET", "", "post-request", 0))
		addMid("init", "init:get:resp-head-mid", func(f float64) func(string) *Plan { return hold("GET", "", "resp-head-mid", f) })
		add("init", "init:stream:pre-endpoint", stream("event: endpoint", 0))
		addMid("init", "init:stream:mid-endpoint", func(f float64) func(string) *Plan { return stream("event: endpoint", f) })
		add("init", "init:post:pre-request", hold("POST", initReq, "pre-request", 0))
		add("init", "init:post:pre-202", hold("POST", initReq, "post-request", 0))
		add("init", "init:stream:pre-answer", stream(`"serverInfo"`, 0))
		addMid("init", "init:stream:mid-answer", func(f float64) func(string) *Plan { return stream(`"serverInfo"`, f) })
		add("init", "init:notification:pre-request", hold("POST", notifReq, "pre-request", 0))
		add("init", "init:notification:pre-202", hold("POST", notifReq, "post-request", 0))
		add("call", "call:pre-request", hold("POST", callReq, "pre-request", 0))
		add("call", "call:pre-202", hold("POST", callReq, "post-request", 0))
		add("call", "call:stream:pre-answer", stream("$NONCE", 0))
		addMid("call", "call:stream:mid-answer", func(f float64) func(string) *Plan { return stream("$NONCE", f) })
		return out
	}
	add("init", "init:post:pre-request", hold("POST", initReq, "pre-request", 0))
	add("init", "init:post:pre-headers", hold("POST", initReq, "post-request", 0))
	addMid("init", "init:post:resp-head-mid", func(f float64) func(string) *Plan { return hold("POST", initReq, "resp-head-mid", f) })
	add("init", "init:post:post-headers", hold("POST", initReq, "resp-headers", 0))
	addMid("init", "init:post:resp-body-mid", func(f float64) func(string) *Plan { return hold("POST", initReq, "resp-body-mid", f) })
	add("init", "init:notification:pre-request", hold("POST", notifReq, "pre-request", 0))
	add("init", "init:notification:pre-202", hold("POST", notifReq, "post-request", 0))
	add("getstream", "getstream:pre-request", hold("GET", "", "pre-request", 0))
	add("getstream", "getstream:pre-headers", hold("GET", "", "post-request", 0))
	addMid("getstream", "getstream:resp-head-mid", func(f float64) func(string) *Plan { return hold("GET", "", "resp-head-mid", f) })
	add("getstream", "getstream:post-headers", hold("GET", "", "resp-headers", 0))
	add("call", "call:pre-request", hold("POST", callReq, "pre-request", 0))
	add("call", "call:pre-headers", hold("POST", callReq, "post-request", 0))
	addMid("call", "call:resp-head-mid", func(f float64) func(string) *Plan { return hold("POST", callReq, "resp-head-mid", f) })
	add("call", "call:post-headers", hold("POST", callReq, "resp-headers", 0))
	addMid("call", "call:resp-body-mid", func(f float64) func(string) *Plan { return hold("POST", callReq, "resp-body-mid", f) })
	if kind == kit.SSSE {
		add("call", "call:between-events", func(prefix string) *Plan {
			return &Plan{Kind: "hold", Point: "event-k", K: 1, ReqMethod: "POST", ReqContains: `"nonce":"` + prefix, Count: 1}
		})
		add("call", "call:before-final-event", func(prefix string) *Plan {
			return &Plan{Kind: "hold", Point: "event-k", K: 2, ReqMethod: "POST", ReqContains: `"nonce":"` + prefix, Count: 1}
		})
	}
	return out
}

// crTally is what the cycles of one class observed.
type crTally struct {
	stalled  int            // cycles whose exchange was stalled at the point when Close ran
	outcomes map[string]int // how the stalled calls ended
}

func (t *crTally) note(outcome string) {
	if t.outcomes == nil {
		t.outcomes = map[string]int{}
	}
	t.outcomes[outcome]++
}

type crEnv struct {
	rep  *vh.Reporter
	in   *kit.Instance
	px   *Proxy
	kind string
	n    int
	seq  int
	late []context.CancelFunc // the far deadlines: cancelled only when the batch is over
	mu   sync.Mutex
}

func crClass(point string) string { return "client-close@" + point + "[stalled,peer-continues]" }

func (e *crEnv) sig(point, symptom string) string {
	return fmt.Sprintf("C08|%s|%s|pending=1|%s", e.kind, crClass(point), symptom)
}

func (e *crEnv) label(point string) string {
	return fmt.Sprintf("%s|%s|pending=1 :: n=%d", e.kind, crClass(point), e.n)
}

// neverEnding is a context that does not end the call: context.Background(), or a deadline far away whose
// cancel func nobody calls before the class has been measured.
func (e *crEnv) neverEnding() (context.Context, string) {
	e.mu.Lock()
	defer e.mu.Unlock()
	e.seq++
	if e.seq%2 == 1 {
		return context.Background(), "background"
	}
	ctx, cancel := context.WithTimeout(context.Background(), 30*time.Minute)
	e.late = append(e.late, cancel)
	return ctx, "far-deadline"
}

// peek takes the call's result if it is there.
func peek(cl *call, d time.Duration) (*callRes, bool) {
	if cl == nil {
		return nil, false
	}
	t := time.NewTimer(d)
	defer t.Stop()
	select {
	case r := <-cl.done:
		return &r, true
	case <-t.C:
		return nil, false
	}
}

// judgeStalled applies the per-call oracle to a call that was stalled when Close ran. res is nil when the call
// had not returned `watchdog` after the peer continued.
func (e *crEnv) judgeStalled(point, target string, res *callRes, endedBy string, detail map[string]interface{}) (outcome string, reopened bool) {
	rep := e.rep
	switch {
	case res == nil:
		parked, fn, stack := parkedInLibrary(leak.Dump(), "main.c08")
		if parked {
			detail["parked_in"], detail["goroutine"] = fn, stack
			rep.Violation(e.sig(point, "blocked-forever"), fmt.Sprintf("%s: the call was stalled at %s when Close ran; the peer then continued (stall released, the server answered), and %s later the call has still not returned; it is parked in %s", e.label(point), point, watchdog, fn), detail)
		} else {
			rep.Inconclusive(e.label(point) + ": watchdog fired but no call is parked in a library frame")
		}
		return "not-returned", false
	case res.Panic != "":
		detail["panic"] = res.Panic
		rep.Violation(e.sig(point, "panic-in-caller"), fmt.Sprintf("%s: panic in the caller's goroutine: %s", e.label(point), res.Panic), detail)
		return "panic", false
	case res.Err != nil:
		rep.Count("errors_returned", 1)
		return "error," + endedBy, false
	}
	good, why := validateAny(*res)
	if !good {
		detail["why"] = why
		rep.Violation(e.sig(point, "partial-or-wrong-result"), fmt.Sprintf("%s: the call returned a value that is not its own complete answer: %s", e.label(point), why), detail)
		return "bad-value", false
	}
	rep.Count("values_complete_answer", 1)
	return "value," + endedBy, target == "init"
}

// cycle: one client, one exchange stalled at the phase's point, Close, the peer continues.
func (e *crEnv) cycle(ph crPhase, t *crTally) {
	rep := e.rep
	rep.Eval(1)
	prefix := nextNonce("cr")
	e.px.SetPlans()
	c, err := newHTTPClient(kit.Kind(e.kind), e.px.URL()+e.in.Path)
	if err != nil {
		rep.Inconclusive("client creation failed: " + err.Error())
		return
	}
	ctx, ctxKind := e.neverEnding()
	pl := ph.mk(prefix)
	abandon := func(why string) {
		rep.Count("closerace_stall_not_reached", 1)
		rep.Inconclusive(fmt.Sprintf("%s: %s", e.label(ph.Name), why))
		pl.Release()
		closeClient(c)
		e.px.CloseConns()
	}
	var cl *call
	switch ph.Target {
	case "init":
		e.px.SetPlans(pl)
		cl = startInit(c, ctx, nil)
	default:
		if ph.Target == "getstream" {
			e.px.SetPlans(pl) // matches the GET only: the handshake itself passes
		}
		hs := startInit(c, ctx, nil)
		if r, ok := hs.await(time.Now().Add(watchdog)); !ok || r.Err != nil || r.Nonce != "initialize:ok" {
			abandon(fmt.Sprintf("handshake through the pass-through relay failed (returned=%v err=%v)", ok, r.Err))
			return
		}
		if ph.Target == "call" {
			if e.kind != string(kit.LSSE) {
				// steady state: the listening stream is up
				dlw := time.Now().Add(5 * time.Second)
				for e.px.FaultStreams("") == 0 && time.Now().Before(dlw) {
					time.Sleep(2 * time.Millisecond)
				}
			}
			e.px.SetPlans(pl)
			extra := map[string]interface{}{"_tool": "necho", "pad_n": 3000}
			if e.kind == string(kit.SSSE) {
				extra["notify_n"] = 2
			}
			cl = startCallTool(c, ctx, nil, prefix+"-0", "payload-"+prefix, extra)
		}
	}
	// the exchange is stalled at the point (or the call ended before it got there)
	var early *callRes
	dlw := time.Now().Add(watchdog)
	for pl.FiredN.Load() == 0 && early == nil && time.Now().Before(dlw) {
		early, _ = peek(cl, 2*time.Millisecond)
		if cl == nil {
			time.Sleep(2 * time.Millisecond)
		}
	}
	if pl.FiredN.Load() == 0 {
		why := "the exchange did not reach the point of the stall"
		if early != nil {
			why += fmt.Sprintf(" (the call ended before: err=%v)", early.Err)
		}
		abandon(why)
		return
	}
	t.stalled++
	rep.Count("closerace_stalls_reached", 1)
	rep.Count("faults_delivered", 1)
	detail := map[string]interface{}{"kind": e.kind, "target": ph.Target, "stalled_at": ph.Name, "caller_context": ctxKind}

	// Close while the exchange is stalled
	okc, took, _ := closeClient(c)
	if !okc {
		parked, fn, stack := parkedInLibrary(leak.Dump(), "main.c08Close")
		if parked {
			rep.Violation(e.sig(ph.Name, "close-hangs"), fmt.Sprintf("%s: Close, called while the exchange was stalled at %s, had not returned after %s; parked in %s", e.label(ph.Name), ph.Name, closeWatchdog, fn), map[string]interface{}{"goroutine": stack, "stalled_at": ph.Name})
		} else {
			rep.Inconclusive(e.label(ph.Name) + ": Close watchdog fired without a library frame")
		}
	}
	rep.Max("close_ms", took.Milliseconds())
	// did Close alone end the call? (evidence only: both are accepted)
	endedBy := "by-close"
	res := early
	if res == nil && cl != nil {
		res, _ = peek(cl, 60*time.Millisecond)
	}
	// the peer continues: the request is forwarded / the answer flows, streams the server opens stay open
	pl.Release()
	rep.Count("closerace_peer_continued_after_close", 1)
	released := time.Now()
	if cl != nil {
		if res == nil {
			endedBy = "when-peer-continued"
			res, _ = peek(cl, time.Until(released.Add(watchdog)))
		}
		outcome, reopened := e.judgeStalled(ph.Name, ph.Target, res, endedBy, detail)
		t.note(outcome)
		if res != nil {
			rep.Max("closerace_return_after_peer_continued_ms", res.Returned.Sub(released).Milliseconds())
		}
		if reopened {
			// The handshake that was under way when Close ran completed afterwards. "After Close ... released,
			// however the calls ended" is read literally: the harness does NOT close a second time, so whatever
			// that handshake still started after Close (a listening stream) counts as left behind.
			rep.Count("closerace_initialize_succeeded_after_close", 1)
		}
		sampleOnce(rep, map[string]interface{}{"kind": e.kind, "target": ph.Target, "stalled_at": ph.Name, "caller_context": ctxKind, "outcome": outcome, "error": errStr(resErr(res))})
	} else {
		t.note("stream-open-abandoned")
	}
	if left := mcp.VerifPendingClientRequests(c.Raw()); left > 0 {
		time.Sleep(50 * time.Millisecond)
		if left = mcp.VerifPendingClientRequests(c.Raw()); left > 0 {
			rep.Violation(e.sig(ph.Name, "pending-entries-left"), fmt.Sprintf("%s: pending-request table holds %d entries after Close and after the call returned", e.label(ph.Name), left), detail)
		}
	}
	// nothing is cut by the harness here: what the client leaves open stays open and is counted
}

func resErr(r *callRes) error {
	if r == nil {
		return nil
	}
	return r.Err
}

func sortedKeys(m map[string]int) []string {
	var ks []string
	for k := range m {
		ks = append(ks, k)
	}
	sort.Strings(ks)
	return ks
}

// judgeGrowth: baseline, after n, after 2n more; a metric that grew both times (and is still there after a
// longer wait) grows with the number of cycles.
func judgeGrowth(rep *vh.Reporter, sigOf func(symptom string) string, label string, n int, x0, x1, x2 map[string]int, again func() map[string]int, witness map[string]interface{}) (leaked bool) {
	var grew []string
	for metric := range x2 {
		if x1[metric] > x0[metric] && x2[metric] > x1[metric] {
			grew = append(grew, metric)
		}
	}
	sort.Strings(grew)
	if len(grew) > 0 {
		x3 := again() // counts at quiescence decide, not the time it took
		var still []string
		for _, metric := range grew {
			if x3[metric] > x1[metric] {
				still = append(still, metric)
			}
		}
		grew, x2 = still, x3
	}
	has := func(metric string) bool {
		for _, g := range grew {
			if g == metric {
				return true
			}
		}
		return false
	}
	for _, metric := range grew {
		if metric == "leak-fds" && (has("leak-connections") || has("leak-connections-seen-by-peer") || has("leak-children")) {
			continue // the sockets / pipes of what leaked: one defect (fds are in the witness)
		}
		if metric == "leak-connections-seen-by-peer" && has("leak-connections") {
			continue // the peer's end of the same connections
		}
		w := map[string]interface{}{"cycles": []int{n, 2 * n}, "levels": map[string]interface{}{"before": x0, "after_n": x1, "after_2n_more": x2}, "dump_excerpt": dumpExcerpt(clientSide, metric)}
		for k, v := range witness {
			w[k] = v
		}
		cycleIs := "exchange stalled, Close, peer continues"
		if s, ok := witness["cycle_is"].(string); ok {
			cycleIs = s
		}
		rep.Violation(sigOf(metric), fmt.Sprintf("%s: %s at quiescence after Close: %d before, %d after %d cycles (%s), %d after %d more - it grows with the number of cycles", label, metric, x0[metric], x1[metric], n, cycleIs, x2[metric], 2*n), w)
		leaked = true
	}
	return leaked
}

func (e *crEnv) runClass(ph crPhase) {
	rep := e.rep
	rep.Progress(fmt.Sprintf("%s target=%s frac=%.4f", e.label(ph.Name), ph.Target, ph.Frac))
	notePoint(rep, e.kind, "client-close", ph.Name, 1)
	rep.SetAdd("closerace_points", e.kind+"|"+ph.Name)
	me := &errEnv{px: e.px}
	e.px.SetPlans()
	e.px.CloseConns()
	var t1, t2 crTally
	m0 := me.measure(nil, 2*time.Second)
	for i := 0; i < e.n; i++ {
		e.cycle(ph, &t1)
	}
	e.px.SetPlans()
	m1 := me.measure(&m0, 3*time.Second)
	for i := 0; i < 2*e.n; i++ {
		e.cycle(ph, &t2)
	}
	e.px.SetPlans()
	m2 := me.measure(&m1, 3*time.Second)
	defer e.px.CloseConns() // the next class starts without this one's residue on the wire
	if t1.stalled < e.n || t2.stalled < 2*e.n {
		rep.Count("fault_not_delivered", 1)
		return // (each cycle that did not get there has said so)
	}
	outcomes := map[string]int{}
	for _, t := range []crTally{t1, t2} {
		for k, v := range t.outcomes {
			outcomes[k] += v
		}
	}
	leaked := judgeGrowth(rep, func(sym string) string { return e.sig(ph.Name, sym) }, e.label(ph.Name), e.n, m0.metrics(), m1.metrics(), m2.metrics(),
		func() map[string]int { m3 := me.measure(&m1, 6*time.Second); return m3.metrics() },
		map[string]interface{}{"kind": e.kind, "target": ph.Target, "stalled_at": ph.Name, "how_the_stalled_calls_ended": outcomes})
	rep.Count("closerace_classes_measured", 1)
	rep.Max("closerace_peer_conn_left_after_class", int64(max0(m2.px-m0.px)))
	for _, o := range sortedKeys(outcomes) {
		rep.Distinct(fmt.Sprintf("%s|%s|%s", e.kind, crClass(ph.Name), o))
	}
	if !leaked {
		rep.Distinct(fmt.Sprintf("%s|%s|no-growth", e.kind, crClass(ph.Name)))
	}
}

// closeRaceBatch: one client kind, the phases of one target group (init | call: the first ordinary call and the
// open of the listening stream).
func closeRaceBatch(rep *vh.Reporter, kind kit.Kind, group string, thorough bool) {
	in := kit.Start(kind, kit.Opts{})
	defer in.Close()
	kit.StdFixture(in)
	registerNecho(in)
	px, err := newProxy(in.TS.Listener.Addr().String())
	if err != nil {
		rep.Inconclusive("proxy: " + err.Error())
		return
	}
	defer px.Close()
	warm(rep, kind, px.URL()+in.Path)
	px.CloseConns()
	closeIdle()
	e := &crEnv{rep: rep, in: in, px: px, kind: string(kind), n: 3}
	if thorough {
		e.n = 8
	}
	for _, ph := range crPhases(kind, thorough) {
		if (ph.Target == "init") != (group == "init") {
			continue
		}
		e.runClass(ph)
	}
	for _, cancel := range e.late {
		cancel()
	}
}

// ---- stdio: Close while the child has not (completely) answered ----

type crStdio struct {
	Point  string // init:pre-answer | init:mid-answer | call:pre-answer | call:mid-answer
	Script string
	Child  string // default | ignores-sigint | lingers
}

func crStdioCases() []crStdio {
	points := []crStdio{
		{Point: "init:pre-answer", Script: "hold-init"}, {Point: "init:mid-answer", Script: "hold-init-mid"},
		{Point: "call:pre-answer", Script: "hold-call"}, {Point: "call:mid-answer", Script: "hold-call-mid"},
	}
	var out []crStdio
	for _, p := range points {
		p.Child = "default"
		out = append(out, p)
	}
	for _, p := range points {
		p.Child = "ignores-sigint"
		out = append(out, p)
	}
	for _, p := range points {
		p.Child = "lingers" // ignores SIGINT and SIGPIPE, stays after the end of its stdin: Close has to kill it
		out = append(out, p)
	}
	return out
}

func closeRaceStdio(rep *vh.Reporter, thorough bool) {
	dir, err := os.MkdirTemp("", "c08-closerace-")
	if err != nil {
		rep.Inconclusive("temp dir: " + err.Error())
		return
	}
	defer os.RemoveAll(dir)
	e := &crEnv{rep: rep, kind: "stdio", n: 2}
	if thorough {
		e.n = 4
	}
	kids := func(prev *levels, max time.Duration) levels {
		p := levels{Lib: map[string]int{}}
		if prev != nil {
			p = *prev
		}
		return settleTo(clientSide, p, max)
	}
	metrics := func(l levels) map[string]int {
		out := map[string]int{"leak-fds": l.FDs, "leak-children": l.Kids}
		for fn, n := range l.Lib {
			out["leak-goroutines("+fn+")"] = n
		}
		return out
	}
	seq := 0
	for _, cs := range crStdioCases() {
		point := cs.Point + "," + cs.Child + "-child"
		rep.Progress(e.label(point))
		notePoint(rep, "stdio", "client-close", point, 1)
		rep.SetAdd("closerace_points", "stdio|"+point)
		var tmu sync.Mutex
		var t crTally
		round := func(k int) {
			// the k clients of a round run side by side (a lingering child costs Close its 5 s grace period)
			var wg sync.WaitGroup
			for i := 0; i < k; i++ {
				seq++
				wg.Add(1)
				go func(id int) {
					defer wg.Done()
					var mine crTally
					e.stdioCycle(cs, point, filepath.Join(dir, fmt.Sprintf("c%d", id)), &mine)
					tmu.Lock()
					t.stalled += mine.stalled
					for o, v := range mine.outcomes {
						for ; v > 0; v-- {
							t.note(o)
						}
					}
					tmu.Unlock()
				}(seq)
			}
			wg.Wait()
		}
		m0 := kids(nil, 2*time.Second)
		round(e.n)
		m1 := kids(&m0, 4*time.Second)
		round(2 * e.n)
		m2 := kids(&m1, 4*time.Second)
		if t.stalled < 3*e.n {
			rep.Count("fault_not_delivered", 1)
			continue
		}
		leaked := judgeGrowth(rep, func(sym string) string { return e.sig(point, sym) }, e.label(point), e.n, metrics(m0), metrics(m1), metrics(m2),
			func() map[string]int { return metrics(kids(&m1, 8*time.Second)) },
			map[string]interface{}{"kind": "stdio", "stalled_at": cs.Point, "child": cs.Child, "how_the_stalled_calls_ended": t.outcomes, "children_now": children()})
		rep.Count("closerace_classes_measured", 1)
		for _, o := range sortedKeys(t.outcomes) {
			rep.Distinct(fmt.Sprintf("stdio|%s|%s", crClass(point), o))
		}
		if !leaked {
			rep.Distinct(fmt.Sprintf("stdio|%s|no-growth", crClass(point)))
		}
	}
	for _, cancel := range e.late {
		cancel()
	}
}

// crStartInit runs Initialize as a pending call against a server that names itself `server`.
func crStartInit(c *kit.LibClient, ctx context.Context, server string) *call {
	cl := &call{nonce: "initialize", done: make(chan callRes, 1), started: time.Now()}
	go c08CrInit(c, ctx, cl, server)
	return cl
}

func c08CrInit(c *kit.LibClient, ctx context.Context, cl *call, server string) {
	res := callRes{Nonce: "initialize"}
	defer func() {
		if p := recover(); p != nil {
			res.Panic = fmt.Sprint(p)
		}
		res.Returned = time.Now()
		cl.done <- res
	}()
	ir, err := c.Initialize(ctx, &mcp.InitializeRequest{})
	res.Err = err
	if err == nil {
		res.Nonce = "initialize:ok"
		if ir == nil || ir.ServerInfo.Name != server {
			res.Nonce = "initialize:bad"
		}
	}
}

func exists(path string) bool {
	_, err := os.Stat(path)
	return err == nil
}

// stdioCycle: the scripted child holds its answer (before / in the middle of the line) and says so with a mark
// file; Close runs; the child is told to continue (go file) while Close is at work - a child that is still
// there then writes the rest and goes on serving.
func (e *crEnv) stdioCycle(cs crStdio, point, base string, t *crTally) {
	rep := e.rep
	rep.Eval(1)
	mark, gofile := base+".stalled", base+".go"
	c, err := kit.NewStdioClient("", map[string]string{vh.ChildEnv: "c08-stdio-script", "C08_SCRIPT": cs.Script, "C08_FRAC": "0.5",
		"C08_CHILD": cs.Child, "C08_MARK": mark, "C08_GO": gofile}, 60*time.Second)
	if err != nil {
		rep.Inconclusive("stdio client: " + err.Error())
		return
	}
	ctx, ctxKind := e.neverEnding()
	abandon := func(why string) {
		rep.Count("closerace_stall_not_reached", 1)
		rep.Inconclusive(fmt.Sprintf("%s: %s", e.label(point), why))
		os.WriteFile(gofile, nil, 0o644)
		closeClient(c)
	}
	var cl *call
	target := "init"
	if strings.HasPrefix(cs.Point, "call:") {
		target = "call"
		hs := crStartInit(c, ctx, "scripted-stdio")
		if r, ok := hs.await(time.Now().Add(20 * time.Second)); !ok || r.Err != nil {
			abandon(fmt.Sprintf("handshake with the scripted child failed (returned=%v err=%v)", ok, r.Err))
			return
		}
		prefix := nextNonce("crs")
		cl = startCallTool(c, ctx, nil, prefix, "payload-"+prefix, map[string]interface{}{"pad_n": 600})
	} else {
		cl = crStartInit(c, ctx, "scripted-stdio")
	}
	var early *callRes
	dlw := time.Now().Add(20 * time.Second)
	for !exists(mark) && early == nil && time.Now().Before(dlw) {
		early, _ = peek(cl, 2*time.Millisecond)
	}
	if !exists(mark) {
		why := "the child did not reach the point of the stall"
		if early != nil {
			why += fmt.Sprintf(" (the call ended before: err=%v)", early.Err)
		}
		abandon(why)
		return
	}
	t.stalled++
	rep.Count("closerace_stalls_reached", 1)
	rep.Count("faults_delivered", 1)
	detail := map[string]interface{}{"kind": "stdio", "target": target, "stalled_at": cs.Point, "child": cs.Child, "caller_context": ctxKind}
	type closed struct {
		ok   bool
		took time.Duration
	}
	cdone := make(chan closed, 1)
	go func() {
		ok, took, _ := closeClient(c)
		cdone <- closed{ok, took}
	}()
	endedBy := "by-close"
	res := early
	if res == nil {
		res, _ = peek(cl, 100*time.Millisecond)
	}
	// the peer continues
	os.WriteFile(gofile, nil, 0o644)
	rep.Count("closerace_peer_continued_after_close", 1)
	cr := <-cdone
	if !cr.ok {
		parked, fn, stack := parkedInLibrary(leak.Dump(), "main.c08Close")
		if parked {
			rep.Violation(e.sig(point, "close-hangs"), fmt.Sprintf("%s: Close, called while the child was holding its answer, had not returned after %s; parked in %s", e.label(point), closeWatchdog, fn), map[string]interface{}{"goroutine": stack, "stalled_at": cs.Point, "child": cs.Child})
		} else {
			rep.Inconclusive(e.label(point) + ": Close watchdog fired without a library frame")
		}
	}
	rep.Max("close_ms", cr.took.Milliseconds())
	if res == nil {
		endedBy = "when-peer-continued-or-close-finished"
		res, _ = peek(cl, watchdog)
	}
	outcome, _ := e.judgeStalled(point, "call", res, endedBy, detail) // a closed stdio client is not reusable: nothing to re-close
	t.note(outcome)
	sampleOnce(rep, map[string]interface{}{"kind": "stdio", "target": target, "stalled_at": cs.Point, "child": cs.Child, "caller_context": ctxKind, "outcome": outcome, "error": errStr(resErr(res)), "close_ms": cr.took.Milliseconds()})
	if left := mcp.VerifPendingClientRequests(c.Raw()); left > 0 {
		time.Sleep(50 * time.Millisecond)
		if left = mcp.VerifPendingClientRequests(c.Raw()); left > 0 {
			rep.Violation(e.sig(point, "pending-entries-left"), fmt.Sprintf("%s: pending-request table holds %d entries after Close and after the call returned", e.label(point), left), detail)
		}
	}
}
