package main

import (
	"context"
	"encoding/json"
	"errors"
	"fmt"
	"net/http"
	"os"
	"sort"
	"strconv"
	"strings"
	"sync/atomic"
	"time"

	mcp "trpc.group/trpc-go/trpc-mcp-go"

	"verifharness/lib/kit"
	"verifharness/lib/leak"
	"verifharness/lib/vh"
)

const (
	watchdog      = 10 * time.Second // a pending call must have returned this long after the fault / cancel
	closeWatchdog = 12 * time.Second // Close must have returned (stdio waits 5 s for the child by design)
	callDeadline  = 6 * time.Second  // context deadline of calls under connection faults (below the watchdog)
	stallDeadline = 1200 * time.Millisecond
)

var nonceSeq atomic.Int64

func nextNonce(p string) string { return fmt.Sprintf("%s-%d-%d", p, os.Getpid(), nonceSeq.Add(1)) }

// callRes is what one client call ended with.
type callRes struct {
	Nonce    string
	Payload  string
	PadN     int
	Val      *mcp.CallToolResult
	Err      error
	Panic    string
	Returned time.Time
}

// call is one pending client call.
type call struct {
	nonce   string
	payload string
	padN    int
	done    chan callRes
	started time.Time
	cancel  context.CancelFunc
}

// startCall issues one echo call in its own goroutine; a panic in the CALLER's goroutine is recovered and
// recorded (a panic in a goroutine of the library kills the process and is observed by the parent).
func startCall(c *kit.LibClient, ctx context.Context, cancel context.CancelFunc, nonce, payload string, extra map[string]interface{}) *call {
	cl := &call{nonce: nonce, payload: payload, done: make(chan callRes, 1), started: time.Now(), cancel: cancel}
	args := map[string]interface{}{"nonce": nonce, "payload": payload}
	for k, v := range extra {
		args[k] = v
		if k == "pad_n" {
			cl.padN, _ = v.(int)
		}
	}
	go c08Call(c, ctx, cl, args)
	return cl
}

// c08Call is the frame the blocked-forever oracle looks for in a goroutine dump.
func c08Call(c *kit.LibClient, ctx context.Context, cl *call, args map[string]interface{}) {
	res := callRes{Nonce: cl.nonce, Payload: cl.payload, PadN: cl.padN}
	defer func() {
		if p := recover(); p != nil {
			res.Panic = fmt.Sprint(p)
		}
		res.Returned = time.Now()
		cl.done <- res
	}()
	rq := &mcp.CallToolRequest{}
	rq.Params.Name = "echo"
	rq.Params.Arguments = args
	res.Val, res.Err = c.CallTool(ctx, rq)
}

// await waits for the call until `until`; ok=false when the watchdog fired.
func (cl *call) await(until time.Time) (callRes, bool) {
	d := time.Until(until)
	if d < 0 {
		d = 0
	}
	select {
	case r := <-cl.done:
		return r, true
	case <-time.After(d):
		return callRes{Nonce: cl.nonce}, false
	}
}

// validate says whether a returned value is the call's own complete answer.
func validate(r callRes) (bool, string) {
	if r.Val == nil {
		return false, "nil result without error"
	}
	if r.Val.IsError {
		return false, "isError result"
	}
	if len(r.Val.Content) != 1 {
		return false, fmt.Sprintf("%d content items", len(r.Val.Content))
	}
	var text string
	switch t := r.Val.Content[0].(type) {
	case mcp.TextContent:
		text = t.Text
	case *mcp.TextContent:
		text = t.Text
	default:
		return false, fmt.Sprintf("content type %T", t)
	}
	var a kit.EchoAnswer
	if err := json.Unmarshal([]byte(text), &a); err != nil {
		return false, "answer text is not the echo JSON: " + clip(text, 200)
	}
	switch {
	case a.Nonce != r.Nonce:
		return false, fmt.Sprintf("nonce %q, want %q (another call's answer)", a.Nonce, r.Nonce)
	case a.Digest != kit.Digest(r.Payload):
		return false, "digest differs"
	case a.Len != len(r.Payload):
		return false, fmt.Sprintf("len %d, want %d", a.Len, len(r.Payload))
	case len(a.Pad) != r.PadN:
		return false, fmt.Sprintf("pad has %d bytes, want %d (partial answer)", len(a.Pad), r.PadN)
	case strings.Trim(a.Pad, "p") != "":
		return false, "pad corrupted"
	}
	return true, ""
}

func isCtxErr(err error) bool {
	if err == nil {
		return false
	}
	if errors.Is(err, context.Canceled) || errors.Is(err, context.DeadlineExceeded) {
		return true
	}
	s := err.Error()
	return strings.Contains(s, "context canceled") || strings.Contains(s, "deadline exceeded")
}

func isDeadlineErr(err error) bool {
	if err == nil {
		return false
	}
	return errors.Is(err, context.DeadlineExceeded) || strings.Contains(err.Error(), "deadline exceeded")
}

func clip(s string, n int) string {
	if len(s) > n {
		return s[:n] + fmt.Sprintf("...(%d bytes)", len(s))
	}
	return s
}

func errStr(err error) string {
	if err == nil {
		return ""
	}
	return clip(err.Error(), 300)
}

// parkedInLibrary looks for goroutines running our call wrapper (or `marker`) that sit in a library frame.
func parkedInLibrary(dump, marker string) (bool, string, string) {
	for _, g := range leak.Parse(dump) {
		has := false
		for _, f := range g.Funcs {
			if strings.Contains(f, marker) {
				has = true
				break
			}
		}
		if has && g.LibTop != "" {
			return true, g.LibTop, clip(g.Raw, 1800)
		}
	}
	return false, "", ""
}

// ---- leak levels ----

type levels struct {
	Lib  map[string]int // goroutines by innermost library function (only the side under test)
	Conn int            // net/http client persistConn read loops
	FDs  int
	Kids int // child processes of this process (zombies included)
}

func (l levels) libTotal() int {
	n := 0
	for _, v := range l.Lib {
		n += v
	}
	return n
}

func clientSide(fn string) bool {
	return strings.Contains(fn, "ClientTransport") || strings.HasPrefix(fn, "(*Client)") || strings.HasPrefix(fn, "(*StdioClient)") ||
		strings.HasPrefix(fn, "created-by:(*stdioClientTransport)") || strings.HasPrefix(fn, "created-by:(*sseClientTransport)") || strings.HasPrefix(fn, "created-by:(*streamableHTTPClientTransport)") || strings.HasPrefix(fn, "created-by:(*Client)")
}

func measure(side func(string) bool) levels {
	gs := leak.Parse(leak.Dump())
	_, by := leak.Lib(gs)
	l := levels{Lib: map[string]int{}, Conn: leak.HTTPConn(gs), FDs: leak.FDs(), Kids: len(children())}
	for fn, n := range by {
		if side == nil || side(fn) {
			l.Lib[fn] = n
		}
	}
	return l
}

func (l levels) leq(o levels) bool {
	if l.Conn > o.Conn || l.FDs > o.FDs || l.Kids > o.Kids {
		return false
	}
	for fn, n := range l.Lib {
		if n > o.Lib[fn] {
			return false
		}
	}
	return true
}

func (l levels) same(o levels) bool { return l.leq(o) && o.leq(l) }

// settleTo polls the levels until they are at or below `prev`, or stable for ~0.3 s, or `max` elapsed.
// Time is never the judge: the value returned is a count at quiescence.
func settleTo(side func(string) bool, prev levels, max time.Duration) levels {
	deadline := time.Now().Add(max)
	last := measure(side)
	stable := 0
	for {
		if last.leq(prev) || !time.Now().Before(deadline) {
			return last
		}
		time.Sleep(20 * time.Millisecond)
		cur := measure(side)
		if cur.same(last) {
			stable++
			if stable >= 15 {
				return cur
			}
		} else {
			stable = 0
		}
		last = cur
	}
}

// children lists the child processes of this process ("pid:state"), zombies included.
func children() []string {
	self := os.Getpid()
	ents, err := os.ReadDir("/proc")
	if err != nil {
		return nil
	}
	var out []string
	for _, e := range ents {
		pid, err := strconv.Atoi(e.Name())
		if err != nil {
			continue
		}
		b, err := os.ReadFile("/proc/" + e.Name() + "/stat")
		if err != nil {
			continue
		}
		s := string(b)
		i := strings.LastIndex(s, ")")
		if i < 0 {
			continue
		}
		f := strings.Fields(s[i+1:])
		if len(f) < 2 {
			continue
		}
		ppid, _ := strconv.Atoi(f[1])
		if ppid == self {
			out = append(out, fmt.Sprintf("%d:%s", pid, f[0]))
		}
	}
	return out
}

// growth is what one case added to the levels at quiescence.
type growth struct {
	Pending int            `json:"pending"`
	Calls   int            `json:"calls"`
	Lib     map[string]int `json:"lib,omitempty"`
	Conn    int            `json:"conn,omitempty"`
	FDs     int            `json:"fds,omitempty"`
	Kids    int            `json:"kids,omitempty"`
}

// leakTracker attributes level growth to case classes and judges by counts over several cases of a class.
type leakTracker struct {
	rep     *vh.Reporter
	who     string // client / server kind for the signature
	side    func(string) bool
	start   levels
	cur     levels
	order   []string
	classes map[string][]growth
	// control classes (no fault injected): what leaks there and also in a fault class of the same batch
	// is one defect and is reported once, under the fault class
	control map[string]bool
}

func newLeakTracker(rep *vh.Reporter, who string, side func(string) bool) *leakTracker {
	lt := &leakTracker{rep: rep, who: who, side: side, classes: map[string][]growth{}}
	lt.start = settleTo(side, levels{Lib: map[string]int{}}, 600*time.Millisecond)
	lt.cur = lt.start
	return lt
}

// after records the growth one case of `class` (e.g. "close@pre-request") caused.
func (lt *leakTracker) after(class string, pending, calls int) growth {
	now := settleTo(lt.side, lt.cur, 1500*time.Millisecond)
	g := growth{Pending: pending, Calls: calls, Conn: now.Conn - lt.cur.Conn, FDs: now.FDs - lt.cur.FDs, Kids: now.Kids - lt.cur.Kids, Lib: map[string]int{}}
	for fn, n := range now.Lib {
		if d := n - lt.cur.Lib[fn]; d != 0 {
			g.Lib[fn] = d
		}
	}
	for fn, n := range lt.cur.Lib {
		if _, ok := now.Lib[fn]; !ok && n != 0 {
			g.Lib[fn] = -n
		}
	}
	if _, ok := lt.classes[class]; !ok {
		lt.order = append(lt.order, class)
	}
	lt.classes[class] = append(lt.classes[class], g)
	lt.cur = now
	return g
}

// finish judges: a metric leaks in a class when it grew in at least two cases of the class (growth with the
// number of calls / clients, not a constant offset) and the growth is still there at the end of the batch.
func (lt *leakTracker) finish(pendingOf func(class string) string) {
	end := settleTo(lt.side, lt.start, 3*time.Second)
	left := levels{Lib: map[string]int{}, Conn: end.Conn - lt.start.Conn, FDs: end.FDs - lt.start.FDs, Kids: end.Kids - lt.start.Kids}
	for fn, n := range end.Lib {
		left.Lib[fn] = n - lt.start.Lib[fn]
	}
	lt.rep.Max("leftover_conn_at_batch_end", int64(max0(left.Conn)))
	lt.rep.Max("leftover_fds_at_batch_end", int64(max0(left.FDs)))
	reported := map[string]bool{}
	total := map[string]int{} // metric -> cases with growth over the whole batch
	for _, class := range lt.order {
		for _, g := range lt.classes[class] {
			for fn, d := range g.Lib {
				if d > 0 {
					total["leak-goroutines("+fn+")"]++
				}
			}
			if g.Kids > 0 {
				total["leak-children"]++
			}
		}
	}
	defer func() {
		// sporadic leaks: growth in two or more cases of DIFFERENT classes, still there at the end
		var ms []string
		for m := range total {
			ms = append(ms, m)
		}
		sort.Strings(ms)
		for _, metric := range ms {
			if reported[metric] || total[metric] < 2 {
				continue
			}
			still := left.Kids
			if metric != "leak-children" {
				still = left.Lib[strings.TrimSuffix(strings.TrimPrefix(metric, "leak-goroutines("), ")")]
			}
			if still < 2 {
				continue
			}
			lt.rep.Violation(fmt.Sprintf("C08|%s|any@sporadic|pending=n|%s", lt.who, metric), fmt.Sprintf("%s: %s grew in %d cases of different classes and %d are still there after every client was closed, at quiescence", lt.who, metric, total[metric], still),
				map[string]interface{}{"left_at_batch_end": left.Lib, "children": left.Kids, "dump_excerpt": dumpExcerpt(lt.side, metric)})
		}
	}()
	var ordered []string
	for _, class := range lt.order {
		if !lt.control[class] {
			ordered = append(ordered, class)
		}
	}
	for _, class := range lt.order {
		if lt.control[class] {
			ordered = append(ordered, class)
		}
	}
	for _, class := range ordered {
		gs := lt.classes[class]
		type acc struct{ cases, sum int }
		m := map[string]*acc{}
		add := func(metric string, d int) {
			a := m[metric]
			if a == nil {
				a = &acc{}
				m[metric] = a
			}
			if d > 0 {
				a.cases++
			}
			a.sum += d
		}
		calls := 0
		for _, g := range gs {
			calls += g.Calls
			add("leak-connections", g.Conn)
			add("leak-fds", g.FDs)
			add("leak-children", g.Kids)
			for fn, d := range g.Lib {
				add("leak-goroutines("+fn+")", d)
			}
		}
		var metrics []string
		for k := range m {
			metrics = append(metrics, k)
		}
		sort.Strings(metrics)
		for _, metric := range metrics {
			a := m[metric]
			if a.cases < 2 || a.sum < 2 {
				continue
			}
			// still there at the end of the batch?
			still := 0
			switch {
			case metric == "leak-connections":
				still = left.Conn
			case metric == "leak-fds":
				still = left.FDs
			case metric == "leak-children":
				still = left.Kids
			default:
				fn := strings.TrimSuffix(strings.TrimPrefix(metric, "leak-goroutines("), ")")
				still = left.Lib[fn]
			}
			if still <= 0 {
				continue
			}
			if metric == "leak-fds" && m["leak-connections"] != nil && m["leak-connections"].cases >= 2 && m["leak-connections"].sum >= 2 {
				// the sockets of the leaked connections: one defect, reported as leak-connections (fds in the witness)
				continue
			}
			if lt.control[class] && reported[metric] {
				lt.rep.Count("control_class_shows_same_leak", 1)
				continue
			}
			reported[metric] = true
			sig := fmt.Sprintf("C08|%s|%s|pending=%s|%s", lt.who, class, pendingOf(class), metric)
			lt.rep.Violation(sig, fmt.Sprintf("%s %s: %s grew in %d of %d cases of this class (+%d in total over %d calls) and is still above the pre-test baseline after Close and at quiescence", lt.who, class, metric, a.cases, len(gs), a.sum, calls),
				map[string]interface{}{"growth_per_case": gs, "left_at_batch_end": map[string]interface{}{"goroutines": left.Lib, "conn": left.Conn, "fds": left.FDs, "children": left.Kids}, "dump_excerpt": dumpExcerpt(lt.side, metric)})
		}
	}
}

func max0(n int) int {
	if n < 0 {
		return 0
	}
	return n
}

// dumpExcerpt returns up to three goroutine stacks illustrating a leak metric.
func dumpExcerpt(side func(string) bool, metric string) []string {
	var out []string
	for _, g := range leak.Parse(leak.Dump()) {
		show := false
		switch {
		case strings.HasPrefix(metric, "leak-goroutines("):
			fn := strings.TrimSuffix(strings.TrimPrefix(metric, "leak-goroutines("), ")")
			show = g.LibTop == fn
		case metric == "leak-connections" || metric == "leak-fds":
			for _, f := range g.Funcs {
				if strings.Contains(f, "net/http.(*persistConn).readLoop") || strings.Contains(f, "net/http.(*persistConn).writeLoop") {
					show = true
				}
			}
		}
		if show {
			out = append(out, clip(g.Raw, 1500))
			if len(out) >= 3 {
				break
			}
		}
	}
	return out
}

func closeIdle() {
	if tr, ok := http.DefaultTransport.(*http.Transport); ok {
		tr.CloseIdleConnections()
	}
	closeRegisteredIdle(false) // the transports of user-level request handlers (spawnrace.go)
}

// closeClient runs Close under the watchdog; returns whether it returned, how long it took and its error.
func closeClient(c *kit.LibClient) (bool, time.Duration, error) {
	done := make(chan error, 1)
	t0 := time.Now()
	go c08Close(c, done)
	select {
	case err := <-done:
		return true, time.Since(t0), err
	case <-time.After(closeWatchdog):
		return false, time.Since(t0), nil
	}
}

func c08Close(c *kit.LibClient, done chan error) {
	defer func() {
		if p := recover(); p != nil {
			done <- fmt.Errorf("panic in Close: %v", p)
		}
	}()
	done <- c.Close()
}

// notePoint records the matrix actually covered: one set per (kind, fault kind) holding the points.
func notePoint(rep *vh.Reporter, kind, fault, point string, pending int) {
	if i := strings.Index(point, ":"); i > 0 && strings.HasPrefix(point[i+1:], point[:i+1]) {
		point = point[i+1:] // "init:init:pre-request" -> "init:pre-request"
	}
	rep.SetAdd("fault_points", kind+"|"+fault+"@"+point)
	rep.SetAdd("points|"+kind+"|"+fault, point)
	rep.SetAdd("transports", kind)
	rep.SetAdd("fault_kinds", fault)
	rep.SetAdd("pending_counts", fmt.Sprint(pending))
	rep.Count("cases_"+fault, 1)
}

var (
	sampleSeq atomic.Int64
	sampleAt  int64 = 1 // which case of this child is written out as a sample (set per batch)
)

// sampleOnce keeps one case of this child as a written-out sample.
func sampleOnce(rep *vh.Reporter, v interface{}) {
	if sampleSeq.Add(1) == sampleAt {
		rep.Sample(v)
	}
}

// pendings are the numbers of calls pending when the fault hits (thorough adds 32).
var pendings = []int{1, 2, 8}
