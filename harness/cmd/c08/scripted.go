package main

import (
	"bufio"
	"encoding/json"
	"fmt"
	"io"
	"net"
	"os"
	"os/signal"
	"strconv"
	"strings"
	"sync"
	"sync/atomic"
	"syscall"
	"time"

	"verifharness/lib/kit"
)

// Scripted is a raw-TCP HTTP/1.1 server speaking just enough Streamable HTTP for a library client:
// initialize is answered in JSON without a session id (the client then runs stateless: no GET stream),
// notifications get 202, tools/call of echo is answered as a hand-written chunked SSE response whose
// TERMINATING CHUNK can be delayed after the final event or withheld — what any real network may do.
type Scripted struct {
	ln        net.Listener
	TermDelay time.Duration // wait between the final event and "0\r\n\r\n"
	TermNever bool          // withhold the terminating chunk until Release
	release   chan struct{}
	relOnce   sync.Once
	mu        sync.Mutex
	conns     map[net.Conn]struct{}
	Answers   atomic.Int64 // final events written
	Terms     atomic.Int64 // terminating chunks written
}

func newScripted() (*Scripted, error) {
	ln, err := net.Listen("tcp", "127.0.0.1:0")
	if err != nil {
		return nil, err
	}
	s := &Scripted{ln: ln, release: make(chan struct{}), conns: map[net.Conn]struct{}{}}
	go func() {
		for {
			c, err := ln.Accept()
			if err != nil {
				return
			}
			s.mu.Lock()
			s.conns[c] = struct{}{}
			s.mu.Unlock()
			go s.serve(c)
		}
	}()
	return s, nil
}

func (s *Scripted) URL() string { return "http://" + s.ln.Addr().String() + "/mcp" }

func (s *Scripted) Release() { s.relOnce.Do(func() { close(s.release) }) }

func (s *Scripted) Close() {
	s.Release()
	s.ln.Close()
	s.mu.Lock()
	for c := range s.conns {
		c.Close()
	}
	s.mu.Unlock()
}

func (s *Scripted) NConns() int {
	s.mu.Lock()
	defer s.mu.Unlock()
	return len(s.conns)
}

func echoText(args map[string]interface{}) string {
	nonce, _ := args["nonce"].(string)
	payload, _ := args["payload"].(string)
	ans := kit.EchoAnswer{Nonce: nonce, Digest: kit.Digest(payload), Len: len(payload)}
	if n, ok := args["pad_n"].(float64); ok && n > 0 {
		ans.Pad = strings.Repeat("p", int(n))
	}
	b, _ := json.Marshal(ans)
	return string(b)
}

func (s *Scripted) serve(c net.Conn) {
	defer func() {
		c.Close()
		s.mu.Lock()
		delete(s.conns, c)
		s.mu.Unlock()
	}()
	br := bufio.NewReader(c)
	for {
		head, err := readHead(br)
		if err != nil {
			return
		}
		var body []byte
		if cl := headerOf(head, "Content-Length"); cl != "" {
			n, _ := strconv.Atoi(cl)
			body = make([]byte, n)
			if _, err := io.ReadFull(br, body); err != nil {
				return
			}
		}
		if !strings.HasPrefix(string(head), "POST ") {
			fmt.Fprintf(c, "HTTP/1.1 405 Method Not Allowed\r\nContent-Length: 0\r\n\r\n")
			continue
		}
		var m struct {
			ID     json.RawMessage `json:"id"`
			Method string          `json:"method"`
			Params struct {
				Arguments map[string]interface{} `json:"arguments"`
			} `json:"params"`
		}
		json.Unmarshal(body, &m)
		switch {
		case m.Method == "initialize":
			b := fmt.Sprintf(`{"jsonrpc":"2.0","id":%s,"result":{"protocolVersion":"2025-03-26","capabilities":{"tools":{}},"serverInfo":{"name":"scripted","version":"1"}}}`, m.ID)
			fmt.Fprintf(c, "HTTP/1.1 200 OK\r\nContent-Type: application/json\r\nContent-Length: %d\r\n\r\n%s", len(b), b)
		case m.ID == nil:
			fmt.Fprintf(c, "HTTP/1.1 202 Accepted\r\nContent-Length: 0\r\n\r\n")
		default:
			text, _ := json.Marshal(echoText(m.Params.Arguments))
			ev := fmt.Sprintf("id: 1\ndata: {\"jsonrpc\":\"2.0\",\"id\":%s,\"result\":{\"content\":[{\"type\":\"text\",\"text\":%s}]}}\n\n", m.ID, text)
			fmt.Fprintf(c, "HTTP/1.1 200 OK\r\nContent-Type: text/event-stream\r\nCache-Control: no-cache\r\nTransfer-Encoding: chunked\r\n\r\n")
			fmt.Fprintf(c, "%x\r\n%s\r\n", len(ev), ev)
			s.Answers.Add(1)
			if s.TermNever {
				// while the terminating chunk is withheld, notice the client going away (no request can
				// arrive before the response is complete: a readable / closed socket means EOF or reset)
				gone := make(chan struct{})
				go func() {
					br.Peek(1)
					close(gone)
				}()
				select {
				case <-s.release:
					fmt.Fprintf(c, "0\r\n\r\n")
				case <-gone:
				}
				return
			} else if s.TermDelay > 0 {
				select {
				case <-time.After(s.TermDelay):
				case <-s.release:
				}
			}
			if _, err := fmt.Fprintf(c, "0\r\n\r\n"); err != nil {
				return
			}
			s.Terms.Add(1)
		}
	}
}

// ---- scripted stdio server child (byte-level control over stdout) ----
//
// C08_SCRIPT: partial-exit | partial-closeout | partial-stall | noeol-exit | pre-exit | pre-closeout
//
//	hold-init | hold-init-mid | hold-call | hold-call-mid: the answer to initialize / to the first tools/call is
//	held back (before its first byte / after C08_FRAC of the line) until the file C08_GO exists; the file
//	C08_MARK is created when the hold begins. Afterwards the child goes on serving.
//
//	serve: answers initialize, nothing else. slow-start: the same, but the child first reports that it is starting
//	up (C08_MARK) and does not read its stdin before the file C08_GO exists.
//
// C08_FRAC:   fraction of the answer line written before the fault (partial-*, hold-*-mid)
// C08_CHILD:  default | ignores-sigint | lingers (ignores SIGINT and SIGPIPE and stays after the end of its stdin)
func stdioScriptChild() {
	mode := os.Getenv("C08_SCRIPT")
	frac, _ := strconv.ParseFloat(os.Getenv("C08_FRAC"), 64)
	mark, gofile := os.Getenv("C08_MARK"), os.Getenv("C08_GO")
	parent := os.Getppid()
	orphaned := func() bool { return os.Getppid() != parent }
	switch os.Getenv("C08_CHILD") {
	case "ignores-sigint":
		signal.Ignore(syscall.SIGINT)
	case "lingers":
		signal.Ignore(syscall.SIGINT, syscall.SIGPIPE)
	}
	// held writes the line with a hold before its first byte (mid=false) or after frac of it
	held := func(ans string, mid bool) {
		cut := 0
		if mid {
			cut = int(frac * float64(len(ans)))
			if cut < 1 {
				cut = 1
			}
			if cut >= len(ans) {
				cut = len(ans) - 1
			}
			os.Stdout.WriteString(ans[:cut])
		}
		if mark != "" {
			os.WriteFile(mark, nil, 0o644)
		}
		for t0 := time.Now(); gofile != "" && time.Since(t0) < 90*time.Second && !orphaned(); time.Sleep(3 * time.Millisecond) {
			if _, err := os.Stat(gofile); err == nil {
				break
			}
		}
		os.Stdout.WriteString(ans[cut:] + "\n")
	}
	if mode == "slow-start" {
		// still starting up: says so (mark file) and does not look at its stdin until it is told to go on
		if mark != "" {
			os.WriteFile(mark, nil, 0o644)
		}
		for t0 := time.Now(); gofile != "" && time.Since(t0) < 90*time.Second && !orphaned(); time.Sleep(3 * time.Millisecond) {
			if _, err := os.Stat(gofile); err == nil {
				break
			}
		}
	}
	heldCall := false
	rd := bufio.NewReaderSize(os.Stdin, 1<<20)
	faulted := false
	for {
		line, err := rd.ReadBytes('\n')
		if err != nil {
			if os.Getenv("C08_CHILD") == "lingers" {
				// stays although its stdin ended: only a kill ends it (bounded, and not beyond its parent's life)
				for t0 := time.Now(); time.Since(t0) < 90*time.Second && !orphaned(); {
					time.Sleep(20 * time.Millisecond)
				}
			}
			return
		}
		var m struct {
			ID     json.RawMessage `json:"id"`
			Method string          `json:"method"`
			Params struct {
				Arguments map[string]interface{} `json:"arguments"`
			} `json:"params"`
		}
		if json.Unmarshal(line, &m) != nil {
			continue
		}
		switch {
		case m.Method == "initialize" && (mode == "hold-init" || mode == "hold-init-mid"):
			held(fmt.Sprintf(`{"jsonrpc":"2.0","id":%s,"result":{"protocolVersion":"2025-03-26","capabilities":{"tools":{}},"serverInfo":{"name":"scripted-stdio","version":"1"}}}`, m.ID), mode == "hold-init-mid")
		case m.Method == "initialize":
			fmt.Fprintf(os.Stdout, `{"jsonrpc":"2.0","id":%s,"result":{"protocolVersion":"2025-03-26","capabilities":{"tools":{}},"serverInfo":{"name":"scripted-stdio","version":"1"}}}`+"\n", m.ID)
		case m.Method == "tools/call" && strings.HasPrefix(mode, "hold-"):
			text, _ := json.Marshal(echoText(m.Params.Arguments))
			ans := fmt.Sprintf(`{"jsonrpc":"2.0","id":%s,"result":{"content":[{"type":"text","text":%s}]}}`, m.ID, text)
			if !heldCall && (mode == "hold-call" || mode == "hold-call-mid") {
				heldCall = true
				held(ans, mode == "hold-call-mid")
			} else {
				os.Stdout.WriteString(ans + "\n")
			}
		case m.Method == "tools/call":
			if faulted {
				continue // the other pending calls are never answered
			}
			if _, slow := m.Params.Arguments["late"]; slow {
				continue
			}
			faulted = true
			text, _ := json.Marshal(echoText(m.Params.Arguments))
			ans := fmt.Sprintf(`{"jsonrpc":"2.0","id":%s,"result":{"content":[{"type":"text","text":%s}]}}`, m.ID, text)
			cut := int(frac * float64(len(ans)))
			if cut < 1 {
				cut = 1
			}
			if cut >= len(ans) {
				cut = len(ans) - 1
			}
			// give the other pending calls time to be written to our stdin (they are read but never answered)
			time.Sleep(150 * time.Millisecond)
			switch mode {
			case "partial-exit":
				os.Stdout.WriteString(ans[:cut])
				os.Exit(0)
			case "partial-closeout":
				os.Stdout.WriteString(ans[:cut])
				os.Stdout.Close()
			case "partial-stall":
				os.Stdout.WriteString(ans[:cut])
			case "noeol-exit":
				os.Stdout.WriteString(ans)
				os.Exit(0)
			case "pre-exit":
				os.Exit(3)
			case "pre-closeout":
				os.Stdout.Close()
			}
		}
	}
}
