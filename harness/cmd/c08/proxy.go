package main

import (
	"bufio"
	"bytes"
	"fmt"
	"io"
	"net"
	"strconv"
	"strings"
	"sync"
	"sync/atomic"
	"time"
)

// Proxy is a TCP fault proxy that understands just enough HTTP/1.1 to find message boundaries:
// request head / body, response head, Content-Length or chunked body, SSE events inside chunks and the
// terminating chunk. One upstream connection per accepted connection; exchanges are sequential.
type Proxy struct {
	ln     net.Listener
	target string
	mu     sync.Mutex
	plans  []*Plan
	conns  map[*pconn]struct{}
	closed bool
	status map[int]int // HTTP statuses of the answers that reached the client (relayed or canned)

	Exchanges atomic.Int64
}

// Plan is a fault to inject into matching exchanges.
type Plan struct {
	ReqMethod    string // "" = any
	ReqContains  string // substring of the request (head + body); "" = any
	DataContains string // stream-data point: substring of a response chunk

	Kind  string  // close | rst | stall | delay | hold | answer
	Point string  // pre-request | mid-request | post-request | resp-head-mid | resp-headers | resp-body-mid | event-k | pre-term | stream-data | answer
	// Answer (Kind "answer"): the proxy answers the matching request itself, as a gateway / load balancer /
	// auth layer in front of the server does, instead of relaying it. No barrier: every matching exchange
	// (up to Count) is answered as it comes.
	Answer *Canned
	Frac  float64 // byte offset as a fraction of the unit the point names (request / head / body or chunk)
	Abs   int     // absolute offset instead of Frac when > 0; -1 = after the complete unit (stream-data)
	K     int     // event-k: after the K-th complete SSE event; resp-body-mid on chunked bodies: inside the K-th chunk (1-based)
	Delay time.Duration
	Count int // exchanges to hit; all of them wait for each other at the point (n calls pending at once)

	mu       sync.Mutex
	matched  int
	arrived  int
	barrier  chan struct{}
	fired    chan struct{}
	firedOne sync.Once
	FiredAt  atomic.Int64 // unix nanos of the first delivery
	FiredN   atomic.Int32
	release  chan struct{}
	relOnce  sync.Once
}

// Canned is a complete (or deliberately never completed) HTTP/1.1 answer.
type Canned struct {
	Status  int
	Headers []string // "Name: value"
	Body    []byte
	// Framing: length (Content-Length) | chunked (terminated) | unfinished (chunked, the terminating chunk
	// never comes) | none (no body: Content-Length 0, nothing at all for 204/304) | eof (body ends with the connection)
	// | head-unfinished (status line and headers without the blank line that ends them) | no-answer (the request
	// is taken and not a byte comes back)
	Framing string
}

func (pl *Plan) init() {
	if pl.Count <= 0 {
		pl.Count = 1
	}
	pl.barrier = make(chan struct{})
	pl.fired = make(chan struct{})
	pl.release = make(chan struct{})
}

// Release lets exchanges held by a "hold" plan continue.
func (pl *Plan) Release() {
	if pl.release == nil {
		return // never installed
	}
	pl.relOnce.Do(func() { close(pl.release) })
}

// AwaitFired waits until the fault was delivered to all Count exchanges (or d elapsed); returns the number delivered.
func (pl *Plan) AwaitFired(d time.Duration) int {
	deadline := time.Now().Add(d)
	for int(pl.FiredN.Load()) < pl.Count && time.Now().Before(deadline) {
		time.Sleep(2 * time.Millisecond)
	}
	return int(pl.FiredN.Load())
}

func (pl *Plan) firedTime() time.Time {
	n := pl.FiredAt.Load()
	if n == 0 {
		return time.Time{}
	}
	return time.Unix(0, n)
}

// arrive blocks until all Count exchanges reached the point (bounded), so that n calls are pending at once.
func (pl *Plan) arrive(quit <-chan struct{}) {
	pl.mu.Lock()
	pl.arrived++
	if pl.arrived >= pl.Count {
		select {
		case <-pl.barrier:
		default:
			close(pl.barrier)
		}
	}
	pl.mu.Unlock()
	select {
	case <-pl.barrier:
	case <-quit:
	case <-time.After(4 * time.Second):
	}
}

func (pl *Plan) markFired() {
	pl.FiredAt.CompareAndSwap(0, time.Now().UnixNano())
	pl.FiredN.Add(1)
	pl.firedOne.Do(func() { close(pl.fired) })
}

type pconn struct {
	px       *Proxy
	cli, up  net.Conn
	quit     chan struct{}
	quitOnce sync.Once
	stalled  atomic.Bool
	isStream atomic.Bool // a GET event stream is being relayed
	reqLine  atomic.Value
}

func newProxy(target string) (*Proxy, error) {
	ln, err := net.Listen("tcp", "127.0.0.1:0")
	if err != nil {
		return nil, err
	}
	px := &Proxy{ln: ln, target: target, conns: map[*pconn]struct{}{}}
	go px.acceptLoop()
	return px, nil
}

// URL is the base URL clients connect to.
func (px *Proxy) URL() string { return "http://" + px.ln.Addr().String() }

func (px *Proxy) acceptLoop() {
	for {
		c, err := px.ln.Accept()
		if err != nil {
			return
		}
		go px.serve(c)
	}
}

// SetPlans replaces the fault plans.
func (px *Proxy) SetPlans(pls ...*Plan) {
	for _, p := range pls {
		p.init()
	}
	px.mu.Lock()
	px.plans = pls
	px.mu.Unlock()
}

func (px *Proxy) claim(method string, req []byte) *Plan {
	px.mu.Lock()
	defer px.mu.Unlock()
	for _, pl := range px.plans {
		if pl.Point == "stream-data" {
			continue // looked up per chunk by the connection relaying the stream
		}
		if pl.ReqMethod != "" && pl.ReqMethod != method {
			continue
		}
		if pl.ReqContains != "" && !bytes.Contains(req, []byte(pl.ReqContains)) {
			continue
		}
		pl.mu.Lock()
		ok := pl.matched < pl.Count
		if ok {
			pl.matched++
		}
		pl.mu.Unlock()
		if ok {
			return pl
		}
	}
	return nil
}

// claimStream finds a stream-data plan for a chunk of a GET event stream.
func (px *Proxy) claimStream(payload []byte) *Plan {
	px.mu.Lock()
	defer px.mu.Unlock()
	for _, pl := range px.plans {
		if pl.Point != "stream-data" || pl.DataContains == "" || !bytes.Contains(payload, []byte(pl.DataContains)) {
			continue
		}
		pl.mu.Lock()
		ok := pl.matched < pl.Count
		if ok {
			pl.matched++
		}
		pl.mu.Unlock()
		if ok {
			return pl
		}
	}
	return nil
}

// CloseConns cuts every relayed connection (end of a case).
func (px *Proxy) CloseConns() {
	px.mu.Lock()
	var l []*pconn
	for c := range px.conns {
		l = append(l, c)
	}
	px.mu.Unlock()
	for _, c := range l {
		c.shut(false)
	}
}

// NConns is the number of relayed connections.
func (px *Proxy) NConns() int {
	px.mu.Lock()
	defer px.mu.Unlock()
	return len(px.conns)
}

// FaultStreams applies a fault to every connection that is relaying a GET event stream; returns how many.
func (px *Proxy) FaultStreams(kind string) int {
	px.mu.Lock()
	var l []*pconn
	for c := range px.conns {
		if c.isStream.Load() {
			l = append(l, c)
		}
	}
	px.mu.Unlock()
	for _, c := range l {
		switch kind {
		case "close":
			c.shut(false)
		case "rst":
			c.shut(true)
		case "stall":
			c.stalled.Store(true)
		}
	}
	return len(l)
}

// Close stops the proxy.
func (px *Proxy) Close() {
	px.mu.Lock()
	px.closed = true
	px.mu.Unlock()
	px.ln.Close()
	px.CloseConns()
}

func (pc *pconn) shut(rst bool) {
	pc.quitOnce.Do(func() {
		close(pc.quit)
		if rst {
			if t, ok := pc.cli.(*net.TCPConn); ok {
				t.SetLinger(0)
			}
		}
		pc.cli.Close()
		pc.up.Close()
	})
}

// hit delivers the plan's fault on this connection; stop=true means the connection is over.
func (pc *pconn) hit(pl *Plan) (stop bool) {
	pl.arrive(pc.quit)
	switch pl.Kind {
	case "close":
		pl.markFired()
		pc.shut(false)
		return true
	case "rst":
		pl.markFired()
		pc.shut(true)
		return true
	case "stall":
		pl.markFired()
		<-pc.quit
		return true
	case "delay":
		pl.markFired()
		select {
		case <-time.After(pl.Delay):
		case <-pc.quit:
			return true
		}
		return false
	case "hold":
		pl.markFired()
		select {
		case <-pl.release:
		case <-pc.quit:
			return true
		}
		return false
	}
	return false
}

func offsetOf(pl *Plan, n int) int {
	if pl.Abs > 0 {
		if pl.Abs >= n {
			return n - 1
		}
		return pl.Abs
	}
	o := int(pl.Frac * float64(n))
	if o < 1 {
		o = 1
	}
	if o >= n {
		o = n - 1
	}
	if o < 0 {
		o = 0
	}
	return o
}

func readHead(br *bufio.Reader) ([]byte, error) {
	var head []byte
	for {
		line, err := br.ReadBytes('\n')
		head = append(head, line...)
		if err != nil {
			return head, err
		}
		if len(line) <= 2 && (string(line) == "\r\n" || string(line) == "\n") {
			return head, nil
		}
		if len(head) > 1<<20 {
			return head, fmt.Errorf("head too large")
		}
	}
}

func headerOf(head []byte, name string) string {
	for _, l := range strings.Split(string(head), "\r\n")[1:] {
		if i := strings.Index(l, ":"); i > 0 && strings.EqualFold(strings.TrimSpace(l[:i]), name) {
			return strings.TrimSpace(l[i+1:])
		}
	}
	return ""
}

func (px *Proxy) serve(cli net.Conn) {
	up, err := net.DialTimeout("tcp", px.target, 5*time.Second)
	if err != nil {
		cli.Close()
		return
	}
	pc := &pconn{px: px, cli: cli, up: up, quit: make(chan struct{})}
	px.mu.Lock()
	if px.closed {
		px.mu.Unlock()
		cli.Close()
		up.Close()
		return
	}
	px.conns[pc] = struct{}{}
	px.mu.Unlock()
	defer func() {
		pc.shut(false)
		px.mu.Lock()
		delete(px.conns, pc)
		px.mu.Unlock()
	}()
	cbr := bufio.NewReaderSize(cli, 64<<10)
	ubr := bufio.NewReaderSize(up, 64<<10)
	for {
		if !pc.exchange(cbr, ubr) {
			return
		}
	}
}

func (pc *pconn) streamPlanFor(payload []byte) *Plan {
	if !pc.isStream.Load() {
		return nil
	}
	return pc.px.claimStream(payload)
}

// w writes to the client unless the connection is stalled (then it blocks until the connection is cut).
func (pc *pconn) w(b []byte) bool {
	if pc.stalled.Load() {
		<-pc.quit
		return false
	}
	_, err := pc.cli.Write(b)
	return err == nil
}

// exchange relays one request/response pair; false ends the connection.
func (pc *pconn) exchange(cbr, ubr *bufio.Reader) bool {
	head, err := readHead(cbr)
	if err != nil {
		return false
	}
	method := ""
	if i := bytes.IndexByte(head, ' '); i > 0 {
		method = string(head[:i])
	}
	if j := bytes.Index(head, []byte("\r\n")); j > 0 {
		pc.reqLine.Store(string(head[:j]))
	}
	var body []byte
	if cl := headerOf(head, "Content-Length"); cl != "" {
		n, _ := strconv.Atoi(cl)
		body = make([]byte, n)
		if _, err := io.ReadFull(cbr, body); err != nil {
			return false
		}
	}
	req := append(append([]byte{}, head...), body...)
	pc.px.Exchanges.Add(1)
	pl := pc.px.claim(method, req)
	if pl != nil && pl.Kind == "answer" {
		return pc.answer(pl, cbr)
	}
	// From here until the answer is complete the client has nothing to send: if its side of the connection
	// ends meanwhile (FIN / RST), the upstream side ends too, as it would without a relay in between.
	defer pc.watchClient(cbr)()
	at := func(point string) bool { return pl != nil && pl.Point == point }

	if at("pre-request") {
		if pc.hit(pl) {
			return false
		}
	}
	if at("mid-request") {
		o := offsetOf(pl, len(req))
		if _, err := pc.up.Write(req[:o]); err != nil {
			return false
		}
		if pc.hit(pl) {
			return false
		}
		req = req[o:]
	}
	if _, err := pc.up.Write(req); err != nil {
		return false
	}
	if at("post-request") {
		if pc.hit(pl) {
			return false
		}
	}
	// response head (1xx heads are relayed and skipped)
	var rhead []byte
	for {
		rhead, err = readHead(ubr)
		if err != nil {
			return false
		}
		if bytes.HasPrefix(rhead, []byte("HTTP/1.1 1")) {
			if !pc.w(rhead) {
				return false
			}
			continue
		}
		break
	}
	status := 0
	if f := strings.Fields(string(rhead)); len(f) >= 2 {
		status, _ = strconv.Atoi(f[1])
	}
	rest := rhead // what of the head is still to be written (the framing below is read from the whole head)
	if at("resp-head-mid") {
		o := offsetOf(pl, len(rhead))
		if !pc.w(rhead[:o]) {
			return false
		}
		if pc.hit(pl) {
			return false
		}
		rest = rhead[o:]
	}
	pc.px.noteStatus(status) // counted before it is written: the reader of the count may be the one who got it
	if !pc.w(rest) {
		return false
	}
	if at("resp-headers") {
		if pc.hit(pl) {
			return false
		}
	}
	isSSE := strings.Contains(headerOf(rhead, "Content-Type"), "text/event-stream")
	if isSSE && method == "GET" {
		pc.isStream.Store(true)
		defer pc.isStream.Store(false)
	}
	connClose := strings.EqualFold(headerOf(rhead, "Connection"), "close")
	switch {
	case strings.Contains(strings.ToLower(headerOf(rhead, "Transfer-Encoding")), "chunked"):
		if !pc.relayChunked(ubr, pl, isSSE) {
			return false
		}
	case headerOf(rhead, "Content-Length") != "":
		n, _ := strconv.Atoi(headerOf(rhead, "Content-Length"))
		if !pc.relayFixed(ubr, pl, n) {
			return false
		}
	case status == 202 || status == 204 || status == 304 || method == "HEAD":
	default:
		// body delimited by the end of the connection
		io.Copy(writerFn(pc.w), ubr)
		return false
	}
	return !connClose
}

type writerFn func([]byte) bool

func (f writerFn) Write(b []byte) (int, error) {
	if !f(b) {
		return 0, io.ErrClosedPipe
	}
	return len(b), nil
}

func (pc *pconn) relayFixed(ubr *bufio.Reader, pl *Plan, n int) bool {
	cut := -1
	if pl != nil && pl.Point == "resp-body-mid" && n > 1 {
		cut = offsetOf(pl, n)
	}
	sent := 0
	buf := make([]byte, 32<<10)
	for sent < n {
		want := n - sent
		if want > len(buf) {
			want = len(buf)
		}
		m, err := ubr.Read(buf[:want])
		if m > 0 {
			piece := buf[:m]
			if cut >= 0 && sent < cut && sent+m >= cut {
				if !pc.w(piece[:cut-sent]) {
					return false
				}
				if pc.hit(pl) {
					return false
				}
				piece = piece[cut-sent:]
				cut = -1
			}
			if len(piece) > 0 && !pc.w(piece) {
				return false
			}
			sent += m
		}
		if err != nil {
			return false
		}
	}
	if pl != nil && pl.Point == "resp-body-end" {
		if pc.hit(pl) {
			return false
		}
	}
	return true
}

// relayChunked relays a chunked body chunk by chunk and applies the body-level points.
func (pc *pconn) relayChunked(ubr *bufio.Reader, pl *Plan, isSSE bool) bool {
	chunkNo, events := 0, 0
	var tail []byte // last bytes of the data seen so far (event boundary detection across chunks)
	for {
		sizeLine, err := ubr.ReadBytes('\n')
		if err != nil {
			return false
		}
		hex := strings.TrimSpace(string(sizeLine))
		if i := strings.Index(hex, ";"); i >= 0 {
			hex = hex[:i]
		}
		n64, err := strconv.ParseInt(hex, 16, 64)
		if err != nil {
			return false
		}
		n := int(n64)
		if n == 0 {
			// terminating chunk + trailers
			trailer, err := readHead(ubr)
			if err != nil && len(trailer) == 0 {
				return false
			}
			if pl != nil && pl.Point == "pre-term" {
				if pc.hit(pl) {
					return false
				}
			}
			return pc.w(append(sizeLine, trailer...))
		}
		data := make([]byte, n+2)
		if _, err := io.ReadFull(ubr, data); err != nil {
			return false
		}
		chunkNo++
		payload := data[:n]
		if sp := pc.streamPlanFor(payload); sp != nil {
			pl := sp
			switch {
			case pl.Abs < 0: // after the complete chunk
				if !pc.w(append(sizeLine, data...)) {
					return false
				}
				if pc.hit(pl) {
					return false
				}
				continue
			case pl.Abs == 0 && pl.Frac == 0: // before any byte of it
				if pc.hit(pl) {
					return false
				}
			default:
				o := offsetOf(pl, n)
				if !pc.w(append(append([]byte{}, sizeLine...), payload[:o]...)) {
					return false
				}
				if pc.hit(pl) {
					return false
				}
				if !pc.w(data[o:]) {
					return false
				}
				continue
			}
		}
		if pl != nil && pl.Point == "resp-body-mid" && (pl.K == 0 && chunkNo == 1 || pl.K == chunkNo) && n > 1 {
			o := offsetOf(pl, n)
			if !pc.w(append(append([]byte{}, sizeLine...), payload[:o]...)) {
				return false
			}
			if pc.hit(pl) {
				return false
			}
			if !pc.w(data[o:]) {
				return false
			}
			pl = nil
			continue
		}
		if !pc.w(append(sizeLine, data...)) {
			return false
		}
		if isSSE {
			joined := append(tail, payload...)
			events += bytes.Count(joined, []byte("\n\n"))
			if len(joined) > 1 {
				// keep one byte so that a boundary split across chunks is seen, without double counting
				if bytes.HasSuffix(joined, []byte("\n\n")) {
					tail = nil
				} else {
					tail = append([]byte{}, joined[len(joined)-1:]...)
				}
			} else {
				tail = joined
			}
			if pl != nil && pl.Point == "event-k" && events >= pl.K {
				if pc.hit(pl) {
					return false
				}
				pl = nil
			}
		}
	}
}

func (px *Proxy) noteStatus(code int) {
	px.mu.Lock()
	if px.status == nil {
		px.status = map[int]int{}
	}
	px.status[code]++
	px.mu.Unlock()
}

// StatusCount is how many answers with this status reached a client so far.
func (px *Proxy) StatusCount(code int) int {
	px.mu.Lock()
	defer px.mu.Unlock()
	return px.status[code]
}

// answer writes the plan's canned answer; false ends the connection.
func (pc *pconn) answer(pl *Plan, cbr *bufio.Reader) bool {
	a := pl.Answer
	if a.Framing == "no-answer" || a.Framing == "head-unfinished" {
		pl.markFired()
		if a.Framing == "head-unfinished" {
			if !pc.w([]byte(fmt.Sprintf("HTTP/1.1 %d %s\r\n%s\r\n", a.Status, statusText(a.Status), strings.Join(a.Headers, "\r\n")))) {
				return false
			}
		}
		cbr.Peek(1) // until the client gives the connection up or the harness cuts it
		return false
	}
	var b bytes.Buffer
	fmt.Fprintf(&b, "HTTP/1.1 %d %s\r\n", a.Status, statusText(a.Status))
	for _, h := range a.Headers {
		b.WriteString(h + "\r\n")
	}
	chunks := func() {
		// two chunks, so that a reader sees the body arrive in pieces
		h := len(a.Body) / 2
		for _, part := range [][]byte{a.Body[:h], a.Body[h:]} {
			if len(part) > 0 {
				fmt.Fprintf(&b, "%x\r\n%s\r\n", len(part), part)
			}
		}
	}
	switch a.Framing {
	case "length":
		fmt.Fprintf(&b, "Content-Length: %d\r\n\r\n", len(a.Body))
		b.Write(a.Body)
	case "chunked":
		b.WriteString("Transfer-Encoding: chunked\r\n\r\n")
		chunks()
		b.WriteString("0\r\n\r\n")
	case "unfinished":
		b.WriteString("Transfer-Encoding: chunked\r\n\r\n")
		chunks()
	case "eof":
		b.WriteString("Connection: close\r\n\r\n")
		b.Write(a.Body)
	default: // none
		if a.Status != 204 && a.Status != 304 {
			b.WriteString("Content-Length: 0\r\n")
		}
		b.WriteString("\r\n")
	}
	// the answer counts as delivered once its head is out (a client may hang up on a large body)
	all := b.Bytes()
	hl := bytes.Index(all, []byte("\r\n\r\n")) + 4
	// (and is counted before it is written: whoever reads the count may be the one who just got the answer)
	pc.px.noteStatus(a.Status)
	pl.markFired()
	ok := pc.w(all[:hl]) && pc.w(all[hl:])
	switch {
	case !ok:
		return false
	case a.Framing == "eof":
		return false
	case a.Framing == "unfinished":
		// the answer is never completed: no further request can come on this connection; wait until the
		// client gives the connection up (EOF / reset) or the harness cuts it
		cbr.Peek(1)
		return false
	}
	return true
}

func statusText(code int) string {
	if t, ok := map[int]string{200: "OK", 202: "Accepted", 204: "No Content", 301: "Moved Permanently", 302: "Found", 303: "See Other", 307: "Temporary Redirect", 308: "Permanent Redirect",
		400: "Bad Request", 401: "Unauthorized", 403: "Forbidden", 404: "Not Found", 405: "Method Not Allowed", 408: "Request Timeout", 409: "Conflict", 410: "Gone", 413: "Request Entity Too Large",
		418: "I'm a teapot", 421: "Misdirected Request", 429: "Too Many Requests", 451: "Unavailable For Legal Reasons", 500: "Internal Server Error", 501: "Not Implemented", 502: "Bad Gateway",
		503: "Service Unavailable", 504: "Gateway Timeout", 507: "Insufficient Storage"}[code]; ok {
		return t
	}
	return "Status"
}

// watchClient notices the client's end of the connection going away while an answer is awaited / relayed.
// The returned func stops the watch (before the next request head is read from the same reader).
func (pc *pconn) watchClient(cbr *bufio.Reader) (stop func()) {
	done := make(chan struct{})
	go func() {
		defer close(done)
		if _, err := cbr.Peek(1); err != nil {
			if ne, ok := err.(net.Error); ok && ne.Timeout() {
				return // stopped
			}
			pc.shut(false)
		}
	}()
	return func() {
		pc.cli.SetReadDeadline(time.Unix(1, 0))
		<-done
		pc.cli.SetReadDeadline(time.Time{})
	}
}
