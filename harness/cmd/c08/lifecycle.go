package main

import (
	"context"
	"fmt"
	"time"

	mcp "trpc.group/trpc-go/trpc-mcp-go"

	"verifharness/lib/kit"
	"verifharness/lib/leak"
	"verifharness/lib/sched"
	"verifharness/lib/vh"
)

// lifecycleBatch: Initialize / Close histories on library clients with different timings between the two, on
// one client object re-used after Close and on fresh client objects. After N and after 2N cycles (every client
// closed) the client-side goroutines with library frames, never-released connections and the server's listening
// streams must be back at the baseline: growth with the number of cycles is a leak.
func lifecycleBatch(rep *vh.Reporter, kind kit.Kind, n int) {
	modes := []string{"close@right-after-initialize", "close@after-stream-registered", "close@after-one-call"}
	if kind == kit.LSSE {
		// Close while Initialize sits inside start(), past its "closed?" test and before the stream context is
		// registered (yield point ssecli.start.beforeregister): Close finds nothing to cancel yet
		modes = append(modes, "close@inside-start-before-stream-registered")
	}
	for _, reuse := range []bool{false, true} {
		for _, mode := range modes {
			if mode == "close@inside-start-before-stream-registered" && reuse {
				continue
			}
			in := kit.Start(kind, kit.Opts{})
			kit.StdFixture(in)
			ctx, cancel := context.WithTimeout(context.Background(), 2*time.Minute)
			measure := func() (int, map[string]int, int, int) {
				closeIdle()
				lib := leak.Settle(func() int {
					c, by := leak.LibNow()
					_ = by
					return c
				}, 1500*time.Millisecond)
				_, by := leak.LibNow()
				streams := 0
				if in.Server != nil {
					streams = mcp.VerifListeningStreams(in.Server)
				}
				return lib, by, leak.HTTPConn(leak.Parse(leak.Dump())), streams
			}
			cycle := func(k int) bool {
				var c *kit.LibClient
				for i := 0; i < k; i++ {
					if c == nil || !reuse {
						var err error
						c, err = in.NewClient()
						if err != nil {
							rep.Inconclusive("lifecycle: client: " + err.Error())
							return false
						}
					}
					if mode == "close@inside-start-before-stream-registered" {
						const point = "ssecli.start.beforeregister"
						ctl := sched.New(8*time.Second, 1)
						ctl.Install()
						ctl.Hold(point)
						done := make(chan error, 1)
						go func() { _, err := c.Initialize(ctx, &mcp.InitializeRequest{}); done <- err }()
						if ctl.AwaitWaiting(point, 1, 5*time.Second) < 1 {
							ctl.Release(point)
							sched.Uninstall()
							rep.Inconclusive("lifecycle: Initialize never reached " + point)
							return false
						}
						okc, _, _ := closeClient(c)
						ctl.Release(point)
						sched.Uninstall()
						if !okc {
							rep.Violation(fmt.Sprintf("C08|%s|%s|reuse=%v|close-hangs", kind, mode, reuse), "Close did not return", nil)
							return false
						}
						select {
						case <-done:
							rep.Count("lifecycle_close_inside_start_realised", 1)
						case <-time.After(20 * time.Second):
							rep.Violation(fmt.Sprintf("C08|%s|%s|pending=1|blocked-forever", kind, mode), "Initialize, overtaken by Close inside start(), had not returned 20 s after Close returned (context without deadline)", nil)
							return false
						}
						continue
					}
					if _, err := c.Initialize(ctx, &mcp.InitializeRequest{}); err != nil {
						if reuse && kind == kit.LSSE {
							// a closed legacy transport cannot be reused: start over with a fresh client
							c = nil
							i--
							reuse = false
							continue
						}
						rep.Violation(fmt.Sprintf("C08|%s|%s|reuse=%v|initialize-failed", kind, mode, reuse), fmt.Sprintf("Initialize failed in cycle %d: %v", i, err), nil)
						return false
					}
					switch mode {
					case "close@after-stream-registered":
						if in.Server != nil {
							for w := 0; w < 500 && mcp.VerifListeningStreams(in.Server) < 1; w++ {
								time.Sleep(time.Millisecond)
							}
						} else {
							time.Sleep(3 * time.Millisecond)
						}
					case "close@after-one-call":
						c.ListTools(ctx, &mcp.ListToolsRequest{})
					}
					if ok, _, _ := closeClient(c); !ok {
						rep.Violation(fmt.Sprintf("C08|%s|%s|reuse=%v|close-hangs", kind, mode, reuse), "Close did not return", nil)
						return false
					}
				}
				return true
			}
			lib0, _, conn0, str0 := measure()
			if !cycle(n) {
				cancel()
				in.Close()
				continue
			}
			lib1, _, conn1, str1 := measure()
			if !cycle(2 * n) {
				cancel()
				in.Close()
				continue
			}
			lib2, by2, conn2, str2 := measure()
			rep.Eval(3 * n)
			class := fmt.Sprintf("%s|pending=0", mode)
			wit := map[string]interface{}{"kind": kind, "mode": mode, "reuse_client_object": reuse, "cycles": []int{n, 2 * n},
				"lib_goroutines": []int{lib0, lib1, lib2}, "unreleased_connections": []int{conn0, conn1, conn2}, "listening_streams_on_server": []int{str0, str1, str2}, "by_function": leak.Describe(by2)}
			leaked := false
			if lib1 > lib0 && lib2 > lib1 {
				leaked = true
				fn := "?"
				best := 0
				for f, c := range by2 {
					if c > best && f != "/internal/session.(*SessionManager).cleanupExpiredSessions" {
						best, fn = c, f
					}
				}
				rep.Violation(fmt.Sprintf("C08|%s|%s|leak-goroutines(%s)", kind, class, fn), fmt.Sprintf("%s: after every client was closed, goroutines with library frames: %d at the start, %d after %d Initialize/Close cycles, %d after %d more", kind, lib0, lib1, n, lib2, 2*n), wit)
			}
			if str1 > str0 && str2 > str1 {
				leaked = true
				rep.Violation(fmt.Sprintf("C08|%s|%s|leak-listening-streams", kind, class), fmt.Sprintf("%s: listening streams registered on the server after all clients were closed: %d, %d, %d", kind, str0, str1, str2), wit)
			}
			if conn1 > conn0 && conn2 > conn1 {
				leaked = true
				rep.Violation(fmt.Sprintf("C08|%s|%s|leak-connections", kind, class), fmt.Sprintf("%s: connections never released after Close: %d, %d, %d", kind, conn0, conn1, conn2), wit)
			}
			if !leaked {
				rep.Distinct(fmt.Sprintf("lifecycle|%s|%s|reuse=%v", kind, mode, reuse))
			}
			rep.SetAdd("fault_points", fmt.Sprintf("%s|%s", kind, mode))
			cancel()
			in.Close()
		}
	}
}
