package main

// Server side: STALLED peers. A peer opens its stream (legacy event stream; the answers of its own pipelined
// Streamable POSTs, JSON or POST-SSE; the Streamable listening stream), STOPS READING while the connection stays
// open, and keeps sending hundreds of requests whose answers are large (64-256 KiB) and of every kind - results,
// JSON-RPC errors with large echoed names / ids, handler Go errors, unencodable results, notifications from handlers
// and from the server - until the socket buffers, the writing pump and the 100-slot event queue are full and further
// answer goroutines wait for space. THEN the peer goes away (close / reset). The raw peer code is a copy of the
// 'stalled-peer' scenario of c06 (that check judges C06; here the judgement is C08's release clause).
//
// Oracle (C08: "on the server once the peer's connections are gone, the goroutines, connections ... the library
// created for those calls and connections are released, however the calls ended"): this check's level rule -
// baseline, n peers, 2n more; a server-side metric that grew in both phases and is still above the baseline at
// quiescence at the end is a leak. The wait for quiescence is patient (a watchdog, not the judgement): levels that are
// still moving when it expires are inconclusive.

import (
	"bufio"
	"context"
	"fmt"
	"math/rand"
	"net"
	"net/url"
	"strings"
	"sync"
	"sync/atomic"
	"time"

	mcp "trpc.group/trpc-go/trpc-mcp-go"

	"verifharness/lib/kit"
	"verifharness/lib/peer"
	"verifharness/lib/vh"
)

const stallBig = 128 << 10

type stallReq struct {
	class string
	body  string
}

// stallMix builds n requests over every answer class (shuffled by the seed). About 60 % of the answers are ~128 KiB.
func stallMix(rng *rand.Rand, tag string, n int, getStream bool, huge int) []stallReq {
	big := strings.Repeat("x", stallBig)
	type cls struct {
		name string
		f    func(id, bigid string, i int) string
	}
	classes := []cls{
		{"result-big", func(id, _ string, i int) string {
			return fmt.Sprintf(`{"jsonrpc":"2.0","id":%s,"method":"tools/call","params":{"name":"echo","arguments":{"nonce":"n%d","pad_n":%d}}}`, id, i, stallBig)
		}},
		{"result-small", func(id, _ string, i int) string { return fmt.Sprintf(`{"jsonrpc":"2.0","id":%s,"method":"ping"}`, id) }},
		{"result-list", func(id, _ string, i int) string {
			return fmt.Sprintf(`{"jsonrpc":"2.0","id":%s,"method":"tools/list"}`, id)
		}},
		{"error-unknown-method", func(_, bigid string, i int) string {
			return fmt.Sprintf(`{"jsonrpc":"2.0","id":%s,"method":"no/such-%d"}`, bigid, i)
		}},
		{"error-unknown-tool", func(id, _ string, i int) string {
			return fmt.Sprintf(`{"jsonrpc":"2.0","id":%s,"method":"tools/call","params":{"name":"nosuch-%s","arguments":{}}}`, id, big)
		}},
		{"error-unknown-prompt", func(id, _ string, i int) string {
			return fmt.Sprintf(`{"jsonrpc":"2.0","id":%s,"method":"prompts/get","params":{"name":"nosuch-%s"}}`, id, big)
		}},
		{"error-unknown-resource", func(id, _ string, i int) string {
			return fmt.Sprintf(`{"jsonrpc":"2.0","id":%s,"method":"resources/read","params":{"uri":"res://nosuch-%s"}}`, id, big)
		}},
		{"error-invalid-params", func(_, bigid string, i int) string {
			return fmt.Sprintf(`{"jsonrpc":"2.0","id":%s,"method":"tools/call","params":"not-an-object"}`, bigid)
		}},
		{"error-invalid-params-name", func(_, bigid string, i int) string {
			return fmt.Sprintf(`{"jsonrpc":"2.0","id":%s,"method":"tools/call","params":{"name":7}}`, bigid)
		}},
		{"handler-failure-tool", func(id, _ string, i int) string {
			return fmt.Sprintf(`{"jsonrpc":"2.0","id":%s,"method":"tools/call","params":{"name":"fail","arguments":{"nonce":"%s"}}}`, id, big)
		}},
		{"handler-failure-prompt", func(_, bigid string, i int) string {
			return fmt.Sprintf(`{"jsonrpc":"2.0","id":%s,"method":"prompts/get","params":{"name":"p-fail"}}`, bigid)
		}},
		{"handler-failure-resource", func(_, bigid string, i int) string {
			return fmt.Sprintf(`{"jsonrpc":"2.0","id":%s,"method":"resources/read","params":{"uri":"res://fail"}}`, bigid)
		}},
		{"result-iserror", func(id, _ string, i int) string {
			return fmt.Sprintf(`{"jsonrpc":"2.0","id":%s,"method":"tools/call","params":{"name":"iserr","arguments":{"nonce":"%s"}}}`, id, big)
		}},
		{"unencodable-nan", func(_, bigid string, i int) string {
			return fmt.Sprintf(`{"jsonrpc":"2.0","id":%s,"method":"tools/call","params":{"name":"nan","arguments":{"nonce":"x"}}}`, bigid)
		}},
		{"unencodable-chan", func(_, bigid string, i int) string {
			return fmt.Sprintf(`{"jsonrpc":"2.0","id":%s,"method":"tools/call","params":{"name":"chan","arguments":{"nonce":"x"}}}`, bigid)
		}},
		{"notification-unknown", func(_, _ string, i int) string {
			return fmt.Sprintf(`{"jsonrpc":"2.0","method":"notifications/verif-unknown-%d","params":{"pad":"%s"}}`, i, big[:4096])
		}},
		{"notification-cancelled", func(id, _ string, i int) string {
			return fmt.Sprintf(`{"jsonrpc":"2.0","method":"notifications/cancelled","params":{"requestId":%s,"reason":"r"}}`, id)
		}},
		{"answer-never-sent-result", func(_, _ string, i int) string {
			return fmt.Sprintf(`{"jsonrpc":"2.0","id":%d,"result":{"roots":[{"uri":"file:///%s","name":"r"}]}}`, i%60+1, big[:4096])
		}},
		{"answer-never-sent-error", func(_, _ string, i int) string {
			return fmt.Sprintf(`{"jsonrpc":"2.0","id":%d,"error":{"code":-1,"message":"%s"}}`, i%60+1, big[:4096])
		}},
		{"answer-never-sent-string-id", func(_, bigid string, i int) string {
			return fmt.Sprintf(`{"jsonrpc":"2.0","id":%s,"result":null}`, bigid)
		}},
		{"handler-notifications", func(id, _ string, i int) string {
			return fmt.Sprintf(`{"jsonrpc":"2.0","id":%s,"method":"tools/call","params":{"name":"notify","arguments":{"nonce":"%s","n":6}}}`, id, big[:8192])
		}},
		{"server-notification", func(id, _ string, i int) string {
			return fmt.Sprintf(`{"jsonrpc":"2.0","id":%s,"method":"tools/call","params":{"name":"tellme","arguments":{"pad_n":%d}}}`, id, stallBig)
		}},
	}
	// weights: the big results are cheap to ask for; on the listening-stream scenario the traffic that goes to that
	// stream (server notifications, server requests) dominates
	order := []int{}
	for ci, c := range classes {
		w := 1
		switch {
		case c.name == "result-big":
			w = 4
		case getStream && c.name == "server-notification":
			w = 16
		case getStream && c.name == "handler-notifications":
			w = 4
		}
		for k := 0; k < w; k++ {
			order = append(order, ci)
		}
	}
	out := make([]stallReq, 0, n)
	for i := 0; i < n; i++ {
		c := classes[order[i%len(order)]]
		id := fmt.Sprintf(`"%s-%d"`, tag, i)
		bigid := fmt.Sprintf(`"%s-%d-%s"`, tag, i, big)
		out = append(out, stallReq{c.name, c.f(id, bigid, i)})
	}
	// huge results (1 MiB for a tiny request): what it takes to fill the buffers of a connection whose answers
	// are never read
	for i := 0; i < huge; i++ {
		out = append(out, stallReq{"result-huge", fmt.Sprintf(`{"jsonrpc":"2.0","id":"%s-huge-%d","method":"tools/call","params":{"name":"echo","arguments":{"nonce":"h%d","pad_n":%d}}}`, tag, i, i, 1<<20)})
	}
	rng.Shuffle(len(out), func(i, j int) { out[i], out[j] = out[j], out[i] })
	return out
}

// stalledPeer is one hostile peer after it has stopped reading; disconnect ends it.
type stalledPeer struct {
	sent       int64
	classes    map[string]int
	disconnect func(reset bool)
}

func rawDial(addr string) (*net.TCPConn, error) {
	c, err := (&net.Dialer{Timeout: 20 * time.Second}).Dial("tcp", addr)
	if err != nil {
		return nil, err
	}
	tc := c.(*net.TCPConn)
	_ = tc.SetReadBuffer(8192) // a small window: the peer is not going to read
	return tc, nil
}

func endConn(tc *net.TCPConn, reset bool) {
	if reset {
		_ = tc.SetLinger(0)
	}
	_ = tc.Close()
}

func readLineUntil(br *bufio.Reader, pred func(string) bool) (string, error) {
	for {
		l, err := br.ReadString('\n')
		if pred(l) {
			return strings.TrimSpace(l), nil
		}
		if err != nil {
			return "", err
		}
	}
}

func countClasses(reqs []stallReq) map[string]int {
	m := map[string]int{}
	for _, r := range reqs {
		m[r.class]++
	}
	return m
}

// openLegacy: event stream opened over a raw TCP connection, handshake read from it, then never read again; the
// requests go to the message endpoint (their 202s are read).
func openLegacy(in *kit.Instance, reqs []stallReq) (*stalledPeer, error) {
	addr := in.TS.Listener.Addr().String()
	tc, err := rawDial(addr)
	if err != nil {
		return nil, err
	}
	_ = tc.SetDeadline(time.Now().Add(60 * time.Second))
	fmt.Fprintf(tc, "GET %s HTTP/1.1\r\nHost: %s\r\nAccept: text/event-stream\r\n\r\n", in.Path, addr)
	br := bufio.NewReaderSize(tc, 4096)
	ep, err := readLineUntil(br, func(l string) bool { return strings.HasPrefix(l, "data: ") })
	if err != nil {
		tc.Close()
		return nil, fmt.Errorf("legacy stream: no endpoint event: %v", err)
	}
	u, err := url.Parse(strings.TrimPrefix(ep, "data: "))
	if err != nil {
		tc.Close()
		return nil, err
	}
	base, _ := url.Parse(in.BaseURL())
	msgURL := base.ResolveReference(u).String()
	hp := peer.NewHTTPPeer()
	hdr := map[string]string{"Content-Type": "application/json"}
	ctx := context.Background()
	hp.Do(ctx, "POST", msgURL, hdr, kit.InitBody(`"init-0"`, ""))
	if _, err := readLineUntil(br, func(l string) bool { return strings.Contains(l, `"init-0"`) }); err != nil {
		tc.Close()
		hp.Close()
		return nil, fmt.Errorf("legacy stream: no initialize answer: %v", err)
	}
	hp.Do(ctx, "POST", msgURL, hdr, []byte(kit.InitializedBody))
	_ = tc.SetDeadline(time.Time{})
	// from here on the peer never reads its stream again
	p := &stalledPeer{classes: countClasses(reqs)}
	var wg sync.WaitGroup
	ch := make(chan stallReq)
	for w := 0; w < 6; w++ {
		wg.Add(1)
		go func() {
			defer wg.Done()
			for rq := range ch {
				pctx, cancel := context.WithTimeout(ctx, 60*time.Second)
				re := hp.Do(pctx, "POST", msgURL, hdr, []byte(rq.body))
				cancel()
				if re.Status != 0 {
					atomic.AddInt64(&p.sent, 1)
				}
			}
		}()
	}
	for _, rq := range reqs {
		ch <- rq
	}
	close(ch)
	wg.Wait()
	p.disconnect = func(reset bool) {
		endConn(tc, reset)
		hp.Close()
	}
	return p, nil
}

func httpPost(addr, path, accept, sess, body string) string {
	var b strings.Builder
	fmt.Fprintf(&b, "POST %s HTTP/1.1\r\nHost: %s\r\nContent-Type: application/json\r\nAccept: %s\r\n", path, addr, accept)
	if sess != "" {
		fmt.Fprintf(&b, "Mcp-Session-Id: %s\r\n", sess)
	}
	fmt.Fprintf(&b, "Content-Length: %d\r\n\r\n%s", len(body), body)
	return b.String()
}

func acceptOf(kind kit.Kind) string {
	if kind == kit.SSSE || kind == kit.SLSSE {
		return "application/json, text/event-stream"
	}
	return "application/json"
}

// openStreamable: (a) getStream=false — the peer pipelines its POSTs over a few raw connections and never reads a
// single answer (JSON bodies or POST-SSE streams); (b) getStream=true — the peer opens the listening stream, reads
// the response head and nothing more, and sends one POST per connection (never reading those either), most of
// which make the server write to the listening stream.
func openStreamable(in *kit.Instance, kind kit.Kind, reqs []stallReq, getStream bool) (*stalledPeer, error) {
	addr := in.TS.Listener.Addr().String()
	ctx := context.Background()
	hs, err := in.Dial(ctx)
	if err != nil {
		return nil, err
	}
	hctx, hc := context.WithTimeout(ctx, 60*time.Second)
	err = hs.Handshake(hctx)
	hc()
	if err != nil {
		hs.Close()
		return nil, err
	}
	sess := hs.SessionID
	p := &stalledPeer{classes: countClasses(reqs)}
	var conns []*net.TCPConn
	var mu sync.Mutex
	var wg sync.WaitGroup
	closeAll := func(reset bool) {
		mu.Lock()
		for i, c := range conns {
			endConn(c, reset && i%2 == 0)
		}
		mu.Unlock()
	}
	if getStream {
		g, err := rawDial(addr)
		if err != nil {
			hs.Close()
			return nil, err
		}
		_ = g.SetDeadline(time.Now().Add(60 * time.Second))
		fmt.Fprintf(g, "GET %s HTTP/1.1\r\nHost: %s\r\nAccept: text/event-stream\r\nMcp-Session-Id: %s\r\n\r\n", in.Path, addr, sess)
		br := bufio.NewReaderSize(g, 512)
		status, err := br.ReadString('\n')
		if err != nil || !strings.Contains(status, " 200") {
			g.Close()
			hs.Close()
			return nil, fmt.Errorf("listening stream refused: %q %v", strings.TrimSpace(status), err)
		}
		if _, err := readLineUntil(br, func(l string) bool { return strings.TrimSpace(l) == "" }); err != nil {
			g.Close()
			hs.Close()
			return nil, err
		}
		_ = g.SetDeadline(time.Time{})
		conns = append(conns, g) // closed first
		for _, rq := range reqs {
			c, err := rawDial(addr)
			if err != nil {
				continue
			}
			mu.Lock()
			conns = append(conns, c)
			mu.Unlock()
			_ = c.SetWriteDeadline(time.Now().Add(60 * time.Second))
			if _, err := c.Write([]byte(httpPost(addr, in.Path, acceptOf(kind), sess, rq.body))); err == nil {
				atomic.AddInt64(&p.sent, 1)
			}
		}
	} else {
		const nConn = 16
		for k := 0; k < nConn; k++ {
			c, err := rawDial(addr)
			if err != nil {
				continue
			}
			conns = append(conns, c)
			wg.Add(1)
			go func(k int, c *net.TCPConn) {
				defer wg.Done()
				for i := k; i < len(reqs); i += nConn {
					// blocks for good once both directions are full; ended by disconnect
					if _, err := c.Write([]byte(httpPost(addr, in.Path, acceptOf(kind), sess, reqs[i].body))); err != nil {
						return
					}
					atomic.AddInt64(&p.sent, 1)
				}
			}(k, c)
		}
	}
	p.disconnect = func(reset bool) {
		closeAll(reset)
		wg.Wait()
		hs.Close()
	}
	return p, nil
}


// patientSettle polls the levels until they are at or below prev, or unchanged for ~3 s, or max elapsed. Returns the
// last levels and whether they were still changing when the watchdog expired.
func patientSettle(side func(string) bool, prev levels, max time.Duration) (levels, bool) {
	deadline := time.Now().Add(max)
	last := measure(side)
	stable := 0
	for {
		if last.leq(prev) {
			return last, false
		}
		if stable >= 30 {
			return last, false
		}
		if !time.Now().Before(deadline) {
			return last, true
		}
		time.Sleep(100 * time.Millisecond)
		cur := measure(side)
		if cur.same(last) {
			stable++
		} else {
			stable = 0
		}
		last = cur
	}
}

// steadyLib polls until the number of server-side library goroutines has been the same for 6 polls 100 ms apart
// (or 15 s) and returns it.
func steadyLib(side func(string) bool) int {
	last, same := measure(side).libTotal(), 0
	for dl := time.Now().Add(15 * time.Second); time.Now().Before(dl) && same < 6; {
		time.Sleep(100 * time.Millisecond)
		if n := measure(side).libTotal(); n == last {
			same++
		} else {
			last, same = n, 0
		}
	}
	return last
}

func stalledBatch(rep *vh.Reporter, kind kit.Kind, seed int64, thorough bool) {
	r := &vh.Run{Seed: seed}
	in := kit.Start(kind, kit.Opts{})
	defer in.Close()
	kit.StdFixture(in)
	// tellme: the server itself sends a (large) notification to the caller's session
	in.RegisterTool(mcp.NewTool("tellme", mcp.WithNumber("pad_n")), func(ctx context.Context, req *mcp.CallToolRequest) (*mcp.CallToolResult, error) {
		n, _ := req.Params.Arguments["pad_n"].(float64)
		params := map[string]interface{}{"pad": strings.Repeat("t", int(n))}
		sid := ""
		if s := mcp.ClientSessionFromContext(ctx); s != nil {
			sid = s.GetID()
		}
		var err error
		switch {
		case in.Server != nil:
			err = in.Server.SendNotification(sid, "notifications/verif-tell", params)
		case in.SSE != nil:
			err = in.SSE.SendNotification(sid, "notifications/verif-tell", params)
		}
		return mcp.NewTextResult(fmt.Sprintf("told err=%v", err)), nil
	})
	who := "server-stalled:" + string(kind)
	type scen struct {
		name string
		open func(reqs []stallReq) (*stalledPeer, error)
		get  bool
		huge int
	}
	var scens []scen
	if kind == kit.LSSE {
		scens = append(scens, scen{"legacy-event-stream", func(q []stallReq) (*stalledPeer, error) { return openLegacy(in, q) }, false, 0})
	} else {
		scens = append(scens, scen{"post-answers", func(q []stallReq) (*stalledPeer, error) { return openStreamable(in, kind, q, false) }, false, 96})
		if kind.Stateful() {
			scens = append(scens, scen{"listening-stream", func(q []stallReq) (*stalledPeer, error) { return openStreamable(in, kind, q, true) }, true, 0})
		}
	}
	nReq := 320
	phases := []int{1, 2}
	if thorough {
		nReq = 640
		phases = []int{1, 2, 4}
	}
	// warm-up: one well-behaved-size peer per scenario so that lazily started goroutines / fds exist before the baseline
	for _, sc := range scens {
		if sp, err := sc.open(stallMix(r.Rand("c08-stalled-warm-"+sc.name), "stw-"+sc.name, 6, sc.get, 0)); err == nil {
			time.Sleep(100 * time.Millisecond)
			sp.disconnect(false)
		}
	}
	closeIdle()
	patientSettle(serverSideFn, levels{Lib: map[string]int{}}, 5*time.Second)
	lt := newLeakTracker(rep, who, serverSideFn)
	moving := false
	for _, sc := range scens {
		class := "close+rst@stalled-" + sc.name
		built := 0
		for ph, peers := range phases {
			label := fmt.Sprintf("%s|%s|pending=n :: peers=%d requests-each=%d", who, class, peers, nReq)
			rep.Progress(label)
			baseLib := lt.cur.libTotal()
			var ps []*stalledPeer
			for p := 0; p < peers; p++ {
				tag := fmt.Sprintf("st-%s-%d-%d", sc.name, ph, p)
				sp, err := sc.open(stallMix(r.Rand("c08-stalled-"+string(kind)+"-"+tag), tag, nReq, sc.get, sc.huge))
				if err != nil {
					rep.Inconclusive(fmt.Sprintf("%s: stalled peer could not be set up: %v", label, err))
					continue
				}
				ps = append(ps, sp)
			}
			if len(ps) == 0 {
				continue
			}
			parked := steadyLib(serverSideFn) - baseLib
			sent := int64(0)
			for _, sp := range ps {
				sent += atomic.LoadInt64(&sp.sent)
			}
			rep.Eval(int(sent))
			notePoint(rep, who, "stall-then-close+rst", "peers:answers-waiting-for-space:"+sc.name, len(ps))
			rep.Count("stalled_requests_written", sent)
			rep.Max("stalled_answer_goroutines_parked|"+string(kind)+"|"+sc.name, int64(parked))
			// the peers go away: close, and from the second phase on every other one by reset
			nrst := 0
			for i, sp := range ps {
				rst := (ph+i)%2 == 1
				if rst {
					nrst++
				}
				sp.disconnect(rst)
			}
			closeIdle()
			if parked >= 8 {
				built++
				rep.Count("stalled_peers_departed_with_answers_waiting", int64(len(ps)))
				rep.Count("stalled_answers_waiting_when_peer_left", int64(parked))
			}
			// patient wait for quiescence (watchdog); the levels at quiescence are judged by the tracker
			_, mv := patientSettle(serverSideFn, lt.cur, 50*time.Second)
			if mv {
				moving = true
			}
			g := lt.after(class, len(ps), int(sent))
			if parked >= 8 {
				rep.Distinct(fmt.Sprintf("%s|%s|peers=%d|rst=%d|lib+%d", who, class, len(ps), nrst, sign(sumLib(g))))
			}
			sampleOnce(rep, map[string]interface{}{"who": who, "scenario": "stalled-peer/" + sc.name, "phase_peers": len(ps), "reset": nrst, "requests_written": sent, "answer_classes": len(ps[0].classes),
				"server_goroutines_parked_while_stalled": parked, "growth_at_quiescence_after_peers_left": g})
		}
		if built == 0 {
			rep.Inconclusive(fmt.Sprintf("%s: %s: no back-pressure could be built (fewer than 8 answer goroutines were parked while the peers were stalled); the scenario observed nothing", who, class))
		} else {
			rep.Count("stalled_scenarios_with_backpressure", 1)
		}
	}
	_ = moving
	if _, mv := patientSettle(serverSideFn, lt.start, 50*time.Second); mv {
		// still draining under load: counts that move are not counts at quiescence
		end := measure(serverSideFn)
		if !end.leq(lt.start) {
			rep.Inconclusive(fmt.Sprintf("%s: the server-side levels were still changing when the watchdog for quiescence expired after the stalled peers left (goroutines with library frames %d, baseline %d); not judged", who, end.libTotal(), lt.start.libTotal()))
			return
		}
	}
	lt.finish(func(string) string { return "n" })
}
