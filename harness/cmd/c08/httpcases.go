package main

import (
	"context"
	"encoding/json"
	"fmt"
	"math/rand"
	"strings"
	"time"

	mcp "trpc.group/trpc-go/trpc-mcp-go"

	"verifharness/lib/kit"
	"verifharness/lib/leak"
	"verifharness/lib/vh"
)

// hcase is one fault case against an HTTP client (Streamable or legacy SSE).
type hcase struct {
	Kind    kit.Kind `json:"kind"`
	Target  string   `json:"target"` // call | init | getstream
	Fault   string   `json:"fault"`  // close | rst | stall | truncate | delay | none | cancel | deadline
	Point   string   `json:"point"`  // point class (signature)
	Frac    float64  `json:"frac,omitempty"`
	K       int      `json:"k,omitempty"`
	Pending int      `json:"pending"`
	Ctx     string   `json:"ctx"`  // deadline | none | after-return
	Size    string   `json:"size"` // small | large
}

func (c hcase) class() string { return c.Fault + "@" + c.Point }
func pendClass(n int) string {
	if n <= 1 {
		return "1"
	}
	return "n"
}
func (c hcase) sig(symptom string) string {
	return fmt.Sprintf("C08|%s|%s|pending=%s|%s", c.Kind, c.class(), pendClass(c.Pending), symptom)
}
func (c hcase) label() string {
	return fmt.Sprintf("%s|%s|pending=%s :: target=%s pending=%d ctx=%s size=%s frac=%.3f k=%d", c.Kind, c.class(), pendClass(c.Pending), c.Target, c.Pending, c.Ctx, c.Size, c.Frac, c.K)
}

// registerNecho adds the tool the HTTP cases call: echo that first sends notify_n notifications on the
// request's own stream (SSE mode), then honours delay_us / gate like echo.
func registerNecho(in *kit.Instance) {
	in.RegisterTool(mcp.NewTool("necho", mcp.WithString("nonce", mcp.Required()), mcp.WithString("payload")), func(ctx context.Context, req *mcp.CallToolRequest) (*mcp.CallToolResult, error) {
		a := req.Params.Arguments
		nonce, _ := a["nonce"].(string)
		if n, ok := a["notify_n"].(float64); ok && n > 0 {
			if sender, ok := mcp.GetNotificationSender(ctx); ok {
				for i := 0; i < int(n); i++ {
					sender.SendLogMessage("info", fmt.Sprintf("%s#%d", nonce, i))
				}
			}
		}
		if d, ok := a["delay_us"].(float64); ok && d > 0 {
			time.Sleep(time.Duration(d) * time.Microsecond)
		}
		if g, _ := a["gate"].(string); g != "" {
			kit.G.Wait(ctx, g)
		}
		p, _ := a["payload"].(string)
		ans := kit.EchoAnswer{Nonce: nonce, Digest: kit.Digest(p), Len: len(p)}
		if n, ok := a["pad_n"].(float64); ok && n > 0 {
			ans.Pad = strings.Repeat("p", int(n))
		}
		b, _ := json.Marshal(ans)
		return mcp.NewTextResult(string(b)), nil
	})
}

func newHTTPClient(kind kit.Kind, url string) (*kit.LibClient, error) {
	if kind == kit.LSSE {
		c, err := mcp.NewSSEClient(url, kit.ClientInfo, mcp.WithClientLogger(kit.Quiet{}))
		if err != nil {
			return nil, err
		}
		return &kit.LibClient{Connector: c, HTTP: c, Kind: kind}, nil
	}
	c, err := mcp.NewClient(url, kit.ClientInfo, mcp.WithClientLogger(kit.Quiet{}))
	if err != nil {
		return nil, err
	}
	return &kit.LibClient{Connector: c, HTTP: c, Kind: kind}, nil
}

// boundary and byte-offset points per client kind and target.
func pointsFor(kind kit.Kind, target string) (boundaries, offsets []string) {
	switch target {
	case "init":
		if kind == kit.LSSE {
			return []string{"stream:pre-endpoint", "stream:post-endpoint", "init:pre-request", "init:post-request"}, []string{"stream:mid-endpoint"}
		}
		return []string{"init:pre-request", "init:post-request", "init:resp-headers"}, []string{"init:resp-body-mid"}
	case "getstream":
		return []string{"getstream:open"}, nil
	}
	switch kind {
	case kit.SJSON:
		return []string{"pre-request", "post-request", "resp-headers", "pre-term"}, []string{"mid-request", "resp-head-mid", "resp-body-mid"}
	case kit.SSSE:
		return []string{"pre-request", "post-request", "resp-headers", "between-events", "before-final-event", "pre-term"}, []string{"mid-request", "resp-head-mid", "mid-event"}
	default: // legacy
		return []string{"pre-request", "post-request", "post-202", "stream:pending", "stream:pre-answer", "stream:post-answer"}, []string{"mid-request", "resp-head-mid", "stream:mid-answer"}
	}
}

// enumerate builds the case list of one (kind, fault) batch: exhaustive over boundaries x pending counts,
// seeded samples over byte offsets.
func enumerate(kind kit.Kind, fault string, rng *rand.Rand, nOffsets int, thorough bool) []hcase {
	var out []hcase
	sizes := []string{"small", "large"}
	pend := pendings
	for _, target := range []string{"call", "init", "getstream"} {
		if target == "getstream" && kind == kit.LSSE {
			continue
		}
		bnd, offs := pointsFor(kind, target)
		if fault != "truncate" {
			for i, p := range bnd {
				pl := pend
				if target == "init" {
					pl = []int{1, 1} // repeated once so that growth can be told from a constant offset
				}
				for j, n := range pl {
					size := sizes[(i+j)%2]
					if p == "pre-term" && kind == kit.SJSON {
						size = "large" // only a chunked body has a terminating chunk
					}
					out = append(out, hcase{Kind: kind, Target: target, Fault: fault, Point: p, Pending: n, Ctx: "deadline", Size: size})
				}
			}
		}
		if fault == "truncate" || (thorough && (fault == "rst" || fault == "stall")) {
			for i, p := range offs {
				fr := []float64{0.0001, 0.9999} // first byte / last byte
				for k := 0; k < nOffsets; k++ {
					fr = append(fr, 0.02+0.96*rng.Float64())
				}
				for k, f := range fr {
					n := pendings[(i+k)%len(pendings)]
					if target == "init" {
						n = 1
					}
					size := sizes[k%2]
					if p == "resp-body-mid" && kind == kit.SJSON && k%3 == 2 {
						size = "large"
					}
					out = append(out, hcase{Kind: kind, Target: target, Fault: fault, Point: p, Frac: f, Pending: n, Ctx: "deadline", Size: size, K: 1})
				}
			}
		}
	}
	return out
}

// planFor translates a case into a proxy plan (nil for imperative stream faults).
func planFor(cs hcase, prefix string) *Plan {
	kind := cs.Fault
	if kind == "truncate" {
		kind = "close"
	}
	pl := &Plan{Kind: kind, Count: cs.Pending, Frac: cs.Frac, K: cs.K, ReqMethod: "POST", ReqContains: `"nonce":"` + prefix}
	point := cs.Point
	if strings.HasPrefix(point, "init:") {
		point = strings.TrimPrefix(point, "init:")
		pl.ReqContains = `"method":"initialize"`
	}
	switch point {
	case "pre-request", "mid-request", "post-request", "resp-head-mid", "resp-headers", "pre-term":
		pl.Point = point
	case "post-202":
		pl.Point = "resp-headers"
	case "resp-body-mid":
		pl.Point = "resp-body-mid"
	case "mid-event": // inside the chunk that carries the final event (after the two notification events)
		pl.Point = "resp-body-mid"
		pl.K = 3
	case "between-events":
		pl.Point, pl.K = "event-k", 1
	case "before-final-event":
		pl.Point, pl.K = "event-k", 2
	case "stream:pre-endpoint":
		pl.ReqMethod, pl.ReqContains, pl.Point, pl.DataContains = "GET", "", "stream-data", "event: endpoint"
		pl.Frac, pl.Abs = 0, 0
	case "stream:mid-endpoint":
		pl.ReqMethod, pl.ReqContains, pl.Point, pl.DataContains = "GET", "", "stream-data", "event: endpoint"
	case "stream:post-endpoint":
		pl.ReqMethod, pl.ReqContains, pl.Point, pl.DataContains, pl.Abs = "GET", "", "stream-data", "event: endpoint", -1
	case "stream:pre-answer":
		pl.ReqMethod, pl.ReqContains, pl.Point, pl.DataContains, pl.Count = "GET", "", "stream-data", prefix, 1
		pl.Frac, pl.Abs = 0, 0
	case "stream:mid-answer":
		pl.ReqMethod, pl.ReqContains, pl.Point, pl.DataContains, pl.Count = "GET", "", "stream-data", prefix, 1
	case "stream:post-answer":
		pl.ReqMethod, pl.ReqContains, pl.Point, pl.DataContains, pl.Count, pl.Abs = "GET", "", "stream-data", prefix, 1, -1
	default:
		return nil
	}
	return pl
}

type httpEnv struct {
	in  *kit.Instance
	px  *Proxy
	rep *vh.Reporter
	lt  *leakTracker
}

func (e *httpEnv) url() string { return e.px.URL() + e.in.Path }

// initCall runs Initialize as a pending call (target=init).
func startInit(c *kit.LibClient, ctx context.Context, cancel context.CancelFunc) *call {
	cl := &call{nonce: "initialize", done: make(chan callRes, 1), started: time.Now(), cancel: cancel}
	go c08Init(c, ctx, cl)
	return cl
}

func c08Init(c *kit.LibClient, ctx context.Context, cl *call) {
	res := callRes{Nonce: "initialize"}
	defer func() {
		if p := recover(); p != nil {
			res.Panic = fmt.Sprint(p)
		}
		res.Returned = time.Now()
		cl.done <- res
	}()
	ir, err := c.Initialize(ctx, &mcp.InitializeRequest{})
	res.Err = err
	if err == nil {
		res.Nonce = "initialize:ok"
		if ir == nil || ir.ServerInfo.Name != "verif-server" {
			res.Nonce = "initialize:bad"
		}
	}
}

func validateAny(r callRes) (bool, string) {
	switch r.Nonce {
	case "initialize:ok":
		return true, ""
	case "initialize:bad":
		return false, "Initialize returned a result that is not the server's"
	}
	return validate(r)
}

func ctxFor(mode string, d time.Duration) (context.Context, context.CancelFunc) {
	if mode == "none" {
		return context.WithCancel(context.Background()) // cancelled by the harness only at the end of the case
	}
	return context.WithTimeout(context.Background(), d)
}

// runFaultCase executes one connection-fault case and judges every pending call.
func (e *httpEnv) runFaultCase(cs hcase, track bool) {
	rep := e.rep
	rep.Progress(cs.label())
	rep.Eval(1)
	notePoint(rep, string(cs.Kind), cs.Fault, cs.Target+":"+cs.Point, cs.Pending)
	prefix := nextNonce("h")
	gate := "g-" + prefix
	e.px.SetPlans()
	c, err := newHTTPClient(cs.Kind, e.url())
	if err != nil {
		rep.Inconclusive("client creation failed: " + err.Error())
		return
	}
	pl := planFor(cs, prefix)
	dl := callDeadline
	if cs.Fault == "stall" {
		dl = stallDeadline
	}
	var calls []*call
	useGate := cs.Point == "stream:pending" || cs.Point == "getstream:open" || cs.Point == "stream:pre-answer" || cs.Point == "stream:mid-answer" || cs.Point == "stream:post-answer"
	if cs.Target == "init" {
		e.px.SetPlans(pl)
		ctx, cancel := ctxFor(cs.Ctx, dl)
		calls = append(calls, startInit(c, ctx, cancel))
	} else {
		ictx, icancel := context.WithTimeout(context.Background(), 10*time.Second)
		_, err := c.Initialize(ictx, &mcp.InitializeRequest{})
		icancel()
		if err != nil {
			rep.Inconclusive(fmt.Sprintf("%s: handshake through the pass-through proxy failed: %v", cs.label(), err))
			closeClient(c)
			e.px.CloseConns()
			return
		}
		if cs.Target == "getstream" {
			// wait for the client's listening stream
			dlw := time.Now().Add(3 * time.Second)
			for e.px.FaultStreams("") == 0 && time.Now().Before(dlw) {
				time.Sleep(2 * time.Millisecond)
			}
		}
		if pl != nil {
			e.px.SetPlans(pl)
		}
		for i := 0; i < cs.Pending; i++ {
			extra := map[string]interface{}{"_tool": "necho"}
			if cs.Size == "large" {
				extra["pad_n"] = 20000
			} else {
				extra["pad_n"] = 64
			}
			if cs.Kind == kit.SSSE {
				extra["notify_n"] = 2
			}
			if useGate {
				extra["gate"] = gate
			}
			ctx, cancel := ctxFor(cs.Ctx, dl)
			calls = append(calls, startCallTool(c, ctx, cancel, fmt.Sprintf("%s-%d", prefix, i), "payload-"+prefix, extra))
		}
	}
	// deliver the fault
	var firedAt time.Time
	delivered := 0
	if pl != nil {
		if strings.HasPrefix(cs.Point, "stream:") && cs.Target == "call" {
			// all handlers are parked on the gate: n calls pending on the one stream; then the answers start to flow
			kit.G.AwaitWaiters(gate, cs.Pending, 5*time.Second)
			kit.G.Open(gate)
		}
		select {
		case <-pl.fired:
		case <-time.After(6 * time.Second):
		}
		delivered = pl.AwaitFired(500 * time.Millisecond)
		firedAt = pl.firedTime()
	} else {
		got := kit.G.AwaitWaiters(gate, cs.Pending, 5*time.Second)
		if got < cs.Pending {
			rep.Inconclusive(fmt.Sprintf("%s: only %d of %d handlers reached the gate", cs.label(), got, cs.Pending))
		}
		delivered = e.px.FaultStreams(cs.Fault)
		firedAt = time.Now()
		if cs.Target == "getstream" {
			kit.G.Open(gate) // the calls' own connections are intact: they must complete
		}
	}
	if delivered == 0 || firedAt.IsZero() {
		rep.Count("fault_not_delivered", 1)
		rep.Inconclusive(fmt.Sprintf("%s: the fault point was not reached", cs.label()))
		firedAt = time.Now()
	} else {
		rep.Count("faults_delivered", int64(delivered))
	}
	if cs.Fault == "stall" && cs.Ctx != "none" {
		// a stalled exchange ends by the caller's deadline: the watchdog runs from the later of fault and deadline
		if t := calls[0].started.Add(dl); t.After(firedAt) {
			firedAt = t
		}
	}
	outcomes := e.judgeCalls(cs, calls, firedAt, delivered > 0)
	sampleOnce(rep, map[string]interface{}{"case": cs, "fault_delivered_to_exchanges": delivered, "outcome_per_pending_call": outcomes})
	kit.G.Open(gate)
	e.finishCase(cs, c, calls, track)
}

func startCallTool(c *kit.LibClient, ctx context.Context, cancel context.CancelFunc, nonce, payload string, extra map[string]interface{}) *call {
	cl := &call{nonce: nonce, payload: payload, done: make(chan callRes, 1), started: time.Now(), cancel: cancel}
	args := map[string]interface{}{"nonce": nonce, "payload": payload}
	tool := "echo"
	for k, v := range extra {
		if k == "_tool" {
			tool, _ = v.(string)
			continue
		}
		args[k] = v
		if k == "pad_n" {
			cl.padN, _ = v.(int)
		}
	}
	go c08CallTool(c, ctx, cl, tool, args)
	return cl
}

func c08CallTool(c *kit.LibClient, ctx context.Context, cl *call, tool string, args map[string]interface{}) {
	res := callRes{Nonce: cl.nonce, Payload: cl.payload, PadN: cl.padN}
	defer func() {
		if p := recover(); p != nil {
			res.Panic = fmt.Sprint(p)
		}
		res.Returned = time.Now()
		cl.done <- res
	}()
	rq := &mcp.CallToolRequest{}
	rq.Params.Name = tool
	rq.Params.Arguments = args
	res.Val, res.Err = c.CallTool(ctx, rq)
}

// judgeCalls applies the per-call oracle.
func (e *httpEnv) judgeCalls(cs hcase, calls []*call, firedAt time.Time, delivered bool) (outcomes []string) {
	rep := e.rep
	until := firedAt.Add(watchdog)
	connEnds := cs.Fault == "close" || cs.Fault == "rst" || cs.Fault == "truncate"
	ownConn := cs.Target != "getstream" && cs.Point != "post-202"
	for _, cl := range calls {
		r, ok := cl.await(until)
		if !ok {
			dump := leak.Dump()
			parked, fn, stack := parkedInLibrary(dump, "main.c08")
			if parked {
				rep.Violation(cs.sig("blocked-forever"), fmt.Sprintf("%s: a pending call had not returned %s after the fault was delivered; it is parked in %s", cs.label(), watchdog, fn),
					map[string]interface{}{"case": cs, "parked_in": fn, "goroutine": stack})
			} else {
				rep.Inconclusive(fmt.Sprintf("%s: watchdog fired but no call goroutine is parked in a library frame", cs.label()))
			}
			outcomes = append(outcomes, "not-returned")
			continue
		}
		outcome := "error"
		switch {
		case r.Panic != "":
			outcome = "panic"
			rep.Violation(cs.sig("panic-in-caller"), fmt.Sprintf("%s: the call panicked in the caller's goroutine: %s", cs.label(), r.Panic), map[string]interface{}{"case": cs, "panic": r.Panic})
		case r.Err == nil:
			outcome = "value"
			if good, why := validateAny(r); !good {
				rep.Violation(cs.sig("partial-or-wrong-result"), fmt.Sprintf("%s: the call returned a value that is not its own complete answer: %s", cs.label(), why), map[string]interface{}{"case": cs, "why": why})
			} else {
				rep.Count("values_complete_answer", 1)
			}
		default:
			rep.Count("errors_returned", 1)
			if delivered && connEnds && ownConn && cs.Ctx != "none" && isDeadlineErr(r.Err) {
				outcome = "deadline"
				rep.Violation(cs.sig("returns-only-at-deadline"), fmt.Sprintf("%s: the connection carrying the call was ended by the peer, but the call only returned when its context deadline (%s) passed: %s", cs.label(), callDeadline, errStr(r.Err)),
					map[string]interface{}{"case": cs, "error": errStr(r.Err), "returned_after_fault_ms": r.Returned.Sub(firedAt).Milliseconds()})
			}
			if cs.Fault == "stall" && isDeadlineErr(r.Err) {
				outcome = "deadline-error"
			}
		}
		rep.Max("return_after_fault_ms", r.Returned.Sub(firedAt).Milliseconds())
		if r.Err != nil {
			outcomes = append(outcomes, outcome+": "+clip(r.Err.Error(), 120))
		} else {
			outcomes = append(outcomes, outcome)
		}
		if delivered {
			rep.Distinct(fmt.Sprintf("%s|%s|%s|p=%d|%s", cs.Kind, cs.Target, cs.class(), cs.Pending, outcome))
		}
	}
	return outcomes
}

// finishCase closes the client under the watchdog, drops pooled idle connections, cuts the proxy
// connections and records the growth of the leak levels.
func (e *httpEnv) finishCase(cs hcase, c *kit.LibClient, calls []*call, track bool) {
	rep := e.rep
	for _, pl := range e.px.plansSnapshot() {
		pl.Release()
	}
	for _, cl := range calls {
		if cl.cancel != nil {
			cl.cancel() // what every caller does once its call has returned
		}
	}
	pending := mcp.VerifPendingClientRequests(c.Raw())
	if pending > 0 {
		// quiescence: every call has returned (or was reported); the table must be empty
		time.Sleep(50 * time.Millisecond)
		pending = mcp.VerifPendingClientRequests(c.Raw())
	}
	ok, took, _ := closeClient(c)
	if !ok {
		dump := leak.Dump()
		parked, fn, stack := parkedInLibrary(dump, "main.c08Close")
		if parked {
			rep.Violation(cs.sig("close-hangs"), fmt.Sprintf("%s: Close had not returned after %s; parked in %s", cs.label(), closeWatchdog, fn), map[string]interface{}{"case": cs, "goroutine": stack})
		} else {
			rep.Inconclusive(cs.label() + ": Close watchdog fired without a library frame")
		}
	}
	rep.Max("close_ms", took.Milliseconds())
	if after := mcp.VerifPendingClientRequests(c.Raw()); pending > 0 || after > 0 {
		rep.Violation(cs.sig("pending-entries-left"), fmt.Sprintf("%s: pending-request table holds %d entries at quiescence and %d after Close", cs.label(), pending, after), map[string]interface{}{"case": cs})
	}
	closeIdle()
	e.px.CloseConns()
	if track && e.lt != nil {
		e.lt.after(cs.class(), cs.Pending, len(calls))
	}
}

func (px *Proxy) plansSnapshot() []*Plan {
	px.mu.Lock()
	defer px.mu.Unlock()
	return append([]*Plan{}, px.plans...)
}

// ---- cancellation / deadline cases ----

func cancelInstants(kind kit.Kind) []string {
	switch kind {
	case kit.SSSE:
		return []string{"pre-call", "request-held", "handler", "sse-stream", "response-held"}
	case kit.LSSE:
		return []string{"pre-call", "request-held", "handler", "response-held"}
	default:
		return []string{"pre-call", "request-held", "handler", "response-held"}
	}
}

func (e *httpEnv) runCancelCase(cs hcase, rng *rand.Rand) {
	rep := e.rep
	rep.Progress(cs.label())
	rep.Eval(1)
	notePoint(rep, string(cs.Kind), cs.Fault, cs.Target+":"+cs.Point, cs.Pending)
	prefix := nextNonce("x")
	gate := "g-" + prefix
	e.px.SetPlans()
	c, err := newHTTPClient(cs.Kind, e.url())
	if err != nil {
		rep.Inconclusive("client creation failed: " + err.Error())
		return
	}
	ictx, icancel := context.WithTimeout(context.Background(), 10*time.Second)
	_, err = c.Initialize(ictx, &mcp.InitializeRequest{})
	icancel()
	if err != nil {
		rep.Inconclusive(fmt.Sprintf("%s: handshake failed: %v", cs.label(), err))
		closeClient(c)
		e.px.CloseConns()
		return
	}
	var pl *Plan
	switch cs.Point {
	case "request-held":
		pl = &Plan{Kind: "hold", Point: "pre-request", Count: cs.Pending, ReqMethod: "POST", ReqContains: `"nonce":"` + prefix}
	case "response-held":
		pl = &Plan{Kind: "hold", Point: "resp-body-mid", Frac: 0.1 + 0.8*rng.Float64(), K: 1, Count: cs.Pending, ReqMethod: "POST", ReqContains: `"nonce":"` + prefix}
		if cs.Kind == kit.SSSE {
			pl.K = 3
		}
		if cs.Kind == kit.LSSE {
			pl = &Plan{Kind: "hold", Point: "stream-data", DataContains: prefix, Frac: 0.1 + 0.8*rng.Float64(), Count: 1, ReqMethod: "GET"}
		}
	}
	if pl != nil {
		e.px.SetPlans(pl)
	}
	var calls []*call
	var ctxs []context.Context
	// a deadline that passes while the call is in the given state: the state is entered within a few
	// milliseconds and held until the harness releases it
	tmo := time.Duration(150+rng.Intn(250)) * time.Millisecond
	for i := 0; i < cs.Pending; i++ {
		extra := map[string]interface{}{"_tool": "necho", "pad_n": 64}
		if cs.Size == "large" {
			extra["pad_n"] = 20000
		}
		if cs.Kind == kit.SSSE {
			extra["notify_n"] = 2
		}
		if cs.Point == "handler" || cs.Point == "sse-stream" {
			extra["gate"] = gate
		}
		var ctx context.Context
		var cancel context.CancelFunc
		if cs.Fault == "deadline" {
			ctx, cancel = context.WithTimeout(context.Background(), tmo)
			if cs.Point == "pre-call" {
				ctx, cancel = context.WithDeadline(context.Background(), time.Now().Add(-time.Second))
			}
		} else {
			ctx, cancel = context.WithCancel(context.Background())
			if cs.Point == "pre-call" {
				cancel()
			}
		}
		ctxs = append(ctxs, ctx)
		calls = append(calls, startCallTool(c, ctx, cancel, fmt.Sprintf("%s-%d", prefix, i), "payload-"+prefix, extra))
	}
	// wait until the calls are in the state
	inState := true
	switch cs.Point {
	case "handler", "sse-stream":
		inState = kit.G.AwaitWaiters(gate, cs.Pending, 5*time.Second) >= cs.Pending || cs.Fault == "deadline"
	case "request-held", "response-held":
		if cs.Fault == "cancel" {
			inState = pl.AwaitFired(5*time.Second) >= pl.Count
		}
	}
	if !inState {
		rep.Inconclusive(fmt.Sprintf("%s: the calls did not reach the state", cs.label()))
	}
	var at time.Time
	if cs.Fault == "cancel" {
		at = time.Now()
		for _, cl := range calls {
			cl.cancel()
		}
	} else {
		dl, _ := ctxs[0].Deadline()
		at = dl
		for _, x := range ctxs {
			if d, _ := x.Deadline(); d.After(at) {
				at = d
			}
		}
		if time.Now().Before(at) {
			time.Sleep(time.Until(at))
		}
	}
	until := at.Add(watchdog)
	for _, cl := range calls {
		r, ok := cl.await(until)
		if !ok {
			parked, fn, stack := parkedInLibrary(leak.Dump(), "main.c08")
			if parked {
				rep.Violation(cs.sig("blocked-forever"), fmt.Sprintf("%s: the call had not returned %s after its context ended; parked in %s", cs.label(), watchdog, fn), map[string]interface{}{"case": cs, "goroutine": stack})
			} else {
				rep.Inconclusive(cs.label() + ": watchdog fired without a library frame")
			}
			continue
		}
		outcome := "ctx-error"
		switch {
		case r.Panic != "":
			outcome = "panic"
			rep.Violation(cs.sig("panic-in-caller"), fmt.Sprintf("%s: panic in the caller's goroutine: %s", cs.label(), r.Panic), map[string]interface{}{"case": cs})
		case r.Err == nil:
			outcome = "value"
			if good, why := validate(r); !good {
				rep.Violation(cs.sig("partial-or-wrong-result"), fmt.Sprintf("%s: value returned after the context ended is not the call's own complete answer: %s", cs.label(), why), map[string]interface{}{"case": cs, "why": why})
			} else if inState {
				// the answer cannot have been complete: the call was held before / inside the answer
				rep.Violation(cs.sig("partial-or-wrong-result"), fmt.Sprintf("%s: a value was returned although the answer had not been delivered when the context ended", cs.label()), map[string]interface{}{"case": cs})
			}
		case !isCtxErr(r.Err):
			outcome = "other-error"
			rep.Violation(cs.sig("wrong-error"), fmt.Sprintf("%s: the call ended with an error that does not name the context: %s", cs.label(), errStr(r.Err)), map[string]interface{}{"case": cs, "error": errStr(r.Err)})
		default:
			rep.Count("ctx_errors_returned", 1)
		}
		rep.Max("return_after_cancel_ms", r.Returned.Sub(at).Milliseconds())
		rep.Distinct(fmt.Sprintf("%s|%s|%s|p=%d|%s", cs.Kind, cs.Target, cs.class(), cs.Pending, outcome))
	}
	kit.G.Open(gate)
	e.finishCase(cs, c, calls, true)
}
