package main

import (
	"context"
	"fmt"
	"net/http/httptest"
	"strings"
	"sync"
	"time"

	mcp "trpc.group/trpc-go/trpc-mcp-go"

	"verifharness/lib/kit"
	"verifharness/lib/vh"
)

// ---- connections of completed SSE-mode calls (terminating chunk after the final event) ----

// sseDoneCase: `pending` concurrent calls x 2 rounds complete normally; what differs is when the
// terminating chunk of each SSE answer arrives and whether the caller ever cancels its context.
type sseDone struct {
	Server  string // scripted | real
	Term    string // delayed | withheld | as-sent
	Ctx     string // never-cancelled | cancelled-after-return
	Pending int
}

func (c sseDone) class() string {
	f := map[string]string{"delayed": "delay", "withheld": "stall", "as-sent": "none"}[c.Term]
	return fmt.Sprintf("%s@pre-term[%s-server,ctx-%s]", f, c.Server, c.Ctx)
}
func (c sseDone) label() string {
	return fmt.Sprintf("S-sse|%s|pending=%s :: pending=%d", c.class(), pendClass(c.Pending), c.Pending)
}

func runSSEDone(rep *vh.Reporter, lt *leakTracker, cs sseDone, url string, sc *Scripted, px *Proxy) {
	rep.Progress(cs.label())
	rep.Eval(1)
	notePoint(rep, "S-sse", strings.SplitN(cs.class(), "@", 2)[0], "call:"+strings.SplitN(cs.class(), "@", 2)[1], cs.Pending)
	prefix := nextNonce("d")
	if px != nil {
		px.SetPlans()
		if cs.Term == "delayed" {
			px.SetPlans(&Plan{Kind: "delay", Point: "pre-term", Delay: 120 * time.Millisecond, Count: 1 << 20, ReqMethod: "POST", ReqContains: `"nonce":"` + prefix})
		}
	}
	c, err := newHTTPClient(kit.SSSE, url)
	if err != nil {
		rep.Inconclusive("client: " + err.Error())
		return
	}
	mkctx := func() (context.Context, context.CancelFunc) {
		if cs.Ctx == "never-cancelled" {
			return context.Background(), func() {}
		}
		return context.WithTimeout(context.Background(), 20*time.Second)
	}
	ictx, icancel := mkctx()
	_, err = c.Initialize(ictx, &mcp.InitializeRequest{})
	icancel()
	if err != nil {
		rep.Inconclusive(cs.label() + ": handshake failed: " + err.Error())
		return
	}
	ncalls := 0
	var before int64
	if sc != nil {
		before = sc.Terms.Load() - sc.Answers.Load()
	}
	for round := 0; round < 2; round++ {
		var calls []*call
		for i := 0; i < cs.Pending; i++ {
			ctx, cancel := mkctx()
			calls = append(calls, startCallTool(c, ctx, cancel, fmt.Sprintf("%s-%d-%d", prefix, round, i), "payload-"+prefix, map[string]interface{}{"_tool": toolFor(sc), "pad_n": 200}))
		}
		for _, cl := range calls {
			r, ok := cl.await(time.Now().Add(watchdog))
			ncalls++
			switch {
			case !ok:
				rep.Inconclusive(cs.label() + ": a call without fault did not return")
			case r.Panic != "":
				rep.Violation(fmt.Sprintf("C08|S-sse|%s|pending=%s|panic-in-caller", cs.class(), pendClass(cs.Pending)), r.Panic, nil)
			case r.Err != nil:
				rep.Count("sse_done_call_errors", 1)
			default:
				if good, why := validate(r); !good {
					rep.Violation(fmt.Sprintf("C08|S-sse|%s|pending=%s|partial-or-wrong-result", cs.class(), pendClass(cs.Pending)), cs.label()+": "+why, nil)
				} else {
					rep.Count("values_complete_answer", 1)
				}
			}
			cl.cancel() // a no-op for never-cancelled
		}
	}
	// quiescence on the wire: every delayed terminating chunk has been written
	if sc != nil && cs.Term == "delayed" {
		dl := time.Now().Add(5 * time.Second)
		for sc.Terms.Load()-sc.Answers.Load() != before && time.Now().Before(dl) {
			time.Sleep(5 * time.Millisecond)
		}
	} else if cs.Term == "delayed" {
		time.Sleep(300 * time.Millisecond)
	}
	ok, took, _ := closeClient(c)
	if !ok {
		rep.Inconclusive(cs.label() + ": Close did not return")
	}
	rep.Max("close_ms", took.Milliseconds())
	closeIdle()
	if px != nil {
		px.CloseConns() // the peer's side of every connection is gone as well
	}
	g := lt.after(cs.class(), cs.Pending, ncalls)
	rep.Distinct(fmt.Sprintf("S-sse|%s|p=%d|conn+%d", cs.class(), cs.Pending, sign(g.Conn)))
}

func sign(n int) int {
	if n > 0 {
		return 1
	}
	return 0
}

func toolFor(sc *Scripted) string {
	if sc != nil {
		return "echo"
	}
	return "necho"
}

func sseDoneBatch(rep *vh.Reporter, which string) {
	lt := newLeakTracker(rep, "S-sse", nil)
	lt.side = clientSide
	lt.start = measure(clientSide)
	lt.cur = lt.start
	pend := map[string]string{}
	switch which {
	case "scripted":
		scD, err := newScripted()
		if err != nil {
			rep.Inconclusive("scripted server: " + err.Error())
			return
		}
		scN, err := newScripted()
		if err != nil {
			rep.Inconclusive("scripted server: " + err.Error())
			return
		}
		scD.TermDelay = 120 * time.Millisecond
		scN.TermNever = true
		defer scD.Close()
		defer scN.Close()
		warm(rep, kit.SSSE, scD.URL())
		closeIdle()
		lt.start = settleTo(clientSide, levels{Lib: map[string]int{}}, 500*time.Millisecond)
		lt.cur = lt.start
		for _, v := range []struct{ term, ctx string }{{"delayed", "cancelled-after-return"}, {"delayed", "never-cancelled"}, {"withheld", "never-cancelled"}} {
			for _, p := range pendings {
				sc := scD
				if v.term == "withheld" {
					sc = scN
				}
				cs := sseDone{Server: "scripted", Term: v.term, Ctx: v.ctx, Pending: p}
				pend[cs.class()] = "n"
				runSSEDone(rep, lt, cs, sc.URL(), sc, nil)
			}
		}
	case "proxy":
		in := kit.Start(kit.SSSE, kit.Opts{})
		kit.StdFixture(in)
		registerNecho(in)
		px, err := newProxy(in.TS.Listener.Addr().String())
		if err != nil {
			rep.Inconclusive("proxy: " + err.Error())
			return
		}
		// warm-up so that lazily started server goroutines / fds exist before the baseline
		warm(rep, kit.SSSE, px.URL()+in.Path)
		px.CloseConns()
		closeIdle()
		lt.start = settleTo(clientSide, levels{Lib: map[string]int{}}, 500*time.Millisecond)
		lt.cur = lt.start
		for _, v := range []struct{ term, ctx string }{{"as-sent", "cancelled-after-return"}, {"delayed", "cancelled-after-return"}, {"as-sent", "never-cancelled"}, {"delayed", "never-cancelled"}} {
			for _, p := range pendings {
				cs := sseDone{Server: "real", Term: v.term, Ctx: v.ctx, Pending: p}
				pend[cs.class()] = "n"
				if v.term == "as-sent" {
					if lt.control == nil {
						lt.control = map[string]bool{}
					}
					lt.control[cs.class()] = true
				}
				runSSEDone(rep, lt, cs, px.URL()+in.Path, nil, px)
			}
		}
		defer in.Close()
		defer px.Close()
	}
	lt.finish(func(class string) string { return "n" })
}

func warm(rep *vh.Reporter, kind kit.Kind, url string) {
	c, err := newHTTPClient(kind, url)
	if err != nil {
		return
	}
	ctx, cancel := context.WithTimeout(context.Background(), 10*time.Second)
	defer cancel()
	if _, err := c.Initialize(ctx, &mcp.InitializeRequest{}); err == nil {
		cl := startCallTool(c, ctx, func() {}, nextNonce("warm"), "w", map[string]interface{}{})
		cl.await(time.Now().Add(5 * time.Second))
		time.Sleep(30 * time.Millisecond)
	}
	closeClient(c)
}

// ---- server side: peers vanish ----

func serverSideFn(fn string) bool { return !clientSide(fn) }

func serverBatch(rep *vh.Reporter, kind kit.Kind, n int) {
	in := kit.Start(kind, kit.Opts{})
	defer in.Close()
	kit.StdFixture(in)
	registerNecho(in)
	if in.Server != nil {
		in.RegisterTool(mcp.NewTool("ask", mcp.WithString("nonce")), func(ctx context.Context, req *mcp.CallToolRequest) (*mcp.CallToolResult, error) {
			// a server-issued request on the session's listening stream, bound to the handler's context
			sid := ""
			if s, ok := mcp.GetSessionFromContext(ctx); ok && s != nil {
				sid = s.GetID()
			}
			rq := &mcp.JSONRPCRequest{JSONRPC: "2.0"}
			rq.Method = "verif/ask"
			_, err := in.Server.SendRequest(ctx, sid, rq)
			return mcp.NewTextResult(fmt.Sprintf("asked: %v", err)), nil
		})
	}
	px, err := newProxy(in.TS.Listener.Addr().String())
	if err != nil {
		rep.Inconclusive("proxy: " + err.Error())
		return
	}
	defer px.Close()
	via := *in
	via.TS = &httptest.Server{URL: px.URL()}
	who := "server:" + string(kind)
	// warm-up peer
	runPeers(rep, &via, in, px, kind, "peer-close", 1, who, nil)
	lt := newLeakTracker(rep, who, serverSideFn)
	for _, mode := range []string{"peer-close", "tcp-close", "tcp-rst"} {
		for round := 0; round < 2; round++ { // N, then 2N peers in total per mode
			runPeers(rep, &via, in, px, kind, mode, n, who, lt)
		}
	}
	lt.finish(func(string) string { return "n" })
}

func runPeers(rep *vh.Reporter, via, in *kit.Instance, px *Proxy, kind kit.Kind, mode string, n int, who string, lt *leakTracker) {
	class := mode + "@streams+handlers"
	label := fmt.Sprintf("%s|%s|pending=n :: peers=%d", who, class, n)
	sig := func(sym string) string { return fmt.Sprintf("C08|%s|%s|pending=n|%s", who, class, sym) }
	rep.Progress(label)
	px.SetPlans()
	if lt != nil {
		rep.Eval(1)
		notePoint(rep, who, mode, "peers:streams+handlers", n)
	}
	prefix := nextNonce("v")
	gate := "g-" + prefix
	ctx, cancelAll := context.WithCancel(context.Background())
	var peers []*kit.RawConn
	var wg sync.WaitGroup
	asks := 0
	for i := 0; i < n; i++ {
		c, err := via.Dial(ctx)
		if err != nil {
			rep.Inconclusive(label + ": dial: " + err.Error())
			continue
		}
		if err := c.Handshake(ctx); err != nil {
			rep.Inconclusive(label + ": handshake: " + err.Error())
			c.Close()
			continue
		}
		if kind.IsStreamable() {
			if _, err := c.OpenGet(ctx); err != nil {
				rep.Inconclusive(label + ": GET: " + err.Error())
			}
		}
		peers = append(peers, c)
		// one completed call
		id := fmt.Sprintf(`"%s-a%d"`, prefix, i)
		ex := c.Post(ctx, kit.EchoCallBody(id, fmt.Sprintf("%s-a%d", prefix, i), "p", nil), kit.PostOpts{WantID: id})
		if len(ex.Frames) == 0 || !strings.Contains(strings.Join(ex.Frames, ""), prefix) {
			rep.Inconclusive(label + ": the peer's completed call got no answer")
		} else if lt != nil {
			rep.Count("server_calls_completed", 1)
		}
		// one call whose handler is still running when the peer vanishes
		wg.Add(1)
		go func(i int) {
			defer wg.Done()
			id := fmt.Sprintf(`"%s-g%d"`, prefix, i)
			body := []byte(fmt.Sprintf(`{"jsonrpc":"2.0","id":%s,"method":"tools/call","params":{"name":"necho","arguments":{"nonce":"%s-g%d","payload":"p","gate":"%s"}}}`, id, prefix, i, gate))
			c.Post(ctx, body, kit.PostOpts{WantID: id, Wait: 20 * time.Second})
		}(i)
		// one call whose handler waits for the peer's answer to a server-issued request
		if in.Server != nil {
			asks++
			wg.Add(1)
			go func(i int) {
				defer wg.Done()
				id := fmt.Sprintf(`"%s-q%d"`, prefix, i)
				body := []byte(fmt.Sprintf(`{"jsonrpc":"2.0","id":%s,"method":"tools/call","params":{"name":"ask","arguments":{"nonce":"%s-q%d"}}}`, id, prefix, i))
				c.Post(ctx, body, kit.PostOpts{WantID: id, Wait: 20 * time.Second})
			}(i)
		}
	}
	got := kit.G.AwaitWaiters(gate, len(peers), 5*time.Second)
	pendingSrv := 0
	dl := time.Now().Add(3 * time.Second)
	for time.Now().Before(dl) {
		pendingSrv = mcp.VerifPendingServerRequests(in.Srv())
		if pendingSrv >= asks {
			break
		}
		time.Sleep(5 * time.Millisecond)
	}
	streams := 0
	if in.Server != nil {
		streams = mcp.VerifListeningStreams(in.Server)
	}
	if lt != nil {
		rep.Count("server_peers_vanished_with_running_handler", int64(got))
		rep.Count("server_peers_vanished_with_pending_server_request", int64(pendingSrv))
		rep.Count("server_peers_vanished_with_listening_stream", int64(streams))
		rep.Max("server_handlers_running_when_peers_vanish", int64(got))
		rep.Max("server_pending_requests_when_peers_vanish", int64(pendingSrv))
		rep.Max("server_listening_streams_when_peers_vanish", int64(streams))
		if got < len(peers) || pendingSrv < asks || (in.Server != nil && streams < len(peers)) {
			rep.Inconclusive(fmt.Sprintf("%s: set-up incomplete: handlers=%d/%d pending=%d/%d streams=%d", label, got, len(peers), pendingSrv, asks, streams))
		}
	}
	// the peers vanish
	switch mode {
	case "tcp-close":
		px.CloseConns()
	case "tcp-rst":
		px.ResetConns()
	}
	cancelAll()
	for _, c := range peers {
		c.Close()
	}
	wg.Wait()
	px.CloseConns()
	kit.G.Open(gate) // the handlers that were still running finish now
	if lt == nil {
		time.Sleep(100 * time.Millisecond)
		return
	}
	// quiescence: counts, not time, decide
	left, leftStreams := 0, 0
	dl = time.Now().Add(3 * time.Second)
	for {
		left = mcp.VerifPendingServerRequests(in.Srv())
		if in.Server != nil {
			leftStreams = mcp.VerifListeningStreams(in.Server)
		}
		if (left == 0 && leftStreams == 0) || !time.Now().Before(dl) {
			break
		}
		time.Sleep(10 * time.Millisecond)
	}
	if left > 0 {
		rep.Violation(sig("pending-entries-left"), fmt.Sprintf("%s: %d server-issued requests still pending after every peer connection is gone and the handlers' contexts ended", label, left), nil)
	}
	if leftStreams > 0 {
		rep.Violation(sig("pending-entries-left"), fmt.Sprintf("%s: %d listening streams still registered after every peer connection is gone", label, leftStreams), nil)
	}
	g := lt.after(class, n, 3*n)
	rep.Distinct(fmt.Sprintf("%s|%s|lib+%d", who, class, sign(sumLib(g))))
}

func sumLib(g growth) int {
	n := 0
	for _, d := range g.Lib {
		n += d
	}
	return n
}

// ResetConns ends every relayed connection with RST towards both sides.
func (px *Proxy) ResetConns() {
	px.mu.Lock()
	var l []*pconn
	for c := range px.conns {
		l = append(l, c)
	}
	px.mu.Unlock()
	for _, c := range l {
		if t, ok := c.up.(interface{ SetLinger(int) error }); ok {
			t.SetLinger(0)
		}
		c.shut(true)
	}
}
