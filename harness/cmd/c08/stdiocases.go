package main

import (
	"context"
	"fmt"
	"math/rand"
	"syscall"
	"time"

	mcp "trpc.group/trpc-go/trpc-mcp-go"

	"verifharness/lib/kit"
	"verifharness/lib/leak"
	"verifharness/lib/sched"
	"verifharness/lib/vh"
)

// scase is one stdio fault case.
type scase struct {
	Fault   string  `json:"fault"` // kill9 | sigterm | exit | sigstop | truncate | close-stdout | cancel | deadline | none
	Point   string  `json:"point"` // before-first-call | pending | between-calls | mid-response | pre-response | after-response | pre-call | handler
	Pending int     `json:"pending"`
	Script  string  `json:"script,omitempty"`
	Frac    float64 `json:"frac,omitempty"`
}

func (c scase) class() string { return c.Fault + "@" + c.Point }
func (c scase) sig(sym string) string {
	return fmt.Sprintf("C08|stdio|%s|pending=%s|%s", c.class(), pendClass(c.Pending), sym)
}
func (c scase) label() string {
	return fmt.Sprintf("stdio|%s|pending=%s :: pending=%d script=%s frac=%.3f", c.class(), pendClass(c.Pending), c.Pending, c.Script, c.Frac)
}

func init() {
	// the real stdio server child: standard fixture + a tool that makes the server process exit
	kit.Fixtures["c08std"] = func(in *kit.Instance) {
		kit.StdFixture(in)
		in.RegisterTool(mcp.NewTool("die", mcp.WithString("nonce")), func(ctx context.Context, req *mcp.CallToolRequest) (*mcp.CallToolResult, error) {
			syscall.Exit(7)
			return nil, nil
		})
	}
}

func stdioEnumerate(rng *rand.Rand, nOffsets int) []scase {
	var out []scase
	for _, f := range []string{"kill9", "sigterm", "exit", "sigstop"} {
		for _, p := range pendings {
			out = append(out, scase{Fault: f, Point: "pending", Pending: p})
		}
		if f != "sigstop" {
			out = append(out, scase{Fault: f, Point: "before-first-call", Pending: 1}, scase{Fault: f, Point: "before-first-call", Pending: 2})
			out = append(out, scase{Fault: f, Point: "between-calls", Pending: 1}, scase{Fault: f, Point: "between-calls", Pending: 8})
		}
	}
	// byte-level control: scripted child
	for _, s := range []struct{ fault, point, script string }{
		{"exit", "pre-response", "pre-exit"}, {"close-stdout", "pre-response", "pre-closeout"}, {"exit", "after-response-no-eol", "noeol-exit"},
	} {
		for _, p := range []int{1, 8} {
			out = append(out, scase{Fault: s.fault, Point: s.point, Pending: p, Script: s.script})
		}
	}
	for _, s := range []struct{ fault, script string }{{"truncate", "partial-exit"}, {"close-stdout", "partial-closeout"}, {"stall", "partial-stall"}} {
		fr := []float64{0.0001, 0.9999}
		for k := 0; k < nOffsets; k++ {
			fr = append(fr, 0.02+0.96*rng.Float64())
		}
		for k, f := range fr {
			out = append(out, scase{Fault: s.fault, Point: "mid-response", Pending: pendings[k%len(pendings)], Script: s.script, Frac: f})
		}
	}
	for _, f := range []string{"cancel", "deadline"} {
		for _, pt := range []string{"pre-call", "handler"} {
			for _, p := range pendings {
				out = append(out, scase{Fault: f, Point: pt, Pending: p})
			}
		}
	}
	out = append(out, scase{Fault: "none", Point: "complete", Pending: 1}, scase{Fault: "none", Point: "complete", Pending: 2}, scase{Fault: "none", Point: "complete", Pending: 8})
	return out
}

func newStdio(cs scase) (*kit.LibClient, error) {
	if cs.Script != "" {
		return kit.NewStdioClient("", map[string]string{vh.ChildEnv: "c08-stdio-script", "C08_SCRIPT": cs.Script, "C08_FRAC": fmt.Sprint(cs.Frac)}, 30*time.Second)
	}
	return kit.NewStdioClient("c08std", nil, 30*time.Second)
}

func signalChild(c *kit.LibClient, sig syscall.Signal) bool {
	pid := c.Std.GetProcessID()
	if pid <= 0 {
		return false
	}
	return syscall.Kill(pid, sig) == nil
}

type stdioEnv struct {
	rep *vh.Reporter
	lt  *leakTracker
}

func (e *stdioEnv) run(cs scase, rng *rand.Rand) {
	rep := e.rep
	rep.Progress(cs.label())
	rep.Eval(1)
	notePoint(rep, "stdio", cs.Fault, "call:"+cs.Point, cs.Pending)
	c, err := newStdio(cs)
	if err != nil {
		rep.Inconclusive("stdio client: " + err.Error())
		return
	}
	ictx, icancel := context.WithTimeout(context.Background(), 15*time.Second)
	_, err = c.Initialize(ictx, &mcp.InitializeRequest{})
	icancel()
	if err != nil {
		rep.Inconclusive(fmt.Sprintf("%s: handshake with the stdio child failed: %v", cs.label(), err))
		closeClient(c)
		return
	}
	prefix := nextNonce("s")
	issue := func(n int, extra map[string]interface{}, mode string, tmo time.Duration) ([]*call, []context.Context) {
		var calls []*call
		var ctxs []context.Context
		for i := 0; i < n; i++ {
			var ctx context.Context
			var cancel context.CancelFunc
			switch mode {
			case "cancelled":
				ctx, cancel = context.WithCancel(context.Background())
				cancel()
			case "expired":
				ctx, cancel = context.WithDeadline(context.Background(), time.Now().Add(-time.Second))
			case "cancel":
				ctx, cancel = context.WithCancel(context.Background())
			default:
				ctx, cancel = context.WithTimeout(context.Background(), tmo)
			}
			ctxs = append(ctxs, ctx)
			calls = append(calls, startCallTool(c, ctx, cancel, fmt.Sprintf("%s-%d-%d", prefix, len(calls), rng.Intn(1000)), "payload-"+prefix, extra))
		}
		return calls, ctxs
	}
	kill := func() (bool, time.Time) {
		switch cs.Fault {
		case "kill9":
			return signalChild(c, syscall.SIGKILL), time.Now()
		case "sigterm":
			return signalChild(c, syscall.SIGTERM), time.Now()
		case "sigstop":
			return signalChild(c, syscall.SIGSTOP), time.Now()
		case "exit":
			ctx, cancel := context.WithTimeout(context.Background(), 3*time.Second)
			defer cancel()
			rq := &mcp.CallToolRequest{}
			rq.Params.Name = "die"
			rq.Params.Arguments = map[string]interface{}{"nonce": "die"}
			c.CallTool(ctx, rq) // ends with an error when the server exits
			return true, time.Now()
		}
		return false, time.Now()
	}
	var calls []*call
	var at time.Time
	delivered := true
	connEnds := true
	cancelKind := cs.Fault == "cancel" || cs.Fault == "deadline"
	inState := false
	switch {
	case cs.Script != "":
		// the scripted child faults by itself while answering the first call
		tmo := callDeadline
		if cs.Fault == "stall" {
			connEnds = false
			tmo = stallDeadline
		}
		calls, _ = issue(cs.Pending, map[string]interface{}{"pad_n": 600}, "", tmo)
		at = time.Now().Add(200 * time.Millisecond)
	case cs.Fault == "none":
		calls, _ = issue(cs.Pending, map[string]interface{}{"pad_n": 600}, "", callDeadline)
		at = time.Now()
		connEnds = false
	case cancelKind:
		connEnds = false
		extra := map[string]interface{}{"delay_us": 2500000}
		switch {
		case cs.Point == "pre-call" && cs.Fault == "cancel":
			calls, _ = issue(cs.Pending, extra, "cancelled", 0)
			at = time.Now()
		case cs.Point == "pre-call":
			calls, _ = issue(cs.Pending, extra, "expired", 0)
			at = time.Now()
		case cs.Fault == "cancel":
			calls, _ = issue(cs.Pending, extra, "cancel", 0)
			time.Sleep(time.Duration(50+rng.Intn(200)) * time.Millisecond) // the handlers sleep 2.5 s
			at = time.Now()
			for _, cl := range calls {
				cl.cancel()
			}
		default:
			tmo := time.Duration(100+rng.Intn(300)) * time.Millisecond
			calls, _ = issue(cs.Pending, extra, "", tmo)
			at = time.Now().Add(tmo)
		}
		inState = true
	case cs.Point == "pending":
		tmo := callDeadline
		if cs.Fault == "sigstop" {
			tmo = stallDeadline
			connEnds = false
		}
		calls, _ = issue(cs.Pending, map[string]interface{}{"delay_us": 4000000}, "", tmo)
		time.Sleep(time.Duration(80+rng.Intn(120)) * time.Millisecond) // requests written, handlers asleep for 4 s
		delivered, at = kill()
		if cs.Fault == "sigstop" {
			at = calls[0].started.Add(tmo)
		}
	case cs.Point == "before-first-call":
		delivered, at = kill()
		time.Sleep(time.Duration(rng.Intn(60)) * time.Millisecond)
		calls, _ = issue(cs.Pending, map[string]interface{}{"pad_n": 100}, "", callDeadline)
	case cs.Point == "between-calls":
		first, _ := issue(1, map[string]interface{}{"pad_n": 100}, "", callDeadline)
		r, ok := first[0].await(time.Now().Add(watchdog))
		if good, why := validate(r); !ok || r.Err != nil || !good {
			rep.Inconclusive(fmt.Sprintf("%s: the call before the fault did not succeed (%v %s)", cs.label(), r.Err, why))
		}
		first[0].cancel()
		delivered, at = kill()
		time.Sleep(time.Duration(rng.Intn(60)) * time.Millisecond)
		calls, _ = issue(cs.Pending, map[string]interface{}{"pad_n": 100}, "", callDeadline)
	}
	if !delivered {
		rep.Inconclusive(cs.label() + ": the signal could not be delivered")
	} else {
		rep.Count("faults_delivered", 1)
	}
	ref := at
	if time.Now().After(ref) {
		ref = time.Now()
	}
	until := ref.Add(watchdog)
	var outcomes []string
	for _, cl := range calls {
		r, ok := cl.await(until)
		if !ok {
			parked, fn, stack := parkedInLibrary(leak.Dump(), "main.c08")
			if parked {
				rep.Violation(cs.sig("blocked-forever"), fmt.Sprintf("%s: a pending call had not returned %s after the fault; parked in %s", cs.label(), watchdog, fn), map[string]interface{}{"case": cs, "goroutine": stack})
			} else {
				rep.Inconclusive(cs.label() + ": watchdog fired without a library frame")
			}
			continue
		}
		outcome := "error"
		switch {
		case r.Panic != "":
			outcome = "panic"
			rep.Violation(cs.sig("panic-in-caller"), fmt.Sprintf("%s: panic in the caller's goroutine: %s", cs.label(), r.Panic), map[string]interface{}{"case": cs, "panic": r.Panic})
		case r.Err == nil:
			outcome = "value"
			if good, why := validate(r); !good {
				rep.Violation(cs.sig("partial-or-wrong-result"), fmt.Sprintf("%s: the call returned a value that is not its own complete answer: %s", cs.label(), why), map[string]interface{}{"case": cs, "why": why})
			} else if cancelKind && inState {
				rep.Violation(cs.sig("partial-or-wrong-result"), cs.label()+": a value was returned although the handler had not answered when the context ended", map[string]interface{}{"case": cs})
			} else {
				rep.Count("values_complete_answer", 1)
			}
		case cancelKind && !isCtxErr(r.Err):
			outcome = "other-error"
			rep.Violation(cs.sig("wrong-error"), fmt.Sprintf("%s: the error does not name the context: %s", cs.label(), errStr(r.Err)), map[string]interface{}{"case": cs, "error": errStr(r.Err)})
		default:
			rep.Count("errors_returned", 1)
			if connEnds && delivered && isDeadlineErr(r.Err) {
				outcome = "deadline"
				rep.Violation(cs.sig("returns-only-at-deadline"), fmt.Sprintf("%s: the server's side of the pipe ended, but the call only returned when its context deadline (%s) passed: %s", cs.label(), callDeadline, errStr(r.Err)),
					map[string]interface{}{"case": cs, "error": errStr(r.Err), "returned_after_fault_ms": r.Returned.Sub(at).Milliseconds()})
			}
		}
		rep.Max("return_after_fault_ms", r.Returned.Sub(at).Milliseconds())
		rep.Distinct(fmt.Sprintf("stdio|%s|p=%d|%s", cs.class(), cs.Pending, outcome))
		outcomes = append(outcomes, outcome+" "+errStr(r.Err))
	}
	sampleOnce(rep, map[string]interface{}{"case": cs, "outcome_per_pending_call": outcomes})
	for _, cl := range calls {
		cl.cancel()
	}
	e.finish(cs.sig, cs.label(), cs.class(), cs.Pending, len(calls), c)
}

// finish: pending table at quiescence, Close under the watchdog, children, leak levels.
func (e *stdioEnv) finish(sig func(string) string, label, class string, pending, ncalls int, c *kit.LibClient) {
	rep := e.rep
	left := mcp.VerifPendingClientRequests(c.Raw())
	if left > 0 {
		time.Sleep(50 * time.Millisecond)
		left = mcp.VerifPendingClientRequests(c.Raw())
	}
	ok, took, cerr := closeClient(c)
	if !ok {
		parked, fn, stack := parkedInLibrary(leak.Dump(), "main.c08Close")
		if parked {
			rep.Violation(sig("close-hangs"), fmt.Sprintf("%s: Close had not returned after %s; parked in %s", label, closeWatchdog, fn), map[string]interface{}{"goroutine": stack})
		} else {
			rep.Inconclusive(label + ": Close watchdog fired without a library frame")
		}
	}
	rep.Max("close_ms", took.Milliseconds())
	if took > 4500*time.Millisecond {
		rep.Count("close_took_5s", 1)
		rep.SetAdd("close_5s_errors", errStr(cerr))
	}
	if after := mcp.VerifPendingClientRequests(c.Raw()); left > 0 || after > 0 {
		rep.Violation(sig("pending-entries-left"), fmt.Sprintf("%s: pending-request table holds %d entries at quiescence and %d after Close", label, left, after), nil)
	}
	if e.lt != nil {
		e.lt.after(class, pending, ncalls)
	}
}

// closeStress: n clients in parallel, each handshake + one completed call + Close (Close racing the
// library's own process watcher); judged by the leak levels over three rounds.
func (e *stdioEnv) closeStress(n int) {
	rep := e.rep
	cs := scase{Fault: "client-close", Point: "idle", Pending: 1}
	for round := 0; round < 3; round++ {
		rep.Progress(cs.label() + fmt.Sprintf(" round=%d clients=%d", round, n))
		rep.Eval(1)
		notePoint(rep, "stdio", cs.Fault, "call:"+cs.Point, cs.Pending)
		done := make(chan time.Duration, n)
		for i := 0; i < n; i++ {
			go func() {
				c, err := kit.NewStdioClient("c08std", nil, 30*time.Second)
				if err != nil {
					done <- -1
					return
				}
				ctx, cancel := context.WithTimeout(context.Background(), 20*time.Second)
				defer cancel()
				if _, err := c.Initialize(ctx, &mcp.InitializeRequest{}); err != nil {
					closeClient(c)
					done <- -1
					return
				}
				cl := startCallTool(c, ctx, func() {}, nextNonce("cs"), "p", map[string]interface{}{"pad_n": 30})
				cl.await(time.Now().Add(watchdog))
				ok, took, cerr := closeClient(c)
				if !ok {
					took = -2
				} else if took > 4500*time.Millisecond {
					rep.SetAdd("close_5s_errors", errStr(cerr))
				}
				done <- took
			}()
		}
		slow, hung := 0, 0
		for i := 0; i < n; i++ {
			switch d := <-done; {
			case d == -2:
				hung++
			case d > 4500*time.Millisecond:
				slow++
			}
		}
		rep.Count("close_took_5s", int64(slow))
		rep.Count("stdio_clients_closed", int64(n))
		if hung > 0 {
			parked, fn, stack := parkedInLibrary(leak.Dump(), "main.c08Close")
			if parked {
				rep.Violation(cs.sig("close-hangs"), fmt.Sprintf("%s: %d of %d Close calls had not returned after %s; parked in %s", cs.label(), hung, n, closeWatchdog, fn), map[string]interface{}{"goroutine": stack})
			}
		}
		e.lt.after(cs.class(), 1, n)
		rep.Distinct(fmt.Sprintf("stdio|%s|round=%d", cs.class(), round))
	}
}

// ---- schedule-sensitive cases (yield controller); each runs in its own child ----

// schedA: a response arrives while the caller's cancellation closes the per-request channel.
func schedA(rep *vh.Reporter, seed int64, holdPoint string) {
	cs := scase{Fault: "cancel", Point: "response-arrival[hold=" + holdPoint + "]", Pending: 1}
	rep.Progress(cs.label())
	rep.Eval(1)
	notePoint(rep, "stdio", cs.Fault, "call:"+cs.Point, cs.Pending)
	ctl := sched.New(20*time.Second, seed)
	ctl.Install()
	defer sched.Uninstall()
	c, err := kit.NewStdioClient("c08std", nil, 30*time.Second)
	if err != nil {
		rep.Inconclusive("stdio client: " + err.Error())
		return
	}
	ictx, icancel := context.WithTimeout(context.Background(), 15*time.Second)
	_, err = c.Initialize(ictx, &mcp.InitializeRequest{})
	icancel()
	if err != nil {
		rep.Inconclusive("handshake failed: " + err.Error())
		return
	}
	ctl.Hold(holdPoint)
	ctx, cancel := context.WithCancel(context.Background())
	cl := startCallTool(c, ctx, cancel, nextNonce("sa"), "p", map[string]interface{}{"pad_n": 50})
	parked := 0
	if holdPoint == "stdiocli.resp.lookup" {
		// the server answers at once: the reader looks the channel up and is parked before the send
		parked = ctl.AwaitWaiting(holdPoint, 1, 5*time.Second)
		cancel() // the caller gives up: sendRequest returns, its deferred cleanup closes the channel
		r, _ := cl.await(time.Now().Add(watchdog))
		rep.Count("sched_first_call_returned", 1)
		_ = r
		time.Sleep(20 * time.Millisecond)
		ctl.Release(holdPoint) // the reader now sends on the channel
	} else {
		// hold the caller at the start of its cleanup; the answer arrives meanwhile
		time.Sleep(100 * time.Millisecond) // answer delivered into the buffered channel; caller returns through cleanup
		parked = ctl.AwaitWaiting(holdPoint, 1, 5*time.Second)
		cancel()
		time.Sleep(50 * time.Millisecond)
		ctl.Release(holdPoint)
		cl.await(time.Now().Add(watchdog))
	}
	rep.Max("sched_parked_"+holdPoint, int64(parked))
	if parked > 0 {
		rep.Count("sched_races_set_up", 1)
	}
	if parked == 0 {
		rep.Inconclusive(cs.label() + ": nothing was parked at the yield point")
	}
	time.Sleep(100 * time.Millisecond)
	// a LATER call on the same client, server alive and connection intact
	ctx2, cancel2 := context.WithTimeout(context.Background(), watchdog)
	later := startCallTool(c, ctx2, cancel2, nextNonce("sa-later"), "p2", map[string]interface{}{"pad_n": 50})
	r, ok := later.await(time.Now().Add(watchdog + 3*time.Second))
	cancel2()
	switch {
	case !ok:
		rep.Violation(cs.sig("blocked-forever"), cs.label()+": the later call did not return", nil)
	case r.Panic != "":
		rep.Violation(cs.sig("panic-in-caller"), cs.label()+": "+r.Panic, nil)
	case r.Err != nil:
		_, by := leak.LibNow()
		rep.Violation(cs.sig("later-call-not-processed"), fmt.Sprintf("%s: after a response raced the caller's cancellation, a later call on the same client (server alive, pipes intact) was never answered and ended only with: %s; the client's reader goroutine is gone", cs.label(), errStr(r.Err)),
			map[string]interface{}{"error": errStr(r.Err), "client_goroutines_now": leak.Describe(by), "readLoop_alive": by["(*stdioClientTransport).readLoop"] > 0, "child_alive": c.Std.IsProcessRunning()})
	default:
		if good, why := validate(r); !good {
			rep.Violation(cs.sig("partial-or-wrong-result"), cs.label()+": later call: "+why, nil)
		} else {
			rep.Distinct("stdio|" + cs.class() + "|later-call-served")
		}
	}
	closeClient(c)
}

// schedB: Close racing a pending call whose cleanup is about to run.
func schedB(rep *vh.Reporter, seed int64, pending int) {
	cs := scase{Fault: "client-close", Point: "pending[hold=stdiocli.req.cleanup]", Pending: pending}
	rep.Progress(cs.label())
	rep.Eval(1)
	notePoint(rep, "stdio", cs.Fault, "call:"+cs.Point, cs.Pending)
	ctl := sched.New(25*time.Second, seed)
	ctl.Install()
	defer sched.Uninstall()
	c, err := kit.NewStdioClient("c08std", nil, 30*time.Second)
	if err != nil {
		rep.Inconclusive("stdio client: " + err.Error())
		return
	}
	ictx, icancel := context.WithTimeout(context.Background(), 15*time.Second)
	_, err = c.Initialize(ictx, &mcp.InitializeRequest{})
	icancel()
	if err != nil {
		rep.Inconclusive("handshake failed: " + err.Error())
		return
	}
	ctl.Hold("stdiocli.req.cleanup")
	var calls []*call
	for i := 0; i < pending; i++ {
		ctx, cancel := context.WithTimeout(context.Background(), 20*time.Second)
		calls = append(calls, startCallTool(c, ctx, cancel, nextNonce("sb"), "p", map[string]interface{}{"delay_us": 3000000}))
	}
	time.Sleep(150 * time.Millisecond)
	closed := make(chan struct{})
	go func() { closeClient(c); close(closed) }()
	// the calls leave their select (transport context cancelled) and are parked before their cleanup
	parked := ctl.AwaitWaiting("stdiocli.req.cleanup", pending, 5*time.Second)
	rep.Max("sched_parked_cleanup", int64(parked))
	if parked >= pending {
		rep.Count("sched_races_set_up", 1)
	}
	select {
	case <-closed: // Close has closed every pending channel
	case <-time.After(closeWatchdog + time.Second):
		rep.Inconclusive(cs.label() + ": Close did not return")
	}
	ctl.Release("stdiocli.req.cleanup")
	for _, cl := range calls {
		r, ok := cl.await(time.Now().Add(watchdog))
		switch {
		case !ok:
			rep.Violation(cs.sig("blocked-forever"), cs.label()+": pending call did not return after Close", nil)
		case r.Panic != "":
			rep.Violation(cs.sig("panic-in-caller"), fmt.Sprintf("%s: Close ran while the call was between leaving its wait and its deferred cleanup; the call then panicked in the CALLER's goroutine: %s", cs.label(), r.Panic), map[string]interface{}{"panic": r.Panic, "parked_at_cleanup": parked})
		case r.Err == nil:
			rep.Violation(cs.sig("partial-or-wrong-result"), cs.label()+": a value was returned for a call that Close interrupted", nil)
		default:
			rep.Distinct("stdio|" + cs.class() + "|error")
		}
		cl.cancel()
	}
}

// schedC: legacy SSE client, stream end racing a new request.
func schedC(rep *vh.Reporter, seed int64) {
	cs := hcase{Kind: kit.LSSE, Target: "call", Fault: "close", Point: "stream:new-request[hold=ssecli.req.afterclosed]", Pending: 1, Ctx: "deadline"}
	rep.Progress(cs.label())
	rep.Eval(1)
	notePoint(rep, string(cs.Kind), cs.Fault, cs.Target+":"+cs.Point, cs.Pending)
	in := kit.Start(kit.LSSE, kit.Opts{})
	defer in.Close()
	kit.StdFixture(in)
	registerNecho(in)
	px, err := newProxy(in.TS.Listener.Addr().String())
	if err != nil {
		rep.Inconclusive("proxy: " + err.Error())
		return
	}
	defer px.Close()
	ctl := sched.New(20*time.Second, seed)
	ctl.Install()
	defer sched.Uninstall()
	c, err := newHTTPClient(kit.LSSE, px.URL()+in.Path)
	if err != nil {
		rep.Inconclusive("client: " + err.Error())
		return
	}
	ictx, icancel := context.WithTimeout(context.Background(), 10*time.Second)
	_, err = c.Initialize(ictx, &mcp.InitializeRequest{})
	icancel()
	if err != nil {
		rep.Inconclusive("handshake failed: " + err.Error())
		return
	}
	ctl.Hold("ssecli.req.afterclosed")
	ctx, cancel := context.WithTimeout(context.Background(), 3*time.Second)
	cl := startCallTool(c, ctx, cancel, nextNonce("sc"), "p", map[string]interface{}{"pad_n": 50})
	parked := ctl.AwaitWaiting("ssecli.req.afterclosed", 1, 5*time.Second)
	rep.Max("sched_parked_afterclosed", int64(parked))
	n := px.FaultStreams("close") // the stream ends: readSSE runs close(), which empties the pending table
	at := time.Now()
	time.Sleep(150 * time.Millisecond)
	ctl.Release("ssecli.req.afterclosed")
	r, ok := cl.await(at.Add(3*time.Second + watchdog))
	cancel()
	if parked > 0 && n > 0 {
		rep.Count("sched_races_set_up", 1)
	}
	switch {
	case parked == 0 || n == 0:
		rep.Inconclusive(cs.label() + ": the race was not set up")
	case !ok:
		parkedLib, fn, stack := parkedInLibrary(leak.Dump(), "main.c08")
		if parkedLib {
			rep.Violation(cs.sig("blocked-forever"), fmt.Sprintf("%s: the call registered after close() never returned (deadline 3 s + %s); parked in %s", cs.label(), watchdog, fn), map[string]interface{}{"goroutine": stack})
		} else {
			rep.Inconclusive(cs.label() + ": watchdog without library frame")
		}
	case r.Panic != "":
		rep.Violation(cs.sig("panic-in-caller"), cs.label()+": "+r.Panic, nil)
	case r.Err == nil:
		if good, why := validate(r); !good {
			rep.Violation(cs.sig("partial-or-wrong-result"), cs.label()+": "+why, nil)
		}
		rep.Distinct(string(cs.Kind) + "|" + cs.class() + "|value")
	default:
		rep.Distinct(string(cs.Kind) + "|" + cs.class() + "|error")
		rep.Count("errors_returned", 1)
	}
	if left := mcp.VerifPendingClientRequests(c.Raw()); left != 0 {
		rep.Violation(cs.sig("pending-entries-left"), fmt.Sprintf("%s: %d entries left in the pending table after the call returned", cs.label(), left), nil)
	}
	closeClient(c)
	if left := mcp.VerifPendingClientRequests(c.Raw()); left != 0 {
		rep.Violation(cs.sig("pending-entries-left"), fmt.Sprintf("%s: %d entries left in the pending table after Close", cs.label(), left), nil)
	}
}
