package main

import (
	"context"
	"fmt"
	"io"
	"math/rand"
	"net"
	"net/http"
	"os"
	"path/filepath"
	"runtime"
	"sort"
	"strconv"
	"strings"
	"sync"
	"sync/atomic"
	"syscall"
	"time"

	mcp "trpc.group/trpc-go/trpc-mcp-go"

	"verifharness/lib/kit"
	"verifharness/lib/leak"
	"verifharness/lib/vh"
)

// ---- Close / cancel racing the CREATION of the resource a call needs ----
//
// The closerace batches stall an exchange whose carrier (child process, TCP connection) exists. Here the end
// of the client lands while the carrier is being made:
//
// stdio - the first call spawns the server process. Close (or the cancellation of the caller's context) lands
//
//	before-spawn      before the first call was issued (nothing has been spawned);
//	free-race         at a seeded instant 0 .. 4 ms after the first call began (wherever that is);
//	fork-in-progress  while the fork/exec is in progress: the harness holds syscall.ForkLock for reading, so
//	                  exec.Cmd.Start of the library blocks at its fork (goroutine dump: startProcess ->
//	                  syscall.forkExec); Close runs; then the lock is released and the spawn completes;
//	fork-released     the same set-up, but the lock is released first and Close lands at the release / the moment
//	                  the process becomes visible (GetProcessID) / a few hundred microseconds later: right after
//	                  Start returned, around the first byte written to the child;
//	child-starting    the child exists and is still starting up: it sleeps before it reads its stdin (mark file),
//	                  the request sits unread in the pipe; the child goes on (go file) while Close is at work.
//
// with children that die of SIGINT, ignore SIGINT, or ignore SIGINT and SIGPIPE and stay after the end of their
// stdin, and with 1 .. n first calls (n clients under one fork lock) pending.
//
// HTTP - the first request of Initialize, the notification, the first call or the open of the listening stream
// has to DIAL. A user-level HTTPReqHandler routes that one request through a transport whose DialContext
// blocks; Close runs while the TCP connect is in progress; then the dial is let go and completes (a dialer
// that ignores its context, or one that honours it).
//
// Oracle (C08): the pending call returns - promptly once nothing the harness holds is in its way (fork lock
// released / dial released; for a cancelled context with a live child: without anything else) - with an error
// or with its own complete answer. Close returns. After Close nothing the library created is left: child
// processes (by pid: /proc/<pid>, children of this process, zombies included), fds, goroutines with library
// frames, connections, pending entries; measured before, after n and after 2n more cycles, so that a bounded
// residue is told apart from growth with the number of cycles.

type srStdio struct {
	Window string // before-spawn | free-race | fork-in-progress | fork-released | child-starting
	Child  string // default | ignores-sigint | lingers
	Actor  string // close | cancel
}

func (c srStdio) point() string { return "spawn:" + c.Window + "," + c.Child + "-child" }
func (c srStdio) class() string {
	if c.Actor == "cancel" {
		return "cancel@" + c.point()
	}
	return "client-close@" + c.point()
}

func srStdioCases(actor string, thorough bool) []srStdio {
	var out []srStdio
	add := func(w string, kids ...string) {
		for _, k := range kids {
			out = append(out, srStdio{Window: w, Child: k, Actor: actor})
		}
	}
	all := []string{"default", "ignores-sigint", "lingers"}
	add("before-spawn", "default")
	if actor == "close" {
		add("free-race", "default")
		add("fork-in-progress", "default", "lingers")
		add("fork-released", all...)
		add("child-starting", all...)
		if thorough {
			add("free-race", "lingers")
			add("fork-in-progress", "ignores-sigint")
		}
		return out
	}
	add("free-race", "default")
	add("fork-in-progress", "default")
	add("fork-released", "default")
	add("child-starting", "default", "lingers")
	if thorough {
		add("fork-in-progress", "lingers")
		add("fork-released", "ignores-sigint", "lingers")
		add("child-starting", "ignores-sigint")
	}
	return out
}

type srEnv struct {
	rep  *vh.Reporter
	rng  *rand.Rand
	dir  string
	n    int
	seq  int
	pids map[int]bool // every process the library spawned in the current class
	mu   sync.Mutex
}

func (e *srEnv) sig(cs srStdio, symptom string) string {
	return fmt.Sprintf("C08|stdio|%s|pending=n|%s", cs.class(), symptom)
}

func (e *srEnv) label(cs srStdio) string {
	return fmt.Sprintf("stdio|%s|pending=n :: n=%d", cs.class(), e.n)
}

// srClient is one client of a round.
type srClient struct {
	c       *kit.LibClient
	cl      *call
	ctx     context.Context
	cancel  context.CancelFunc
	ctxKind string
	mark    string
	gofile  string
	closed  chan srClosed
	acted   time.Time
	how     string // fork-released: where the actor was aimed
}

type srClosed struct {
	ok   bool
	took time.Duration
	err  error
}

// forkParked counts the library goroutines that sit in the spawn of their server process (startProcess ->
// os/exec -> syscall.forkExec). While the harness holds the fork lock they cannot get past the fork.
func forkParked() int {
	n := 0
	for _, g := range leak.Parse(leak.Dump()) {
		fork, sp := false, false
		for _, f := range g.Funcs {
			if f == "syscall.forkExec" || f == "syscall.acquireForkLock" {
				fork = true
			}
			if strings.Contains(f, "(*stdioClientTransport).startProcess") {
				sp = true
			}
		}
		if fork && sp {
			n++
		}
	}
	return n
}

// procState: "" when there is no such child of this process, else the state letter of /proc/<pid>/stat.
func procState(pid int) string {
	b, err := os.ReadFile(fmt.Sprintf("/proc/%d/stat", pid))
	if err != nil {
		return ""
	}
	s := string(b)
	i := strings.LastIndex(s, ")")
	if i < 0 {
		return ""
	}
	f := strings.Fields(s[i+1:])
	if len(f) < 2 {
		return ""
	}
	if ppid, _ := strconv.Atoi(f[1]); ppid != os.Getpid() {
		return "" // the pid was released and belongs to somebody else now
	}
	return f[0]
}

func stdioLevels(prev *levels, max time.Duration) levels {
	p := levels{Lib: map[string]int{}}
	if prev != nil {
		p = *prev
	}
	return settleTo(clientSide, p, max)
}

func stdioMetrics(l levels) map[string]int {
	out := map[string]int{"leak-fds": l.FDs, "leak-children": l.Kids}
	for fn, n := range l.Lib {
		out["leak-goroutines("+fn+")"] = n
	}
	return out
}

// errClass names where the end of the client caught the first call (evidence only).
func errClass(err error) string {
	if err == nil {
		return "value"
	}
	s := err.Error()
	switch {
	case strings.Contains(s, "transport is closed"):
		return "refused:transport-is-closed"
	case strings.Contains(s, "failed to start process"):
		return "spawn-failed"
	case strings.Contains(s, "failed to send request"):
		return "write-failed"
	case strings.Contains(s, "transport closed"):
		return "ended-by-transport-context"
	case strings.Contains(s, "server closed its output stream"):
		return "ended-by-child-output-end"
	case isCtxErr(err):
		return "context-error"
	}
	return "other-error"
}

func (e *srEnv) newClient(cs srStdio) (*srClient, error) {
	e.seq++
	base := filepath.Join(e.dir, fmt.Sprintf("s%d", e.seq))
	script := "serve"
	if cs.Window == "child-starting" {
		script = "slow-start"
	}
	sc := &srClient{mark: base + ".started", gofile: base + ".go", closed: make(chan srClosed, 1)}
	c, err := kit.NewStdioClient("", map[string]string{vh.ChildEnv: "c08-stdio-script", "C08_SCRIPT": script, "C08_CHILD": cs.Child,
		"C08_MARK": sc.mark, "C08_GO": sc.gofile}, 60*time.Second)
	if err != nil {
		return nil, err
	}
	sc.c = c
	return sc, nil
}

// act is the end of the client: Close, or the cancellation of the caller's context.
func (sc *srClient) act(cs srStdio) {
	sc.acted = time.Now()
	if cs.Actor == "cancel" {
		sc.cancel()
		return
	}
	ok, took, err := closeClient(sc.c)
	sc.closed <- srClosed{ok, took, err}
}

// round: k clients side by side, each with its first call overtaken by Close / cancel in the window.
func (e *srEnv) round(cs srStdio, k int, t *crTally) {
	rep := e.rep
	var scs []*srClient
	for i := 0; i < k; i++ {
		sc, err := e.newClient(cs)
		if err != nil {
			rep.Inconclusive("stdio client: " + err.Error())
			continue
		}
		sc.ctxKind, sc.ctx = "background", context.Background()
		if cs.Actor == "cancel" {
			sc.ctx, sc.cancel = context.WithCancel(context.Background())
			sc.ctxKind = "cancelled-by-caller"
		}
		scs = append(scs, sc)
		rep.Eval(1)
		switch cs.Window {
		case "before-spawn":
			sc.act(cs) // Close returns / the context is dead before the call is issued
			sc.cl = crStartInit(sc.c, sc.ctx, "scripted-stdio")
		case "free-race":
			d := []time.Duration{0, 100 * time.Microsecond, 300 * time.Microsecond, 600 * time.Microsecond, time.Millisecond, 1500 * time.Microsecond, 2500 * time.Microsecond, 4 * time.Millisecond}[e.rng.Intn(8)]
			sc.how = "delay=" + d.String()
			sc.cl = crStartInit(sc.c, sc.ctx, "scripted-stdio")
			go func(sc *srClient) {
				if d > 0 {
					time.Sleep(d)
				}
				sc.act(cs)
			}(sc)
		}
	}
	if len(scs) == 0 {
		return
	}
	abandon := func(why string) {
		rep.Count("spawnrace_window_not_reached", 1)
		rep.Inconclusive(fmt.Sprintf("%s: %s", e.label(cs), why))
		for _, sc := range scs {
			os.WriteFile(sc.gofile, nil, 0o644)
			if sc.cancel != nil {
				sc.cancel()
			}
			closeClient(sc.c)
			e.notePid(sc)
		}
	}
	reached := len(scs)
	unheld := time.Now() // from here on nothing the harness holds is in the way of the calls
	switch cs.Window {
	case "fork-in-progress", "fork-released":
		syscall.ForkLock.RLock()
		locked := true
		unlock := func() {
			if locked {
				locked = false
				syscall.ForkLock.RUnlock()
			}
		}
		for _, sc := range scs {
			sc.cl = crStartInit(sc.c, sc.ctx, "scripted-stdio")
		}
		dlw := time.Now().Add(20 * time.Second)
		for forkParked() < len(scs) && time.Now().Before(dlw) {
			time.Sleep(2 * time.Millisecond)
		}
		if p := forkParked(); p < len(scs) {
			unlock()
			abandon(fmt.Sprintf("only %d of %d first calls were seen inside the fork of their server process", p, len(scs)))
			return
		}
		if cs.Window == "fork-in-progress" {
			for _, sc := range scs {
				go sc.act(cs)
			}
			if cs.Actor == "close" {
				// Close runs to its end while the spawn is held (a Close that waits for the spawn is let go after 1 s)
				var got []srClosed
				dlc := time.Now().Add(time.Second)
				for _, sc := range scs {
					select {
					case r := <-sc.closed:
						got = append(got, r)
						sc.closed <- r
					case <-time.After(time.Until(dlc)):
					}
				}
				rep.Count("spawnrace_close_returned_while_fork_was_held", int64(len(got)))
			} else {
				time.Sleep(5 * time.Millisecond)
			}
			unlock()
		} else {
			released := make(chan struct{})
			for i, sc := range scs {
				mode := (e.seq + i) % 3
				extra := time.Duration(e.rng.Intn(400)) * time.Microsecond
				sc.how = []string{"at-release", "process-visible", "process-visible+" + extra.String()}[mode]
				go func(sc *srClient, mode int) {
					<-released
					if mode > 0 {
						for t0 := time.Now(); sc.c.Std.GetProcessID() == 0 && len(sc.cl.done) == 0 && time.Since(t0) < 5*time.Second; {
							runtime.Gosched()
						}
						if mode == 2 {
							time.Sleep(extra)
						}
					}
					sc.act(cs)
				}(sc, mode)
			}
			unlock()
			close(released)
		}
		unheld = time.Now()
	case "child-starting":
		for _, sc := range scs {
			sc.cl = crStartInit(sc.c, sc.ctx, "scripted-stdio")
		}
		dlw := time.Now().Add(20 * time.Second)
		started := func() int {
			n := 0
			for _, sc := range scs {
				if exists(sc.mark) {
					n++
				}
			}
			return n
		}
		for started() < len(scs) && time.Now().Before(dlw) {
			time.Sleep(2 * time.Millisecond)
		}
		if s := started(); s < len(scs) {
			abandon(fmt.Sprintf("only %d of %d children reported that they are starting up", s, len(scs)))
			return
		}
		for _, sc := range scs {
			go sc.act(cs)
		}
		unheld = time.Now()
		if cs.Actor == "cancel" {
			// a cancelled context ends the call by itself: the child is still asleep, nobody else moves
			for _, sc := range scs {
				if r, ok := peek(sc.cl, time.Until(unheld.Add(watchdog))); ok {
					sc.cl.done <- *r
					rep.Count("spawnrace_cancel_ended_call_while_child_asleep", 1)
				}
			}
		} else {
			time.Sleep(20 * time.Millisecond)
		}
		for _, sc := range scs {
			os.WriteFile(sc.gofile, nil, 0o644) // the child goes on starting up
		}
	}
	t.stalled += reached
	rep.Count("spawnrace_windows_reached", int64(reached))
	rep.Count("faults_delivered", int64(reached))

	// Close returns
	if cs.Actor == "close" {
		for _, sc := range scs {
			cr := <-sc.closed
			rep.Max("close_ms", cr.took.Milliseconds())
			if !cr.ok {
				parked, fn, stack := parkedInLibrary(leak.Dump(), "main.c08Close")
				if parked {
					rep.Violation(e.sig(cs, "close-hangs"), fmt.Sprintf("%s: Close, racing the spawn of the server process (%s), had not returned after %s; parked in %s", e.label(cs), cs.Window, closeWatchdog, fn), map[string]interface{}{"goroutine": stack, "window": cs.Window, "child": cs.Child})
				} else {
					rep.Inconclusive(e.label(cs) + ": Close watchdog fired without a library frame")
				}
			}
			if now := time.Now(); now.After(unheld) {
				unheld = now
			}
		}
	}
	// the first calls return
	for _, sc := range scs {
		res, _ := peek(sc.cl, time.Until(unheld.Add(watchdog)))
		detail := map[string]interface{}{"kind": "stdio", "window": cs.Window, "child": cs.Child, "ended_by": cs.Actor, "caller_context": sc.ctxKind, "aimed": sc.how}
		outcome := e.judgeCall(cs, res, detail)
		t.note(outcome)
		if res != nil {
			rep.Count("spawnrace_first_call_"+errClass(res.Err), 1)
			rep.Max("spawnrace_return_after_unheld_ms", res.Returned.Sub(unheld).Milliseconds())
		}
		sampleOnce(rep, map[string]interface{}{"kind": "stdio", "window": cs.Window, "child": cs.Child, "ended_by": cs.Actor, "aimed": sc.how, "outcome": outcome, "error": errStr(resErr(res)), "child_pid": sc.c.Std.GetProcessID()})
	}
	// a cancelled call leaves a client its caller still owns: it is closed now
	if cs.Actor == "cancel" {
		for _, sc := range scs {
			go func(sc *srClient) {
				ok, took, err := closeClient(sc.c)
				sc.closed <- srClosed{ok, took, err}
			}(sc)
		}
		for _, sc := range scs {
			if cr := <-sc.closed; !cr.ok {
				parked, fn, stack := parkedInLibrary(leak.Dump(), "main.c08Close")
				if parked {
					rep.Violation(e.sig(cs, "close-hangs"), fmt.Sprintf("%s: Close after the cancelled first call had not returned after %s; parked in %s", e.label(cs), closeWatchdog, fn), map[string]interface{}{"goroutine": stack, "window": cs.Window, "child": cs.Child})
				} else {
					rep.Inconclusive(e.label(cs) + ": Close watchdog fired without a library frame")
				}
			}
		}
	}
	for _, sc := range scs {
		e.notePid(sc)
		if left := mcp.VerifPendingClientRequests(sc.c.Raw()); left > 0 {
			time.Sleep(50 * time.Millisecond)
			if left = mcp.VerifPendingClientRequests(sc.c.Raw()); left > 0 {
				rep.Violation(e.sig(cs, "pending-entries-left"), fmt.Sprintf("%s: pending-request table holds %d entries after Close and after the call returned", e.label(cs), left), map[string]interface{}{"window": cs.Window, "child": cs.Child})
			}
		}
	}
}

func (e *srEnv) notePid(sc *srClient) {
	if pid := sc.c.Std.GetProcessID(); pid > 0 {
		e.mu.Lock()
		e.pids[pid] = true
		e.mu.Unlock()
		e.rep.Count("spawnrace_children_spawned", 1)
	}
}

func (e *srEnv) judgeCall(cs srStdio, res *callRes, detail map[string]interface{}) string {
	rep := e.rep
	switch {
	case res == nil:
		parked, fn, stack := parkedInLibrary(leak.Dump(), "main.c08CrInit")
		if parked {
			detail["parked_in"], detail["goroutine"] = fn, stack
			rep.Violation(e.sig(cs, "blocked-forever"), fmt.Sprintf("%s: the first call was overtaken by %s in the window %s; %s after the harness let go of everything it held (fork lock, the child's start-up) the call has still not returned; it is parked in %s", e.label(cs), cs.Actor, cs.Window, watchdog, fn), detail)
		} else {
			rep.Inconclusive(e.label(cs) + ": watchdog fired but no call is parked in a library frame")
		}
		return "not-returned"
	case res.Panic != "":
		detail["panic"] = res.Panic
		rep.Violation(e.sig(cs, "panic-in-caller"), fmt.Sprintf("%s: panic in the caller's goroutine: %s", e.label(cs), res.Panic), detail)
		return "panic"
	case res.Err != nil:
		rep.Count("errors_returned", 1)
		if isCtxErr(res.Err) {
			rep.Count("ctx_errors_returned", 1)
		}
		return "error"
	}
	if good, why := validateAny(*res); !good {
		detail["why"] = why
		rep.Violation(e.sig(cs, "partial-or-wrong-result"), fmt.Sprintf("%s: the call returned a value that is not its own complete answer: %s", e.label(cs), why), detail)
		return "bad-value"
	}
	rep.Count("values_complete_answer", 1)
	return "value"
}

// spawnRaceStdio: the classes of one actor (close | cancel).
func spawnRaceStdio(rep *vh.Reporter, actor string, rng *rand.Rand, thorough bool) {
	dir, err := os.MkdirTemp("", "c08-spawnrace-")
	if err != nil {
		rep.Inconclusive("temp dir: " + err.Error())
		return
	}
	defer os.RemoveAll(dir)
	e := &srEnv{rep: rep, rng: rng, dir: dir, n: 2}
	if thorough {
		e.n = 8
	}
	for _, cs := range srStdioCases(actor, thorough) {
		rep.Progress(e.label(cs))
		fault := "client-close"
		if cs.Actor == "cancel" {
			fault = "cancel"
		}
		notePoint(rep, "stdio", fault, cs.point(), e.n)
		rep.SetAdd("spawnrace_points", "stdio|"+cs.class())
		e.pids = map[int]bool{}
		var t crTally
		m0 := stdioLevels(nil, 2*time.Second)
		e.round(cs, e.n, &t)
		m1 := stdioLevels(&m0, 4*time.Second)
		e.round(cs, 2*e.n, &t)
		m2 := stdioLevels(&m1, 4*time.Second)
		if t.stalled < 3*e.n {
			rep.Count("fault_not_delivered", 1)
			e.reap()
			continue
		}
		leaked := judgeGrowth(rep, func(sym string) string { return e.sig(cs, sym) }, e.label(cs), e.n, stdioMetrics(m0), stdioMetrics(m1), stdioMetrics(m2),
			func() map[string]int { return stdioMetrics(stdioLevels(&m1, 8*time.Second)) },
			map[string]interface{}{"kind": "stdio", "window": cs.Window, "child": cs.Child, "ended_by": cs.Actor, "how_the_first_calls_ended": t.outcomes,
				"cycle_is": fmt.Sprintf("first call spawns the server process, %s lands in the window %s, everything the harness held is let go", cs.Actor, cs.Window),
				"processes_the_library_spawned": len(e.pids), "of_those_still_there": e.alive(), "children_now": children()})
		rep.Count("spawnrace_classes_measured", 1)
		rep.Max("spawnrace_spawned_children_left_after_class", int64(len(e.alive())))
		for _, o := range sortedKeys(t.outcomes) {
			rep.Distinct(fmt.Sprintf("stdio|%s|%s", cs.class(), o))
		}
		if !leaked {
			rep.Distinct(fmt.Sprintf("stdio|%s|no-growth", cs.class()))
		}
		e.reap()
	}
}

// alive lists the spawned processes that are still children of this process ("pid:state").
func (e *srEnv) alive() []string {
	var out []string
	for pid := range e.pids {
		if st := procState(pid); st != "" {
			out = append(out, fmt.Sprintf("%d:%s", pid, st))
		}
	}
	sort.Strings(out)
	return out
}

// reap: after the class has been judged, what it left behind is killed so that the next class starts clean.
func (e *srEnv) reap() {
	for pid := range e.pids {
		if st := procState(pid); st != "" && st != "Z" {
			syscall.Kill(pid, syscall.SIGKILL)
			e.rep.Count("spawnrace_children_killed_by_harness_after_judgement", 1)
		}
	}
}

// ---- HTTP: Close while the TCP connect of a request is in progress ----

var idleTransports struct {
	sync.Mutex
	l []*http.Transport
}

func registerIdle(tr ...*http.Transport) {
	idleTransports.Lock()
	idleTransports.l = append(idleTransports.l, tr...)
	idleTransports.Unlock()
}

func closeRegisteredIdle(forget bool) {
	idleTransports.Lock()
	l := idleTransports.l
	if forget {
		idleTransports.l = nil
	}
	idleTransports.Unlock()
	for _, tr := range l {
		tr.CloseIdleConnections()
	}
}

// dialGate is a user-level HTTPReqHandler: the first request that matches goes through a transport of its own
// (so it has to dial) whose DialContext blocks until Release; every other request takes the plain transport.
type dialGate struct {
	match    func(method string, body []byte) bool
	plain    *http.Transport
	gated    *http.Transport
	used     atomic.Bool
	Stalled  atomic.Int32
	Dialed   atomic.Int32 // dials that completed after the release
	DialErrs atomic.Int32
	ctxAware bool
	release  chan struct{}
	relOnce  sync.Once
}

func newDialGate(ctxAware bool, match func(method string, body []byte) bool) *dialGate {
	g := &dialGate{match: match, ctxAware: ctxAware, release: make(chan struct{})}
	g.plain = &http.Transport{DialContext: (&net.Dialer{Timeout: 10 * time.Second}).DialContext, MaxIdleConnsPerHost: 4}
	g.gated = &http.Transport{MaxIdleConnsPerHost: 4, DialContext: func(ctx context.Context, network, addr string) (net.Conn, error) {
		g.Stalled.Add(1)
		select {
		case <-g.release:
		case <-time.After(90 * time.Second):
		}
		dctx := context.Background()
		if g.ctxAware {
			dctx = ctx // a dialer that honours its context: the connect is given up if the request is gone
		}
		conn, err := (&net.Dialer{Timeout: 10 * time.Second}).DialContext(dctx, network, addr)
		if err != nil {
			g.DialErrs.Add(1)
		} else {
			g.Dialed.Add(1)
		}
		return conn, err
	}}
	registerIdle(g.plain, g.gated)
	return g
}

func (g *dialGate) Release() { g.relOnce.Do(func() { close(g.release) }) }

func (g *dialGate) Handle(ctx context.Context, client *http.Client, req *http.Request) (*http.Response, error) {
	c2 := &http.Client{Transport: g.plain, CheckRedirect: client.CheckRedirect, Jar: client.Jar, Timeout: client.Timeout}
	var body []byte
	if req.GetBody != nil {
		if rc, err := req.GetBody(); err == nil {
			body, _ = io.ReadAll(io.LimitReader(rc, 1<<20))
			rc.Close()
		}
	}
	if g.match(req.Method, body) && g.used.CompareAndSwap(false, true) {
		c2.Transport = g.gated
	}
	return c2.Do(req.WithContext(ctx))
}

type srDial struct {
	Name   string // which request has to dial
	Target string // init | call | getstream
	Method string
	Body   string // $NONCE = the call's nonce prefix
}

func srDialPhases(kind kit.Kind) []srDial {
	const (
		initReq  = `"method":"initialize"`
		notifReq = `"method":"notifications/initialized"`
		callReq  = `"nonce":"$NONCE`
	)
	if kind == kit.LSSE {
		return []srDial{
			{"init:get:dial", "init", "GET", ""},
			{"init:post:dial", "init", "POST", initReq},
			{"init:notification:dial", "init", "POST", notifReq},
			{"call:dial", "call", "POST", callReq},
		}
	}
	return []srDial{
		{"init:post:dial", "init", "POST", initReq},
		{"init:notification:dial", "init", "POST", notifReq},
		{"getstream:dial", "getstream", "GET", ""},
		{"call:dial", "call", "POST", callReq},
	}
}

// dialCycle: one client, the TCP connect of one request held, Close, the connect completes.
func (e *crEnv) dialCycle(ph srDial, t *crTally) {
	rep := e.rep
	rep.Eval(1)
	prefix := nextNonce("dl")
	e.px.SetPlans()
	e.seq++
	ctxAware := e.seq%2 == 0
	want := strings.ReplaceAll(ph.Body, "$NONCE", prefix)
	gate := newDialGate(ctxAware, func(method string, body []byte) bool {
		return method == ph.Method && (want == "" || strings.Contains(string(body), want))
	})
	c, err := newClientOpts(kit.Kind(e.kind), e.px.URL()+e.in.Path, mcp.WithHTTPReqHandler(gate))
	if err != nil {
		rep.Inconclusive("client creation failed: " + err.Error())
		return
	}
	ctx, ctxKind := e.neverEnding()
	abandon := func(why string) {
		rep.Count("spawnrace_window_not_reached", 1)
		rep.Inconclusive(fmt.Sprintf("%s: %s", e.label(ph.Name), why))
		gate.Release()
		closeClient(c)
		e.px.CloseConns()
	}
	var cl *call
	switch ph.Target {
	case "init":
		cl = startInit(c, ctx, nil)
	default:
		hs := startInit(c, ctx, nil)
		if ph.Target == "getstream" {
			// the handshake itself passes (its requests take the plain transport); the stream's connect is held
			if r, ok := hs.await(time.Now().Add(watchdog)); !ok || r.Err != nil || r.Nonce != "initialize:ok" {
				abandon(fmt.Sprintf("handshake failed (returned=%v err=%v)", ok, r.Err))
				return
			}
		} else {
			if r, ok := hs.await(time.Now().Add(watchdog)); !ok || r.Err != nil || r.Nonce != "initialize:ok" {
				abandon(fmt.Sprintf("handshake failed (returned=%v err=%v)", ok, r.Err))
				return
			}
			if e.kind != string(kit.LSSE) {
				dlw := time.Now().Add(5 * time.Second)
				for e.px.FaultStreams("") == 0 && time.Now().Before(dlw) {
					time.Sleep(2 * time.Millisecond)
				}
			}
			cl = startCallTool(c, ctx, nil, prefix+"-0", "payload-"+prefix, map[string]interface{}{"_tool": "necho", "pad_n": 3000})
		}
	}
	var early *callRes
	dlw := time.Now().Add(watchdog)
	for gate.Stalled.Load() == 0 && early == nil && time.Now().Before(dlw) {
		early, _ = peek(cl, 2*time.Millisecond)
		if cl == nil {
			time.Sleep(2 * time.Millisecond)
		}
	}
	if gate.Stalled.Load() == 0 {
		why := "the request never came to dial"
		if early != nil {
			why += fmt.Sprintf(" (the call ended before: err=%v)", early.Err)
		}
		abandon(why)
		return
	}
	t.stalled++
	rep.Count("spawnrace_windows_reached", 1)
	rep.Count("spawnrace_dials_held", 1)
	rep.Count("faults_delivered", 1)
	dialer := "ignores-its-context"
	if ctxAware {
		dialer = "honours-its-context"
	}
	detail := map[string]interface{}{"kind": e.kind, "target": ph.Target, "stalled_at": ph.Name, "caller_context": ctxKind, "dialer": dialer}

	okc, took, _ := closeClient(c)
	if !okc {
		parked, fn, stack := parkedInLibrary(leak.Dump(), "main.c08Close")
		if parked {
			rep.Violation(e.sig(ph.Name, "close-hangs"), fmt.Sprintf("%s: Close, called while the TCP connect of the request was in progress (%s), had not returned after %s; parked in %s", e.label(ph.Name), ph.Name, closeWatchdog, fn), map[string]interface{}{"goroutine": stack, "stalled_at": ph.Name})
		} else {
			rep.Inconclusive(e.label(ph.Name) + ": Close watchdog fired without a library frame")
		}
	}
	rep.Max("close_ms", took.Milliseconds())
	endedBy := "by-close"
	res := early
	if res == nil && cl != nil {
		res, _ = peek(cl, 60*time.Millisecond)
	}
	gate.Release() // the connect completes
	released := time.Now()
	if cl != nil {
		if res == nil {
			endedBy = "when-the-connect-completed"
			res, _ = peek(cl, time.Until(released.Add(watchdog)))
		}
		outcome, reopened := e.judgeStalled(ph.Name, ph.Target, res, endedBy, detail)
		t.note(outcome)
		if res != nil {
			rep.Max("spawnrace_return_after_unheld_ms", res.Returned.Sub(released).Milliseconds())
		}
		if reopened {
			rep.Count("closerace_initialize_succeeded_after_close", 1) // (not closed a second time: see closerace.go)
		}
		sampleOnce(rep, map[string]interface{}{"kind": e.kind, "target": ph.Target, "stalled_at": ph.Name, "caller_context": ctxKind, "dialer": dialer, "outcome": outcome, "error": errStr(resErr(res))})
	} else {
		t.note("stream-open-abandoned")
	}
	// the held connect has run to its end (evidence: the dial really completed after Close)
	for t0 := time.Now(); gate.Dialed.Load()+gate.DialErrs.Load() < gate.Stalled.Load() && time.Since(t0) < 5*time.Second; {
		time.Sleep(time.Millisecond)
	}
	rep.Count("spawnrace_dials_completed_after_close", int64(gate.Dialed.Load()))
	rep.Count("spawnrace_dials_given_up_after_close", int64(gate.DialErrs.Load()))
	if left := mcp.VerifPendingClientRequests(c.Raw()); left > 0 {
		time.Sleep(50 * time.Millisecond)
		if left = mcp.VerifPendingClientRequests(c.Raw()); left > 0 {
			rep.Violation(e.sig(ph.Name, "pending-entries-left"), fmt.Sprintf("%s: pending-request table holds %d entries after Close and after the call returned", e.label(ph.Name), left), detail)
		}
	}
}

func (e *crEnv) runDialClass(ph srDial) {
	rep := e.rep
	rep.Progress(fmt.Sprintf("%s target=%s", e.label(ph.Name), ph.Target))
	notePoint(rep, e.kind, "client-close", ph.Name, 1)
	rep.SetAdd("spawnrace_points", e.kind+"|"+ph.Name)
	me := &errEnv{px: e.px}
	e.px.SetPlans()
	e.px.CloseConns()
	var t1, t2 crTally
	m0 := me.measure(nil, 2*time.Second)
	for i := 0; i < e.n; i++ {
		e.dialCycle(ph, &t1)
	}
	m1 := me.measure(&m0, 3*time.Second)
	for i := 0; i < 2*e.n; i++ {
		e.dialCycle(ph, &t2)
	}
	m2 := me.measure(&m1, 3*time.Second)
	defer e.px.CloseConns()
	defer closeRegisteredIdle(true)
	if t1.stalled < e.n || t2.stalled < 2*e.n {
		rep.Count("fault_not_delivered", 1)
		return
	}
	outcomes := map[string]int{}
	for _, t := range []crTally{t1, t2} {
		for k, v := range t.outcomes {
			outcomes[k] += v
		}
	}
	leaked := judgeGrowth(rep, func(sym string) string { return e.sig(ph.Name, sym) }, e.label(ph.Name), e.n, m0.metrics(), m1.metrics(), m2.metrics(),
		func() map[string]int { m3 := me.measure(&m1, 6*time.Second); return m3.metrics() },
		map[string]interface{}{"kind": e.kind, "target": ph.Target, "stalled_at": ph.Name, "how_the_stalled_calls_ended": outcomes,
			"cycle_is": "the TCP connect of the request is held in DialContext, Close, the connect completes"})
	rep.Count("spawnrace_classes_measured", 1)
	for _, o := range sortedKeys(outcomes) {
		rep.Distinct(fmt.Sprintf("%s|%s|%s", e.kind, crClass(ph.Name), o))
	}
	if !leaked {
		rep.Distinct(fmt.Sprintf("%s|%s|no-growth", e.kind, crClass(ph.Name)))
	}
}

// spawnRaceHTTP: Close while a request of the client is still connecting.
func spawnRaceHTTP(rep *vh.Reporter, kind kit.Kind, thorough bool) {
	in := kit.Start(kind, kit.Opts{})
	defer in.Close()
	kit.StdFixture(in)
	registerNecho(in)
	px, err := newProxy(in.TS.Listener.Addr().String())
	if err != nil {
		rep.Inconclusive("proxy: " + err.Error())
		return
	}
	defer px.Close()
	warm(rep, kind, px.URL()+in.Path)
	px.CloseConns()
	closeIdle()
	e := &crEnv{rep: rep, in: in, px: px, kind: string(kind), n: 3}
	if thorough {
		e.n = 8
	}
	for _, ph := range srDialPhases(kind) {
		e.runDialClass(ph)
	}
	for _, cancel := range e.late {
		cancel()
	}
}
