package main

import (
	"context"
	"encoding/json"
	"fmt"
	"math/rand"
	"net/http"
	"os"
	"sort"
	"strings"
	"sync"
	"time"

	mcp "trpc.group/trpc-go/trpc-mcp-go"

	"verifharness/lib/kit"
	"verifharness/lib/leak"
	"verifharness/lib/vh"
)

// ---- calls that end with an error ANSWER at the HTTP level ----
//
// The exchange is complete as far as TCP is concerned: the peer (the server itself, or a gateway in front of
// it) answers with something that is not the 200 carrying the result - 4xx / 5xx with every body form, a 202 /
// 204 where a result was expected, a 200 of the wrong content type, a redirect that ends in an error page.
// Every operation kind of the clients is driven into such answers: requests (tools/call, tools/list), the
// initialize request, notifications, the open of the listening stream, the DELETE of TerminateSession and the
// answers the client itself posts to server-issued requests.
//
// Oracle (C08): every operation returns (within the watchdog of its deadline / of the answer), never with a
// value that is not its own complete answer; after Close the pending table is empty, and at quiescence the
// client-side goroutines with library frames, net/http persistConn loops, fds and the connections the PROXY
// still sees open (the server's view of the client) do not grow with the number of failing operations: they
// are measured before, after n and after 2n more operations - a residue that is there after n and larger after
// 2n more is a per-call leak, a single bounded residue is not.

// evariant is one error answer.
type evariant struct {
	Name    string   // exact case, evidence only
	Class   string   // signature class: status class + body form
	Status  int      //
	CT      string   // content type ("" = none)
	Extra   []string // further headers
	Body    string   // json | text | html | sse | large | none
	Framing string   // length | chunked | unfinished | none | eof
	// Redirect: the first answer is Status with a Location; the request the client then makes to that location
	// is answered with Then.
	Then  *evariant
	Retry bool // client created with retries enabled: every attempt is answered the same way
}

// unfinished: the answer never completes (its body, or already its head): only a deadline ends the exchange.
func (v evariant) unfinished() bool {
	u := func(f string) bool { return f == "unfinished" || f == "no-answer" || f == "head-unfinished" }
	return u(v.Framing) || (v.Then != nil && u(v.Then.Framing))
}

func (v evariant) finalStatus() int {
	if v.Then != nil {
		return v.Then.Status
	}
	return v.Status
}

func errVariants(thorough bool) []evariant {
	vs := []evariant{
		{Name: "400-json", Class: "4xx,body-length", Status: 400, CT: "application/json", Body: "json", Framing: "length"},
		{Name: "401-text", Class: "4xx,body-length", Status: 401, CT: "text/plain", Extra: []string{`WWW-Authenticate: Bearer realm="mcp"`}, Body: "text", Framing: "length"},
		{Name: "403-html-chunked", Class: "4xx,body-chunked", Status: 403, CT: "text/html; charset=utf-8", Body: "html", Framing: "chunked"},
		{Name: "404-text", Class: "4xx,body-length", Status: 404, CT: "text/plain; charset=utf-8", Extra: []string{"X-Content-Type-Options: nosniff"}, Body: "text", Framing: "length"},
		{Name: "405-empty", Class: "4xx,no-body", Status: 405, Extra: []string{"Allow: OPTIONS"}, Body: "none", Framing: "none"},
		{Name: "409-json-chunked", Class: "4xx,body-chunked", Status: 409, CT: "application/json", Body: "json", Framing: "chunked"},
		{Name: "413-text-eof", Class: "4xx,body-to-eof", Status: 413, CT: "text/plain", Body: "text", Framing: "eof"},
		{Name: "429-json", Class: "4xx,body-length", Status: 429, CT: "application/json", Extra: []string{"Retry-After: 1"}, Body: "json", Framing: "length"},
		{Name: "500-text-large", Class: "5xx,body-large", Status: 500, CT: "text/plain", Body: "large", Framing: "length"},
		{Name: "500-sse-chunked", Class: "5xx,sse-body", Status: 500, CT: "text/event-stream", Body: "sse", Framing: "chunked"},
		{Name: "502-html-chunked", Class: "5xx,body-chunked", Status: 502, CT: "text/html", Body: "html", Framing: "chunked"},
		{Name: "503-json-unfinished", Class: "5xx,body-unfinished", Status: 503, CT: "application/json", Body: "json", Framing: "unfinished"},
		{Name: "503-sse-unfinished", Class: "5xx,sse-body-unfinished", Status: 503, CT: "text/event-stream", Body: "sse", Framing: "unfinished"},
		{Name: "503-head-unfinished", Class: "5xx,head-unfinished", Status: 503, CT: "text/plain", Extra: []string{"Retry-After: 5"}, Body: "none", Framing: "head-unfinished"},
		{Name: "no-answer", Class: "no-answer-at-all", Status: 0, Body: "none", Framing: "no-answer"},
		{Name: "504-empty", Class: "5xx,no-body", Status: 504, Body: "none", Framing: "none"},
		{Name: "202-empty", Class: "2xx-without-result", Status: 202, Body: "none", Framing: "none"},
		{Name: "204", Class: "2xx-without-result", Status: 204, Body: "none", Framing: "none"},
		{Name: "200-html", Class: "200-wrong-type", Status: 200, CT: "text/html", Body: "html", Framing: "length"},
		{Name: "200-json-empty", Class: "200-wrong-type", Status: 200, CT: "application/json", Body: "none", Framing: "none"},
		{Name: "302-to-404", Class: "3xx-to-error", Status: 302, Body: "none", Framing: "none",
			Then: &evariant{Status: 404, CT: "text/plain", Body: "text", Framing: "length"}},
		{Name: "307-to-503", Class: "3xx-to-error", Status: 307, CT: "text/html", Body: "html", Framing: "length",
			Then: &evariant{Status: 503, CT: "text/html", Body: "html", Framing: "chunked"}},
		{Name: "500-text+retry", Class: "5xx,body-length,retries", Status: 500, CT: "text/plain", Body: "text", Framing: "length", Retry: true},
		{Name: "429-json-chunked+retry", Class: "4xx,body-chunked,retries", Status: 429, CT: "application/json", Extra: []string{"Retry-After: 0"}, Body: "json", Framing: "chunked", Retry: true},
	}
	if thorough {
		for _, st := range []int{408, 410, 418, 421, 451, 501, 507} {
			cl := "4xx"
			if st >= 500 {
				cl = "5xx"
			}
			vs = append(vs, evariant{Name: fmt.Sprintf("%d-text", st), Class: cl + ",body-length", Status: st, CT: "text/plain", Body: "text", Framing: "length"},
				evariant{Name: fmt.Sprintf("%d-json-eof", st), Class: cl + ",body-to-eof", Status: st, CT: "application/json", Body: "json", Framing: "eof"})
		}
		vs = append(vs,
			evariant{Name: "301-to-404", Class: "3xx-to-error", Status: 301, Body: "none", Framing: "none", Then: &evariant{Status: 404, CT: "application/json", Body: "json", Framing: "chunked"}},
			evariant{Name: "303-to-500-large", Class: "3xx-to-error", Status: 303, CT: "text/plain", Body: "text", Framing: "length", Then: &evariant{Status: 500, CT: "text/plain", Body: "large", Framing: "length"}},
			evariant{Name: "308-to-502-unfinished", Class: "3xx-to-error-unfinished", Status: 308, Body: "none", Framing: "none", Then: &evariant{Status: 502, CT: "text/html", Body: "html", Framing: "unfinished"}},
			evariant{Name: "404-text-unfinished", Class: "4xx,body-unfinished", Status: 404, CT: "text/plain", Body: "text", Framing: "unfinished"},
			evariant{Name: "502-html+retry", Class: "5xx,body-chunked,retries", Status: 502, CT: "text/html", Body: "html", Framing: "chunked", Retry: true},
		)
	}
	return vs
}

func (v evariant) canned(location string) *Canned {
	c := &Canned{Status: v.Status, Framing: v.Framing}
	if v.CT != "" {
		c.Headers = append(c.Headers, "Content-Type: "+v.CT)
	}
	c.Headers = append(c.Headers, v.Extra...)
	if location != "" {
		c.Headers = append(c.Headers, "Location: "+location)
	}
	switch v.Body {
	case "json":
		c.Body = []byte(fmt.Sprintf(`{"jsonrpc":"2.0","id":null,"error":{"code":-32000,"message":"gateway answer %d"}}`, v.Status))
	case "text":
		c.Body = []byte(fmt.Sprintf("error %d: session not found or expired\n", v.Status))
	case "html":
		c.Body = []byte(fmt.Sprintf("<html><head><title>%d</title></head><body><h1>%d</h1><p>%s</p></body></html>\n", v.Status, v.Status, strings.Repeat("upstream unavailable. ", 40)))
	case "sse":
		c.Body = []byte(fmt.Sprintf("event: error\ndata: {\"jsonrpc\":\"2.0\",\"method\":\"notifications/message\",\"params\":{\"level\":\"error\",\"data\":\"gateway answer %d\"}}\n\n", v.Status))
	case "large":
		c.Body = []byte(strings.Repeat("0123456789abcdef", 16<<10)) // 256 KiB: more than any socket / bufio buffer holds
	}
	if c.Framing == "none" {
		c.Body = nil
	}
	return c
}

// applicable says whether answering operation `op` of a `kind` client with v is an ERROR answer there.
func (v evariant) applicable(kind kit.Kind, op string) bool {
	legacy := kind == kit.LSSE
	if v.Retry && op != "request" && op != "init" {
		return false // only requests are retried
	}
	if legacy && v.Status >= 200 && v.Status < 300 {
		// legacy POSTs: any 2xx is an acceptance (the result comes on the event stream); only the open of the
		// event stream itself has to be a 200 text/event-stream
		return op == "getstream"
	}
	switch v.Status {
	case 202:
		// the regular answer to a notification / a posted answer
		return op != "notification" && op != "answer"
	case 200:
		return op != "delete" // DELETE: 200 is success whatever the body
	}
	if op == "answer" && v.unfinished() {
		// the post of an answer runs on a context of its own with a 30 s timeout, by design detached from
		// the caller and from Close; a body that never ends is read until then
		return false
	}
	return true
}

var errOps = map[bool][]string{
	false: {"request", "init", "notification", "getstream", "delete", "answer", "real"},
	true:  {"request", "init", "notification", "getstream", "answer", "real"},
}

type errEnv struct {
	rep      *vh.Reporter
	in       *kit.Instance
	px       *Proxy
	kind     kit.Kind
	n        int
	thorough bool
}

// emeasure are the levels at quiescence.
type emeasure struct {
	l  levels
	px int // connections the proxy still relays: the server's view of what the client has not released
}

func (e *errEnv) measure(prev *emeasure, max time.Duration) emeasure {
	closeIdle()
	p := levels{Lib: map[string]int{}}
	pp := 0
	if prev != nil {
		p, pp = prev.l, prev.px
	}
	m := emeasure{l: settleTo(clientSide, p, max)}
	deadline := time.Now().Add(max)
	last, stable := e.px.NConns(), 0
	for last > pp && stable < 15 && time.Now().Before(deadline) {
		time.Sleep(20 * time.Millisecond)
		closeIdle()
		cur := e.px.NConns()
		if cur == last {
			stable++
		} else {
			stable = 0
		}
		last = cur
	}
	m.px = last
	return m
}

func (m emeasure) metrics() map[string]int {
	out := map[string]int{"leak-connections": m.l.Conn, "leak-fds": m.l.FDs, "leak-connections-seen-by-peer": m.px}
	for fn, n := range m.l.Lib {
		out["leak-goroutines("+fn+")"] = n
	}
	return out
}

func newClientOpts(kind kit.Kind, url string, opts ...mcp.ClientOption) (*kit.LibClient, error) {
	all := append([]mcp.ClientOption{mcp.WithClientLogger(kit.Quiet{})}, opts...)
	if kind == kit.LSSE {
		c, err := mcp.NewSSEClient(url, kit.ClientInfo, all...)
		if err != nil {
			return nil, err
		}
		return &kit.LibClient{Connector: c, HTTP: c, Kind: kind}, nil
	}
	c, err := mcp.NewClient(url, kit.ClientInfo, all...)
	if err != nil {
		return nil, err
	}
	return &kit.LibClient{Connector: c, HTTP: c, Kind: kind}, nil
}

// startOp runs f as one pending operation (frame main.c08Op is what the blocked-forever oracle looks for).
func startOp(name string, cancel context.CancelFunc, f func() (string, error)) *call {
	cl := &call{nonce: name, done: make(chan callRes, 1), started: time.Now(), cancel: cancel}
	go c08Op(cl, f)
	return cl
}

func c08Op(cl *call, f func() (string, error)) {
	res := callRes{Nonce: cl.nonce}
	defer func() {
		if p := recover(); p != nil {
			res.Panic = fmt.Sprint(p)
		}
		res.Returned = time.Now()
		cl.done <- res
	}()
	out, err := f()
	res.Err = err
	if err == nil {
		res.Nonce = out // "ok" (no value to return) | "value-ok" | "value-bad: ..."
	}
}

// eclass is one (operation, answer) class; source says who gives the answer.
type eclass struct {
	Op     string
	V      evariant
	Source string // gateway (the proxy answers) | server (the library server's own answer)
}

func (c eclass) class() string {
	return fmt.Sprintf("http-error@%s[%s,%s]", c.Op, c.V.Class, c.Source)
}

func (e *errEnv) sig(c eclass, symptom string) string {
	return fmt.Sprintf("C08|%s|%s|pending=n|%s", e.kind, c.class(), symptom)
}

func (e *errEnv) label(c eclass) string {
	return fmt.Sprintf("%s|%s|pending=n :: answer=%s n=%d", e.kind, c.class(), c.V.Name, e.n)
}

// plans builds the proxy plans answering the requests that match.
func (e *errEnv) plans(c eclass, method, contains, prefix string) []*Plan {
	v := c.V
	if v.Then == nil {
		return []*Plan{{Kind: "answer", Point: "answer", Count: 1 << 20, ReqMethod: method, ReqContains: contains, Answer: v.canned("")}}
	}
	loc := "/moved-" + prefix
	return []*Plan{
		{Kind: "answer", Point: "answer", Count: 1 << 20, ReqContains: loc + " HTTP/1.1", Answer: v.Then.canned("")},
		{Kind: "answer", Point: "answer", Count: 1 << 20, ReqMethod: method, ReqContains: contains, Answer: v.canned(loc)},
	}
}

func finalFired(pls []*Plan) int {
	if len(pls) == 0 {
		return 0
	}
	return int(pls[0].FiredN.Load()) // with a redirect, plan 0 is the final answer
}

// round drives k failing operations of the class through one (getstream: k) client(s), closes and returns
// how many error answers reached the client.
func (e *errEnv) round(c eclass, k int) (delivered int, ok bool) {
	rep := e.rep
	prefix := nextNonce("e")
	e.px.SetPlans()
	dl := callDeadline
	conc := false // all operations of the round pending at once
	if c.V.unfinished() {
		dl, conc = 300*time.Millisecond, true
	}
	var opts []mcp.ClientOption
	if c.V.Retry {
		opts = append(opts, mcp.WithRetry(mcp.RetryConfig{MaxRetries: 2, InitialBackoff: time.Millisecond, BackoffFactor: 1, MaxBackoff: 2 * time.Millisecond}))
	}
	url := e.px.URL() + e.in.Path
	legacy := e.kind == kit.LSSE

	var calls []*call
	var judgeMu sync.Mutex
	judge := func(cl *call, wantValue string) {
		// the watchdog runs from the later of the operation's start and its deadline for never-ending bodies
		from := cl.started
		if c.V.unfinished() {
			from = from.Add(dl)
		}
		r, returned := cl.await(from.Add(watchdog))
		judgeMu.Lock()
		defer judgeMu.Unlock()
		rep.Eval(1)
		outcome := "error"
		switch {
		case !returned:
			outcome = "not-returned"
			parked, fn, stack := parkedInLibrary(leak.Dump(), "main.c08")
			if parked {
				rep.Violation(e.sig(c, "blocked-forever"), fmt.Sprintf("%s: the operation had not returned %s after its deadline (%s) / the error answer; parked in %s", e.label(c), watchdog, dl, fn),
					map[string]interface{}{"class": c.class(), "answer": c.V.Name, "parked_in": fn, "goroutine": stack})
			} else {
				rep.Inconclusive(e.label(c) + ": watchdog fired but no operation is parked in a library frame")
			}
		case r.Panic != "":
			outcome = "panic"
			rep.Violation(e.sig(c, "panic-in-caller"), fmt.Sprintf("%s: panic in the caller's goroutine: %s", e.label(c), r.Panic), map[string]interface{}{"answer": c.V.Name, "panic": r.Panic})
		case r.Err != nil:
			rep.Count("errors_returned", 1)
			rep.Count("errstatus_errors_returned", 1)
			if isDeadlineErr(r.Err) {
				outcome = "deadline-error"
			}
		case wantValue == "none":
			outcome = "ok-no-value" // notification / DELETE: nothing to return
		default:
			outcome = "value"
			good, why := r.Nonce == "value-ok", r.Nonce
			if r.Val != nil || r.Payload != "" {
				good, why = validate(r)
			}
			if !good {
				rep.Violation(e.sig(c, "partial-or-wrong-result"), fmt.Sprintf("%s: the operation was answered %s and returned a value that is not its own complete answer: %s", e.label(c), c.V.Name, why), map[string]interface{}{"answer": c.V.Name, "why": why})
			}
		}
		if cl.cancel != nil {
			cl.cancel()
		}
		if os.Getenv("C08_DEBUG") != "" {
			fmt.Fprintf(os.Stderr, "DEBUG %s %s %s -> %s %s\n", e.kind, c.class(), c.V.Name, outcome, errStr(r.Err))
		}
		rep.Distinct(fmt.Sprintf("%s|%s|%s|%s", e.kind, c.class(), c.V.Name, outcome))
		sampleOnce(rep, map[string]interface{}{"kind": e.kind, "operation": c.Op, "answer": c.V, "source": c.Source, "outcome": outcome, "error": errStr(r.Err)})
	}
	// run issues the operations sequentially (each judged before the next) for the first half, at once for the rest
	run := func(k int, wantValue string, mk func(i int) *call) {
		var wg sync.WaitGroup
		for i := 0; i < k; i++ {
			cl := mk(i)
			calls = append(calls, cl)
			if conc || i >= (k+1)/2 {
				wg.Add(1)
				go func() { defer wg.Done(); judge(cl, wantValue) }()
			} else {
				judge(cl, wantValue)
			}
		}
		wg.Wait()
	}
	handshake := func(c2 *kit.LibClient) bool {
		ictx, icancel := context.WithTimeout(context.Background(), 10*time.Second)
		_, err := c2.Initialize(ictx, &mcp.InitializeRequest{})
		icancel()
		if err != nil {
			rep.Inconclusive(fmt.Sprintf("%s: handshake through the pass-through proxy failed: %v", e.label(c), err))
			closeClient(c2)
			return false
		}
		return true
	}
	finish := func(c2 *kit.LibClient) {
		pending := mcp.VerifPendingClientRequests(c2.Raw())
		if pending > 0 {
			time.Sleep(50 * time.Millisecond)
			pending = mcp.VerifPendingClientRequests(c2.Raw())
		}
		okc, took, _ := closeClient(c2)
		if !okc {
			parked, fn, stack := parkedInLibrary(leak.Dump(), "main.c08Close")
			if parked {
				rep.Violation(e.sig(c, "close-hangs"), fmt.Sprintf("%s: Close had not returned after %s; parked in %s", e.label(c), closeWatchdog, fn), map[string]interface{}{"answer": c.V.Name, "goroutine": stack})
			} else {
				rep.Inconclusive(e.label(c) + ": Close watchdog fired without a library frame")
			}
		}
		rep.Max("close_ms", took.Milliseconds())
		if after := mcp.VerifPendingClientRequests(c2.Raw()); pending > 0 || after > 0 {
			rep.Violation(e.sig(c, "pending-entries-left"), fmt.Sprintf("%s: pending-request table holds %d entries at quiescence and %d after Close", e.label(c), pending, after), map[string]interface{}{"answer": c.V.Name})
		}
	}
	// The callers of the first half never cancel their context (context.Background(), or one long-lived context
	// for many calls, is ordinary use): whatever a failed call left behind is then not swept up by a cancel.
	// The second half runs under a deadline and cancels once the call has returned. An answer whose body
	// never ends can only be left by a deadline: those operations all have one.
	mkctx := func(i, k int) (context.Context, context.CancelFunc) {
		if !conc && i < (k+1)/2 {
			rep.SetAdd("http_error_caller_contexts", "never-cancelled")
			return context.Background(), func() {}
		}
		rep.SetAdd("http_error_caller_contexts", "deadline,cancelled-after-return")
		return context.WithTimeout(context.Background(), dl)
	}

	var pls []*Plan
	switch c.Op {
	case "request":
		cli, err := newClientOpts(e.kind, url, opts...)
		if err != nil || !handshake(cli) {
			return 0, false
		}
		pls = e.plans(c, "POST", `"nonce":"`+prefix, prefix)
		lp := e.plans(c, "POST", `"method":"tools/list"`, prefix)
		e.px.SetPlans(append(append([]*Plan{}, pls...), lp[len(lp)-1])...)
		run(k, "value", func(i int) *call {
			ctx, cancel := mkctx(i, k)
			if i == 1 { // one tools/list among the tools/call requests
				return startOp("tools/list", cancel, func() (string, error) {
					res, err := cli.ListTools(ctx, &mcp.ListToolsRequest{})
					if err != nil {
						return "", err
					}
					for _, t := range res.Tools {
						if t.Name == "necho" {
							return "value-ok", nil
						}
					}
					return "value-bad: tools/list result without the server's tools", nil
				})
			}
			return startCallTool(cli, ctx, cancel, fmt.Sprintf("%s-%d", prefix, i), "payload-"+prefix, map[string]interface{}{"_tool": "necho", "pad_n": 64})
		})
		delivered = finalFired(pls) + int(lp[len(lp)-1].FiredN.Load())
		if c.V.Then != nil {
			delivered = finalFired(pls)
		}
		e.px.SetPlans()
		finish(cli)
	case "init":
		// the first half retries Initialize on one client object, the rest are clients of their own (pending at once)
		shared, err := newClientOpts(e.kind, url, opts...)
		if err != nil {
			return 0, false
		}
		clients := []*kit.LibClient{shared}
		pls = e.plans(c, "POST", `"method":"initialize"`, prefix)
		e.px.SetPlans(pls...)
		run(k, "value", func(i int) *call {
			cli := shared
			if conc || i >= (k+1)/2 {
				var err error
				if cli, err = newClientOpts(e.kind, url, opts...); err != nil {
					cli = shared
				} else {
					clients = append(clients, cli)
				}
			}
			ctx, cancel := mkctx(i, k)
			return startOp("initialize", cancel, func() (string, error) {
				ir, err := cli.Initialize(ctx, &mcp.InitializeRequest{})
				if err != nil {
					return "", err
				}
				if ir == nil || ir.ServerInfo.Name != "verif-server" {
					return "value-bad: Initialize returned a result that is not the server's", nil
				}
				return "value-ok", nil
			})
		})
		delivered = finalFired(pls)
		e.px.SetPlans()
		for _, cli := range clients {
			finish(cli)
		}
	case "notification":
		cli, err := newClientOpts(e.kind, url)
		if err != nil || !handshake(cli) {
			return 0, false
		}
		pls = e.plans(c, "POST", `"method":"notifications/`, prefix)
		e.px.SetPlans(pls...)
		run(k, "none", func(i int) *call {
			ctx, cancel := mkctx(i, k)
			return startOp("notification", cancel, func() (string, error) {
				if i%2 == 0 {
					return "ok", cli.HTTP.SendInitialized(ctx)
				}
				return "ok", cli.HTTP.SendRootsListChangedNotification(ctx)
			})
		})
		delivered = finalFired(pls)
		e.px.SetPlans()
		finish(cli)
	case "delete":
		cli, err := newClientOpts(e.kind, url)
		if err != nil || !handshake(cli) {
			return 0, false
		}
		pls = e.plans(c, "DELETE", "", prefix)
		e.px.SetPlans(pls...)
		run(k, "none", func(i int) *call {
			ctx, cancel := mkctx(i, k)
			return startOp("terminate-session", cancel, func() (string, error) { return "ok", cli.HTTP.TerminateSession(ctx) })
		})
		delivered = finalFired(pls)
		e.px.SetPlans()
		finish(cli)
	case "getstream":
		// one listening stream per client: k clients; the GET of each is answered with the error
		pls = e.plans(c, "GET", "", prefix)
		e.px.SetPlans(pls...)
		var mu sync.Mutex
		var clients []*kit.LibClient
		want := "value"
		run(k, want, func(i int) *call {
			ctx, cancel := mkctx(i, k)
			if !legacy && conc {
				// the stream is opened in the background after a successful handshake
				ctx, cancel = context.WithTimeout(context.Background(), 10*time.Second)
			}
			return startOp("initialize+stream", cancel, func() (string, error) {
				cli, err := newClientOpts(e.kind, url)
				if err != nil {
					return "", err
				}
				mu.Lock()
				clients = append(clients, cli)
				mu.Unlock()
				ir, err := cli.Initialize(ctx, &mcp.InitializeRequest{})
				if err != nil {
					return "", err
				}
				if ir == nil || ir.ServerInfo.Name != "verif-server" {
					return "value-bad: Initialize returned a result that is not the server's", nil
				}
				return "value-ok", nil
			})
		})
		// every GET has been answered (Streamable: in the background)
		dlw := time.Now().Add(5 * time.Second)
		for finalFired(pls) < k && time.Now().Before(dlw) {
			time.Sleep(2 * time.Millisecond)
		}
		delivered = finalFired(pls)
		if c.V.unfinished() && !legacy {
			time.Sleep(20 * time.Millisecond)
		}
		e.px.SetPlans()
		for _, cli := range clients {
			finish(cli)
		}
	case "answer":
		cli, err := newClientOpts(e.kind, url)
		if err != nil || !handshake(cli) {
			return 0, false
		}
		sid := cli.HTTP.GetSessionID()
		if legacy {
			sid = e.legacySession(cli)
		} else {
			for w := 0; w < 1500 && mcp.VerifListeningStreams(e.in.Server) < 1; w++ {
				time.Sleep(2 * time.Millisecond)
			}
		}
		if sid == "" {
			rep.Inconclusive(e.label(c) + ": session id not learnt")
			closeClient(cli)
			return 0, false
		}
		pls = e.plans(c, "POST", `"roots"`, prefix)
		e.px.SetPlans(pls...)
		for i := 0; i < k; i++ {
			// the server asks for the client's roots; the client's POST of the answer gets the error answer
			sctx, scancel := context.WithCancel(context.Background())
			done := make(chan struct{})
			go func() {
				defer close(done)
				defer func() { recover() }()
				rq := &mcp.JSONRPCRequest{JSONRPC: "2.0"}
				rq.Method = "roots/list"
				if e.in.Server != nil {
					e.in.Server.SendRequest(sctx, sid, rq)
				} else {
					e.in.SSE.SendRequest(sctx, sid, rq)
				}
			}()
			dlw := time.Now().Add(5 * time.Second)
			for finalFired(pls) < i+1 && time.Now().Before(dlw) {
				time.Sleep(time.Millisecond)
			}
			scancel()
			<-done
			rep.Eval(1)
		}
		delivered = finalFired(pls)
		if delivered > 0 {
			rep.Distinct(fmt.Sprintf("%s|%s|%s|posted", e.kind, c.class(), c.V.Name))
		}
		// quiescence: the goroutine that posted has seen the answer (it runs inside the stream reader)
		time.Sleep(20 * time.Millisecond)
		e.px.SetPlans()
		finish(cli)
	}
	for _, cl := range calls {
		if cl.cancel != nil {
			cl.cancel()
		}
	}
	rep.Count("http_error_answers_delivered", int64(delivered))
	return delivered, true
}

// legacySession learns the legacy session id from the echo tool (the client does not expose it).
func (e *errEnv) legacySession(cli *kit.LibClient) string {
	ctx, cancel := context.WithTimeout(context.Background(), 10*time.Second)
	defer cancel()
	rq := &mcp.CallToolRequest{}
	rq.Params.Name = "echo"
	rq.Params.Arguments = map[string]interface{}{"nonce": nextNonce("sid"), "payload": "p"}
	res, err := cli.CallTool(ctx, rq)
	if err != nil || res == nil || len(res.Content) != 1 {
		return ""
	}
	var text string
	switch t := res.Content[0].(type) {
	case mcp.TextContent:
		text = t.Text
	case *mcp.TextContent:
		text = t.Text
	}
	var a kit.EchoAnswer
	json.Unmarshal([]byte(text), &a)
	return a.Session
}

// runClass: baseline, n operations, 2n more; judged by growth.
func (e *errEnv) runClass(c eclass, round func(k int) (int, bool), perOp int) {
	rep := e.rep
	rep.Progress(e.label(c))
	notePoint(rep, string(e.kind), "http-error", c.Op+":"+c.V.Class+","+c.Source, e.n)
	rep.SetAdd("http_error_answers", c.V.Name)
	rep.SetAdd("http_error_operations", string(e.kind)+"|"+c.Op+"|"+c.Source)
	e.px.SetPlans()
	e.px.CloseConns()
	m0 := e.measure(nil, 2*time.Second)
	d1, ok1 := round(e.n)
	m1 := e.measure(&m0, 3*time.Second)
	d2, ok2 := 0, false
	if ok1 {
		d2, ok2 = round(2 * e.n)
	}
	m2 := e.measure(&m1, 3*time.Second)
	if !ok1 || !ok2 {
		return
	}
	if d1 < e.n*perOp || d2 < 2*e.n*perOp {
		rep.Count("fault_not_delivered", 1)
		rep.Inconclusive(fmt.Sprintf("%s: only %d / %d error answers reached the client in the two rounds (wanted %d / %d)", e.label(c), d1, d2, e.n*perOp, 2*e.n*perOp))
		return
	}
	x0, x1, x2 := m0.metrics(), m1.metrics(), m2.metrics()
	var grew []string
	for metric := range x2 {
		if x1[metric] > x0[metric] && x2[metric] > x1[metric] {
			grew = append(grew, metric)
		}
	}
	sort.Strings(grew)
	if len(grew) > 0 {
		// still there after a longer wait? (counts at quiescence decide, not the time it took)
		m3 := e.measure(&m1, 6*time.Second)
		x3 := m3.metrics()
		var still []string
		for _, metric := range grew {
			if x3[metric] > x1[metric] {
				still = append(still, metric)
			}
		}
		grew, x2, m2 = still, x3, m3
	}
	has := func(metric string) bool {
		for _, g := range grew {
			if g == metric {
				return true
			}
		}
		return false
	}
	for _, metric := range grew {
		if metric == "leak-fds" && (has("leak-connections") || has("leak-connections-seen-by-peer")) {
			continue // the sockets of the leaked connections: one defect (fds are in the witness)
		}
		if metric == "leak-connections-seen-by-peer" && has("leak-connections") {
			continue // the peer's end of the same connections
		}
		rep.Violation(e.sig(c, metric), fmt.Sprintf("%s: %s at quiescence after Close: %d before, %d after %d operations answered %s, %d after %d more - it grows with the number of failed operations", e.label(c), metric, x0[metric], x1[metric], e.n, c.V.Name, x2[metric], 2*e.n),
			map[string]interface{}{"kind": e.kind, "operation": c.Op, "answer": c.V, "source": c.Source, "operations": []int{e.n, 2 * e.n}, "error_answers_delivered": []int{d1, d2},
				"levels": map[string]interface{}{"before": x0, "after_n": x1, "after_2n_more": x2}, "dump_excerpt": dumpExcerpt(clientSide, metric)})
	}
	rep.Max("errstatus_conn_left_after_class", int64(max0(m2.l.Conn-m0.l.Conn)))
	rep.Max("errstatus_peer_conn_left_after_class", int64(max0(m2.px-m0.px)))
	rep.Count("errstatus_classes_measured", 1)
	if len(grew) == 0 {
		rep.Distinct(fmt.Sprintf("%s|%s|%s|no-growth", e.kind, c.class(), c.V.Name))
	}
	e.px.CloseConns() // the next class starts without this one's residue on the wire
}

// errStatusBatch runs one operation kind of one client kind against every applicable answer.
func errStatusBatch(rep *vh.Reporter, kind kit.Kind, op string, rng *rand.Rand, thorough bool) {
	in := kit.Start(kind, kit.Opts{})
	defer in.Close()
	kit.StdFixture(in)
	registerNecho(in)
	px, err := newProxy(in.TS.Listener.Addr().String())
	if err != nil {
		rep.Inconclusive("proxy: " + err.Error())
		return
	}
	defer px.Close()
	warm(rep, kind, px.URL()+in.Path)
	px.CloseConns()
	closeIdle()
	e := &errEnv{rep: rep, in: in, px: px, kind: kind, n: 3, thorough: thorough}
	if thorough {
		e.n = 8
	}
	if op == "real" {
		e.realBatch()
		return
	}
	vs := errVariants(thorough)
	rng.Shuffle(len(vs), func(i, j int) { vs[i], vs[j] = vs[j], vs[i] })
	for _, v := range vs {
		if !v.applicable(kind, op) {
			continue
		}
		c := eclass{Op: op, V: v, Source: "gateway"}
		perOp := 1
		if v.Retry {
			perOp = 3
		}
		e.runClass(c, func(k int) (int, bool) { return e.round(c, k) }, perOp)
	}
}

// realBatch: the error answers are the library server's own.
func (e *errEnv) realBatch() {
	rep := e.rep
	direct := &http.Client{Transport: &http.Transport{DisableKeepAlives: true}}
	legacy := e.kind == kit.LSSE
	mkctx := func() (context.Context, context.CancelFunc) { return context.WithTimeout(context.Background(), callDeadline) }
	mkctxi := func(i, k int) (context.Context, context.CancelFunc) {
		if i < (k+1)/2 {
			return context.Background(), func() {} // never cancelled
		}
		return mkctx()
	}
	type scenario struct {
		name   string
		status int
		body   string
		ops    []string
	}
	scs := []scenario{{"wrong-path", 404, "text", []string{"init"}}}
	if !legacy {
		scs = append(scs,
			scenario{"session-terminated-on-server", 404, "text", []string{"request", "notification", "delete"}},
			scenario{"session-id-dropped-after-terminate", 400, "text", []string{"request", "notification"}},
		)
	}
	for _, sc := range scs {
		for _, op := range sc.ops {
			sc, op := sc, op
			c := eclass{Op: op, V: evariant{Name: fmt.Sprintf("%d-%s", sc.status, sc.name), Class: fmt.Sprintf("%dxx,%s", sc.status/100, sc.name), Status: sc.status}, Source: "server"}
			round := func(k int) (int, bool) {
				e.px.SetPlans()
				before := e.px.StatusCount(sc.status)
				url := e.px.URL() + e.in.Path
				if sc.name == "wrong-path" {
					url = e.px.URL() + "/no-such-path"
				}
				cli, err := newClientOpts(e.kind, url)
				if err != nil {
					return 0, false
				}
				if sc.name != "wrong-path" {
					ictx, icancel := context.WithTimeout(context.Background(), 10*time.Second)
					_, err := cli.Initialize(ictx, &mcp.InitializeRequest{})
					icancel()
					if err != nil {
						rep.Inconclusive(e.label(c) + ": handshake failed: " + err.Error())
						closeClient(cli)
						return 0, false
					}
				}
				switch sc.name {
				case "session-terminated-on-server":
					// the session ends on the server (an expiry / an operator / another process): DELETE with its id
					rq, _ := http.NewRequest(http.MethodDelete, e.in.URL(), nil)
					rq.Header.Set("Mcp-Session-Id", cli.HTTP.GetSessionID())
					resp, err := direct.Do(rq)
					if err != nil || resp.StatusCode != 200 {
						rep.Inconclusive(e.label(c) + ": the session could not be terminated on the server")
						if resp != nil {
							resp.Body.Close()
						}
						closeClient(cli)
						return 0, false
					}
					resp.Body.Close()
				case "session-id-dropped-after-terminate":
					ctx, cancel := mkctx()
					err := cli.HTTP.TerminateSession(ctx)
					cancel()
					if err != nil {
						rep.Inconclusive(e.label(c) + ": TerminateSession failed: " + err.Error())
						closeClient(cli)
						return 0, false
					}
				}
				var calls []*call
				prefix := nextNonce("r")
				for i := 0; i < k; i++ {
					ctx, cancel := mkctxi(i, k)
					var cl *call
					switch op {
					case "init":
						cl = startOp("initialize", cancel, func() (string, error) {
							_, err := cli.Initialize(ctx, &mcp.InitializeRequest{})
							if err == nil {
								return "value-bad: Initialize succeeded on a path the server does not serve", nil
							}
							return "", err
						})
					case "request":
						if i == 1 {
							cl = startOp("tools/list", cancel, func() (string, error) {
								_, err := cli.ListTools(ctx, &mcp.ListToolsRequest{})
								if err == nil {
									return "value-bad: tools/list succeeded on a session that is gone", nil
								}
								return "", err
							})
						} else {
							cl = startCallTool(cli, ctx, cancel, fmt.Sprintf("%s-%d", prefix, i), "payload-"+prefix, map[string]interface{}{"_tool": "necho", "pad_n": 64})
						}
					case "notification":
						cl = startOp("notification", cancel, func() (string, error) { return "ok", cli.HTTP.SendInitialized(ctx) })
					case "delete":
						cl = startOp("terminate-session", cancel, func() (string, error) { return "ok", cli.HTTP.TerminateSession(ctx) })
					}
					calls = append(calls, cl)
					if i < (k+1)/2 {
						e.judgeReal(c, cl, want(op))
					}
				}
				for i, cl := range calls {
					if i >= (k+1)/2 {
						e.judgeReal(c, cl, want(op))
					}
				}
				okc, _, _ := closeClient(cli)
				if !okc {
					rep.Inconclusive(e.label(c) + ": Close did not return")
				}
				if after := mcp.VerifPendingClientRequests(cli.Raw()); after > 0 {
					rep.Violation(e.sig(c, "pending-entries-left"), fmt.Sprintf("%s: pending-request table holds %d entries after Close", e.label(c), after), nil)
				}
				d := e.px.StatusCount(sc.status) - before
				rep.Count("http_error_answers_delivered", int64(d))
				return d, true
			}
			e.runClass(c, round, 1)
		}
	}
}

func want(op string) string {
	if op == "notification" || op == "delete" {
		return "none"
	}
	return "value"
}

func (e *errEnv) judgeReal(c eclass, cl *call, wantValue string) {
	rep := e.rep
	r, returned := cl.await(cl.started.Add(watchdog))
	rep.Eval(1)
	outcome := "error"
	switch {
	case !returned:
		outcome = "not-returned"
		parked, fn, stack := parkedInLibrary(leak.Dump(), "main.c08")
		if parked {
			rep.Violation(e.sig(c, "blocked-forever"), fmt.Sprintf("%s: the operation had not returned after %s; parked in %s", e.label(c), watchdog, fn), map[string]interface{}{"goroutine": stack})
		} else {
			rep.Inconclusive(e.label(c) + ": watchdog fired but no operation is parked in a library frame")
		}
	case r.Panic != "":
		outcome = "panic"
		rep.Violation(e.sig(c, "panic-in-caller"), fmt.Sprintf("%s: panic in the caller's goroutine: %s", e.label(c), r.Panic), nil)
	case r.Err != nil:
		rep.Count("errors_returned", 1)
		rep.Count("errstatus_errors_returned", 1)
	case wantValue == "none":
		outcome = "ok-no-value"
	default:
		outcome = "value"
		why := r.Nonce
		if r.Val != nil || r.Payload != "" {
			why = "a tools/call result although the server answered with an error status"
		}
		rep.Violation(e.sig(c, "partial-or-wrong-result"), fmt.Sprintf("%s: %s", e.label(c), why), nil)
	}
	if cl.cancel != nil {
		cl.cancel()
	}
	rep.Distinct(fmt.Sprintf("%s|%s|%s|%s", e.kind, c.class(), c.V.Name, outcome))
}
