// C08 — every client call ends when its connection or context ends; nothing leaks.
//
// Fault enumeration. The client under test runs in a CHILD process per batch (a panic inside a library
// goroutine is observed as process death naming the case). Faults: a TCP fault proxy (close / RST / stall /
// truncate at every message boundary and at seeded byte offsets) between the library client and a REAL
// library server; a scripted raw-TCP HTTP server (terminating chunk delayed or withheld); the real
// StdioServer as a child process killed / stopped / exiting at each point plus a scripted stdio child for
// byte-level control and scripted stdio servers that are process trees (helpers that inherit the pipes and
// outlive the server process, proctree.go); context cancellation and deadlines at seeded instants; yield-controlled schedules
// for the three known races; and the server side with peers that vanish.
package main

import (
	"fmt"
	"os"
	"strconv"
	"strings"
	"sync"
	"time"

	"verifharness/lib/kit"
	"verifharness/lib/leak"
	"verifharness/lib/vh"
)

type batch struct {
	Name string
}

func batches() []batch {
	var out []batch
	for _, k := range []kit.Kind{kit.SJSON, kit.SSSE, kit.LSSE} {
		for _, f := range []string{"close", "rst", "stall", "truncate"} {
			out = append(out, batch{fmt.Sprintf("http|%s|%s", k, f)})
		}
		out = append(out, batch{fmt.Sprintf("noctx|%s", k)}, batch{fmt.Sprintf("cancel|%s", k)}, batch{fmt.Sprintf("server|%s", k)}, batch{fmt.Sprintf("lifecycle|%s", k)})
	}
	for _, k := range []kit.Kind{kit.SJSON, kit.SSSE, kit.LSSE} {
		for _, op := range errOps[k == kit.LSSE] {
			out = append(out, batch{fmt.Sprintf("errstatus|%s|%s", k, op)})
		}
	}
	for _, g := range []string{"signals", "script", "cancel"} {
		out = append(out, batch{"stdio|" + g})
	}
	for _, d := range treeDies {
		out = append(out, batch{"stdiotree|" + d})
	}
	out = append(out, batch{"ssedone|scripted"}, batch{"ssedone|proxy"})
	for _, k := range []kit.Kind{kit.SJSON, kit.SSSE, kit.LSSE} {
		out = append(out, batch{fmt.Sprintf("closerace|%s|init", k)}, batch{fmt.Sprintf("closerace|%s|call", k)})
	}
	out = append(out, batch{"closerace|stdio"})
	out = append(out, batch{"spawnrace|stdio|close"}, batch{"spawnrace|stdio|cancel"})
	for _, k := range []kit.Kind{kit.SJSON, kit.SSSE, kit.LSSE} {
		out = append(out, batch{fmt.Sprintf("spawnrace|%s", k)})
	}
	for _, s := range []string{"a-lookup", "a-cleanup", "b-1", "b-8", "c"} {
		out = append(out, batch{"sched|" + s})
	}
	for _, k := range []kit.Kind{kit.LSSE, kit.SSSE, kit.SJSON} {
		out = append(out, batch{fmt.Sprintf("stalled|%s", k)})
	}
	return out
}

func child() {
	kit.Silence()
	rep := vh.NewReporter()
	name := os.Getenv("C08_BATCH")
	seed, _ := strconv.ParseInt(os.Getenv("C08_SEED"), 10, 64)
	thorough := os.Getenv("C08_TIER") == "thorough"
	skip, _ := strconv.Atoi(os.Getenv("C08_SKIP"))
	r := &vh.Run{Seed: seed}
	rng := r.Rand("c08|" + name)
	nOff := 2
	if thorough {
		nOff = 24
		pendings = []int{1, 2, 8, 32}
	}
	parts := strings.Split(name, "|")
	sampleAt = 1 + int64(len(name)*7+int(seed))%11
	crashAt, _ := strconv.Atoi(os.Getenv("C08_SELFTEST_CRASH_AT")) // harness self-test of the process-death path
	idx := 0
	// each case is announced as "#<index> <label>" so that the parent can resume after a crash
	next := func() bool {
		idx++
		if crashAt > 0 && idx == crashAt && skip == 0 {
			rep.Progress("selftest|crash@nowhere|pending=1 :: deliberate crash")
			go func() { var m map[string]int; m["x"] = 1 }()
			time.Sleep(time.Second)
		}
		return idx-1 >= skip
	}
	switch parts[0] {
	case "http", "noctx", "cancel":
		kind := kit.Kind(parts[1])
		in := kit.Start(kind, kit.Opts{})
		kit.StdFixture(in)
		registerNecho(in)
		px, err := newProxy(in.TS.Listener.Addr().String())
		if err != nil {
			rep.Inconclusive("proxy: " + err.Error())
			break
		}
		warm(rep, kind, px.URL()+in.Path)
		px.CloseConns()
		closeIdle()
		e := &httpEnv{in: in, px: px, rep: rep}
		e.lt = newLeakTracker(rep, string(kind), clientSide)
		pend := map[string]bool{}
		switch parts[0] {
		case "http":
			for _, cs := range enumerate(kind, parts[2], rng, nOff, thorough) {
				if !next() {
					continue
				}
				if cs.Pending > 1 {
					pend[cs.class()] = true
				}
				e.runFaultCase(cs, true)
			}
		case "noctx":
			// calls without any deadline: the connection's end is the only thing that can end them
			e.lt = nil
			for _, target := range []string{"call", "init"} {
				bnd, _ := pointsFor(kind, target)
				for _, f := range []string{"close", "rst"} {
					for _, p := range bnd {
						if !next() {
							continue
						}
						size := "small"
						if p == "pre-term" && kind == kit.SJSON {
							size = "large"
						}
						e.runFaultCase(hcase{Kind: kind, Target: target, Fault: f, Point: p, Pending: 1, Ctx: "none", Size: size}, false)
					}
				}
			}
		case "cancel":
			for _, f := range []string{"cancel", "deadline"} {
				for _, inst := range cancelInstants(kind) {
					for i, p := range pendings {
						if !next() {
							continue
						}
						if p > 1 {
							pend[f+"@"+inst] = true
						}
						size := []string{"small", "large"}[i%2]
						if inst == "response-held" {
							size = "large"
						}
						e.runCancelCase(hcase{Kind: kind, Target: "call", Fault: f, Point: inst, Pending: p, Ctx: f, Size: size}, rng)
					}
				}
			}
		}
		if e.lt != nil {
			e.lt.finish(func(class string) string {
				if pend[class] {
					return "n"
				}
				return "1"
			})
		}
		px.Close()
		in.Close()
	case "stdio":
		e := &stdioEnv{rep: rep}
		e.lt = newLeakTracker(rep, "stdio", clientSide)
		pend := map[string]bool{}
		for _, cs := range stdioEnumerate(rng, nOff) {
			group := "signals"
			switch {
			case cs.Script != "":
				group = "script"
			case cs.Fault == "cancel" || cs.Fault == "deadline" || cs.Fault == "none":
				group = "cancel"
			}
			if group != parts[1] || !next() {
				continue
			}
			if cs.Pending > 1 {
				pend[cs.class()] = true
			}
			e.run(cs, rng)
		}
		if parts[1] == "cancel" && next() {
			n := 16
			if thorough {
				n = 64
			}
			e.closeStress(n)
		}
		e.lt.finish(func(class string) string {
			if pend[class] {
				return "n"
			}
			return "1"
		})
	case "stdiotree":
		stdioTreeBatch(rep, parts[1], rng, thorough, next)
	case "ssedone":
		sseDoneBatch(rep, parts[1])
	case "sched":
		switch parts[1] {
		case "a-lookup":
			schedA(rep, seed, "stdiocli.resp.lookup")
		case "a-cleanup":
			schedA(rep, seed, "stdiocli.req.cleanup")
		case "b-1":
			schedB(rep, seed, 1)
		case "b-8":
			schedB(rep, seed, 8)
		case "c":
			schedC(rep, seed)
		}
	case "closerace":
		if parts[1] == "stdio" {
			closeRaceStdio(rep, thorough)
		} else {
			closeRaceBatch(rep, kit.Kind(parts[1]), parts[2], thorough)
		}
	case "spawnrace":
		if parts[1] == "stdio" {
			spawnRaceStdio(rep, parts[2], rng, thorough)
		} else {
			spawnRaceHTTP(rep, kit.Kind(parts[1]), thorough)
		}
	case "errstatus":
		errStatusBatch(rep, kit.Kind(parts[1]), parts[2], rng, thorough)
	case "lifecycle":
		n := 10
		if thorough {
			n = 40
		}
		lifecycleBatch(rep, kit.Kind(parts[1]), n)
	case "stalled":
		stalledBatch(rep, kit.Kind(parts[1]), seed, thorough)
	case "server":
		n := 6
		if thorough {
			n = 24
		}
		serverBatch(rep, kit.Kind(parts[1]), n)
	}
	if os.Getenv("C08_DUMP") != "" {
		fmt.Fprintln(os.Stderr, leak.Dump())
	}
	rep.Done()
}

func main() {
	kit.MaybeServeStdioChild()
	switch vh.ChildRole() {
	case "c08-stdio-script":
		stdioScriptChild()
		return
	case "c08-stdio-tree":
		stdioTreeChild()
		return
	case "c08-stdio-helper":
		stdioTreeHelper()
		return
	case "c08":
		child()
		return
	}
	r := vh.NewRun("C08", "fault_enumeration")
	bs := batches()
	treeRun := fmt.Sprintf("c08t%d", os.Getpid())
	sem := make(chan struct{}, 8)
	var wg sync.WaitGroup
	for _, b := range bs {
		wg.Add(1)
		sem <- struct{}{}
		go func(b batch) {
			defer wg.Done()
			defer func() { <-sem }()
			skip := 0
			for attempt := 0; attempt < 6; attempt++ {
				tag := strings.NewReplacer("|", "_", ":", "_").Replace(b.Name) + fmt.Sprintf("-%d", attempt)
				res := r.SpawnChild("c08", tag, nil, []string{"C08_BATCH=" + b.Name, "C08_SEED=" + strconv.FormatInt(r.Seed, 10), "C08_TIER=" + r.Tier, "C08_SKIP=" + strconv.Itoa(skip), treeRunEnv + "=" + treeRun}, nil, 14*time.Minute)
				cr := r.Merge(res.Stdout())
				r.Count("children", 1)
				if cr.Done {
					return
				}
				stderr := res.Stderr()
				last := cr.LastProgress
				prefix := last
				if i := strings.Index(last, " :: "); i > 0 {
					prefix = last[:i]
				}
				if res.TimedOut {
					r.Inconclusive(fmt.Sprintf("batch %s hit the child watchdog (last case %s)", b.Name, last))
					return
				}
				r.Violation(fmt.Sprintf("C08|%s|process-death", prefix), fmt.Sprintf("the client process died (%s) during case %q: %s", res.Describe(), last, vh.CrashLine(stderr)),
					map[string]interface{}{"case": last, "crash": vh.CrashLine(stderr), "first_library_frame": vh.FirstLibFrame(stderr), "stderr_head": clip(stderr, 2500)})
				// resume after the case that crashed (batches that announce case indices)
				n := countCases(res.Stdout())
				if n <= 0 || !(strings.HasPrefix(b.Name, "http|") || strings.HasPrefix(b.Name, "noctx|") || strings.HasPrefix(b.Name, "cancel|") || strings.HasPrefix(b.Name, "stdio|") || strings.HasPrefix(b.Name, "stdiotree|")) {
					return
				}
				skip += n
			}
		}(b)
	}
	wg.Wait()
	// helper processes of the process-tree servers that a crashed batch may have left behind
	if killed, left := killTagged(treeRun+"-", true); killed > 0 || left > 0 {
		r.Count("tree_helper_processes_removed_by_final_sweep", int64(killed))
		if left > 0 {
			r.Inconclusive(fmt.Sprintf("%d helper processes of the process-tree servers could not be removed", left))
		}
	}
	// non-vacuity: the workload must have exercised the property
	r.Require(r.Counter("faults_delivered") >= 200, "only %d faults were delivered", r.Counter("faults_delivered"))
	r.Require(r.Counter("errors_returned") > 0 && r.Counter("values_complete_answer") > 0 && r.Counter("ctx_errors_returned") > 0, "outcome classes missing: errors=%d values=%d ctx-errors=%d", r.Counter("errors_returned"), r.Counter("values_complete_answer"), r.Counter("ctx_errors_returned"))
	r.Require(r.Counter("sched_races_set_up") >= 5, "only %d of 5 yield-controlled races were set up", r.Counter("sched_races_set_up"))
	r.Require(r.Counter("server_peers_vanished_with_running_handler") > 0 && r.Counter("server_peers_vanished_with_listening_stream") > 0 && r.Counter("server_peers_vanished_with_pending_server_request") > 0, "server side: peers did not vanish with handlers / streams / server requests pending")
	r.Require(r.Counter("stalled_scenarios_with_backpressure") >= 3 && r.Counter("stalled_peers_departed_with_answers_waiting") >= 6 && r.Counter("stalled_answers_waiting_when_peer_left") >= 300,
		"server side, stalled peers: only %d of 5 scenarios built back-pressure, %d peers departed with answers waiting, %d answer goroutines were waiting for space when their peer left", r.Counter("stalled_scenarios_with_backpressure"), r.Counter("stalled_peers_departed_with_answers_waiting"), r.Counter("stalled_answers_waiting_when_peer_left"))
	r.Require(r.Counter("stdio_clients_closed") > 0, "no stdio close stress")
	r.Require(r.Counter("http_error_answers_delivered") >= 500 && r.Counter("errstatus_classes_measured") >= 100 && r.Counter("errstatus_errors_returned") > 0,
		"calls ending with an HTTP error answer: only %d answers delivered, %d classes measured, %d errors returned", r.Counter("http_error_answers_delivered"), r.Counter("errstatus_classes_measured"), r.Counter("errstatus_errors_returned"))
	r.Require(r.Counter("closerace_classes_measured") >= 50 && r.Counter("closerace_stalls_reached") >= 400 && r.Counter("closerace_peer_continued_after_close") >= 400,
		"Close racing a stalled, still establishing call: only %d classes measured, %d stalls reached, %d times the peer continued after Close", r.Counter("closerace_classes_measured"), r.Counter("closerace_stalls_reached"), r.Counter("closerace_peer_continued_after_close"))
	r.Require(r.Counter("spawnrace_classes_measured") >= 20 && r.Counter("spawnrace_windows_reached") >= 120 && r.Counter("spawnrace_children_spawned") >= 40 && r.Counter("spawnrace_dials_held") >= 80,
		"Close / cancel racing the creation of the child process / the TCP connect: only %d classes measured, %d windows reached, %d children spawned, %d connects held", r.Counter("spawnrace_classes_measured"), r.Counter("spawnrace_windows_reached"), r.Counter("spawnrace_children_spawned"), r.Counter("spawnrace_dials_held"))
	r.Require(r.Counter("tree_server_deaths_observed") >= 50 && r.Counter("tree_cases_helper_held_stdout_at_death") >= 30 && r.Counter("tree_cases_calls_returned_while_stdout_still_held") >= 15 && r.Counter("tree_calls_judged") >= 100,
		"stdio servers that are process trees: only %d server deaths observed, %d with a helper holding the server's stdout, %d where the calls had returned while it was still held, %d calls judged",
		r.Counter("tree_server_deaths_observed"), r.Counter("tree_cases_helper_held_stdout_at_death"), r.Counter("tree_cases_calls_returned_while_stdout_still_held"), r.Counter("tree_calls_judged"))
	r.Finish("cases = (client kind in {S-json, S-sse, L-sse (legacy), stdio}) x (fault kind in {close, rst, stall, truncate; kill -9 / SIGTERM / exit / SIGSTOP / close-stdout for stdio; cancel, deadline; delayed / withheld terminating chunk}) x (point: every message boundary of the exchange - before the request is forwarded, after the request, after the response headers / the 202, between SSE events, before the final event, before the terminating chunk, on the legacy stream before / after the endpoint event, while calls are pending, before / after the answer event; stdio: before the first call, while pending, between calls, before / inside / after the response line - exhaustively; byte offsets inside request, response head, body / event: first byte, last byte and seeded samples) x pending calls in {1, 2, 8}, for target = the call, the Initialize handshake, and the client's listening stream; plus yield-controlled schedules of the three known races and the server side (N, 2N peers with listening streams, running handlers and pending server requests vanish by close / FIN / RST). Oracle per call: returns within 10 s of the fault (else goroutine dump must show it parked in the library), outcome is an error or the call's own complete answer (nonce + digest + length), context errors for cancellation; per case: Close returns, pending tables empty, and goroutines with library frames / persistConn loops / fds / child processes at quiescence do not grow case after case of the same class. Distinct = (kind, target, fault@point, pending count, outcome class) with the fault actually delivered. HTTP error answers (errstatus batches): (client kind in {S-json, S-sse, L-sse}) x (operation in {tools/call + tools/list, initialize, notification, open of the listening / event stream, DELETE of TerminateSession, the client's POST of its answer to a server-issued roots/list}) x (answer in {4xx / 5xx with JSON / text / HTML / SSE body framed by Content-Length, chunked, large, to-EOF, empty, chunked-never-finished; response head never finished / no answer at all; 202 / 204 where a result was expected; 200 of the wrong content type; 301..308 redirects ending in an error page; 429 / 5xx with client retries}) given by a gateway (the proxy answers itself), plus the library server's own 404 (session terminated on the server, unknown path) and 400 (session id dropped). Per class: baseline, n operations + Close, 2n more + Close; half of the callers never cancel their context. Oracle: each operation returns, never with a value that is not its own answer; pending table empty; goroutines with library frames / persistConn loops / fds / connections still seen open by the proxy must not be above the previous level both after n and after 2n more (and still after a longer wait). A class counts only when all its error answers reached the client. Close racing a call that is still establishing something (closerace batches): (client kind in {S-json, S-sse, L-sse, stdio}) x (the exchange is stalled - held by the relay / by a scripted child, not ended - at each message boundary and inside each unit of: Initialize (legacy: GET of the event stream before it is forwarded / before its response head / inside the head, the stream before / inside the endpoint event, the initialize POST before it is forwarded / before its 202, the stream before / inside the initialize answer, the POST of notifications/initialized before it is forwarded / before its 202; Streamable: the initialize POST before it is forwarded / before / inside / after its response head / inside its body, the notification's POST before it is forwarded / before its 202; stdio: before / inside the child's answer line, child dying of SIGINT / ignoring it / ignoring SIGINT + SIGPIPE and staying after the end of its stdin), the first ordinary call (the same points of its POST, between its SSE events, on the legacy stream before / inside its answer) and the open of the Streamable listening stream (GET before it is forwarded / before / inside / after its head)) x (caller's context: context.Background() / a deadline 30 min away that nobody cancels). While stalled: Close; then the peer continues (the stall is released, the real server answers, streams it opens stay open; nothing is cut by the harness). Per class: baseline, n cycles, 2n more. Oracle: the stalled call returns by Close or at the latest once the peer continued (10 s watchdog + goroutine dump), with an error or its own complete answer; Close returns; pending table empty; client-side goroutines with library frames / persistConn loops / fds / children / connections the relay still sees open must not be above the previous level both after n and after 2n more (and still after a longer wait). An Initialize that returns success after Close (Streamable: Close is not terminal, the client object is reusable) leaves a live client that the harness closes once more - counted as closerace_initialize_succeeded_after_close. A class counts only when every cycle reached its stall. Close / cancel racing the CREATION of what a call needs (spawnrace batches): stdio - (the end of the client: Close with callers on context.Background() / cancellation of the caller's context followed by Close) x (window: before the first call; a seeded instant 0 .. 4 ms after the first call began; while the fork/exec of the server process is in progress - the harness holds syscall.ForkLock for reading so that exec.Cmd.Start blocks at the fork (seen in the goroutine dump: startProcess -> syscall.forkExec), Close runs to its end, then the lock is released; the same set-up with Close landing at the release of the lock / the moment GetProcessID becomes non-zero / up to 400 us later, i.e. right after Start returned, around the first byte written; while the child exists and is still starting up - it sleeps before reading its stdin and goes on while Close is at work) x (child dies of SIGINT / ignores SIGINT / ignores SIGINT + SIGPIPE and stays after the end of its stdin), n clients per round under one fork lock; Streamable / legacy - the first request that has to dial (initialize POST, notification POST, GET of the event / listening stream, first tools/call) goes through a user-level HTTPReqHandler whose transport blocks in DialContext: Close while the TCP connect is in progress, then the connect completes (dialer ignoring / honouring its context, alternating). Per class: baseline, n cycles, 2n more. Oracle: the first call returns once nothing the harness holds is in its way (10 s watchdog + goroutine dump; a cancelled call with a sleeping child must return without the child moving), with an error or its own complete answer; Close returns; pending table empty; children of this process (by pid from /proc, zombies included - the pids the library reported are followed up individually in the witness), fds, client-side goroutines with library frames, connections (also those the relay sees) must not be above the previous level both after n and after 2n more (and still after a longer wait). A class counts only when every cycle reached its window. Stdio servers that are PROCESS TREES (stdiotree batches): the server process (scripted) first starts helpers that inherit its descriptors and outlive it - configurations {one helper that sleeps holding stdout / stdin+stdout+stderr / only stderr / only stdin; one that also writes log lines and notifications to stdout and stderr now and then; a helper in its own session / its own process group; /bin/sh as launcher with a sleeping grand-child; /bin/sh writing in a loop with grand-children; three mixed helpers; none} - and then the SERVER process itself (exits 0 | exits non-zero | is killed with SIGKILL) at each message boundary {before the initialize answer, inside the initialize answer line, between the initialize answer and the next request (calls issued to the dead server), with 1..n calls read and none answered, inside the answer line of one of n calls, after one complete answer with n-1 calls pending}; callers on a 6 s deadline or on a context nobody cancels. The harness waits until the server process is a zombie or gone in /proc, verifies through /proc/<pid>/fd that the helpers hold the very pipes, then judges: every pending call returns (10 s watchdog after the death was seen + goroutine dump showing it parked in a library frame = blocked-forever; ending only with its own deadline error although the death was seen >= 3 s before that deadline = returns-only-at-deadline), a value only for the one call whose complete answer the server wrote and only that answer; then Close with the helpers still alive, pending table empty, leak levels (goroutines, fds, children incl. the zombie) per class; the helpers are killed by the harness (found by an environment tag in /proc) and are never counted against the library. A case counts only when the death was seen and the helpers were alive and holding what the configuration says. Server side, STALLED peers (stalled batches, one child per {L-sse, S-sse, S-json}): a raw peer opens its stream (legacy event stream / the answers of its own Streamable POSTs pipelined over 16 connections, JSON or POST-SSE / the Streamable listening stream), stops reading with the connection open (8 KiB receive buffer), sends 320 (thorough 640) seed-shuffled requests of 22 answer classes (results small, 128 KiB and 1 MiB; unknown method / tool / prompt / resource and invalid params with 128 KiB echoed names or ids; handler Go errors of tools, prompts, resources; isError results; unencodable results; notifications from handlers; 128 KiB notifications the server sends to the session) until socket buffers, the writing pump and the 100-slot event queue are full and further answer goroutines wait for space (counted in the goroutine table; fewer than 8 = not observed, inconclusive), then goes away - 1 peer by close, then 2 more (one by reset), thorough 4 more. Oracle: the level rule - server-side goroutines with library frames / fds must be back at the previous level at quiescence after n and after 2n more peers and at the end (patient 50 s watchdog for quiescence; levels still moving then = inconclusive).",
		[]string{
			"byte offsets and cancellation instants are sampled (seeded, fixed counts); message boundaries x fault kinds x transports x pending counts are enumerated completely",
			"'during connect' is approximated by holding the request inside the proxy (TCP accept is done by the kernel)",
			"a call that ends only at its context deadline although its connection was closed is told from a prompt return by the ERROR it carries (deadline exceeded), never by elapsed time",
			"leaks are judged on counts at quiescence that grow in at least two cases of a class and are still present at the end of the batch; pooled idle keep-alive connections are dropped with CloseIdleConnections first",
			"every caller cancels its context once its call has returned, except in the ssedone batches where never-cancelled contexts (context.Background()) are used on purpose",
			"legacy SSE server: server-issued requests from handlers are not driven on the server side (handler contexts are detached there by design and the request ends by its 30 s timeout)",
			"HTTP error answers: an answer whose body / head never ends is only given to operations that run under the caller's deadline (the client's POST of an answer to a server-issued request runs on a detached 30 s context by design and is excluded from those); 2xx answers to legacy-transport POSTs are acceptances, not error answers, and are not injected there",
			"the relay propagates the client's FIN / RST to the server side while an answer is awaited or relayed, as a plain TCP path does; 'connections seen by the peer' are the relay's open connections after Close and CloseIdleConnections",
			"Close racing a stalled call: Close is not among the events the statement lets end a call, so a stalled call whose own connection and context are intact may return only when the peer continues, and with its complete answer; the race is set up by stalling the peer (the call is parked inside the exchange when Close runs), not by interleaving Close with the first statements of the call",
			"process-tree stdio servers: helpers are started by the server before it reads its first request and are removed by the harness at the end of the case (at most 45 s of life otherwise); a helper that writes only writes whole lines (log text, notifications), never answers to pending ids; 'exits at any point' is driven at message boundaries and at seeded cuts inside the answer line, not at every byte",
			"the 10 s / 12 s watchdogs are bounded-progress restatements of 'promptly' / 'returns'; a watchdog alone yields INCONCLUSIVE",
		})
}

// countCases returns how many cases a child announced (progress lines) — the crashed one included.
func countCases(stdout []byte) int {
	return strings.Count(string(stdout), `"t":"progress"`)
}
