package main

// Stdio servers that are PROCESS TREES.
//
// The scripted stdio child of scripted.go is a single process: when it dies, the write ends of its pipes
// are gone and the client's reader sees EOF. Real stdio servers are often launchers (sh -c, npx, python
// wrappers) whose helper / grand-child processes inherit stdin, stdout and stderr. Here the server process
// (this binary re-executed in role c08-stdio-tree) first starts one or more helpers that keep the inherited
// descriptors open - this binary once more (role c08-stdio-helper) or /bin/sh with a grand-child - and then
// the SERVER process itself exits cleanly, exits non-zero or is killed with SIGKILL at a message boundary,
// while the helpers live on. The statement of C08 ("when a stdio server process exits at any point, every
// pending client call returns promptly with an error") does not depend on who else holds the pipes.
//
// Oracle (the discipline of stdiocases.go): once the server process has been OBSERVED dead (zombie or gone
// in /proc), every pending call returns; a call that has not returned `watchdog` later AND is parked in a
// library frame = blocked-forever; a call that returns only with its own context's deadline error although
// the process died seconds before that deadline = returns-only-at-deadline; a value must be the call's own
// complete answer. After Close: pending table empty, goroutines / fds / child processes of the library not
// growing case after case. The helpers are not the library's responsibility: the harness kills them (found by
// an environment tag in /proc) at the end of every case, and the parent run sweeps once more at the end.

import (
	"bufio"
	"bytes"
	"context"
	"encoding/json"
	"fmt"
	"math/rand"
	"os"
	"os/exec"
	"os/signal"
	"path/filepath"
	"strconv"
	"strings"
	"syscall"
	"time"

	"verifharness/lib/kit"
	"verifharness/lib/leak"
	"verifharness/lib/vh"
)

const (
	treeTagEnv    = "C08_TREE_TAG"   // carried by the server process and everything it starts
	treeRunEnv    = "C08_TREE_RUN"   // run-wide prefix of the tags (set by the parent run)
	treeOwnerEnv  = "C08_TREE_OWNER" // pid of the harness process the helpers belong to
	treeHelperTTL = 45 * time.Second // a helper never lives longer than this
)

// ---------------------------------------------------------------------------------------------------------
// helper process (role c08-stdio-helper): keeps what it inherited open, optionally writes now and then
// ---------------------------------------------------------------------------------------------------------

func stdioTreeHelper() {
	signal.Ignore(syscall.SIGPIPE, syscall.SIGINT, syscall.SIGHUP, syscall.SIGTERM)
	kind := os.Getenv("C08_HELPER_KIND")
	fds := os.Getenv("C08_HELPER_FDS")
	owner, _ := strconv.Atoi(os.Getenv(treeOwnerEnv))
	t0 := time.Now()
	for i := 0; time.Since(t0) < treeHelperTTL; i++ {
		if owner > 0 && syscall.Kill(owner, 0) != nil {
			return // the harness process is gone
		}
		if kind == "writer" {
			if strings.Contains(fds, "o") {
				if i%2 == 0 {
					os.Stdout.WriteString(fmt.Sprintf("helper %d log line %d (not JSON)\n", os.Getpid(), i))
				} else {
					os.Stdout.WriteString(`{"jsonrpc":"2.0","method":"notifications/message","params":{"level":"info","logger":"helper","data":"tick"}}` + "\n")
				}
			}
			if strings.Contains(fds, "e") {
				os.Stderr.WriteString(fmt.Sprintf("helper %d stderr line %d\n", os.Getpid(), i))
			}
		}
		time.Sleep(25 * time.Millisecond)
	}
}

// startTreeHelper starts one helper described by "<via>:<kind>:<group>:<fds>":
//
//	via   self (this binary) | sh (/bin/sh -c ..., which forks grand-children)
//	kind  sleep | writer
//	group same | pgrp (own process group) | session (own session)
//	fds   subset of "ioe": which of stdin / stdout / stderr the helper inherits (the others are /dev/null)
func startTreeHelper(spec string) (int, error) {
	p := strings.Split(spec, ":")
	if len(p) != 4 {
		return 0, fmt.Errorf("bad helper spec %q", spec)
	}
	via, kind, group, fds := p[0], p[1], p[2], p[3]
	var cmd *exec.Cmd
	switch via {
	case "self":
		self, err := os.Executable()
		if err != nil {
			return 0, err
		}
		cmd = exec.Command(self)
		cmd.Env = append(os.Environ(), vh.ChildEnv+"=c08-stdio-helper", "C08_HELPER_KIND="+kind, "C08_HELPER_FDS="+fds)
	case "sh":
		script := `trap "" PIPE INT HUP TERM; sleep 40 & sleep 40; wait`
		if kind == "writer" {
			script = `trap "" PIPE INT HUP TERM; i=0; while [ $i -lt 1200 ]; do echo "sh helper log line $i (not JSON)"; echo "sh helper stderr $i" >&2; sleep 0.03; i=$((i+1)); done`
		}
		cmd = exec.Command("/bin/sh", "-c", script)
		cmd.Env = os.Environ()
	default:
		return 0, fmt.Errorf("bad helper spec %q", spec)
	}
	if strings.Contains(fds, "i") {
		cmd.Stdin = os.Stdin
	}
	if strings.Contains(fds, "o") {
		cmd.Stdout = os.Stdout
	}
	if strings.Contains(fds, "e") {
		cmd.Stderr = os.Stderr
	}
	switch group {
	case "pgrp":
		cmd.SysProcAttr = &syscall.SysProcAttr{Setpgid: true}
	case "session":
		cmd.SysProcAttr = &syscall.SysProcAttr{Setsid: true}
	}
	if err := cmd.Start(); err != nil {
		return 0, err
	}
	pid := cmd.Process.Pid
	cmd.Process.Release()
	return pid, nil
}

// ---------------------------------------------------------------------------------------------------------
// server process (role c08-stdio-tree)
// ---------------------------------------------------------------------------------------------------------

// treeMark is what the server writes when it has reached the point at which it is going to die.
type treeMark struct {
	Pid     int    `json:"pid"`
	Fd0     string `json:"fd0"`
	Fd1     string `json:"fd1"`
	Fd2     string `json:"fd2"`
	Helpers []int  `json:"helpers"`
	Err     string `json:"err,omitempty"`
}

// C08_TREE_POINT: init:pre-answer | init:mid-answer | idle:after-init | call:pending | call:mid-answer | call:one-answered
// C08_TREE_DIE:   exit0 | exit-nonzero | kill9 (marks, then waits to be killed from outside)
// C08_TREE_N:     number of tools/call requests read before the fault (call:* points)
// C08_TREE_HELPERS: comma-separated helper specs (see startTreeHelper); C08_FRAC: cut of a mid-answer line
func stdioTreeChild() {
	point, die := os.Getenv("C08_TREE_POINT"), os.Getenv("C08_TREE_DIE")
	n, _ := strconv.Atoi(os.Getenv("C08_TREE_N"))
	frac, _ := strconv.ParseFloat(os.Getenv("C08_FRAC"), 64)
	mark := os.Getenv("C08_MARK")
	parent := os.Getppid()
	mk := treeMark{Pid: os.Getpid()}
	mk.Fd0, _ = os.Readlink("/proc/self/fd/0")
	mk.Fd1, _ = os.Readlink("/proc/self/fd/1")
	mk.Fd2, _ = os.Readlink("/proc/self/fd/2")
	if hs := os.Getenv("C08_TREE_HELPERS"); hs != "" {
		for _, spec := range strings.Split(hs, ",") {
			pid, err := startTreeHelper(spec)
			if err != nil {
				mk.Err = err.Error()
				continue
			}
			mk.Helpers = append(mk.Helpers, pid)
		}
	}
	fault := func() {
		b, _ := json.Marshal(mk)
		os.WriteFile(mark+".tmp", b, 0o644)
		os.Rename(mark+".tmp", mark)
		switch die {
		case "exit0":
			os.Exit(0)
		case "exit-nonzero":
			os.Exit(3)
		default: // killed from outside; bounded, and not beyond the life of the harness process
			for t0 := time.Now(); time.Since(t0) < 60*time.Second && os.Getppid() == parent; {
				time.Sleep(10 * time.Millisecond)
			}
			os.Exit(9)
		}
	}
	cutOf := func(s string) int {
		cut := int(frac * float64(len(s)))
		if cut < 1 {
			cut = 1
		}
		if cut >= len(s) {
			cut = len(s) - 1
		}
		return cut
	}
	rd := bufio.NewReaderSize(os.Stdin, 1<<20)
	seen := 0
	first := ""
	for {
		line, err := rd.ReadBytes('\n')
		if err != nil {
			return
		}
		var m struct {
			ID     json.RawMessage `json:"id"`
			Method string          `json:"method"`
			Params struct {
				Arguments map[string]interface{} `json:"arguments"`
			} `json:"params"`
		}
		if json.Unmarshal(line, &m) != nil {
			continue
		}
		switch m.Method {
		case "initialize":
			ans := fmt.Sprintf(`{"jsonrpc":"2.0","id":%s,"result":{"protocolVersion":"2025-03-26","capabilities":{"tools":{}},"serverInfo":{"name":"scripted-stdio-tree","version":"1"}}}`, m.ID)
			switch point {
			case "init:pre-answer":
				fault()
			case "init:mid-answer":
				os.Stdout.WriteString(ans[:cutOf(ans)])
				fault()
			}
			os.Stdout.WriteString(ans + "\n")
		case "notifications/initialized":
			if point == "idle:after-init" {
				fault()
			}
		case "tools/call":
			seen++
			if seen == 1 {
				text, _ := json.Marshal(echoText(m.Params.Arguments))
				first = fmt.Sprintf(`{"jsonrpc":"2.0","id":%s,"result":{"content":[{"type":"text","text":%s}]}}`, m.ID, text)
			}
			if seen < n {
				continue
			}
			switch point {
			case "call:pending":
				fault()
			case "call:mid-answer":
				os.Stdout.WriteString(first[:cutOf(first)])
				fault()
			case "call:one-answered":
				os.Stdout.WriteString(first + "\n")
				fault()
			}
		}
	}
}

// ---------------------------------------------------------------------------------------------------------
// harness side
// ---------------------------------------------------------------------------------------------------------

type treeHelperCfg struct {
	Name     string
	Specs    []string
	HoldsOut bool
}

var treeHelperCfgs = []treeHelperCfg{
	{"1xself-sleep[o]", []string{"self:sleep:same:o"}, true},
	{"1xself-sleep[ioe]", []string{"self:sleep:same:ioe"}, true},
	{"1xself-writer[oe]", []string{"self:writer:same:oe"}, true},
	{"1xself-sleep,own-session[o]", []string{"self:sleep:session:o"}, true},
	{"1xself-writer,own-pgrp[ioe]", []string{"self:writer:pgrp:ioe"}, true},
	{"sh-launcher+grandchild[ioe]", []string{"sh:sleep:same:ioe"}, true},
	{"sh-writer+grandchildren[oe]", []string{"sh:writer:same:oe"}, true},
	{"3xmixed[o|oe|ioe]", []string{"self:sleep:same:o", "self:writer:session:oe", "sh:sleep:pgrp:ioe"}, true},
	{"1xself-sleep[e]", []string{"self:sleep:same:e"}, false},
	{"1xself-sleep[i]", []string{"self:sleep:same:i"}, false},
	{"none", nil, false},
}

var (
	treePoints = []string{"init:pre-answer", "init:mid-answer", "idle:after-init", "call:pending", "call:mid-answer", "call:one-answered"}
	treeDies   = []string{"exit0", "exit-nonzero", "kill9"}
)

type tcase struct {
	Die     string  `json:"die"`
	Point   string  `json:"point"`
	Helpers string  `json:"helpers"`
	Pending int     `json:"pending"`
	Ctx     string  `json:"caller_context"` // deadline | none
	Frac    float64 `json:"frac,omitempty"`
	cfg     treeHelperCfg
}

func (c tcase) class() string { return c.Die + "@tree:" + c.Point }
func (c tcase) hold() string {
	switch {
	case len(c.cfg.Specs) == 0:
		return "no-helper"
	case c.cfg.HoldsOut:
		return "helper-holds-stdout"
	}
	return "helper-without-stdout"
}
func (c tcase) sig(sym string) string {
	return fmt.Sprintf("C08|stdio|%s[%s]|pending=%s|%s", c.class(), c.hold(), pendClass(c.Pending), sym)
}
func (c tcase) label() string {
	return fmt.Sprintf("stdio|%s[%s]|pending=%s :: helpers=%s pending=%d ctx=%s frac=%.3f", c.class(), c.hold(), pendClass(c.Pending), c.Helpers, c.Pending, c.Ctx, c.Frac)
}

// treeEnumerate: every (point x way of dying) of one batch (= one way of dying); the helper configuration, the
// number of pending calls and the caller's context rotate so that each configuration meets several points.
// thorough: every configuration x both contexts at every point, twice (other pending counts / cuts).
func treeEnumerate(die string, rng *rand.Rand, thorough bool) []tcase {
	di := 0
	for i, d := range treeDies {
		if d == die {
			di = i
		}
	}
	off := rng.Intn(len(treeHelperCfgs))
	var out []tcase
	add := func(pi, k int, cfg treeHelperCfg, ctx string) {
		point := treePoints[pi]
		p := pendings[(pi+k+di)%len(pendings)]
		if strings.HasPrefix(point, "init:") {
			p = 1
		}
		cs := tcase{Die: die, Point: point, Helpers: cfg.Name, Pending: p, Ctx: ctx, cfg: cfg}
		if strings.HasSuffix(point, "mid-answer") {
			cs.Frac = []float64{0.0001, 0.9999, 0.02 + 0.96*rng.Float64(), 0.02 + 0.96*rng.Float64()}[k%4]
		}
		out = append(out, cs)
	}
	for pi := range treePoints {
		if thorough {
			k := 0
			for round := 0; round < 2; round++ { // the second round meets other pending counts / cuts
				for _, cfg := range treeHelperCfgs {
					for _, ctx := range []string{"deadline", "none"} {
						add(pi, k+round, cfg, ctx)
						k++
					}
				}
			}
			continue
		}
		for j := 0; j < 4; j++ {
			cfg := treeHelperCfgs[(pi*4+j+di*3+off)%len(treeHelperCfgs)]
			add(pi, j, cfg, []string{"deadline", "none"}[(pi+j+di)%2])
		}
	}
	return out
}

// taggedPids lists the live processes whose environment carries the tag (exact, or as a prefix).
func taggedPids(tag string, prefix bool) []int {
	needle := []byte(treeTagEnv + "=" + tag)
	if !prefix {
		needle = append(needle, 0)
	}
	ents, err := os.ReadDir("/proc")
	if err != nil {
		return nil
	}
	var out []int
	for _, e := range ents {
		pid, err := strconv.Atoi(e.Name())
		if err != nil || pid == os.Getpid() {
			continue
		}
		b, err := os.ReadFile("/proc/" + e.Name() + "/environ")
		if err != nil || len(b) == 0 {
			continue
		}
		b = append(b, 0)
		if bytes.Contains(b, needle) {
			out = append(out, pid)
		}
	}
	return out
}

// killTagged kills every process carrying the tag and waits until none is left; returns how many were killed
// and how many are still there.
func killTagged(tag string, prefix bool) (killed, left int) {
	seen := map[int]bool{}
	deadline := time.Now().Add(5 * time.Second)
	for {
		pids := taggedPids(tag, prefix)
		if len(pids) == 0 {
			return len(seen), 0
		}
		for _, pid := range pids {
			seen[pid] = true
			syscall.Kill(pid, syscall.SIGKILL)
		}
		if !time.Now().Before(deadline) {
			return len(seen), len(pids)
		}
		time.Sleep(5 * time.Millisecond)
	}
}

// holders counts, among the processes, those whose descriptor `fd` is the pipe `link`.
func holders(pids []int, fd int, link string) int {
	if !strings.HasPrefix(link, "pipe:") {
		return 0
	}
	n := 0
	for _, pid := range pids {
		if l, err := os.Readlink(fmt.Sprintf("/proc/%d/fd/%d", pid, fd)); err == nil && l == link {
			n++
		}
	}
	return n
}

type treeEnv struct {
	rep *vh.Reporter
	lt  *leakTracker
	dir string
	run string
	seq int
}

// dead: the process is a zombie, or no longer a child of this process (reaped).
func treeDead(pid int) (bool, string) {
	switch st := procState(pid); st {
	case "":
		return true, "reaped"
	case "Z", "X":
		return true, "zombie"
	default:
		return false, st
	}
}

func (e *treeEnv) run1(cs tcase, rng *rand.Rand) {
	rep := e.rep
	rep.Progress(cs.label())
	rep.Eval(1)
	notePoint(rep, "stdio", cs.Die, "tree:"+cs.Point, cs.Pending)
	rep.SetAdd("tree_helper_configurations", cs.Helpers)
	rep.Count("tree_cases", 1)
	e.seq++
	tag := fmt.Sprintf("%s-%d-%d", e.run, os.Getpid(), e.seq)
	mark := filepath.Join(e.dir, fmt.Sprintf("t%d.mark", e.seq))
	c, err := kit.NewStdioClient("", map[string]string{vh.ChildEnv: "c08-stdio-tree", "C08_TREE_POINT": cs.Point, "C08_TREE_DIE": cs.Die,
		"C08_TREE_N": strconv.Itoa(cs.Pending), "C08_TREE_HELPERS": strings.Join(cs.cfg.Specs, ","), "C08_FRAC": fmt.Sprint(cs.Frac),
		"C08_MARK": mark, treeTagEnv: tag, treeOwnerEnv: strconv.Itoa(os.Getpid())}, 30*time.Second)
	if err != nil {
		rep.Inconclusive("stdio client: " + err.Error())
		return
	}
	var calls []*call
	var deadlines []time.Time
	cleanup := func() {
		for _, cl := range calls {
			if cl.cancel != nil {
				cl.cancel()
			}
		}
		closeClient(c)
		if _, left := killTagged(tag, false); left > 0 {
			rep.Inconclusive(fmt.Sprintf("%s: %d helper processes could not be removed", cs.label(), left))
		}
	}
	mkctx := func() (context.Context, context.CancelFunc) {
		ctx, cancel := ctxFor(cs.Ctx, callDeadline)
		dl, _ := ctx.Deadline()
		deadlines = append(deadlines, dl)
		return ctx, cancel
	}
	prefix := nextNonce("t")
	issue := func(n int) {
		for i := 0; i < n; i++ {
			ctx, cancel := mkctx()
			calls = append(calls, startCallTool(c, ctx, cancel, fmt.Sprintf("%s-%d-%d", prefix, len(calls), rng.Intn(1000)), "payload-"+prefix, map[string]interface{}{"pad_n": 600}))
		}
	}
	initPoint := strings.HasPrefix(cs.Point, "init:")
	if initPoint {
		ctx, cancel := mkctx()
		cl := crStartInit(c, ctx, "scripted-stdio-tree")
		cl.cancel = cancel
		calls = append(calls, cl)
	} else {
		ictx, icancel := context.WithTimeout(context.Background(), 20*time.Second)
		hs := crStartInit(c, ictx, "scripted-stdio-tree")
		r, ok := hs.await(time.Now().Add(20 * time.Second))
		icancel()
		if !ok || r.Err != nil || r.Nonce != "initialize:ok" {
			rep.Inconclusive(fmt.Sprintf("%s: handshake with the stdio server failed (returned=%v err=%v)", cs.label(), ok, r.Err))
			cleanup()
			return
		}
		if strings.HasPrefix(cs.Point, "call:") {
			issue(cs.Pending)
		}
	}
	// the server says that it has reached the point (helpers started); then it exits / is killed
	var mk treeMark
	for t0 := time.Now(); time.Since(t0) < 20*time.Second; time.Sleep(time.Millisecond) {
		if b, err := os.ReadFile(mark); err == nil && json.Unmarshal(b, &mk) == nil && mk.Pid > 0 {
			break
		}
	}
	pid := c.Std.GetProcessID()
	if mk.Pid == 0 || pid != mk.Pid || mk.Err != "" || len(mk.Helpers) != len(cs.cfg.Specs) {
		rep.Count("fault_not_delivered", 1)
		rep.Inconclusive(fmt.Sprintf("%s: the server did not reach the point with its helpers started (mark pid=%d, library pid=%d, helpers=%d/%d, err=%q)", cs.label(), mk.Pid, pid, len(mk.Helpers), len(cs.cfg.Specs), mk.Err))
		cleanup()
		return
	}
	os.Remove(mark)
	if cs.Die == "kill9" {
		if err := syscall.Kill(pid, syscall.SIGKILL); err != nil {
			rep.Count("fault_not_delivered", 1)
			rep.Inconclusive(fmt.Sprintf("%s: SIGKILL could not be delivered: %v", cs.label(), err))
			cleanup()
			return
		}
	}
	dead, how := false, ""
	for t0 := time.Now(); time.Since(t0) < 10*time.Second; time.Sleep(500 * time.Microsecond) {
		if dead, how = treeDead(pid); dead {
			break
		}
	}
	at := time.Now()
	if !dead {
		rep.Count("fault_not_delivered", 1)
		rep.Inconclusive(fmt.Sprintf("%s: the server process (pid %d) was not seen dead (state %s)", cs.label(), pid, how))
		syscall.Kill(pid, syscall.SIGKILL)
		cleanup()
		return
	}
	rep.Count("faults_delivered", 1)
	rep.Count("tree_server_deaths_observed", 1)
	rep.SetAdd("tree_server_seen_dead_as", how)
	// what lives on, and what it holds
	alive := taggedPids(tag, false)
	holdOut, holdIn, holdErr := holders(alive, 1, mk.Fd1), holders(alive, 0, mk.Fd0), holders(alive, 2, mk.Fd2)
	rep.Max("tree_helper_processes_alive_at_death", int64(len(alive)))
	if len(cs.cfg.Specs) > 0 && len(alive) < len(cs.cfg.Specs) {
		rep.Inconclusive(fmt.Sprintf("%s: only %d of %d helper processes were alive when the server died", cs.label(), len(alive), len(cs.cfg.Specs)))
		cleanup()
		return
	}
	if cs.cfg.HoldsOut && holdOut == 0 {
		rep.Inconclusive(fmt.Sprintf("%s: no helper held the server's stdout (%s) when the server died", cs.label(), mk.Fd1))
		cleanup()
		return
	}
	if len(alive) > 0 {
		rep.Count("tree_cases_helpers_alive_at_death", 1)
	}
	if holdOut > 0 {
		rep.Count("tree_cases_helper_held_stdout_at_death", 1)
	}
	if holdIn > 0 {
		rep.Count("tree_cases_helper_held_stdin_at_death", 1)
	}
	if holdErr > 0 {
		rep.Count("tree_cases_helper_held_stderr_at_death", 1)
	}
	ref := at
	if cs.Point == "idle:after-init" {
		// between the answer and the next request: the calls are issued to a server that is gone
		time.Sleep(time.Duration(rng.Intn(40)) * time.Millisecond)
		issue(cs.Pending)
		ref = time.Now()
	}
	detail := func() map[string]interface{} {
		now := taggedPids(tag, false)
		return map[string]interface{}{"case": cs, "server_pid": pid, "server_seen_dead_as": how, "server_state_now": procState(pid),
			"helpers_alive_at_death": len(alive), "helpers_alive_now": len(now), "helpers_holding_stdout_at_death": holdOut,
			"helpers_holding_stdout_now": holders(now, 1, mk.Fd1), "helpers_holding_stdin_at_death": holdIn, "helpers_holding_stderr_at_death": holdErr,
			"server_stdout": mk.Fd1}
	}
	until := ref.Add(watchdog)
	var outcomes []string
	values := 0
	for i, cl := range calls {
		r, ok := cl.await(until)
		if !ok {
			parked, fn, stack := parkedInLibrary(leak.Dump(), "main.c08")
			if stillDead, _ := treeDead(pid); parked && stillDead {
				w := detail()
				w["goroutine"] = stack
				rep.Violation(cs.sig("blocked-forever"), fmt.Sprintf("%s: the server process (pid %d) was seen dead (%s) %s ago, %d other process(es) of its tree live on (%d holding its stdout); a pending call has not returned; parked in %s",
					cs.label(), pid, how, watchdog, len(alive), holdOut, fn), w)
			} else {
				rep.Inconclusive(cs.label() + ": watchdog fired without a library frame")
			}
			outcomes = append(outcomes, "not-returned")
			continue
		}
		outcome := "error"
		switch {
		case r.Panic != "":
			outcome = "panic"
			rep.Violation(cs.sig("panic-in-caller"), fmt.Sprintf("%s: panic in the caller's goroutine: %s", cs.label(), r.Panic), map[string]interface{}{"case": cs, "panic": r.Panic})
		case r.Err == nil:
			outcome = "value"
			// a complete answer can only exist where the server wrote one: one call (the one the server read
			// first) of call:one-answered
			good, why := validateAny(r)
			switch {
			case !good:
				rep.Violation(cs.sig("partial-or-wrong-result"), fmt.Sprintf("%s: the call returned a value that is not its own complete answer: %s", cs.label(), why), map[string]interface{}{"case": cs, "why": why})
			case cs.Point != "call:one-answered" || values > 0:
				rep.Violation(cs.sig("partial-or-wrong-result"), fmt.Sprintf("%s: a value was returned for a call the server never (completely) answered (the server wrote %d complete answers, %d other calls of the case returned values)", cs.label(), map[bool]int{true: 1}[cs.Point == "call:one-answered"], values), map[string]interface{}{"case": cs, "call_index": i})
			default:
				rep.Count("values_complete_answer", 1)
			}
			values++
		default:
			rep.Count("errors_returned", 1)
			rep.SetAdd("tree_how_calls_ended", errClass(r.Err))
			if isDeadlineErr(r.Err) && cs.Ctx == "deadline" {
				if margin := deadlines[i].Sub(ref); margin < 3*time.Second {
					outcome = "deadline-unjudged"
					rep.Inconclusive(fmt.Sprintf("%s: the call ended with its deadline, which was only %s after the server's death was seen (slow set-up)", cs.label(), margin))
				} else {
					outcome = "deadline"
					w := detail()
					w["error"] = errStr(r.Err)
					w["returned_after_death_seen_ms"] = r.Returned.Sub(at).Milliseconds()
					rep.Violation(cs.sig("returns-only-at-deadline"), fmt.Sprintf("%s: the server process (pid %d) was seen dead (%s) %s before the call's context deadline, %d other process(es) of its tree live on (%d holding its stdout); the call only returned when its deadline (%s) passed: %s",
						cs.label(), pid, how, margin.Round(time.Millisecond), len(alive), holdOut, callDeadline, errStr(r.Err)), w)
				}
			}
		}
		rep.Count("tree_calls_judged", 1)
		rep.Max("tree_return_after_death_seen_ms", r.Returned.Sub(ref).Milliseconds())
		rep.Distinct(fmt.Sprintf("stdio|%s|helpers=%s|p=%d|%s", cs.class(), cs.Helpers, cs.Pending, outcome))
		outcomes = append(outcomes, outcome+" "+errStr(r.Err))
	}
	// were the helpers still there when the calls had returned?
	after := taggedPids(tag, false)
	if len(after) > 0 {
		rep.Count("tree_cases_calls_returned_while_helpers_alive", 1)
	}
	if holders(after, 1, mk.Fd1) > 0 {
		rep.Count("tree_cases_calls_returned_while_stdout_still_held", 1)
	}
	sampleOnce(rep, map[string]interface{}{"case": cs, "server_seen_dead_as": how, "helpers_alive_at_death": len(alive), "helpers_holding_stdout_at_death": holdOut,
		"helpers_alive_when_calls_had_returned": len(after), "outcome_per_pending_call": outcomes})
	for _, cl := range calls {
		if cl.cancel != nil {
			cl.cancel()
		}
	}
	// Close with the helpers still alive; pending table, Close watchdog, leak levels (the zombie included)
	se := &stdioEnv{rep: rep, lt: nil}
	se.finish(cs.sig, cs.label(), cs.class(), cs.Pending, len(calls), c)
	killed, left := killTagged(tag, false)
	rep.Count("tree_helper_processes_removed", int64(killed))
	if left > 0 {
		rep.Inconclusive(fmt.Sprintf("%s: %d helper processes could not be removed", cs.label(), left))
	}
	if e.lt != nil {
		e.lt.after(cs.class(), cs.Pending, len(calls))
	}
}

func stdioTreeBatch(rep *vh.Reporter, die string, rng *rand.Rand, thorough bool, next func() bool) {
	dir, err := os.MkdirTemp("", "c08-tree-")
	if err != nil {
		rep.Inconclusive("temp dir: " + err.Error())
		return
	}
	defer os.RemoveAll(dir)
	run := os.Getenv(treeRunEnv)
	if run == "" {
		run = fmt.Sprintf("c08t%d", os.Getpid())
	}
	e := &treeEnv{rep: rep, dir: dir, run: run}
	e.lt = newLeakTracker(rep, "stdio", clientSide)
	pend := map[string]bool{}
	for _, cs := range treeEnumerate(die, rng, thorough) {
		if !next() {
			continue
		}
		if cs.Pending > 1 {
			pend[cs.class()] = true
		}
		e.run1(cs, rng)
	}
	e.lt.finish(func(class string) string {
		if pend[class] {
			return "n"
		}
		return "1"
	})
	killTagged(fmt.Sprintf("%s-%d-", run, os.Getpid()), true)
}
