package main

// Recording reference server: speaks just enough MCP for the library's Streamable and legacy SSE
// clients, is written with net/http only (no library types) and records every HTTP request it
// receives — on the served path or not — before answering it.

import (
	"encoding/json"
	"fmt"
	"io"
	"net"
	"net/http"
	"net/http/httptest"
	"strings"
	"sync"
	"time"
)

const (
	clStream = "streamable"
	clLegacy = "legacy-sse"
)

// Request kinds (shared by the three logs).
const (
	kConnect      = "connect-GET"                  // legacy SSE connect
	kGetStream    = "GET-stream"                   // Streamable listening stream
	kDelete       = "DELETE"                       // session termination
	kRootsAnswer  = "roots-answer"                 // JSON-RPC result answering a server-issued roots/list
	kErrorAnswer  = "unknown-request-error-answer" // JSON-RPC error answering an unknown server-issued request
	kRootsChanged = "roots-list-changed"           // notifications/roots/list_changed
)

// isBackground reports whether a request kind has no calling operation (sent from the stream reader).
func isBackground(kind string) bool {
	return kind == kGetStream || kind == kRootsAnswer || kind == kErrorAnswer
}

type rpcPeek struct {
	ID     json.RawMessage `json:"id"`
	Method string          `json:"method"`
	Result json.RawMessage `json:"result"`
	Error  json.RawMessage `json:"error"`
}

// classify names the kind of an outbound client request from its HTTP method and body alone.
func classify(client, method string, body []byte) (kind string, id string) {
	switch method {
	case http.MethodGet:
		if client == clLegacy {
			return kConnect, ""
		}
		return kGetStream, ""
	case http.MethodDelete:
		return kDelete, ""
	case http.MethodPost:
		var m rpcPeek
		if err := json.Unmarshal(body, &m); err != nil {
			return "unparsable-POST", ""
		}
		id = strings.TrimSpace(string(m.ID))
		switch {
		case m.Method == "notifications/roots/list_changed":
			return kRootsChanged, id
		case m.Method != "":
			return m.Method, id
		case m.Error != nil:
			return kErrorAnswer, id
		case m.Result != nil:
			return kRootsAnswer, id
		}
		return "unclassified-POST", id
	}
	return "other-" + method, ""
}

// srvRec is one HTTP request as seen at the server.
type srvRec struct {
	N      int         `json:"n"` // arrival index
	Method string      `json:"method"`
	Path   string      `json:"path"`
	Query  string      `json:"query,omitempty"`
	Header http.Header `json:"headers"`
	Body   string      `json:"body,omitempty"`
	Kind   string      `json:"kind"`
	ID     string      `json:"rpc_id,omitempty"`
	Served bool        `json:"on_served_path"`
	Status int         `json:"status_answered"`
	Issued string      `json:"session_id_issued,omitempty"` // the session id the answer to this request handed out
}

// stream is one open event stream; only the most recently opened one is written to.
type stream struct{ ch chan string }

type refServer struct {
	client    string
	path      string          // Streamable: MCP path; legacy: connect path
	alt       map[string]bool // further paths served like path (composition pass: every path some WithClientPath option named)
	msgPath   string          // legacy: message path announced in the endpoint event
	sessionID string          // prefix of the session ids: every initialize (legacy: every connect) is handed a fresh one
	ts        *httptest.Server
	baseURL   string
	gate      *gateListener
	quit      chan struct{}

	mu      sync.Mutex
	recs    []*srvRec
	fail503 int     // answer the next fail503 requests with 503 (recorded like any other)
	streams int     // listening streams opened so far
	cur     *stream // the most recently opened stream: server-issued frames go there
	issued  int     // session ids handed out so far
	evN     int

	announce  func(sid string) string // legacy, target pass: the endpoint event data for a session ("": msgPath?sessionId=sid)
	announced []string                // legacy: every endpoint event data sent
}

func (s *refServer) announcements() []string {
	s.mu.Lock()
	defer s.mu.Unlock()
	return append([]string{}, s.announced...)
}

func (s *refServer) endpointFor(sid string) string {
	ep := s.msgPath + "?sessionId=" + sid
	if s.announce != nil {
		ep = s.announce(sid)
	}
	s.mu.Lock()
	s.announced = append(s.announced, ep)
	s.mu.Unlock()
	return ep
}

// issue hands out a fresh session id for the request rec.
func (s *refServer) issue(rec *srvRec) string {
	s.mu.Lock()
	defer s.mu.Unlock()
	s.issued++
	rec.Issued = fmt.Sprintf("%s-%d", s.sessionID, s.issued)
	return rec.Issued
}

func newRefServer(client, path, msgPath, sessionID string) *refServer {
	s := &refServer{client: client, path: path, msgPath: msgPath, sessionID: sessionID,
		quit: make(chan struct{})}
	return s
}

// start serves on a fresh loopback port.
func (s *refServer) start() *refServer {
	s.ts = httptest.NewServer(s)
	s.baseURL = s.ts.URL
	return s
}

// gateListener hangs up on every connection it accepts until it is opened. (The address stays ours all the
// time: closing the listener and binding the port again later lets any other process on the machine take it.)
type gateListener struct {
	net.Listener
	mu   sync.Mutex
	open bool
}

func (g *gateListener) Accept() (net.Conn, error) {
	for {
		c, err := g.Listener.Accept()
		if err != nil {
			return nil, err
		}
		g.mu.Lock()
		open := g.open
		g.mu.Unlock()
		if open {
			return c, nil
		}
		if tc, ok := c.(*net.TCPConn); ok {
			_ = tc.SetLinger(0) // reset instead of an orderly close: the client sees a transport error at once
		}
		_ = c.Close()
	}
}

// reserve serves on a fresh loopback port but hangs up on every connection before reading anything, until
// startReserved: no request gets through (none is recorded), the client sees a transport error.
func (s *refServer) reserve() error {
	l, err := net.Listen("tcp", "127.0.0.1:0")
	if err != nil {
		return err
	}
	s.gate = &gateListener{Listener: l}
	s.ts = httptest.NewUnstartedServer(s)
	_ = s.ts.Listener.Close()
	s.ts.Listener = s.gate
	s.ts.Start()
	s.baseURL = s.ts.URL
	return nil
}

// startReserved lets connections through from now on.
func (s *refServer) startReserved() error {
	s.gate.mu.Lock()
	s.gate.open = true
	s.gate.mu.Unlock()
	return nil
}

func (s *refServer) base() string { return s.baseURL }

func (s *refServer) close() {
	close(s.quit)
	if s.ts == nil {
		return
	}
	s.ts.CloseClientConnections()
	done := make(chan struct{})
	go func() { s.ts.Close(); close(done) }()
	select {
	case <-done:
	case <-time.After(5 * time.Second):
	}
}

func (s *refServer) snapshot() []*srvRec {
	s.mu.Lock()
	defer s.mu.Unlock()
	return append([]*srvRec{}, s.recs...)
}

func (s *refServer) setFail503(n int) {
	s.mu.Lock()
	s.fail503 = n
	s.mu.Unlock()
}

func (s *refServer) count() int {
	s.mu.Lock()
	defer s.mu.Unlock()
	return len(s.recs)
}

func (s *refServer) streamOpen() bool {
	s.mu.Lock()
	defer s.mu.Unlock()
	return s.streams > 0
}

// streamSince reports whether a stream GET that arrived at index from or later has been answered,
// and whether the answer opened a stream.
func (s *refServer) streamSince(from int) (answered, open bool) {
	s.mu.Lock()
	defer s.mu.Unlock()
	for _, r := range s.recs {
		if r.N >= from && r.Method == http.MethodGet && r.Status != 0 {
			return true, r.Status == http.StatusOK
		}
	}
	return false, false
}

func (s *refServer) pending503() int {
	s.mu.Lock()
	defer s.mu.Unlock()
	return s.fail503
}

// answered reports whether an answer (result or error) with the given JSON-RPC id has arrived on any path.
func (s *refServer) answered(id string) bool {
	s.mu.Lock()
	defer s.mu.Unlock()
	for _, r := range s.recs {
		if (r.Kind == kRootsAnswer || r.Kind == kErrorAnswer) && r.ID == id {
			return true
		}
	}
	return false
}

// pushRequest sends a server-issued request on the listening stream.
func (s *refServer) pushRequest(id int, method string) {
	msg := fmt.Sprintf(`{"jsonrpc":"2.0","id":%d,"method":%q}`, id, method)
	s.pushFrame(msg)
}

func (s *refServer) pushFrame(msg string) {
	s.mu.Lock()
	s.evN++
	n := s.evN
	st := s.cur
	s.mu.Unlock()
	if st == nil {
		return
	}
	var frame string
	if s.client == clLegacy {
		frame = "event: message\ndata: " + msg + "\n\n"
	} else {
		frame = fmt.Sprintf("id: ev-%d\ndata: %s\n\n", n, msg)
	}
	select {
	case st.ch <- frame:
	case <-s.quit:
	}
}

func (s *refServer) record(r *http.Request, body []byte) *srvRec {
	kind, id := classify(s.client, r.Method, body)
	served := r.URL.Path == s.path || s.alt[r.URL.Path]
	if s.client == clLegacy && r.Method == http.MethodPost {
		served = r.URL.Path == s.msgPath
	}
	rec := &srvRec{Method: r.Method, Path: r.URL.Path, Query: r.URL.RawQuery, Header: r.Header.Clone(),
		Body: string(body), Kind: kind, ID: id, Served: served}
	s.mu.Lock()
	rec.N = len(s.recs)
	s.recs = append(s.recs, rec)
	s.mu.Unlock()
	return rec
}

func (s *refServer) setStatus(rec *srvRec, st int) {
	s.mu.Lock()
	rec.Status = st
	s.mu.Unlock()
}

func resultFor(method string) string {
	switch method {
	case "initialize":
		return `{"protocolVersion":"2025-03-26","capabilities":{"tools":{"listChanged":true},"prompts":{},"resources":{}},"serverInfo":{"name":"verif-ref-server","version":"1.0"}}`
	case "tools/list":
		return `{"tools":[{"name":"t1","description":"reference tool","inputSchema":{"type":"object","properties":{"x":{"type":"string"}}}}]}`
	case "tools/call":
		return `{"content":[{"type":"text","text":"ok"}]}`
	case "prompts/list":
		return `{"prompts":[{"name":"p1","description":"reference prompt"}]}`
	case "prompts/get":
		return `{"description":"d","messages":[{"role":"user","content":{"type":"text","text":"hi"}}]}`
	case "resources/list":
		return `{"resources":[{"uri":"res://a","name":"a","mimeType":"text/plain"}]}`
	case "resources/read":
		return `{"contents":[{"uri":"res://a","mimeType":"text/plain","text":"body"}]}`
	case "ping":
		return `{}`
	}
	return ""
}

func answerFor(m rpcPeek) string {
	if res := resultFor(m.Method); res != "" {
		return fmt.Sprintf(`{"jsonrpc":"2.0","id":%s,"result":%s}`, m.ID, res)
	}
	return fmt.Sprintf(`{"jsonrpc":"2.0","id":%s,"error":{"code":-32601,"message":"method not found"}}`, m.ID)
}

func (s *refServer) ServeHTTP(w http.ResponseWriter, r *http.Request) {
	body, _ := io.ReadAll(r.Body)
	rec := s.record(r, body)
	s.mu.Lock()
	unhealthy := s.fail503 > 0
	if unhealthy {
		s.fail503--
		rec.Status = http.StatusServiceUnavailable
	}
	s.mu.Unlock()
	if unhealthy {
		http.Error(w, "service unavailable (scripted by the harness)", http.StatusServiceUnavailable)
		return
	}
	if !rec.Served {
		s.setStatus(rec, http.StatusNotFound)
		http.Error(w, "not found (reference server serves only its configured path)", http.StatusNotFound)
		return
	}
	switch r.Method {
	case http.MethodGet:
		s.serveStream(w, r, rec)
	case http.MethodDelete:
		if s.client == clLegacy {
			s.setStatus(rec, http.StatusMethodNotAllowed)
			w.WriteHeader(http.StatusMethodNotAllowed)
			return
		}
		s.setStatus(rec, http.StatusOK)
		w.WriteHeader(http.StatusOK)
	case http.MethodPost:
		var m rpcPeek
		if err := json.Unmarshal(body, &m); err != nil {
			s.setStatus(rec, http.StatusBadRequest)
			http.Error(w, "bad json", http.StatusBadRequest)
			return
		}
		isRequest := m.Method != "" && len(m.ID) > 0
		if s.client == clLegacy {
			s.setStatus(rec, http.StatusAccepted)
			w.WriteHeader(http.StatusAccepted)
			if isRequest {
				s.pushFrame(answerFor(m))
			}
			return
		}
		if !isRequest { // notification or answer to a server-issued request
			s.setStatus(rec, http.StatusAccepted)
			w.WriteHeader(http.StatusAccepted)
			return
		}
		w.Header().Set("Content-Type", "application/json")
		if m.Method == "initialize" {
			w.Header().Set("Mcp-Session-Id", s.issue(rec))
		}
		s.setStatus(rec, http.StatusOK)
		w.WriteHeader(http.StatusOK)
		_, _ = io.WriteString(w, answerFor(m))
	default:
		s.setStatus(rec, http.StatusMethodNotAllowed)
		w.WriteHeader(http.StatusMethodNotAllowed)
	}
}

// serveStream keeps an event stream open and is its only writer.
func (s *refServer) serveStream(w http.ResponseWriter, r *http.Request, rec *srvRec) {
	fl, ok := w.(http.Flusher)
	if !ok {
		s.setStatus(rec, 500)
		w.WriteHeader(500)
		return
	}
	w.Header().Set("Content-Type", "text/event-stream")
	w.Header().Set("Cache-Control", "no-cache")
	w.WriteHeader(http.StatusOK)
	st := &stream{ch: make(chan string, 256)}
	s.mu.Lock()
	s.cur = st // before the endpoint event: the client's first POST may overtake the bookkeeping below
	s.mu.Unlock()
	if s.client == clLegacy {
		_, _ = io.WriteString(w, "event: endpoint\ndata: "+s.endpointFor(s.issue(rec))+"\n\n")
	}
	fl.Flush()
	// status and stream count become visible together: whoever sees the answered GET also sees the open stream
	s.mu.Lock()
	rec.Status = http.StatusOK
	s.streams++
	s.mu.Unlock()
	for {
		select {
		case <-r.Context().Done():
			return
		case <-s.quit:
			return
		case f := <-st.ch:
			if _, err := io.WriteString(w, f); err != nil {
				return
			}
			fl.Flush()
		}
	}
}
