package main

// Sixth pass: every kind of request of ONE client goes to the same configured target.
//
// A raw fronting server (plain TCP, no net/http parsing) stands in front of the reference server and
// records, per HTTP request, the request line exactly as sent, the Host header and all headers; it then
// forwards the request to the reference server under the path that one serves, so that a request that
// went astray is still answered and every request kind stays observable. The oracle compares the
// request target / Host / URL credentials / configured headers ACROSS the request kinds of one client,
// and against the configured URL and path where the configuration has only one reading.

import (
	"bufio"
	"context"
	"fmt"
	"io"
	"math/rand"
	"net"
	"net/http"
	"net/textproto"
	"net/url"
	"sort"
	"strconv"
	"strings"
	"sync"

	mcp "trpc.group/trpc-go/trpc-mcp-go"
)

const (
	kGetReopen = "GET-stream-reopened" // Streamable: a listening-stream GET after the first one (Close + Initialize on the same client)

	hdrTgtBefore  = "X-Tgt-Before"
	hdrTgtHandler = "X-Tgt-Handler"
	hdrTgtKey     = "X-Tgt-Key"
	hdrTgtRoute   = "X-Tgt-Route"
)

// ---------------------------------------------------------------------------------------------
// raw fronting server

type frontRec struct {
	N      int         `json:"n"`
	Line   string      `json:"request_line"`
	Method string      `json:"method"`
	Target string      `json:"request_target"`
	Host   string      `json:"host_header"`
	Header http.Header `json:"headers"`
	Kind   string      `json:"kind"`
	ID     string      `json:"rpc_id,omitempty"`
	Body   string      `json:"body,omitempty"`
}

type front struct {
	client  string
	backend string // host:port of the reference server
	ln      net.Listener
	addr    string

	mu       sync.Mutex
	recs     []*frontRec
	gets     int
	conns    map[net.Conn]bool
	problems []string
	closed   bool
}

func startFront(client, backendURL string) (*front, error) {
	u, err := url.Parse(backendURL)
	if err != nil {
		return nil, err
	}
	ln, err := net.Listen("tcp", "127.0.0.1:0")
	if err != nil {
		return nil, err
	}
	f := &front{client: client, backend: u.Host, ln: ln, addr: ln.Addr().String(), conns: map[net.Conn]bool{}}
	go f.accept()
	return f, nil
}

func (f *front) accept() {
	for {
		c, err := f.ln.Accept()
		if err != nil {
			return
		}
		go f.serve(c)
	}
}

func (f *front) track(c net.Conn) bool {
	f.mu.Lock()
	defer f.mu.Unlock()
	if f.closed {
		_ = c.Close()
		return false
	}
	f.conns[c] = true
	return true
}

func (f *front) drop(cs ...net.Conn) {
	f.mu.Lock()
	for _, c := range cs {
		delete(f.conns, c)
	}
	f.mu.Unlock()
	for _, c := range cs {
		_ = c.Close()
	}
}

func (f *front) problem(s string) {
	f.mu.Lock()
	if len(f.problems) < 8 {
		f.problems = append(f.problems, s)
	}
	f.mu.Unlock()
}

func (f *front) close() {
	f.mu.Lock()
	f.closed = true
	var cs []net.Conn
	for c := range f.conns {
		cs = append(cs, c)
	}
	f.conns = map[net.Conn]bool{}
	f.mu.Unlock()
	_ = f.ln.Close()
	for _, c := range cs {
		_ = c.Close()
	}
}

func (f *front) snapshot() ([]*frontRec, []string) {
	f.mu.Lock()
	defer f.mu.Unlock()
	return append([]*frontRec{}, f.recs...), append([]string{}, f.problems...)
}

// forwardTarget: the request target under which the reference server serves this request.
func (f *front) forwardTarget(method string) string {
	if f.client == clStream {
		return "/mcp"
	}
	if method == http.MethodPost {
		return "/message?sessionId=forwarded-by-front"
	}
	return "/sse"
}

func trimEOL(s string) string { return strings.TrimRight(s, "\r\n") }

func (f *front) serve(c net.Conn) {
	if !f.track(c) {
		return
	}
	be, err := net.Dial("tcp", f.backend)
	if err != nil {
		f.drop(c)
		return
	}
	if tc, ok := be.(*net.TCPConn); ok {
		_ = tc.SetLinger(0)
	}
	if !f.track(be) {
		f.drop(c)
		return
	}
	defer f.drop(c, be)
	go func() { // answers flow back untouched
		_, _ = io.Copy(c, be)
		f.drop(c, be)
	}()
	br := bufio.NewReader(c)
	for {
		line, err := br.ReadString('\n')
		if err != nil {
			return
		}
		line = trimEOL(line)
		if line == "" {
			continue
		}
		var raw []string
		hdr := http.Header{}
		for {
			l, err := br.ReadString('\n')
			if err != nil {
				return
			}
			l = trimEOL(l)
			if l == "" {
				break
			}
			raw = append(raw, l)
			if i := strings.IndexByte(l, ':'); i > 0 {
				k := textproto.CanonicalMIMEHeaderKey(strings.TrimSpace(l[:i]))
				hdr[k] = append(hdr[k], strings.TrimSpace(l[i+1:]))
			}
		}
		if te := hdr.Get("Transfer-Encoding"); te != "" {
			f.problem("request with Transfer-Encoding " + te + " (the front only frames Content-Length bodies): " + line)
			return
		}
		n := 0
		if cl := hdr.Get("Content-Length"); cl != "" {
			n, err = strconv.Atoi(cl)
			if err != nil || n < 0 {
				f.problem("request with Content-Length " + cl + ": " + line)
				return
			}
		}
		body := make([]byte, n)
		if _, err := io.ReadFull(br, body); err != nil {
			return
		}
		parts := strings.SplitN(line, " ", 3)
		if len(parts) != 3 {
			f.problem("request line not of the form METHOD SP TARGET SP VERSION: " + line)
			return
		}
		kind, id := classify(f.client, parts[0], body)
		rec := &frontRec{Line: line, Method: parts[0], Target: parts[1], Host: hdr.Get("Host"), Header: hdr, Kind: kind, ID: id, Body: trunc(string(body), 200)}
		f.mu.Lock()
		if f.client == clStream && parts[0] == http.MethodGet {
			f.gets++
			if f.gets > 1 {
				rec.Kind = kGetReopen
			}
		}
		rec.N = len(f.recs)
		f.recs = append(f.recs, rec)
		f.mu.Unlock()
		var out strings.Builder
		out.WriteString(parts[0] + " " + f.forwardTarget(parts[0]) + " " + parts[2] + "\r\n")
		for _, l := range raw {
			out.WriteString(l + "\r\n")
		}
		out.WriteString("\r\n")
		if _, err := io.WriteString(be, out.String()); err != nil {
			return
		}
		if _, err := be.Write(body); err != nil {
			return
		}
	}
}

// ---------------------------------------------------------------------------------------------
// configurations

type tgtSpec struct {
	Name       string `json:"name"`
	URLClass   string `json:"server_url_class"`
	URLPath    string `json:"server_url_path"`  // as written in the configured URL (escaped form)
	URLQuery   string `json:"server_url_query"` // as written, without the '?'
	ForceQ     bool   `json:"server_url_has_bare_question_mark,omitempty"`
	Fragment   string `json:"server_url_fragment,omitempty"`
	UserInfo   string `json:"server_url_userinfo,omitempty"` // as written, without the '@'
	QueryClass string `json:"query_class"`
	PathSet    bool   `json:"with_client_path_given"`
	Path       string `json:"with_client_path"`
	PathClass  string `json:"path_class"`
	H          bool   `json:"static_headers"`
	B          bool   `json:"before_request_adds_header"`
	R          bool   `json:"request_handler_adds_header"`
	Endpoint   string `json:"announced_endpoint_form,omitempty"` // legacy SSE
	Run        string `json:"run_tag"`
}

type urlForm struct{ class, path string }
type queryForm struct {
	class, query string
	force        bool
}
type pathForm struct {
	class string
	set   bool
	path  string
}

var urlForms = []urlForm{
	{"plain", "/mcp"},
	{"trailing-slash", "/mcp/"},
	{"prefix", "/pre/fix/v1/mcp"},
	{"prefix-trailing-slash", "/pre/fix/mcp/"},
	{"escaped", "/pre%20fix/m%2Fcp"},
	{"no-path", ""},
	{"root", "/"},
}

var queryForms = []queryForm{
	{"none", "", false},
	{"one-param", "api_key=secret", false},
	{"several-params", "a=1&b=two&c=3", false},
	{"escaped", "k=v%20w%26x&sig=a%2Bb%3D", false},
	{"empty-value", "empty=&flag", false},
	{"bare-question-mark", "", true},
}

var pathForms = []pathForm{
	{"unset", false, ""},
	{"absolute", true, "/custom/mcp-t"},
	{"absolute-trailing-slash", true, "/custom/mcp-t/"},
	{"relative", true, "custom/mcp-t"},
	{"percent-sign", true, "/cu%20stom/mcp-t"},
	{"space-and-non-ascii", true, "/cu stom/ünï"},
	{"question-mark", true, "/custom/mcp-t?x=1"},
	{"empty", true, ""},
}

var endpointForms = []string{"path-absolute", "relative", "absolute-url", "extra-query", "escaped-query", "dot-segments"}

// unambiguous: the configured path has one reading only (no path option, or a plain absolute path).
func (p pathForm) unambiguous() bool {
	switch p.class {
	case "unset", "empty", "absolute", "absolute-trailing-slash", "space-and-non-ascii":
		return true
	}
	return false
}

func (t *tgtSpec) pathForm() pathForm { return pathForm{t.PathClass, t.PathSet, t.Path} }

func (t *tgtSpec) class() string {
	return fmt.Sprintf("url=%s,query=%s,path=%s", t.URLClass, t.QueryClass, t.PathClass)
}

// sigClass: the configuration class named in violation signatures (coarser than class()).
func (t *tgtSpec) sigClass() string {
	q := "with-query"
	switch t.QueryClass {
	case "none":
		q = "no-query"
	case "bare-question-mark":
		q = "bare-question-mark"
	}
	p := "other-form"
	switch t.PathClass {
	case "unset", "empty":
		p = "none"
	case "absolute", "absolute-trailing-slash":
		p = "absolute"
	}
	return "url=" + q + ",path-option=" + p
}

// serverURL: the URL string handed to NewClient / NewSSEClient.
func (t *tgtSpec) serverURL(addr string) string {
	s := "http://"
	if t.UserInfo != "" {
		s += t.UserInfo + "@"
	}
	s += addr + t.URLPath
	if t.URLQuery != "" || t.ForceQ {
		s += "?" + t.URLQuery
	}
	if t.Fragment != "" {
		s += "#" + t.Fragment
	}
	return s
}

func (t *tgtSpec) staticHeaders() http.Header {
	return http.Header{hdrTgtKey: {"key-" + t.Run}, hdrTgtRoute: {"r1-" + t.Run, "r2"}}
}

// tgtHandler: a request handler that injects routing information and performs the request itself.
type tgtHandler struct {
	val string
	hc  *http.Client
}

func (h *tgtHandler) Handle(ctx context.Context, _ *http.Client, req *http.Request) (*http.Response, error) {
	req2 := req.Clone(ctx)
	req2.Header.Set(hdrTgtHandler, h.val)
	return h.hc.Do(req2)
}

func (t *tgtSpec) options(l *runLog) []mcp.ClientOption {
	var o []mcp.ClientOption
	if t.H {
		o = append(o, mcp.WithHTTPHeaders(t.staticHeaders()))
	}
	if t.B {
		val := "before-" + t.Run
		o = append(o, mcp.WithHTTPBeforeRequest(func(_ context.Context, req *http.Request) error {
			req.Header.Set(hdrTgtBefore, val)
			return nil
		}))
	}
	if t.R {
		o = append(o, mcp.WithHTTPReqHandler(&tgtHandler{val: "handler-" + t.Run, hc: l.hc}))
	}
	if t.PathSet {
		o = append(o, mcp.WithClientPath(t.Path))
	}
	return o
}

// announce: the data of the legacy endpoint event.
func (t *tgtSpec) announce(addr, sid string) string {
	switch t.Endpoint {
	case "relative":
		return "message-t?sessionId=" + sid
	case "absolute-url":
		return "http://" + addr + "/abs/message-t?sessionId=" + sid + "&via=abs"
	case "extra-query":
		return "/message-t?tenant=t1&sessionId=" + sid + "&empty="
	case "escaped-query":
		return "/msg%20t/message-t?sessionId=" + sid + "&sig=a%2Bb%3D%26c"
	case "dot-segments":
		return "../up/./message-t?sessionId=" + sid
	}
	return "/message-t?sessionId=" + sid
}

func tgtHistory(client string) []step {
	h := []step{{Kind: "init"}, {Kind: "op", Op: "tools/list"}, {Kind: "notify"}, {Kind: "provider"}, {Kind: "push-roots"},
		{Kind: "push-unknown"}, {Kind: "op", Op: "tools/call"}}
	if client == clStream {
		h = append(h, step{Kind: "reinit"}, step{Kind: "op", Op: "prompts/list"}, step{Kind: "push-roots"}, step{Kind: "notify"}, step{Kind: "terminate"})
	}
	return h
}

// tgtKinds: the request kinds a history of this pass emits.
func tgtKinds(client string) []string {
	common := []string{"initialize", "notifications/initialized", "tools/list", "tools/call", kRootsChanged, kRootsAnswer, kErrorAnswer}
	if client == clStream {
		return append([]string{kGetStream, kGetReopen, kDelete, "prompts/list"}, common...)
	}
	return append([]string{kConnect}, common...)
}

func mkTarget(client string, u urlForm, q queryForm, p pathForm, rng *rand.Rand, idx int) *tgtSpec {
	t := &tgtSpec{URLClass: u.class, URLPath: u.path, URLQuery: q.query, ForceQ: q.force, QueryClass: q.class,
		PathSet: p.set, Path: p.path, PathClass: p.class}
	if client == clLegacy {
		if p.set && p.path != "" {
			t.Path = strings.Replace(p.path, "mcp-t", "sse-t", 1)
		}
		if u.path == "/mcp" || strings.Contains(u.path, "/mcp") {
			t.URLPath = strings.Replace(u.path, "mcp", "sse", 1)
		}
		t.Endpoint = endpointForms[rng.Intn(len(endpointForms))]
	}
	t.H, t.B, t.R = rng.Intn(2) == 0, rng.Intn(2) == 0, rng.Intn(2) == 0
	if rng.Intn(4) == 0 {
		t.UserInfo = "user:p%40ss"
		t.URLClass += "+userinfo"
	}
	if rng.Intn(5) == 0 {
		t.Fragment = "frag"
		t.URLClass += "+fragment"
	}
	t.Name = fmt.Sprintf("%d:%s", idx, t.class())
	return t
}

// targetList: the configurations of one client, determined by the PRNG: every query form with every path form
// once (the URL form drawn), then further draws of all three.
func targetList(client string, rng *rand.Rand, extra int) []*tgtSpec {
	var list []*tgtSpec
	for _, q := range queryForms {
		for _, p := range pathForms {
			list = append(list, mkTarget(client, urlForms[rng.Intn(len(urlForms))], q, p, rng, len(list)))
		}
	}
	for i := 0; i < extra; i++ {
		list = append(list, mkTarget(client, urlForms[rng.Intn(len(urlForms))], queryForms[rng.Intn(len(queryForms))], pathForms[rng.Intn(len(pathForms))], rng, len(list)))
	}
	rng.Shuffle(len(list), func(i, k int) { list[i], list[k] = list[k], list[i] })
	for i, t := range list {
		t.Run = fmt.Sprintf("t%d", i)
	}
	return list
}

// ---------------------------------------------------------------------------------------------
// oracle

// splitTarget splits a request target as sent into its path part (still escaped) and its query part.
func splitTarget(target string) (escPath, query string, hasQ bool) {
	if i := strings.IndexByte(target, '?'); i >= 0 {
		return target[:i], target[i+1:], true
	}
	return target, "", false
}

func decodePath(esc string) string {
	if d, err := url.PathUnescape(esc); err == nil {
		return d
	}
	return esc
}

// expectedPaths: the decoded paths a request to "the configured URL and path" may show. One entry when the
// configuration has one reading; several when the path option can be read in more than one way.
func (t *tgtSpec) expectedPaths() []string {
	urlPath := decodePath(t.URLPath)
	if urlPath == "" {
		urlPath = "/"
	}
	if !t.PathSet || t.Path == "" {
		return []string{urlPath}
	}
	out := []string{t.Path}
	switch t.PathClass {
	case "relative":
		out = append(out, "/"+t.Path)
		dir := urlPath[:strings.LastIndexByte(urlPath, '/')+1]
		out = append(out, dir+t.Path)
	case "percent-sign":
		out = append(out, decodePath(t.Path))
	case "question-mark":
		out = append(out, t.Path[:strings.IndexByte(t.Path, '?')])
	}
	return out
}

type tgtView struct {
	target, escPath, path, query string
	hasQ                         bool
}

func viewOf(rec *frontRec) tgtView {
	tg := rec.Target
	if i := strings.Index(tg, "://"); i >= 0 { // absolute-form request target: judge what follows the authority
		rest := tg[i+3:]
		if k := strings.IndexByte(rest, '/'); k >= 0 {
			tg = rest[k:]
		} else {
			tg = "/"
		}
	}
	v := tgtView{target: rec.Target}
	v.escPath, v.query, v.hasQ = splitTarget(tg)
	v.path = decodePath(v.escPath)
	return v
}

func (j *judge) target(res *runResult) {
	r := j.r
	sp := res.spec
	t := sp.tgt
	client := sp.client
	r.Count("tgt_runs", 1)
	r.Count("tgt_runs|"+client, 1)
	if res.newErr != "" {
		r.Fatal("target pass: client construction failed (%s, %s): %s", client, t.Name, res.newErr)
	}
	for _, p := range res.frontProblems {
		r.Fatal("target pass: the fronting server could not frame a request (%s, %s): %s", client, t.Name, p)
	}
	desc := map[string]interface{}{"client": client, "target_configuration": t, "configured_server_url": t.serverURL(res.frontAddr),
		"history": sp.label + ": " + histString(res.executed), "announced_endpoint": res.announced}
	viol := func(kind, symptom, what string, extra map[string]interface{}) {
		w := map[string]interface{}{}
		for k, v := range desc {
			w[k] = v
		}
		for k, v := range extra {
			w[k] = v
		}
		r.Violation(fmt.Sprintf("C19|%s|%s|%s|%s", client, kind, symptom, t.sigClass()),
			fmt.Sprintf("%s client, %s: %s [server URL %s, WithClientPath given=%v %q]", client, kind, what, t.serverURL(res.frontAddr), t.PathSet, t.Path), w)
	}
	for _, w := range res.watchdogs {
		r.Inconclusive(fmt.Sprintf("target pass %s %s: %s", client, t.Name, w))
	}
	if res.initFailed {
		r.Count("tgt_runs_initialize_failed", 1)
		r.SetAdd("tgt_initialize_failed_in", client+":"+t.class())
		msg := ""
		for _, op := range res.ops {
			if op.Err != "" {
				msg = op.Err
			}
		}
		r.Inconclusive(fmt.Sprintf("target pass %s %s: Initialize failed, most request kinds not observed: %s", client, t.Name, trunc(msg, 160)))
	}
	for _, op := range res.ops {
		if op.Err != "" && op.Name != "Initialize" {
			r.Count("tgt_operations_failed", 1)
			if op.Deadline {
				r.Inconclusive(fmt.Sprintf("target pass %s %s: %s hit the watchdog", client, t.Name, op.Name))
			} else {
				viol(op.Kind, "operation-failed", fmt.Sprintf("%s failed against the reference server: %s", op.Name, trunc(op.Err, 200)), map[string]interface{}{"operation": op})
			}
		}
	}

	// group the requests: all kinds of the Streamable client share one target; the legacy client has the connect
	// GET (configured URL and path) and the POSTs (announced endpoint)
	groupOf := func(rec *frontRec) string {
		if client == clLegacy && rec.Method == http.MethodPost {
			return "post"
		}
		return "configured"
	}
	byKind := map[string][]*frontRec{}
	for _, rec := range res.front {
		byKind[rec.Kind] = append(byKind[rec.Kind], rec)
	}
	// modal value of a property among the request kinds of a group (ties: the value the initialize request shows)
	modal := func(group string, prop func(*frontRec) string) (string, int) {
		kindsWith := map[string]map[string]bool{}
		initVal, haveInit := "", false
		for _, rec := range res.front {
			if groupOf(rec) != group {
				continue
			}
			v := prop(rec)
			if kindsWith[v] == nil {
				kindsWith[v] = map[string]bool{}
			}
			kindsWith[v][rec.Kind] = true
			if rec.Kind == "initialize" && !haveInit {
				initVal, haveInit = v, true
			}
		}
		best, bestN := "", -1
		var vals []string
		for v := range kindsWith {
			vals = append(vals, v)
		}
		sort.Strings(vals)
		for _, v := range vals {
			n := len(kindsWith[v])
			if n > bestN || (n == bestN && haveInit && v == initVal) {
				best, bestN = v, n
			}
		}
		return best, len(vals)
	}
	auth := func(rec *frontRec) string { return strings.Join(rec.Header.Values("Authorization"), ",") }
	type ref struct {
		target, host, auth string
		view               tgtView
	}
	refs := map[string]*ref{}
	for _, g := range []string{"configured", "post"} {
		tg, n := modal(g, func(rec *frontRec) string { return rec.Target })
		if n == 0 {
			continue
		}
		h, _ := modal(g, func(rec *frontRec) string { return rec.Host })
		a, _ := modal(g, auth)
		refs[g] = &ref{target: tg, host: h, auth: a, view: viewOf(&frontRec{Target: tg})}
	}
	// the legacy connect GET is one kind only: with a relative endpoint (same authority) its Host and URL
	// credentials are those of the POSTs
	absEndpoint := client == clLegacy && t.Endpoint == "absolute-url"
	if client == clLegacy && !absEndpoint && refs["post"] != nil && refs["configured"] != nil {
		refs["configured"].host, refs["configured"].auth = refs["post"].host, refs["post"].auth
	}

	// what "the announced endpoint" is for the POSTs of the legacy client (RFC 3986 resolution of what the server
	// announced against the URL the event stream was requested from; done with net/url, not with the library)
	var postWant *tgtView
	if client == clLegacy && len(res.announced) == 1 && t.pathForm().unambiguous() {
		if base, err := url.Parse(t.serverURL(res.frontAddr)); err == nil {
			if t.PathSet && t.Path != "" {
				base.Path, base.RawPath = t.Path, ""
			}
			if epu, err := url.Parse(res.announced[0]); err == nil {
				abs := base.ResolveReference(epu)
				v := viewOf(&frontRec{Target: abs.RequestURI()})
				postWant = &v
			}
		}
	}
	var epQuery string
	if len(res.announced) == 1 {
		if i := strings.IndexByte(res.announced[0], '?'); i >= 0 {
			epQuery = res.announced[0][i+1:]
		}
	}
	wantPaths := t.expectedPaths()
	static := t.staticHeaders()

	cellKey := func(kind string) string { return client + "|" + kind }
	for _, kind := range tgtKinds(client) {
		recs := byKind[kind]
		r.Count("tgt_cells", 1)
		if len(recs) == 0 {
			r.Count("tgt_cells_not_observed", 1)
			r.Count("tgt_cells_not_observed|"+cellKey(kind), 1)
			continue
		}
		r.Eval(1)
		r.Count("tgt_cells_observed", 1)
		r.Count("tgt_cells_observed|"+cellKey(kind), 1)
		r.Count(fmt.Sprintf("tgt_cells_observed|%s|query=%s", cellKey(kind), t.QueryClass), 1)
		r.Count(fmt.Sprintf("tgt_cells_observed|%s|path=%s", cellKey(kind), t.PathClass), 1)
		if t.QueryClass != "none" && t.PathSet && t.Path != "" {
			r.Count("tgt_cells_observed_with_url_query_and_custom_path|"+cellKey(kind), 1)
		}
		if t.UserInfo != "" {
			r.Count("tgt_cells_observed_with_userinfo|"+cellKey(kind), 1)
		}
		r.Distinct(fmt.Sprintf("tgt|%s|%s|%s|%s|h%vb%vr%v|%s", client, kind, t.QueryClass, t.PathClass, t.H, t.B, t.R, t.Endpoint))
		r.SetAdd("tgt_configuration_classes", client+":"+t.class())
		bad := 0
		for _, rec := range recs {
			r.Count("tgt_requests_judged", 1)
			g := groupOf(rec)
			rf := refs[g]
			v := viewOf(rec)
			extra := map[string]interface{}{"request_at_front": rec, "other_kinds_request_target": rf.target, "other_kinds_host": rf.host,
				"request_lines_of_this_client": requestLines(res.front)}
			fail := func(symptom, what string) { bad++; viol(kind, symptom, what, extra) }
			if kind == kGetReopen && rec.Header.Get("Last-Event-Id") != "" {
				r.Count("tgt_reopened_get_with_last_event_id", 1)
			}
			if !strings.HasPrefix(rec.Target, "/") {
				r.Count("tgt_request_targets_not_in_origin_form", 1)
				r.SetAdd("tgt_non_origin_form_targets_in", client+":path="+t.PathClass)
			}
			// (a) same target as the other request kinds of this client
			switch {
			case rec.Target == rf.target:
			case v.path != rf.view.path:
				fail("target-path-differs-from-other-kinds", fmt.Sprintf("request target %q, the other request kinds of this client use %q (path differs)", rec.Target, rf.target))
			case v.query != rf.view.query:
				fail("target-query-differs-from-other-kinds", fmt.Sprintf("request target %q, the other request kinds of this client use %q (query differs)", rec.Target, rf.target))
			default:
				fail("target-form-differs-from-other-kinds", fmt.Sprintf("request target %q, the other request kinds of this client use %q (same path and query, written differently)", rec.Target, rf.target))
			}
			// (b) same Host and same URL credentials
			if rec.Host != rf.host {
				fail("host-differs-from-other-kinds", fmt.Sprintf("Host %q, the other request kinds of this client send %q", rec.Host, rf.host))
			}
			if g == "configured" && rec.Host != res.frontAddr {
				fail("host-not-the-configured-one", fmt.Sprintf("Host %q, the configured server URL names %q", rec.Host, res.frontAddr))
			}
			if auth(rec) != rf.auth {
				fail("url-credentials-differ-from-other-kinds", fmt.Sprintf("Authorization %q, the other request kinds of this client send %q (server URL userinfo %q)", auth(rec), rf.auth, t.UserInfo))
			}
			if t.UserInfo != "" && (g == "configured" || !absEndpoint) && auth(rec) == "" {
				fail("url-credentials-missing", fmt.Sprintf("no Authorization although the configured server URL carries userinfo %q", t.UserInfo))
			}
			// (c) the configured URL and path, where the configuration has one reading
			if g == "configured" {
				if !contains(wantPaths, v.path) {
					fail("target-path-not-the-configured-one", fmt.Sprintf("request target %q: path %q, configured is %q", rec.Target, v.path, wantPaths))
				}
				wantQ := t.URLQuery
				if t.PathClass == "question-mark" && v.query != wantQ {
					// the path option itself contains a '?': whether that is path or query is not decided here
					r.Count("tgt_query_not_judged_path_option_contains_question_mark", 1)
				} else if v.query != wantQ {
					fail("target-query-not-the-configured-one", fmt.Sprintf("request target %q: query %q, the configured server URL has %q", rec.Target, v.query, wantQ))
				}
			} else {
				if v.query != epQuery {
					fail("announced-endpoint-query-not-kept", fmt.Sprintf("message POST target %q: query %q, the server announced %q", rec.Target, v.query, res.announced))
				}
				if postWant != nil && v.path != postWant.path {
					fail("announced-endpoint-ignored", fmt.Sprintf("message POST target %q: path %q, the announced endpoint %q resolves to %q", rec.Target, v.path, res.announced, postWant.path))
				} else if postWant == nil {
					r.Count("tgt_post_path_judged_across_kinds_only", 1)
				}
			}
			// (d) configured headers, whichever option added them
			if t.H {
				for name, vals := range static {
					if got := rec.Header.Values(name); !sameMultiset(got, vals) {
						fail("static-header-differs", fmt.Sprintf("%s: %q, configured by WithHTTPHeaders is %q", name, got, vals))
					}
				}
			}
			if t.B {
				if got := rec.Header.Values(hdrTgtBefore); len(got) != 1 || got[0] != "before-"+t.Run {
					fail("before-request-header-differs", fmt.Sprintf("%s: %q, the before-request function sets %q on every request", hdrTgtBefore, got, "before-"+t.Run))
				}
			}
			if t.R {
				if got := rec.Header.Values(hdrTgtHandler); len(got) != 1 || got[0] != "handler-"+t.Run {
					fail("handler-header-differs", fmt.Sprintf("%s: %q, the configured request handler sets %q on every request", hdrTgtHandler, got, "handler-"+t.Run))
				}
			}
		}
		if bad == 0 {
			r.Count("tgt_cells_held", 1)
			r.Count("tgt_cells_held|"+cellKey(kind), 1)
		} else {
			r.Count("tgt_cells_violated", 1)
		}
	}
	for kind := range byKind {
		if !contains(tgtKinds(client), kind) {
			r.Count("tgt_requests_of_unlisted_kind|"+client+"|"+kind, int64(len(byKind[kind])))
		}
	}
	if client == clLegacy {
		r.Count("tgt_runs|legacy-endpoint="+t.Endpoint, 1)
	}
	key := "tgt|" + client
	if _, ok := j.samples[key]; !ok && t.QueryClass != "none" && t.PathClass == "absolute" && !res.initFailed {
		j.samples[key] = map[string]interface{}{"client": client, "target_configuration": t, "configured_server_url": t.serverURL(res.frontAddr),
			"announced_endpoint": res.announced, "request_lines_by_kind": requestLines(res.front)}
	}
}

// requestLines: kind -> the distinct request lines seen for it.
func requestLines(recs []*frontRec) map[string][]string {
	out := map[string][]string{}
	for _, rec := range recs {
		if !contains(out[rec.Kind], rec.Line) {
			out[rec.Kind] = append(out[rec.Kind], rec.Line)
		}
	}
	return out
}
