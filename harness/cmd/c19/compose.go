package main

// Composition pass: client options are not applied "each at most once" but the way applications build
// option lists - a shared base plus per-tenant additions, the same option given 0, 1, 2 or 3 times, in
// different orders, with disjoint and overlapping header keys - and the caller goes on using the header
// objects it handed over. The oracle judges what every reading of "configured" has in common:
//
//   - the LAST instance of an option is in force (whether an earlier instance is overridden by it or
//     combined with it is counted, not judged);
//   - a static header name configured by one header set only is on every request with exactly those values;
//     a name configured by several sets carries at least the values of the last set that names it and
//     nothing that no set configured under that name;
//   - what the caller does to its own http.Header through the map / Header API after the client was built
//     does not change what is sent (an in-place write into a value slice it handed over is only counted).

import (
	"fmt"
	"math/rand"
	"net/http"
	"net/textproto"
	"sort"
	"strings"

	mcp "trpc.group/trpc-go/trpc-mcp-go"
)

const (
	markMutated  = "MUTATED-" // values the caller writes through the map / Header API after construction
	markInPlace  = "INPLACE-" // values the caller writes into the value slices it handed over
	hdrLate      = "X-Verif-Late"
	hdrDecoyPre  = "X-Decoy-Before" // configured only for another client built earlier from the same base options
	hdrDecoyPost = "X-Decoy-After"  // configured only for another client built later from the same base options
)

// optUse is one option in the list handed to NewClient / NewSSEClient.
type optUse struct {
	Opt    string      `json:"option"` // H static headers | B before-request | R request handler | P path | S service name | O handler option
	Ord    int         `json:"ordinal"`
	Hdr    http.Header `json:"headers,omitempty"`
	Nil    bool        `json:"nil_header,omitempty"`
	SameAs int         `json:"same_option_value_as_position,omitempty"` // 1-based position of an earlier H use whose ClientOption value (and header object) is passed again
	Tenant bool        `json:"per_tenant,omitempty"`                    // not part of the shared base
}

type composition struct {
	Name       string   `json:"name"`
	Uses       []optUse `json:"options_in_order"`
	Mutate     string   `json:"caller_mutates_its_headers,omitempty"` // api | in-place
	MutateLate bool     `json:"mutation_after_initialize,omitempty"`
	Decoy      bool     `json:"two_other_clients_built_from_the_shared_base,omitempty"`
	Random     bool     `json:"seeded_random,omitempty"`
}

func hUse(h http.Header) optUse { return optUse{Opt: "H", Hdr: h} }
func hNil() optUse              { return optUse{Opt: "H", Nil: true} }
func hSame(pos int) optUse      { return optUse{Opt: "H", SameAs: pos} }
func use(o string) optUse       { return optUse{Opt: o} }

func compose(name string, uses ...optUse) *composition {
	cp := &composition{Name: name, Uses: uses}
	cp.number()
	return cp
}

// number assigns ordinals and marks the last header set as the per-tenant addition.
func (cp *composition) number() {
	n := map[string]int{}
	lastH := -1
	for i := range cp.Uses {
		n[cp.Uses[i].Opt]++
		cp.Uses[i].Ord = n[cp.Uses[i].Opt]
		cp.Uses[i].Tenant = false
		if cp.Uses[i].Opt == "H" {
			lastH = i
		}
	}
	if lastH >= 0 && n["H"] > 1 {
		cp.Uses[lastH].Tenant = true
	}
}

func (cp *composition) count(opt string) int {
	n := 0
	for _, u := range cp.Uses {
		if u.Opt == opt {
			n++
		}
	}
	return n
}

var famNames = map[string]string{"H": "static-headers", "B": "before-request", "R": "request-handler", "P": "custom-path", "S": "service-name", "O": "handler-option"}

// famTag names the failing class of a composed configuration: which option family, given how many times.
func (cp *composition) famTag(opt string) string {
	if opt == "" {
		return "composed-options"
	}
	return fmt.Sprintf("%s-x%d", famNames[opt], cp.count(opt))
}

func (cp *composition) profile() string {
	var b strings.Builder
	for _, o := range []string{"H", "B", "R", "P", "S", "O"} {
		fmt.Fprintf(&b, "%s%d", o, cp.count(o))
	}
	return b.String()
}

func (cp *composition) cfg() cfg {
	return cfg{H: cp.count("H") > 0, B: cp.count("B") > 0, R: cp.count("R") > 0, P: cp.count("P") > 0, F: cp.count("S")+cp.count("O") > 0}
}

func pathFor(client string, ord int) string {
	if client == clStream {
		return fmt.Sprintf("/custom/mcp-%c", 'w'+ord)
	}
	return fmt.Sprintf("/custom/sse-%c", 'w'+ord)
}

// paths: the paths named by the WithClientPath options, in order.
func (cp *composition) paths(client string) []string {
	var p []string
	for _, u := range cp.Uses {
		if u.Opt == "P" {
			p = append(p, pathFor(client, u.Ord))
		}
	}
	return p
}

func handlerLabel(ord int) string { return fmt.Sprintf("explicit-%d", ord) }
func serviceName(ord int) string  { return fmt.Sprintf("%s-%d", svcName, ord) }
func optionTag(ord int) string    { return fmt.Sprintf("%s-%d", sentinelTag, ord) }

func copyHeader(h http.Header) http.Header {
	if h == nil {
		return nil
	}
	o := make(http.Header, len(h))
	for k, v := range h {
		o[k] = append([]string{}, v...)
	}
	return o
}

func sameHeader(a, b http.Header) bool {
	if (a == nil) != (b == nil) || len(a) != len(b) {
		return false
	}
	for k, v := range a {
		w, ok := b[k]
		if !ok || len(v) != len(w) {
			return false
		}
		for i := range v {
			if v[i] != w[i] {
				return false
			}
		}
	}
	return true
}

func sortedKeys(h http.Header) []string {
	ks := make([]string, 0, len(h))
	for k := range h {
		ks = append(ks, k)
	}
	sort.Strings(ks)
	return ks
}

// builtComp is a composition turned into option values for one run.
type builtComp struct {
	cp      *composition
	opts    []mcp.ClientOption
	base    []mcp.ClientOption // the option values of the shared base (everything but the per-tenant header set), in order
	given   []http.Header      // per use: the header object handed to WithHTTPHeaders
	spec    []http.Header      // per use: what that object held when it was handed over
	restore func()
	inPlace map[string]bool // canonical names whose value slices were written in place
}

func (cp *composition) build(client string, l *runLog) *builtComp {
	b := &builtComp{cp: cp, restore: func() {}, inPlace: map[string]bool{}}
	if cp.count("S")+cp.count("O") > 0 {
		b.restore = installFactory(l)
	}
	b.given = make([]http.Header, len(cp.Uses))
	b.spec = make([]http.Header, len(cp.Uses))
	for i, u := range cp.Uses {
		var o mcp.ClientOption
		switch u.Opt {
		case "H":
			if u.SameAs > 0 {
				o = b.opts[u.SameAs-1]
				b.given[i] = b.given[u.SameAs-1]
				b.spec[i] = b.spec[u.SameAs-1]
				break
			}
			if !u.Nil {
				b.given[i] = copyHeader(u.Hdr)
				if b.given[i] == nil {
					b.given[i] = http.Header{}
				}
				b.spec[i] = copyHeader(b.given[i])
			}
			o = mcp.WithHTTPHeaders(b.given[i])
		case "B":
			o = mcp.WithHTTPBeforeRequest(l.beforeFnN(u.Ord))
		case "R":
			o = mcp.WithHTTPReqHandler(&recHandler{label: handlerLabel(u.Ord), log: l})
		case "P":
			o = mcp.WithClientPath(pathFor(client, u.Ord))
		case "S":
			o = mcp.WithServiceName(serviceName(u.Ord))
		case "O":
			o = mcp.WithHTTPReqHandlerOption(&factoryOpt{Tag: optionTag(u.Ord)})
		default:
			panic("harness: unknown option letter " + u.Opt)
		}
		b.opts = append(b.opts, o)
		if !u.Tenant {
			b.base = append(b.base, o)
		}
	}
	return b
}

// distinct header objects handed over (an object passed twice counts once).
func (b *builtComp) objects() []int {
	var idx []int
	for i, u := range b.cp.Uses {
		if u.Opt == "H" && u.SameAs == 0 && b.given[i] != nil {
			idx = append(idx, i)
		}
	}
	return idx
}

// touched: how many of the caller's header objects no longer hold what they held when handed over.
func (b *builtComp) touched() int {
	n := 0
	for _, i := range b.objects() {
		if !sameHeader(b.given[i], b.spec[i]) {
			n++
		}
	}
	return n
}

// mutate is the caller going on to use the header objects it passed.
func (b *builtComp) mutate(mode string) {
	switch mode {
	case "api":
		for _, i := range b.objects() {
			h := b.given[i]
			for n, k := range sortedKeys(h) {
				switch n % 3 {
				case 0:
					h[k] = []string{markMutated + "set"}
				case 1:
					delete(h, k)
				case 2:
					h[k] = append(h[k], markMutated+"appended")
				}
			}
			h.Set(hdrLate, markMutated+"late-key")
		}
	case "in-place":
		for _, i := range b.objects() {
			h := b.given[i]
			wrote := false
			for _, k := range sortedKeys(h) {
				for x := range h[k] {
					h[k][x] = markInPlace + "written"
					b.inPlace[textproto.CanonicalMIMEHeaderKey(k)] = true
					wrote = true
				}
			}
			if wrote {
				return // one object only: the names of the others stay fully judged
			}
		}
	}
}

// ---------------------------------------------------------------------------------------------
// expectation

type hdrEntry struct {
	Use    int      `json:"option_position"` // 1-based position in the option list
	RawKey string   `json:"key_as_given"`
	Vals   []string `json:"values"`
}

// expect: per canonical header name, the (set, key, values) entries that configure it, in option order;
// zeroValued counts configured keys with no value at all (nothing to carry).
func (cp *composition) expect() (exp map[string][]hdrEntry, zeroValued int) {
	exp = map[string][]hdrEntry{}
	for i, u := range cp.Uses {
		if u.Opt != "H" {
			continue
		}
		h := u.Hdr
		if u.SameAs > 0 {
			h = cp.Uses[u.SameAs-1].Hdr
		}
		for _, k := range sortedKeys(h) {
			if len(h[k]) == 0 {
				zeroValued++
				continue
			}
			name := textproto.CanonicalMIMEHeaderKey(k)
			exp[name] = append(exp[name], hdrEntry{Use: i + 1, RawKey: k, Vals: append([]string{}, h[k]...)})
		}
	}
	return exp, zeroValued
}

// compWatch: names looked at on every request of the composition pass, configured or not.
var compWatch = []string{"X-Base-A", "X-Base-Multi", "X-Tenant-A", "X-Tenant-B", "X-Shared", "X-Mid", "X-Token", "X-Lower-Multi",
	"X-Empty", "X-None", "Authorization", "X-Static-A", "X-Static-B", hdrLate, hdrDecoyPre, hdrDecoyPost}

func subMultiset(a, b []string) bool {
	m := map[string]int{}
	for _, x := range b {
		m[x]++
	}
	for _, x := range a {
		m[x]--
		if m[x] < 0 {
			return false
		}
	}
	return true
}

func hasMark(vals []string, mark string) bool {
	for _, v := range vals {
		if strings.HasPrefix(v, mark) {
			return true
		}
	}
	return false
}

// compHeaders judges the static headers of one request of a composed configuration.
func (j *judge) compHeaders(res *runResult, s *srvRec, exp map[string][]hdrEntry, fail func(fam, symptom, what string)) {
	r := j.r
	cp := res.spec.comp
	afterMut := res.mutatedAt >= 0 && s.N >= res.mutatedAt
	names := map[string]bool{}
	for _, n := range compWatch {
		names[n] = true
	}
	for n := range exp {
		names[n] = true
	}
	var list []string
	for n := range names {
		list = append(list, n)
	}
	sort.Strings(list)
	if afterMut {
		r.Count("comp_requests_judged_after_caller_mutation|"+cp.Mutate, 1)
		r.Count("comp_n_after_caller_mutation|"+res.spec.client+"|"+s.Kind, 1)
	}
	for _, name := range list {
		got := s.Header.Values(name)
		ents := exp[name]
		if hasMark(got, markInPlace) {
			// the value slice handed over is shared with the client: outside what the statement decides
			r.Count("comp_in_place_write_visible_on_request", 1)
			r.SetAdd("comp_in_place_write_visible", res.spec.client+":"+s.Kind)
			continue
		}
		if afterMut && cp.Mutate == "in-place" && res.inPlace[name] {
			r.Count("comp_in_place_write_not_visible_on_request", 1)
		}
		if hasMark(got, markMutated) {
			fail("H", "static-header-follows-caller-mutation", fmt.Sprintf("request carries %s: %q - what the caller wrote into its own http.Header after the client had been built; configured was %s", name, got, entriesString(ents)))
			continue
		}
		switch len(ents) {
		case 0:
			if len(got) == 0 {
				continue
			}
			switch name {
			case hdrDecoyPre, hdrDecoyPost:
				fail("H", "static-header-of-another-client", fmt.Sprintf("request carries %s: %q, which was configured only for another client built from the same base options", name, got))
			default:
				fail("H", "static-header-unconfigured", fmt.Sprintf("request carries %s: %q although no header set configures that name", name, got))
			}
		case 1:
			r.Count("comp_header_names_judged|one-set", 1)
			e := ents[0]
			if e.RawKey != name {
				r.Count("comp_header_names_judged|key-given-in-non-canonical-form", 1)
			}
			if len(e.Vals) > 1 {
				r.Count("comp_header_names_judged|multi-valued", 1)
			}
			switch {
			case !subMultiset(e.Vals, got):
				sym := "static-header-missing"
				if len(e.Vals) == 1 && e.Vals[0] == "" {
					sym = "static-header-missing|empty-value"
				}
				fail("H", sym, fmt.Sprintf("request lacks configured static header %s: %q (option #%d, key given as %q); it has %q", name, e.Vals, e.Use, e.RawKey, got))
			case !subMultiset(got, e.Vals):
				fail("H", "static-header-altered", fmt.Sprintf("request carries %s: %q, configured is %q", name, got, e.Vals))
			default:
				if len(e.Vals) == 1 && e.Vals[0] == "" {
					r.Count("comp_header_names_judged|empty-value-carried", 1)
				}
			}
		default:
			r.Count("comp_header_names_judged|several-sets", 1)
			var union []string
			for _, e := range ents {
				union = append(union, e.Vals...)
			}
			last := ents[len(ents)-1].Use
			finalOK := false
			for _, e := range ents {
				if e.Use == last && subMultiset(e.Vals, got) {
					finalOK = true
				}
			}
			switch {
			case !finalOK:
				fail("H", "static-header-missing|same-name-in-several-sets", fmt.Sprintf("request carries %s: %q; the last header set naming it (option #%d) is overridden by nothing and configures %s", name, got, last, entriesString(ents)))
			case !subMultiset(got, union):
				fail("H", "static-header-altered|same-name-in-several-sets", fmt.Sprintf("request carries %s: %q, configured under that name is only %s", name, got, entriesString(ents)))
			default:
				out := "a-subset-with-the-last"
				switch {
				case sameMultiset(got, union):
					out = "values-merged"
				case sameMultiset(got, ents[len(ents)-1].Vals):
					out = "later-set-wins"
				}
				kind := "same-key"
				if ents[0].RawKey != ents[len(ents)-1].RawKey {
					kind = "keys-differ-in-case"
				}
				if ents[0].Use == last {
					kind += "-within-one-set"
				}
				r.Count("comp_outcome|header|"+kind+"|"+out, 1)
				r.SetAdd("comp_outcomes", res.spec.client+":header:"+kind+":"+out)
			}
		}
	}
}

func entriesString(ents []hdrEntry) string {
	if len(ents) == 0 {
		return "nothing"
	}
	var p []string
	for _, e := range ents {
		p = append(p, fmt.Sprintf("option #%d %s: %q", e.Use, e.RawKey, e.Vals))
	}
	return strings.Join(p, "; ")
}

// ---------------------------------------------------------------------------------------------
// the configurations

func hdr(kv ...string) http.Header {
	h := http.Header{}
	for i := 0; i+1 < len(kv); i += 2 {
		h[kv[i]] = append(h[kv[i]], kv[i+1])
	}
	return h
}

func systematicCompositions() []*composition {
	base := func() http.Header { return hdr("X-Base-A", "base-a", "Authorization", "Bearer base-token") }
	tenant := func() http.Header { return hdr("X-Tenant-A", "tenant-a") }
	multi := func() http.Header {
		return hdr("X-Base-Multi", "m1", "X-Base-Multi", "m2", "X-Base-Multi", "m3", "X-Base-A", "base-a")
	}
	var cs []*composition
	add := func(c *composition) *composition { cs = append(cs, c); return c }

	// static headers 0..3 times, disjoint and overlapping keys
	add(compose("H0+B1R1", use("B"), use("R")))
	add(compose("H1-multi-valued", hUse(multi())))
	add(compose("H2-disjoint", hUse(base()), hUse(tenant())))
	add(compose("H2-disjoint+B1R1P1", hUse(base()), use("B"), use("R"), use("P"), hUse(tenant())))
	add(compose("H3-disjoint", hUse(multi()), hUse(hdr("X-Mid", "mid", "Authorization", "Bearer base-token")), hUse(tenant())))
	add(compose("H2-same-key", hUse(hdr("X-Shared", "shared-base", "X-Base-A", "base-a")), hUse(hdr("X-Shared", "shared-tenant", "X-Tenant-A", "tenant-a"))))
	add(compose("H2-same-key-credential", hUse(base()), hUse(hdr("Authorization", "Bearer tenant-token", "X-Tenant-A", "tenant-a"))))
	add(compose("H3-first-and-last-same-key", hUse(hdr("X-Shared", "shared-1", "X-Base-A", "base-a")), hUse(hdr("X-Mid", "mid")), hUse(hdr("X-Shared", "shared-3"))))
	add(compose("H3-all-same-key-multi-valued", hUse(hdr("X-Shared", "s1a", "X-Shared", "s1b")), hUse(hdr("X-Shared", "s2")), hUse(hdr("X-Shared", "s3a", "X-Shared", "s3b", "X-Tenant-A", "tenant-a"))))
	// canonicalisation
	add(compose("H1-keys-in-non-canonical-form", hUse(hdr("x-token", "tok-lower", "x-lower-multi", "l1", "x-lower-multi", "l2", "X-Base-A", "base-a"))))
	add(compose("H2-keys-differ-in-case", hUse(hdr("x-token", "tok-lower", "X-Base-A", "base-a")), hUse(hdr("X-Token", "tok-canonical", "X-Tenant-A", "tenant-a"))))
	add(compose("H2-keys-differ-in-case-reversed", hUse(hdr("X-Token", "tok-canonical", "X-Base-A", "base-a")), hUse(hdr("x-token", "tok-lower", "x-tenant-a", "tenant-a"))))
	add(compose("H1-keys-differ-in-case-within-one-set", hUse(hdr("x-token", "tok-lower", "X-Token", "tok-canonical", "X-TOKEN", "tok-upper", "X-Base-A", "base-a"))))
	// empty values, keys without values, nil and empty sets
	add(compose("H2-empty-value-and-valueless-key", hUse(http.Header{"X-Empty": {""}, "X-Base-A": {"base-a"}}), hUse(http.Header{"X-None": {}, "X-Tenant-A": {"tenant-a"}})))
	add(compose("H2-nil-set-last", hUse(base()), hNil()))
	add(compose("H2-nil-set-first", hNil(), hUse(base())))
	add(compose("H3-nil-set-in-the-middle", hUse(base()), hNil(), hUse(tenant())))
	add(compose("H3-empty-set-last", hUse(base()), hUse(tenant()), hUse(http.Header{})))
	add(compose("H3-empty-set-first", hUse(http.Header{}), hUse(base()), hUse(tenant())))
	// the same option value / header object twice
	add(compose("H2-same-object-twice", hUse(multi()), hSame(1)))
	add(compose("H3-same-object-around-another", hUse(base()), hUse(tenant()), hSame(1)))
	// the caller goes on using its header objects
	c := add(compose("H1+caller-mutates-after-NewClient", hUse(multi())))
	c.Mutate = "api"
	c = add(compose("H2+caller-mutates-after-NewClient", hUse(base()), use("B"), hUse(hdr("X-Tenant-A", "tenant-a", "X-Tenant-B", "tenant-b", "X-Shared", "shared-tenant"))))
	c.Mutate = "api"
	c = add(compose("H2+caller-mutates-after-Initialize", hUse(multi()), use("R"), hUse(hdr("X-Tenant-A", "tenant-a", "x-token", "tok-lower"))))
	c.Mutate, c.MutateLate = "api", true
	c = add(compose("H3+caller-mutates-after-Initialize", hUse(base()), hUse(hdr("X-Mid", "mid")), hUse(tenant())))
	c.Mutate, c.MutateLate = "api", true
	c = add(compose("H2+caller-writes-value-slices-in-place", hUse(multi()), hUse(tenant())))
	c.Mutate = "in-place"
	c = add(compose("H1+caller-writes-value-slices-in-place-after-Initialize", hUse(base()), use("B")))
	c.Mutate, c.MutateLate = "in-place", true
	// a shared base used for several clients
	c = add(compose("H2-shared-base-three-clients", hUse(base()), use("B"), hUse(tenant())))
	c.Decoy = true
	c = add(compose("H1-shared-base-three-clients", hUse(multi()), use("R")))
	c.Decoy = true
	c = add(compose("H3-shared-base-three-clients+caller-mutates", hUse(base()), hUse(hdr("X-Mid", "mid")), use("S"), use("O"), hUse(tenant())))
	c.Decoy, c.Mutate = true, "api"
	// before-request, request handler, path, service name, handler option more than once
	add(compose("B2", use("B"), use("B")))
	add(compose("B3+H1", use("B"), hUse(base()), use("B"), use("B")))
	add(compose("R2", use("R"), use("R")))
	add(compose("R3+B1", use("R"), use("B"), use("R"), use("R")))
	add(compose("R2+S1O1", use("R"), use("S"), use("O"), use("R")))
	add(compose("P2", use("P"), use("P")))
	add(compose("P3+R1", use("P"), use("R"), use("P"), use("P")))
	add(compose("P1+R1+H2+B2", use("P"), use("R"), hUse(base()), use("B"), hUse(tenant()), use("B")))
	add(compose("S2+O2", use("S"), use("O"), use("S"), use("O")))
	add(compose("O3+S1", use("O"), use("O"), use("S"), use("O")))
	add(compose("O2-without-service-name", use("O"), use("O")))
	add(compose("S2-without-handler-option", use("S"), use("S")))
	// everything twice / three times, two orders
	add(compose("all-twice", hUse(base()), use("B"), use("R"), use("P"), use("S"), use("O"), hUse(tenant()), use("B"), use("R"), use("P"), use("S"), use("O")))
	add(compose("all-twice-reversed", use("O"), use("S"), use("P"), use("R"), use("B"), hUse(tenant()), use("O"), use("S"), use("P"), use("R"), use("B"), hUse(base())))
	add(compose("all-twice-but-handler", hUse(base()), use("B"), use("P"), use("S"), use("O"), hUse(tenant()), use("B"), use("P"), use("S"), use("O")))
	add(compose("all-three-times", hUse(multi()), hUse(hdr("X-Mid", "mid", "X-Shared", "shared-2")), hUse(hdr("X-Tenant-A", "tenant-a", "X-Shared", "shared-3")),
		use("B"), use("B"), use("B"), use("R"), use("R"), use("R"), use("P"), use("P"), use("P"), use("S"), use("S"), use("O"), use("O"), use("O")))
	return cs
}

var compPool = []string{"X-Base-A", "X-Tenant-A", "X-Tenant-B", "X-Shared", "X-Shared", "X-Mid", "x-token", "X-Token", "X-Base-Multi", "x-lower-multi", "X-Empty", "Authorization"}

func weighted(rng *rand.Rand, w ...int) int {
	t := 0
	for _, x := range w {
		t += x
	}
	n := rng.Intn(t)
	for i, x := range w {
		if n < x {
			return i
		}
		n -= x
	}
	return 0
}

// randomComposition: every option 0..3 times (static headers mostly 2 or 3), header sets drawn from a small key
// pool so that names collide, values unique per (set, key), options in seeded random order.
func randomComposition(rng *rand.Rand, idx int) *composition {
	var uses []optUse
	nH := weighted(rng, 1, 2, 5, 5)
	for s := 0; s < nH; s++ {
		switch x := rng.Intn(20); {
		case x == 0:
			uses = append(uses, hNil())
			continue
		case x == 1 && s > 0:
			// the same option value again
			pos := 0
			for i, u := range uses {
				if u.Opt == "H" && !u.Nil && u.SameAs == 0 {
					pos = i + 1
				}
			}
			if pos > 0 {
				uses = append(uses, hSame(pos))
				continue
			}
		}
		h := http.Header{}
		for k := rng.Intn(5); k > 0; k-- {
			key := compPool[rng.Intn(len(compPool))]
			if _, dup := h[key]; dup {
				continue
			}
			switch y := rng.Intn(10); {
			case key == "X-Empty" || y == 0:
				h[key] = []string{""}
			case y < 4:
				h[key] = []string{fmt.Sprintf("v%d-a", s+1), fmt.Sprintf("v%d-b", s+1)}
			default:
				h[key] = []string{fmt.Sprintf("v%d", s+1)}
			}
		}
		uses = append(uses, hUse(h))
	}
	for _, o := range []struct {
		opt string
		w   []int
	}{{"B", []int{2, 3, 3, 1}}, {"R", []int{4, 3, 2, 1}}, {"P", []int{4, 3, 2, 1}}, {"S", []int{4, 2, 2}}, {"O", []int{4, 2, 2, 1}}} {
		for n := weighted(rng, o.w...); n > 0; n-- {
			uses = append(uses, use(o.opt))
		}
	}
	// seeded order; SameAs positions must keep pointing at an earlier use, so those are re-inserted afterwards
	var same []optUse
	var rest []optUse
	for _, u := range uses {
		if u.SameAs > 0 {
			same = append(same, u)
		} else {
			rest = append(rest, u)
		}
	}
	rng.Shuffle(len(rest), func(i, j int) { rest[i], rest[j] = rest[j], rest[i] })
	for range same {
		pos := 0
		for i, u := range rest {
			if u.Opt == "H" && !u.Nil && u.SameAs == 0 {
				pos = i + 1
			}
		}
		if pos == 0 {
			continue
		}
		at := pos + rng.Intn(len(rest)-pos+1)
		// positions of earlier uses are unchanged by inserting behind them
		rest = append(rest[:at], append([]optUse{hSame(pos)}, rest[at:]...)...)
	}
	cp := &composition{Name: fmt.Sprintf("random-%d", idx), Uses: rest, Random: true}
	cp.number()
	cp.Name += ":" + cp.profile()
	switch weighted(rng, 5, 4, 1) {
	case 1:
		cp.Mutate = "api"
	case 2:
		cp.Mutate = "in-place"
	}
	if cp.count("H") == 0 {
		cp.Mutate = ""
	}
	cp.MutateLate = rng.Intn(2) == 0
	cp.Decoy = rng.Intn(3) == 0
	return cp
}

// compHistory: the canonical history, the caller's mutation where the composition puts it, a call vetoed by
// before-request and a call answered 503 (each retried), and for the Streamable client terminate, Close +
// Initialize again, and more traffic in the second session.
func compHistory(client string, cp *composition) []step {
	var h []step
	if cp.Mutate != "" && !cp.MutateLate {
		h = append(h, step{Kind: "mutate"})
	}
	h = append(h, step{Kind: "init"})
	if cp.Mutate != "" && cp.MutateLate {
		h = append(h, step{Kind: "op", Op: "tools/list"}, step{Kind: "mutate"})
	}
	for _, o := range sixOps {
		h = append(h, step{Kind: "op", Op: o})
	}
	h = append(h, step{Kind: "notify"}, step{Kind: "provider"}, step{Kind: "push-roots"}, step{Kind: "push-unknown"})
	if cp.count("B") > 0 {
		h = append(h, step{Kind: "fail", Op: "tools/call", Fail: "veto"}, step{Kind: "fail", Op: "notify", Fail: "veto"})
	}
	h = append(h, step{Kind: "fail", Op: "prompts/list", Fail: "503"})
	if client == clStream {
		h = append(h, step{Kind: "terminate"}, step{Kind: "reinit"}, step{Kind: "op", Op: "tools/list"}, step{Kind: "push-roots"}, step{Kind: "notify"}, step{Kind: "terminate"})
	}
	return h
}

// compRandomHistory: a seeded random history with the caller's mutation and one vetoed call put in.
func compRandomHistory(client string, cp *composition, rng *rand.Rand) []step {
	h := randomHistory(client, rng)
	insert := func(at int, s step) {
		h = append(h[:at], append([]step{s}, h[at:]...)...)
	}
	if cp.count("B") > 0 {
		insert(1+rng.Intn(len(h)-1), step{Kind: "fail", Op: sixOps[rng.Intn(len(sixOps))], Fail: "veto"})
	}
	if cp.Mutate != "" {
		if cp.MutateLate {
			insert(1+rng.Intn(3), step{Kind: "mutate"})
		} else {
			insert(0, step{Kind: "mutate"})
		}
	}
	return h
}
