package main

// Recording request handler, recording before-request function and recording NewHTTPReqHandler
// factory. Each tags the request it sees so that the three logs (server, handler, before-request)
// join one-to-one per HTTP request.

import (
	"context"
	"errors"
	"io"
	"net"
	"net/http"
	"strconv"
	"sync"
	"time"

	mcp "trpc.group/trpc-go/trpc-mcp-go"
)

type tokenKey struct{}

func withToken(tok string) context.Context {
	return context.WithValue(context.Background(), tokenKey{}, tok)
}

func tokenOf(ctx context.Context) string {
	if ctx == nil {
		return "<nil ctx>"
	}
	s, ok := ctx.Value(tokenKey{}).(string)
	if !ok {
		return "<none>"
	}
	return s
}

var errBoom = errors.New("verif-before-request-boom-7f3a91")

const (
	hdrSeq     = "X-Verif-Seq"
	hdrHandler = "X-Verif-Handler"
	hdrBefore  = "X-Verif-Before"
	hdrCtx     = "X-Verif-Ctx" // added by before-request: the token found in the context it was handed
)

type beforeRec struct {
	N      int    `json:"n"`
	Token  string `json:"ctx_token"`
	Method string `json:"method"`
	URL    string `json:"url"`
	Kind   string `json:"kind"`
	CurOp  int    `json:"current_operation"`      // index of the operation the harness was executing (-1: none)
	HS     string `json:"latest_handshake_token"` // token of the most recently started Initialize call
	Failed bool   `json:"returned_error"`
	Fn     int    `json:"before_request_function,omitempty"` // composition pass: ordinal of the WithHTTPBeforeRequest function that ran (0: the only one)
}

type handlerRec struct {
	Seq       int      `json:"seq"`
	Label     string   `json:"handler"` // explicit | factory
	Token     string   `json:"ctx_token"`
	Method    string   `json:"method"`
	URL       string   `json:"url"`
	Kind      string   `json:"kind"`
	CurOp     int      `json:"current_operation"`
	HS        string   `json:"latest_handshake_token"`
	Before    []string `json:"before_tags,omitempty"` // X-Verif-Before values already on the request
	ClientNil bool     `json:"http_client_nil,omitempty"`
	Err       string   `json:"err,omitempty"`
	Done      bool     `json:"returned"`
}

type factoryCall struct {
	ServiceName string   `json:"service_name"`
	NOptions    int      `json:"n_options"`
	Sentinels   int      `json:"sentinel_options"`      // how many of the options are the configured one
	Tags        []string `json:"option_tags,omitempty"` // tags of all harness options received, in order
}

// factoryOpt is the value passed through WithHTTPReqHandlerOption.
type factoryOpt struct{ Tag string }

// runLog collects the client-side logs of one run.
type runLog struct {
	client    string
	failAt    int    // before-request returns errBoom on its failAt-th invocation (0: never)
	vetoToken string // before-request returns errBoom whenever the context carries this token ("": never)

	mu      sync.Mutex
	seq     int
	bef     int
	curOp   int
	hs      string          // token of the most recently started Initialize call
	vetoed  map[string]bool // further context tokens before-request answers with errBoom
	before  []*beforeRec
	handler []*handlerRec
	factory []factoryCall

	tr *http.Transport
	hc *http.Client
}

// dialResetOnClose dials like net.Dialer but makes the client socket send a reset when it is closed: a
// connection the client closes first (cancelled event stream, Close) then leaves no TIME_WAIT entry behind.
// The thousands of short-lived clients of one run would otherwise use up the machine's ephemeral ports.
func dialResetOnClose(ctx context.Context, network, addr string) (net.Conn, error) {
	c, err := (&net.Dialer{Timeout: 10 * time.Second}).DialContext(ctx, network, addr)
	if tc, ok := c.(*net.TCPConn); ok && err == nil {
		_ = tc.SetLinger(0)
	}
	return c, err
}

func newRunLog(client string, failAt int) *runLog {
	tr := &http.Transport{
		DialContext:         dialResetOnClose,
		MaxIdleConns:        16,
		MaxIdleConnsPerHost: 16,
		IdleConnTimeout:     30 * time.Second,
		DisableCompression:  true,
	}
	return &runLog{client: client, failAt: failAt, curOp: -1, tr: tr, hc: &http.Client{Transport: tr}}
}

func (l *runLog) closeIdle() { l.tr.CloseIdleConnections() }

func (l *runLog) setCurOp(i int) {
	l.mu.Lock()
	l.curOp = i
	l.mu.Unlock()
}

func (l *runLog) setHandshake(tok string) {
	l.mu.Lock()
	l.hs = tok
	l.mu.Unlock()
}

// veto makes before-request return errBoom for every request whose context carries tok.
func (l *runLog) veto(tok string) {
	l.mu.Lock()
	if l.vetoed == nil {
		l.vetoed = map[string]bool{}
	}
	l.vetoed[tok] = true
	l.mu.Unlock()
}

func peekBody(req *http.Request) []byte {
	if req.GetBody == nil {
		return nil
	}
	rc, err := req.GetBody()
	if err != nil {
		return nil
	}
	defer rc.Close()
	b, _ := io.ReadAll(rc)
	return b
}

// beforeFn is the recording WithHTTPBeforeRequest function.
func (l *runLog) beforeFn(ctx context.Context, req *http.Request) error {
	return l.beforeN(0, ctx, req)
}

// beforeFnN is the fn-th of several recording WithHTTPBeforeRequest functions (composition pass).
func (l *runLog) beforeFnN(fn int) mcp.HTTPBeforeRequestFunc {
	return func(ctx context.Context, req *http.Request) error { return l.beforeN(fn, ctx, req) }
}

func (l *runLog) beforeN(fn int, ctx context.Context, req *http.Request) error {
	kind, _ := classify(l.client, req.Method, peekBody(req))
	l.mu.Lock()
	l.bef++
	n := l.bef
	tok := tokenOf(ctx)
	rec := &beforeRec{N: n, Fn: fn, Token: tok, Method: req.Method, URL: req.URL.String(), Kind: kind, CurOp: l.curOp, HS: l.hs,
		Failed: n == l.failAt || (l.vetoToken != "" && tok == l.vetoToken) || l.vetoed[tok]}
	l.before = append(l.before, rec)
	l.mu.Unlock()
	// Like a credential / trace injector: ADD this request's values (a request that already carries some
	// shows them next to its own at the server).
	req.Header.Add(hdrBefore, strconv.Itoa(n))
	req.Header.Add(hdrCtx, tok)
	if rec.Failed {
		return errBoom
	}
	return nil
}

// failedAfter reports whether a before-request invocation later than the n-th returned the error for a
// request whose kind satisfies pred.
func (l *runLog) failedAfter(n int, pred func(kind string) bool) bool {
	l.mu.Lock()
	defer l.mu.Unlock()
	for i := len(l.before) - 1; i >= 0 && l.before[i].N > n; i-- {
		if l.before[i].Failed && pred(l.before[i].Kind) {
			return true
		}
	}
	return false
}

func (l *runLog) snapshot() ([]*beforeRec, []*handlerRec, []factoryCall) {
	l.mu.Lock()
	defer l.mu.Unlock()
	bs := make([]*beforeRec, len(l.before))
	for i, b := range l.before {
		c := *b
		bs[i] = &c
	}
	hs := make([]*handlerRec, len(l.handler))
	for i, h := range l.handler {
		c := *h
		hs[i] = &c
	}
	return bs, hs, append([]factoryCall{}, l.factory...)
}

// recHandler is the recording mcp.HTTPReqHandler: it tags the request and performs it with its own client.
type recHandler struct {
	label string
	log   *runLog
}

func (h *recHandler) Handle(ctx context.Context, client *http.Client, req *http.Request) (*http.Response, error) {
	l := h.log
	kind, _ := classify(l.client, req.Method, peekBody(req))
	l.mu.Lock()
	l.seq++
	rec := &handlerRec{Seq: l.seq, Label: h.label, Token: tokenOf(ctx), Method: req.Method, URL: req.URL.String(), Kind: kind, CurOp: l.curOp, HS: l.hs,
		Before: append([]string{}, req.Header.Values(hdrBefore)...), ClientNil: client == nil}
	l.handler = append(l.handler, rec)
	l.mu.Unlock()
	req2 := req.Clone(ctx)
	req2.Header.Add(hdrSeq, strconv.Itoa(rec.Seq))
	req2.Header.Add(hdrHandler, h.label)
	resp, err := l.hc.Do(req2)
	l.mu.Lock()
	rec.Done = true
	if err != nil {
		rec.Err = err.Error()
	}
	l.mu.Unlock()
	return resp, err
}

const (
	svcName     = "verif-service-c19"
	sentinelTag = "verif-handler-option"
)

// installFactory overrides the package variable mcp.NewHTTPReqHandler with a recording factory and
// returns the function that restores the previous value.
func installFactory(l *runLog) func() {
	orig := mcp.NewHTTPReqHandler
	mcp.NewHTTPReqHandler = func(serviceName string, options ...mcp.HTTPReqHandlerOption) mcp.HTTPReqHandler {
		fc := factoryCall{ServiceName: serviceName, NOptions: len(options)}
		for _, o := range options {
			if fo, ok := o.(*factoryOpt); ok && fo != nil {
				fc.Tags = append(fc.Tags, fo.Tag)
				if fo.Tag == sentinelTag {
					fc.Sentinels++
				}
			}
		}
		l.mu.Lock()
		l.factory = append(l.factory, fc)
		l.mu.Unlock()
		return &recHandler{label: "factory", log: l}
	}
	return func() { mcp.NewHTTPReqHandler = orig }
}
