// C19 — client-side customisation applies to every outbound HTTP request.
//
// A recording reference server (refserver.go), a recording request handler, a recording
// before-request function and a recording NewHTTPReqHandler factory (recorders.go) observe every HTTP
// request the library's Streamable and legacy SSE clients emit under all 32 combinations of the
// customisation options; the oracle in this file judges each request as seen AT THE SERVER.
package main

import (
	"context"
	"errors"
	"fmt"
	"math/rand"
	"net/http"
	"strconv"
	"strings"
	"time"

	mcp "trpc.group/trpc-go/trpc-mcp-go"

	"verifharness/lib/kit"
	"verifharness/lib/vh"
)

// ---------------------------------------------------------------------------------------------
// configurations

type cfg struct{ H, B, R, P, F bool }

func cfgOf(mask int) cfg {
	return cfg{H: mask&1 != 0, B: mask&2 != 0, R: mask&4 != 0, P: mask&8 != 0, F: mask&16 != 0}
}

func (c cfg) mask() int {
	m := 0
	for i, b := range []bool{c.H, c.B, c.R, c.P, c.F} {
		if b {
			m |= 1 << uint(i)
		}
	}
	return m
}

func (c cfg) String() string {
	var p []string
	for i, b := range []bool{c.H, c.B, c.R, c.P, c.F} {
		if b {
			p = append(p, []string{"static-headers", "before-request", "request-handler", "custom-path", "service-name+handler-option+factory"}[i])
		}
	}
	if len(p) == 0 {
		return "no customisation"
	}
	return strings.Join(p, " + ")
}

var staticHeaders = http.Header{
	"X-Static-A":    {"alpha"},
	"X-Static-B":    {"b1", "b2"},
	"Authorization": {"Bearer verif-static-token"},
}

// ---------------------------------------------------------------------------------------------
// histories

type step struct {
	Kind string // init | init-fail | op | notify | provider | push-roots | push-unknown | terminate | reinit | fail
	Op   string // for Kind == op: the request method; for Kind == fail: the operation that fails and is retried
	Fail string // for Kind == fail: "503" (the server answers the next request 503) | "veto" (before-request refuses the call's context)
	Auto bool   // inserted by the harness while executing (see execute), not part of the generated history
}

// successionKinds: the alphabet of the succession histories. "reinit" is Close + Initialize on the same client
// object (only the Streamable client can be initialised again after Close); "fail-503" / "fail-veto" are an
// operation that fails (scripted) followed by the same operation retried under a new context.
func successionKinds(client string) []string {
	k := append([]string{}, sixOps...)
	k = append(k, "notify", "push-roots", "push-unknown", "terminate", "fail-503", "fail-veto")
	if client == clStream {
		k = append(k, "reinit")
	}
	return k
}

// eulerCircuit returns a seeded random Euler circuit of the complete directed graph with loops on n vertices:
// a vertex sequence of length n*n+1 in which every ordered pair (a,b), a==b included, is adjacent exactly once.
func eulerCircuit(n int, rng *rand.Rand) []int {
	adj := make([][]int, n)
	for i := range adj {
		adj[i] = rng.Perm(n)
	}
	stack := []int{rng.Intn(n)}
	var circuit []int
	for len(stack) > 0 {
		v := stack[len(stack)-1]
		if k := len(adj[v]); k > 0 {
			stack = append(stack, adj[v][k-1])
			adj[v] = adj[v][:k-1]
		} else {
			circuit = append(circuit, v)
			stack = stack[:len(stack)-1]
		}
	}
	for i, j := 0, len(circuit)-1; i < j; i, j = i+1, j-1 {
		circuit[i], circuit[j] = circuit[j], circuit[i]
	}
	return circuit
}

// successionHistory: Initialize, then a history in which every operation kind is directly followed by every
// operation kind (itself included) once, all on one client object.
func successionHistory(client string, rng *rand.Rand) []step {
	kinds := successionKinds(client)
	failable := append(append([]string{}, sixOps...), "notify")
	if client == clStream {
		failable = append(failable, "terminate")
	}
	h := []step{{Kind: "init"}}
	for _, v := range eulerCircuit(len(kinds), rng) {
		switch k := kinds[v]; k {
		case "notify", "push-roots", "push-unknown", "terminate", "reinit":
			h = append(h, step{Kind: k})
		case "fail-503", "fail-veto":
			h = append(h, step{Kind: "fail", Op: failable[rng.Intn(len(failable))], Fail: strings.TrimPrefix(k, "fail-")})
		default:
			h = append(h, step{Kind: "op", Op: k})
		}
	}
	return h
}

// kindName: the alphabet letter of a step.
func (s step) kindName() string {
	switch s.Kind {
	case "op":
		return s.Op
	case "fail":
		return "fail-" + s.Fail
	}
	return s.Kind
}

var sixOps = []string{"tools/list", "tools/call", "prompts/list", "prompts/get", "resources/list", "resources/read"}

func canonicalHistory(client string) []step {
	h := []step{{Kind: "init"}}
	for _, o := range sixOps {
		h = append(h, step{Kind: "op", Op: o})
	}
	h = append(h, step{Kind: "notify"}, step{Kind: "provider"}, step{Kind: "push-roots"}, step{Kind: "push-unknown"})
	if client == clStream {
		h = append(h, step{Kind: "terminate"})
	}
	return h
}

func randomHistory(client string, rng interface{ Intn(int) int }) []step {
	h := []step{{Kind: "init"}}
	n := 8 + rng.Intn(15)
	for i := 0; i < n; i++ {
		switch x := rng.Intn(12); {
		case x < 7:
			h = append(h, step{Kind: "op", Op: sixOps[rng.Intn(len(sixOps))]})
		case x < 8:
			h = append(h, step{Kind: "notify"})
		case x < 9:
			h = append(h, step{Kind: "provider"})
		case x < 11:
			h = append(h, step{Kind: "push-roots"})
		default:
			h = append(h, step{Kind: "push-unknown"})
		}
	}
	if client == clStream && rng.Intn(7) != 0 {
		h = append(h, step{Kind: "terminate"})
	}
	return h
}

// retryHistory: a first handshake that fails, then the given history (which starts with the second handshake).
func retryHistory(rest []step) []step {
	return append([]step{{Kind: "init-fail"}}, rest...)
}

func histString(h []step) string {
	var p []string
	for _, s := range h {
		n := s.Kind
		switch {
		case s.Kind == "op":
			n = s.Op
		case s.Kind == "fail":
			n = "fail-" + s.Fail + "(" + s.Op + ")+retry"
		case s.Auto:
			n = "auto-" + s.Kind
		}
		p = append(p, n)
	}
	return strings.Join(p, ",")
}

// ---------------------------------------------------------------------------------------------
// one run

type runSpec struct {
	client string
	cfg    cfg
	failAt int
	retry  string // "": plain history; "503" | "veto" | "refuse": how the first handshake of a retry history fails
	hist   []step
	label  string       // canonical | random-<n> | succession-<n> | composed-<name>
	comp   *composition // composition pass: the option list replaces the one derived from cfg (cfg then only says which families are present)
	tgt    *tgtSpec     // target pass (target.go): server URL form, path option and header-adding options; a raw front records the request lines
}

// stepRec is one executed step of a history.
type stepRec struct {
	Kind    string // alphabet letter (kindName)
	Prev    string // letter of the step executed before it
	Auto    bool
	Skipped bool // nothing was attempted (server push without an open stream)
	SrvFrom int  // server log range of the step
	SrvTo   int
	Live    bool // Streamable: the harness believed a session id to be current when the step began
}

type opRec struct {
	Idx      int    `json:"idx"`
	Name     string `json:"call"`
	Kind     string `json:"request_kind"`
	Token    string `json:"ctx_token"`
	From     int    `json:"server_log_from"`
	To       int    `json:"server_log_to"`
	Err      string `json:"err,omitempty"`
	Scripted string `json:"scripted_failure,omitempty"`        // the harness made this call fail: 503 | veto
	NoSess   bool   `json:"no_session_to_terminate,omitempty"` // TerminateSession while no session id is current
	HasBoom  bool   `json:"err_carries_before_request_error,omitempty"`
	Deadline bool   `json:"watchdog,omitempty"`
}

type runResult struct {
	spec       runSpec
	served     string
	msgPath    string
	sid        string
	srv        []*srvRec
	before     []*beforeRec
	handler    []*handlerRec
	factory    []factoryCall
	ops        []*opRec
	steps      []*stepRec
	executed   []step
	pushes     int
	answered   int
	newErr     string
	watchdogs  []string
	initFailed bool
	hsTok      string // context token of the handshake that succeeded ("": none did)
	staleTok   string // context token of the failed first handshake of a retry history
	broken     string // the scripted failure of the first handshake did not happen
	noStream   bool   // Streamable: no listening-stream GET followed the successful handshake

	// composition pass
	alts       []string        // every path named by a WithClientPath option (the server serves them all; the last is "served")
	mutatedAt  int             // server log length when the caller mutated its header objects (-1: it did not)
	libTouched int             // caller's header objects that no longer held what was handed over once the client(s) were built
	inPlace    map[string]bool // canonical header names whose value slices the caller wrote in place
	decoys     int             // other clients built from the shared base options

	// target pass
	front         []*frontRec // every request as it arrived at the raw fronting server
	frontProblems []string
	frontAddr     string
	announced     []string // legacy: the endpoint event data the reference server sent
}

type rootsProv struct{ roots []mcp.Root }

func (p rootsProv) GetRoots() []mcp.Root { return p.roots }

const watchdog = 10 * time.Second

func waitUntil(cond func() bool) bool { return waitFor(watchdog, cond) }

func waitFor(d time.Duration, cond func() bool) bool {
	deadline := time.Now().Add(d)
	for {
		if cond() {
			return true
		}
		if time.Now().After(deadline) {
			return false
		}
		time.Sleep(200 * time.Microsecond)
	}
}

var runCounter int

func execute(sp runSpec) *runResult {
	runCounter++
	c := sp.cfg
	res := &runResult{spec: sp, sid: fmt.Sprintf("sess-%d-%dx", runCounter, c.mask()), mutatedAt: -1}
	cp := sp.comp
	urlPath := ""
	if sp.client == clStream {
		res.served, urlPath = "/mcp", "/mcp"
		if c.P {
			res.served = "/custom/mcp-x"
		}
	} else {
		res.served, res.msgPath, urlPath = "/sse", "/message", "/sse"
		if c.P {
			res.served, res.msgPath = "/custom/sse-x", "/custom/msg-x"
		}
	}
	res.alts = []string{res.served}
	if cp != nil && c.P {
		res.alts = cp.paths(sp.client)
		res.served = res.alts[len(res.alts)-1]
	}
	prefix := fmt.Sprintf("r%d/", runCounter) // tokens are unique per run: a value leaking from an earlier client is visible
	srv := newRefServer(sp.client, res.served, res.msgPath, res.sid)
	srv.alt = map[string]bool{}
	for _, p := range res.alts {
		srv.alt[p] = true
	}
	var fr *front
	if sp.tgt != nil {
		srv.announce = func(sid string) string { return sp.tgt.announce(fr.addr, sid) }
	}
	if sp.retry == "refuse" {
		if e := srv.reserve(); e != nil {
			res.newErr = "reserve address: " + e.Error()
			return res
		}
	} else {
		srv.start()
	}
	if sp.retry == "503" {
		srv.setFail503(1)
	}
	l := newRunLog(sp.client, sp.failAt)
	if sp.retry == "veto" {
		l.vetoToken = prefix + "attempt-1"
	}
	if sp.tgt != nil {
		var e error
		if fr, e = startFront(sp.client, srv.base()); e != nil {
			res.newErr = "fronting server: " + e.Error()
			srv.close()
			return res
		}
		res.frontAddr = fr.addr
	}
	defer func() {
		if fr != nil {
			fr.close()
		}
		srv.close()
		l.closeIdle()
		if tr, ok := http.DefaultTransport.(*http.Transport); ok {
			tr.CloseIdleConnections()
		}
	}()

	opts := []mcp.ClientOption{mcp.WithClientLogger(kit.Quiet{})}
	var built *builtComp
	if cp != nil {
		built = cp.build(sp.client, l)
		defer built.restore()
		opts = append(opts, built.opts...)
		c = cfg{} // the option list is complete
	}
	if c.H {
		opts = append(opts, mcp.WithHTTPHeaders(staticHeaders.Clone()))
	}
	if c.B {
		opts = append(opts, mcp.WithHTTPBeforeRequest(l.beforeFn))
	}
	if c.R {
		opts = append(opts, mcp.WithHTTPReqHandler(&recHandler{label: "explicit", log: l}))
	}
	if c.P {
		opts = append(opts, mcp.WithClientPath(res.served))
	}
	if c.F {
		restore := installFactory(l)
		defer restore()
		opts = append(opts, mcp.WithServiceName(svcName), mcp.WithHTTPReqHandlerOption(&factoryOpt{Tag: sentinelTag}))
	}
	c = sp.cfg
	serverURL := srv.base() + urlPath
	if sp.tgt != nil {
		opts = append(opts, sp.tgt.options(l)...)
		serverURL = sp.tgt.serverURL(fr.addr)
	}
	newClient := func(o []mcp.ClientOption) (*mcp.Client, error) {
		if sp.client == clStream {
			return mcp.NewClient(serverURL, kit.ClientInfo, o...)
		}
		return mcp.NewSSEClient(serverURL, kit.ClientInfo, o...)
	}
	// Shared base: another tenant's client is built from the same base option VALUES (plus its own header set)
	// before and after the client under observation; neither ever sends anything.
	decoy := func(name string) bool {
		o := append([]mcp.ClientOption{mcp.WithClientLogger(kit.Quiet{})}, built.base...)
		o = append(o, mcp.WithHTTPHeaders(http.Header{name: {"other-tenant"}, "X-Shared": {"other-tenant-shared"}}))
		d, e := newClient(o)
		if e != nil {
			res.newErr = "decoy client: " + e.Error()
			return false
		}
		res.decoys++
		defer func() { _ = d.Close() }()
		return true
	}
	if built != nil && cp.Decoy && !decoy(hdrDecoyPre) {
		return res
	}
	cl, err := newClient(opts)
	if err != nil {
		res.newErr = err.Error()
		return res
	}
	if built != nil {
		if cp.Decoy && !decoy(hdrDecoyPost) {
			return res
		}
		res.libTouched = built.touched()
		res.inPlace = built.inPlace
	}

	nextVeto := false // the next call's context is refused by before-request
	call := func(name, kind string, fn func(ctx context.Context) error) *opRec {
		idx := len(res.ops)
		tok := fmt.Sprintf("%sop-%d", prefix, idx)
		if name == "Initialize" {
			tok = prefix + "handshake"
			if sp.retry != "" || idx > 0 {
				tok = fmt.Sprintf("%sattempt-%d", prefix, idx+1)
			}
			l.setHandshake(tok)
		}
		op := &opRec{Idx: idx, Name: name, Kind: kind, Token: tok, From: srv.count()}
		if nextVeto {
			nextVeto = false
			op.Scripted = "veto"
			l.veto(tok)
		}
		res.ops = append(res.ops, op)
		l.setCurOp(idx)
		ctx, cancel := context.WithTimeout(withToken(tok), 15*time.Second)
		e := fn(ctx)
		cancel()
		l.setCurOp(-1)
		op.To = srv.count()
		if e != nil {
			op.Err = e.Error()
			op.HasBoom = errors.Is(e, errBoom) || strings.Contains(e.Error(), errBoom.Error())
			op.Deadline = errors.Is(e, context.DeadlineExceeded) || strings.Contains(e.Error(), "deadline exceeded")
		}
		return op
	}
	befCount := func() int { l.mu.Lock(); defer l.mu.Unlock(); return l.bef }

	streamUp := false
	// Harness-side model of the Streamable session (only steers the history; the oracle reads the server log).
	everInit, sessionLive, deadSteps := false, false, 0
	nextID := 9001
	providerOn := false

	doInit := func() {
		b0 := befCount()
		op := call("Initialize", "initialize", func(ctx context.Context) error {
			_, e := cl.Initialize(ctx, &mcp.InitializeRequest{})
			return e
		})
		if op.Err != "" {
			res.initFailed = true
			return
		}
		res.hsTok = op.Token
		everInit, sessionLive, deadSteps = true, true, 0
		if sp.client == clLegacy {
			streamUp = srv.streamOpen()
			return
		}
		// Streamable: the listening stream is opened in the background after the handshake.
		grace := watchdog
		if sp.retry == "503" {
			// An initialize answered without a session id (here: the 503) makes the client switch its
			// listening stream off for good; whether a GET follows the retried handshake is outside the
			// statement, so its absence only shortens the history (no pushes), it is not judged.
			grace = 300 * time.Millisecond
		}
		ok := waitFor(grace, func() bool {
			if l.failedAfter(b0, func(k string) bool { return k == kGetStream }) {
				return true
			}
			answered, _ := srv.streamSince(op.From)
			return answered
		})
		if !ok && sp.retry == "503" {
			res.noStream = true
		} else if !ok {
			res.watchdogs = append(res.watchdogs, "the listening-stream GET was never observed after Initialize")
		}
		_, streamUp = srv.streamSince(op.From)
	}
	doTerminate := func() *opRec {
		op := call("TerminateSession", kDelete, func(ctx context.Context) error { return cl.TerminateSession(ctx) })
		if sp.client == clStream {
			if !sessionLive {
				op.NoSess = true
			} else if op.Err == "" {
				sessionLive = false
			}
		}
		return op
	}
	doNotify := func() *opRec {
		return call("SendRootsListChangedNotification", kRootsChanged, func(ctx context.Context) error {
			return cl.SendRootsListChangedNotification(ctx)
		})
	}
	doTarget := func(target string) *opRec {
		switch target {
		case "terminate":
			return doTerminate()
		case "notify":
			return doNotify()
		}
		return call(opName(target), target, func(ctx context.Context) error { return doOp(ctx, cl, target) })
	}
	prev := "(start)"
	run := func(st step) {
		rec := &stepRec{Kind: st.kindName(), Prev: prev, Auto: st.Auto, SrvFrom: srv.count(), Live: sessionLive}
		res.steps = append(res.steps, rec)
		res.executed = append(res.executed, st)
		prev = rec.Kind
		switch st.Kind {
		case "init-fail":
			op := call("Initialize", "initialize", func(ctx context.Context) error {
				_, e := cl.Initialize(ctx, &mcp.InitializeRequest{})
				return e
			})
			res.staleTok = op.Token
			if op.Err == "" {
				res.broken = "the first handshake succeeded although it was scripted to fail (" + sp.retry + ")"
				res.initFailed = true
				break
			}
			if sp.retry == "refuse" {
				if e := srv.startReserved(); e != nil {
					res.watchdogs = append(res.watchdogs, "could not reopen the listener on the reserved address: "+e.Error())
					res.initFailed = true
				}
			}
		case "init":
			doInit()
		case "mutate":
			// the caller goes on using the header objects it handed to WithHTTPHeaders
			if built != nil && res.mutatedAt < 0 {
				built.mutate(cp.Mutate)
				res.mutatedAt = srv.count()
			}
		case "reinit":
			// Close and initialise the same client object again (the Streamable transport stays usable).
			_ = cl.Close()
			streamUp = false
			doInit()
		case "op":
			doTarget(st.Op)
		case "notify":
			doNotify()
		case "provider":
			providerOn = !providerOn
			if providerOn {
				cl.SetRootsProvider(rootsProv{roots: []mcp.Root{{URI: "file:///verif/root", Name: "verif"}}})
			} else {
				cl.SetRootsProvider(nil)
			}
		case "push-roots", "push-unknown":
			if !streamUp {
				rec.Skipped = true
				break
			}
			id := nextID
			nextID++
			method := "roots/list"
			if st.Kind == "push-unknown" {
				method = "verif/unknown-method"
			}
			b0 := befCount()
			res.pushes++
			srv.pushRequest(id, method)
			ids := strconv.Itoa(id)
			ok := waitUntil(func() bool {
				return srv.answered(ids) || l.failedAfter(b0, func(k string) bool { return k == kRootsAnswer || k == kErrorAnswer })
			})
			if !ok {
				res.watchdogs = append(res.watchdogs, fmt.Sprintf("no answer to server-issued %s (id %d) reached the server within %s", method, id, watchdog))
			} else if srv.answered(ids) {
				res.answered++
			}
		case "terminate":
			doTerminate()
		case "fail":
			// an operation that fails, then the same operation again under a new context
			target, mode := st.Op, st.Fail
			if target == "terminate" && !sessionLive {
				target = "tools/list"
			}
			if mode == "veto" && !c.B {
				mode = "503"
			}
			if mode == "503" {
				srv.setFail503(1)
			} else {
				nextVeto = true
			}
			op := doTarget(target)
			if mode == "503" {
				op.Scripted = "503"
				if srv.pending503() != 0 { // the call sent nothing
					srv.setFail503(0)
				}
			}
			doTarget(target)
		}
		rec.SrvTo = srv.count()
		if everInit && !sessionLive {
			deadSteps++
		}
	}
	// A terminated Streamable session is left terminated for one further step (whatever follows the DELETE is
	// sent without a session); after that the harness re-initialises, unless the history does so itself. The
	// succession (X, Y) that such an inserted handshake separates is executed again at the end of the history.
	type pair struct{ x, y step }
	var separated []pair
	for i, st := range sp.hist {
		if res.initFailed {
			break
		}
		if sp.client == clStream && everInit && !sessionLive && deadSteps >= 2 && st.Kind != "reinit" {
			run(step{Kind: "reinit", Auto: true})
			if res.initFailed {
				break
			}
			if strings.HasPrefix(sp.label, "succession") && i > 0 {
				separated = append(separated, pair{sp.hist[i-1], st})
			}
		}
		run(st)
	}
	for _, p := range separated {
		if res.initFailed {
			break
		}
		if !sessionLive {
			run(step{Kind: "reinit", Auto: true})
			if res.initFailed {
				break
			}
		}
		run(p.x)
		if res.initFailed {
			break
		}
		run(p.y)
	}
	_ = cl.Close()
	res.srv = srv.snapshot()
	res.before, res.handler, res.factory = l.snapshot()
	if fr != nil {
		res.front, res.frontProblems = fr.snapshot()
		res.announced = srv.announcements()
	}
	return res
}

func (s *refServer) statusOf(r *srvRec) int {
	s.mu.Lock()
	defer s.mu.Unlock()
	return r.Status
}

func opName(method string) string {
	switch method {
	case "tools/list":
		return "ListTools"
	case "tools/call":
		return "CallTool"
	case "prompts/list":
		return "ListPrompts"
	case "prompts/get":
		return "GetPrompt"
	case "resources/list":
		return "ListResources"
	case "resources/read":
		return "ReadResource"
	}
	return method
}

func doOp(ctx context.Context, cl *mcp.Client, method string) error {
	switch method {
	case "tools/list":
		_, e := cl.ListTools(ctx, &mcp.ListToolsRequest{})
		return e
	case "tools/call":
		req := &mcp.CallToolRequest{}
		req.Params.Name = "t1"
		req.Params.Arguments = map[string]interface{}{"x": "y"}
		out, e := cl.CallTool(ctx, req)
		if e == nil && (out == nil || len(out.Content) != 1) {
			return fmt.Errorf("harness: unexpected tools/call result")
		}
		return e
	case "prompts/list":
		_, e := cl.ListPrompts(ctx, &mcp.ListPromptsRequest{})
		return e
	case "prompts/get":
		req := &mcp.GetPromptRequest{}
		req.Params.Name = "p1"
		_, e := cl.GetPrompt(ctx, req)
		return e
	case "resources/list":
		_, e := cl.ListResources(ctx, &mcp.ListResourcesRequest{})
		return e
	case "resources/read":
		req := &mcp.ReadResourceRequest{}
		req.Params.URI = "res://a"
		_, e := cl.ReadResource(ctx, req)
		return e
	}
	return fmt.Errorf("harness: unknown op %s", method)
}

// ---------------------------------------------------------------------------------------------
// oracle

type judge struct {
	r       *vh.Run
	samples map[string]interface{}
	succ    map[string]map[string]bool // client -> ordered pairs "a>b" of directly succeeding operation kinds executed
}

func sameMultiset(a, b []string) bool {
	if len(a) != len(b) {
		return false
	}
	m := map[string]int{}
	for _, x := range a {
		m[x]++
	}
	for _, x := range b {
		m[x]--
		if m[x] < 0 {
			return false
		}
	}
	return true
}

func trunc(s string, n int) string {
	if len(s) > n {
		return s[:n] + "..."
	}
	return s
}

func contains(xs []string, x string) bool {
	for _, v := range xs {
		if v == x {
			return true
		}
	}
	return false
}

func (j *judge) run(res *runResult) {
	r := j.r
	sp := res.spec
	c := sp.cfg
	client := sp.client
	mask := c.mask()
	desc := map[string]interface{}{"client": client, "configuration": c.String(), "configuration_mask": mask,
		"history": sp.label + ": " + histString(res.executed), "before_request_fails_at": sp.failAt, "first_handshake_fails_by": sp.retry,
		"served_path": res.served, "announced_message_path": res.msgPath, "session_id_prefix": res.sid}
	cp := sp.comp
	fam := "" // composition pass: the option family a violation is about ("": none in particular)
	var compExp map[string][]hdrEntry
	if cp != nil {
		desc["composition"] = cp
		desc["other_clients_built_from_the_shared_base"] = res.decoys
		var zero int
		compExp, zero = cp.expect()
		r.Count("comp_runs", 1)
		r.Count("comp_runs|"+client, 1)
		r.Count("comp_configured_keys_without_any_value", int64(zero))
		r.SetAdd("comp_profiles", cp.profile())
		if cp.Random {
			r.Count("comp_runs_random", 1)
		}
		if res.decoys > 0 {
			r.Count("comp_runs_with_other_clients_on_the_shared_base", 1)
		}
		if res.libTouched > 0 {
			r.Count("comp_caller_header_objects_changed_by_client_construction", int64(res.libTouched))
		}
	}
	viol := func(kind, symptom, what string, extra map[string]interface{}) {
		if cp != nil {
			symptom += "|" + cp.famTag(fam)
		}
		w := map[string]interface{}{}
		for k, v := range desc {
			w[k] = v
		}
		for k, v := range extra {
			w[k] = v
		}
		r.Violation(fmt.Sprintf("C19|%s|%s|%s", client, kind, symptom), fmt.Sprintf("%s client, %s: %s [configuration: %s]", client, kind, what, c.String()), w)
	}
	if res.newErr != "" {
		r.Fatal("client construction failed (%s, mask %d): %s", client, mask, res.newErr)
	}
	if res.broken != "" && sp.retry != "veto" {
		r.Fatal("%s mask %d: %s", client, mask, res.broken)
	}
	// ctxSymptom names a context mismatch; a token of the failed first handshake is "stale".
	ctxSymptom := func(who, got string) string {
		if sp.retry != "" && res.staleTok != "" && got == res.staleTok {
			return who + "-stale-context|after-failed-handshake"
		}
		return who + "-wrong-context"
	}
	// expectedTok: the context token a request of this kind, issued while operation curOp ran and after the
	// Initialize call with token hs had been started, must carry. (A background request exists only after a
	// handshake succeeded, and no Initialize is attempted while a stream is up: the latest started one is it.)
	expectedTok := func(kind string, curOp int, hs string) string {
		if isBackground(kind) {
			return hs
		}
		if curOp >= 0 && curOp < len(res.ops) {
			return res.ops[curOp].Token
		}
		return ""
	}
	for _, w := range res.watchdogs {
		r.Inconclusive(fmt.Sprintf("%s mask=%d %s failAt=%d: %s", client, mask, sp.label, sp.failAt, w))
	}
	r.Count("runs", 1)
	r.Count("server_requests_pushed", int64(res.pushes))
	r.Count("server_requests_answered", int64(res.answered))

	beforeByN := map[string]*beforeRec{}
	for _, b := range res.before {
		beforeByN[strconv.Itoa(b.N)] = b
	}
	handlerBySeq := map[string]*handlerRec{}
	for _, h := range res.handler {
		handlerBySeq[strconv.Itoa(h.Seq)] = h
	}
	opOf := map[int]*opRec{}
	for _, op := range res.ops {
		for n := op.From; n < op.To; n++ {
			opOf[n] = op
		}
	}
	var failedAll []*beforeRec
	vetoedOp := map[int]bool{}
	for _, b := range res.before {
		if b.Failed {
			failedAll = append(failedAll, b)
			if !isBackground(b.Kind) {
				vetoedOp[b.CurOp] = true
			}
		}
	}
	// Session bookkeeping, from the server log alone (the client's requests are sequential): the current id is the
	// one handed out by the latest answered initialize (legacy: connect) and, Streamable, not yet deleted.
	curSid := ""
	issuedBefore := map[string]bool{} // every id handed out earlier in this history
	terminations, generations := 0, 0
	isSucc := strings.HasPrefix(sp.label, "succession")
	handlerConfigured := c.R || c.F
	wantLabel := "factory"
	if c.R {
		wantLabel = "explicit"
		if cp != nil {
			wantLabel = handlerLabel(cp.count("R")) // the last WithHTTPReqHandler option
		}
	}
	nBefore := 1 // number of before-request functions configured
	if cp != nil {
		nBefore = cp.count("B")
	}
	seenBefore := map[string]int{}
	seenSeq := map[string]int{}

	for _, s := range res.srv {
		r.Eval(1)
		r.Count("requests_judged", 1)
		if cp != nil {
			r.Count("comp_requests_judged", 1)
			r.Count("comp_n|"+client+"|"+s.Kind, 1)
			name := cp.Name
			if cp.Random {
				name = "random:" + cp.profile()
			}
			r.Distinct(fmt.Sprintf("comp|%s|%s|%s", name, client, s.Kind))
			for _, o := range []string{"H", "B", "R", "P", "S", "O"} {
				r.Count(fmt.Sprintf("comp_requests|%s|%s", client, cp.famTag(o)), 1)
			}
			if res.decoys > 0 {
				r.Count("comp_requests_judged_with_other_clients_on_the_shared_base", 1)
			}
		} else {
			r.Count("n|"+client+"|"+s.Kind, 1)
			r.SetAdd("kinds", client+":"+s.Kind)
			r.Distinct(fmt.Sprintf("%s|%s|%d", client, s.Kind, mask))
		}
		if isSucc {
			r.Count("succession_requests_judged", 1)
		}
		if sp.retry != "" {
			r.Count("retry_requests_judged", 1)
			r.Distinct(fmt.Sprintf("retry-%s|%s|%s|%d", sp.retry, client, s.Kind, mask))
		}
		befs := s.Header.Values(hdrBefore)
		seqs := s.Header.Values(hdrSeq)
		for _, b := range befs {
			seenBefore[b]++
		}
		for _, q := range seqs {
			seenSeq[q]++
		}
		var bj *beforeRec
		if len(befs) == 1 { // several tags: the request cannot be joined to one log entry (reported below)
			bj = beforeByN[befs[0]]
		}
		var hj *handlerRec
		if len(seqs) > 0 {
			hj = handlerBySeq[seqs[0]]
		}
		op := opOf[s.N]
		expTok := ""
		switch {
		case isBackground(s.Kind):
			if bj != nil {
				expTok = bj.HS
			} else if hj != nil {
				expTok = hj.HS
			}
			op = nil
		case op != nil:
			expTok = op.Token
		default:
			r.Count("foreground_requests_outside_any_call", 1)
		}
		view := map[string]interface{}{"n": s.N, "method": s.Method, "path": s.Path, "query": s.Query, "kind": s.Kind,
			"headers": s.Header, "body": trunc(s.Body, 300), "status_answered": s.Status, "session_id_current_at_arrival": curSid}
		extra := map[string]interface{}{"request_at_server": view, "before_request_log": bj, "handler_log": hj, "operation": op, "expected_ctx_token": expTok}
		bad := 0
		fail := func(symptom, what string) { bad++; viol(s.Kind, symptom, what, extra) }
		cfail := func(f, symptom, what string) { fam = f; fail(symptom, what); fam = "" }

		// (1) static headers: every configured value, and nothing else under those names
		if cp != nil {
			j.compHeaders(res, s, compExp, cfail)
		}
		for name, vals := range staticHeaders {
			if cp != nil {
				break
			}
			got := s.Header.Values(name)
			if !c.H {
				if len(got) != 0 {
					fail("static-header-unconfigured", fmt.Sprintf("request carries %s: %q although no static header is configured", name, got))
				}
				continue
			}
			missing := false
			for _, v := range vals {
				if !contains(got, v) {
					fail("static-header-missing", fmt.Sprintf("request lacks configured static header %s: %s (has %q)", name, v, got))
					missing = true
					break
				}
			}
			if !missing && !sameMultiset(got, vals) {
				fail("static-header-altered", fmt.Sprintf("request carries %s: %q, configured is %q", name, got, vals))
			}
		}
		// (2) session id: exactly the current one once one has been issued, none otherwise
		if client == clStream {
			got := s.Header.Values("Mcp-Session-Id")
			after := ""
			if terminations > 0 {
				after = "|after-termination"
				r.Count("requests_judged_after_a_termination", 1)
				r.Count("n_after_termination|"+s.Kind, 1)
				if generations > 1 {
					r.Count("requests_judged_after_termination_and_reinitialize", 1)
				}
			}
			stale := false
			for _, g := range got {
				if g != curSid && issuedBefore[g] {
					stale = true
				}
			}
			switch {
			case curSid == "" && len(got) == 0:
				if terminations > 0 {
					r.Count("requests_conforming_without_session_after_termination", 1)
				}
			case curSid == "" && stale:
				fail("session-id-stale"+after, fmt.Sprintf("no session id is current (none issued yet, or the last one was deleted), the request carries Mcp-Session-Id %q issued earlier", got))
			case curSid == "":
				fail("session-id-unissued"+after, fmt.Sprintf("no session id has been issued, the request carries Mcp-Session-Id %q", got))
			case len(got) == 0 && s.Kind == "initialize":
				// a new handshake after Close without termination: asking for a fresh session is as good as naming the old one
				r.Count("reinitialize_without_the_still_valid_session_id", 1)
			case len(got) == 0:
				fail("session-id-missing", fmt.Sprintf("request sent after the session id %q was issued carries no Mcp-Session-Id", curSid))
			case len(got) == 1 && got[0] == curSid:
				if s.Kind == "initialize" {
					r.Count("reinitialize_with_the_still_valid_session_id", 1)
				}
			case len(got) > 1 && contains(got, curSid):
				fail("session-id-duplicated"+after, fmt.Sprintf("request carries %d Mcp-Session-Id values %q, the current session id is %q", len(got), got, curSid))
			case stale:
				fail("session-id-stale"+after, fmt.Sprintf("the current session id is %q, the request carries Mcp-Session-Id %q issued earlier", curSid, got))
			default:
				fail("session-id-missing", fmt.Sprintf("request sent after the session id %q was issued carries Mcp-Session-Id %q", curSid, got))
			}
		}
		// (3) path
		if client == clStream || s.Kind == kConnect {
			if s.Path != res.served {
				sym := "wrong-path"
				if c.P {
					sym = "custom-path-ignored"
				}
				if cp != nil && contains(res.alts, s.Path) {
					sym = "earlier-custom-path-used"
				}
				cfail("P", sym, fmt.Sprintf("request went to path %q, configured path is %q (WithClientPath options in order: %q)", s.Path, res.served, res.alts))
			} else if cp != nil && len(res.alts) > 1 {
				r.Count("comp_outcome|path|last-wins", 1)
				r.SetAdd("comp_outcomes", client+":path:last-wins")
			}
		} else {
			if s.Path != res.msgPath {
				fail("announced-endpoint-ignored", fmt.Sprintf("message POST went to path %q, the server announced %q", s.Path, res.msgPath))
			} else if s.Query != "sessionId="+curSid {
				fail("session-id-missing", fmt.Sprintf("message POST query is %q, the server announced sessionId=%s", s.Query, curSid))
			}
		}
		// (4) request handler
		if handlerConfigured {
			switch {
			case len(seqs) == 0:
				cfail("R", "bypasses-handler", "request reached the server without passing through the configured request handler ("+wantLabel+")")
			case len(seqs) > 1:
				cfail("R", "handler-applied-twice", fmt.Sprintf("request passed the request handler %d times", len(seqs)))
			case s.Header.Get(hdrHandler) != wantLabel:
				cfail("R", "wrong-handler", fmt.Sprintf("request passed handler %q, configured is %q", s.Header.Get(hdrHandler), wantLabel))
			case cp != nil && cp.count("R") > 1:
				r.Count("comp_outcome|handler|last-wins", 1)
				r.SetAdd("comp_outcomes", client+":handler:last-wins")
			}
		} else if len(seqs) != 0 {
			r.Fatal("request tagged by a handler although none is configured: %+v", view)
		}
		// (5) before-request exactly once, with the calling operation's context values
		if cp != nil && c.B {
			// several functions may be configured: the last one given is in force and must have run exactly
			// once; an earlier one may have run as well (combined) or not (overridden), never twice
			var recs []*beforeRec
			perFn := map[int]int{}
			for _, t := range befs {
				b := beforeByN[t]
				if b == nil {
					r.Fatal("before tag %q without log entry", t)
				}
				recs = append(recs, b)
				perFn[b.Fn]++
			}
			if len(recs) > 0 {
				bj = recs[0]
				extra["before_request_log"] = recs
				if expTok == "" && isBackground(s.Kind) {
					expTok = bj.HS
					extra["expected_ctx_token"] = expTok
				}
			}
			twice := false
			for _, n := range perFn {
				if n > 1 {
					twice = true
				}
			}
			switch {
			case len(recs) == 0:
				cfail("B", "before-request-not-called", "request reached the server without having passed through any before-request function")
			case twice:
				cfail("B", "before-request-called-twice", fmt.Sprintf("request passed one before-request function more than once (function ordinal -> calls: %v)", perFn))
			case perFn[nBefore] == 0:
				cfail("B", "last-before-request-not-called", fmt.Sprintf("request passed before-request function(s) %v but not the last one configured (#%d), which nothing overrides", perFn, nBefore))
			default:
				if nBefore > 1 {
					out := "earlier-and-last-run"
					if len(recs) == 1 {
						out = "last-wins"
					}
					r.Count("comp_outcome|before-request|"+out, 1)
					r.SetAdd("comp_outcomes", client+":before-request:"+out)
				}
			}
			var want []string
			for _, b := range recs {
				if b.Failed {
					continue // judged below (nothing may be sent)
				}
				want = append(want, b.Token)
				if expTok != "" && b.Token != expTok {
					cfail("B", ctxSymptom("before-request", b.Token), fmt.Sprintf("before-request function #%d saw context token %q, the calling operation's is %q", b.Fn, b.Token, expTok))
				}
			}
			ctxVals := s.Header.Values(hdrCtx)
			switch {
			case len(want) == 0:
			case sameMultiset(ctxVals, want):
				r.Count("context_header_exact", 1)
			case subMultiset(ctxVals, want):
				cfail("B", "before-request-header-lost", fmt.Sprintf("the before-request functions added %s: %q, the request arrived with %q", hdrCtx, want, ctxVals))
			default:
				cfail("B", "foreign-before-request-header", fmt.Sprintf("request carries %s: %q, the before-request functions added exactly %q for this request", hdrCtx, ctxVals, want))
			}
		} else if c.B {
			switch {
			case len(befs) == 0:
				fail("before-request-not-called", "request reached the server without having passed through the before-request function")
			case len(befs) > 1:
				fail("before-request-called-twice", fmt.Sprintf("request passed the before-request function %d times", len(befs)))
			case bj == nil:
				r.Fatal("before tag %q without log entry", befs[0])
			case bj.Failed:
				// judged below (nothing may be sent)
			case expTok != "" && bj.Token != expTok:
				fail(ctxSymptom("before-request", bj.Token), fmt.Sprintf("before-request saw context token %q, the calling operation's is %q", bj.Token, expTok))
			}
		} else if len(befs) != 0 {
			r.Fatal("request tagged by before-request although none is configured: %+v", view)
		}
		// (5b) what before-request added for THIS request's context is on the request once, and nothing that it
		// added for another request
		ctxVals := s.Header.Values(hdrCtx)
		if cp != nil && c.B {
			ctxVals = nil // judged above
		}
		if !c.B && len(ctxVals) != 0 {
			r.Fatal("request carries a before-request context header although none is configured: %+v", view)
		}
		own := "" // what before-request added for this request: known from its log entry, else from the calling operation
		switch {
		case !c.B || (bj != nil && bj.Failed) || cp != nil:
		case bj != nil:
			own = bj.Token
		case len(befs) > 1:
			own = expTok
		}
		if own != "" {
			switch {
			case len(ctxVals) == 1 && ctxVals[0] == own:
				r.Count("context_header_exact", 1)
			case len(ctxVals) == 0:
				fail("before-request-header-lost", fmt.Sprintf("before-request added %s: %s, the request arrived without it", hdrCtx, own))
			default:
				fail("foreign-before-request-header", fmt.Sprintf("request carries %s: %q, before-request added exactly %q for this request (the rest stems from other requests)", hdrCtx, ctxVals, own))
			}
		}
		// (6) the configured handler is handed the same context values
		if hj != nil && expTok != "" && hj.Token != expTok {
			fail(ctxSymptom("handler", hj.Token), fmt.Sprintf("the request handler saw context token %q, the calling operation's is %q", hj.Token, expTok))
		}
		if bad == 0 {
			r.Count("requests_conforming", 1)
			r.SetAdd("kinds_conforming", client+":"+s.Kind)
		}
		// session bookkeeping for the requests that follow
		if s.Issued != "" && s.Status == 200 {
			if curSid != "" {
				issuedBefore[curSid] = true
			}
			curSid = s.Issued
			generations++
		}
		if client == clStream && s.Kind == kDelete && s.Status == 200 && curSid != "" {
			issuedBefore[curSid] = true
			curSid = ""
			terminations++
		}
		if cp != nil && strings.HasPrefix(cp.Name, "all-twice") && !strings.Contains(cp.Name, "reversed") {
			key := "comp|" + client + "|" + s.Kind
			if _, ok := j.samples[key]; !ok {
				j.samples[key] = map[string]interface{}{"client": client, "composition": cp, "request_at_server": view,
					"before_request_log": extra["before_request_log"], "handler_log": hj, "operation": op, "expected_ctx_token": expTok, "conforming": bad == 0}
			}
		}
		if cp == nil && mask == 15 && sp.failAt == 0 && sp.label == "canonical" && (sp.retry == "" || sp.retry == "503") {
			key := client + "|" + s.Kind
			if sp.retry != "" {
				key = "retry|" + key + "|" + strconv.Itoa(s.Status)
			}
			if _, ok := j.samples[key]; !ok {
				j.samples[key] = map[string]interface{}{"client": client, "configuration": c.String(), "request_at_server": view,
					"before_request_log": bj, "handler_log": hj, "operation": op, "expected_ctx_token": expTok, "conforming": bad == 0}
			}
		}
	}
	r.Max("session_ids_issued_per_history", int64(generations))
	r.Max("terminations_per_history", int64(terminations))
	// succession histories: which operation kind was directly followed by which (only steps that were really
	// attempted count, and only those during which a request reached the server - or a terminate without session)
	if isSucc {
		local := map[string]bool{}
		for _, st := range res.steps {
			r.Count("succession_steps", 1)
			if st.Skipped {
				r.Count("succession_steps_skipped", 1)
				continue
			}
			if st.Auto {
				r.Count("succession_auto_reinitialize", 1)
				continue
			}
			if st.SrvTo == st.SrvFrom && st.Kind != "terminate" {
				r.Count("succession_steps_without_request", 1)
				continue
			}
			r.Eval(1)
			pair := st.Prev + ">" + st.Kind
			if j.succ[client] == nil {
				j.succ[client] = map[string]bool{}
			}
			if alphabet := successionKinds(client); contains(alphabet, st.Prev) && contains(alphabet, st.Kind) {
				j.succ[client][pair] = true
				local[pair] = true
			}
			if st.Prev == "(start)" {
				continue
			}
			hb := 0
			if c.H {
				hb |= 1
			}
			if c.B {
				hb |= 2
			}
			r.Distinct(fmt.Sprintf("succ|%s|%s|hb%d", client, pair, hb))
			if !st.Live && client == clStream && st.SrvTo > st.SrvFrom {
				r.Count("succession_steps_sending_while_session_terminated", 1)
				r.SetAdd("kinds_sent_while_session_terminated", st.Kind)
			}
		}
		if sp.failAt == 0 {
			r.Count("succession_histories|"+client, 1)
			if n := len(successionKinds(client)); len(local) == n*n {
				r.Count("succession_histories_with_every_ordered_pair|"+client, 1)
			}
		}
		for _, op := range res.ops {
			if op.Scripted != "" {
				r.Count("scripted_failure_then_retry|"+client+"|"+op.Scripted+"|"+op.Kind, 1)
				r.SetAdd("failed_then_retried", client+":"+op.Scripted+":"+op.Kind)
			}
			if op.NoSess {
				r.Count("terminate_without_session", 1)
			}
		}
	}
	// duplicates of one tag and requests that vanished between the client-side logs and the server
	for tag, n := range seenBefore {
		if n > 1 {
			viol(beforeByN[tag].Kind, "request-duplicated", fmt.Sprintf("%d requests at the server carry before-request tag %s", n, tag), map[string]interface{}{"before_request_log": beforeByN[tag]})
		}
	}
	for _, b := range res.before {
		if seenBefore[strconv.Itoa(b.N)] != 0 {
			continue
		}
		// never reached the server (vetoed, or refused connection): the context is judged from the log alone
		if exp := expectedTok(b.Kind, b.CurOp, b.HS); exp != "" && b.Token != exp {
			r.Eval(1)
			viol(b.Kind, ctxSymptom("before-request", b.Token), fmt.Sprintf("before-request saw context token %q for a request issued by the call with token %q", b.Token, exp),
				map[string]interface{}{"before_request_log": b, "expected_ctx_token": exp})
		}
		if b.Failed || (sp.retry == "refuse" && b.CurOp == 0) {
			continue
		}
		if cp != nil && nBefore > 1 {
			// several before-request functions: the request was refused by another function of the same call
			refused := false
			for _, o := range res.before {
				if o.Failed && o.Fn != b.Fn && o.Kind == b.Kind && o.CurOp == b.CurOp && o.Token == b.Token {
					refused = true
				}
			}
			if refused {
				r.Count("comp_before_request_ran_for_a_request_another_function_refused", 1)
				continue
			}
		}
		viol(b.Kind, "lost-after-before-request", "request passed the before-request function but never reached the server", map[string]interface{}{"before_request_log": b})
	}
	for _, h := range res.handler {
		if seenSeq[strconv.Itoa(h.Seq)] == 0 {
			if exp := expectedTok(h.Kind, h.CurOp, h.HS); exp != "" && h.Token != exp {
				r.Eval(1)
				viol(h.Kind, ctxSymptom("handler", h.Token), fmt.Sprintf("the request handler saw context token %q for a request issued by the call with token %q", h.Token, exp),
					map[string]interface{}{"handler_log": h, "expected_ctx_token": exp})
			}
			if h.Err != "" || !h.Done {
				r.Count("handler_transport_errors", 1)
				continue
			}
			viol(h.Kind, "lost-after-handler", "request was performed by the request handler but never reached the server", map[string]interface{}{"handler_log": h})
		}
	}
	// retry histories: the first handshake fails by script; the second may fail only if the client cannot be re-initialised
	if sp.retry != "" {
		r.Eval(1)
		r.Count("retry_histories", 1)
		r.SetAdd("retry_modes", client+":"+sp.retry)
		switch {
		case len(res.ops) < 2:
			r.Count("retry_second_handshake_not_attempted", 1)
		case res.ops[1].Err == "":
			r.Count("retry_second_handshake_ok|"+client+"|"+sp.retry, 1)
			r.Distinct(fmt.Sprintf("retry-%s|%s|second-handshake-ok|%d", sp.retry, client, mask))
			if res.noStream {
				r.Count("retry_no_listening_stream_after_503", 1)
			}
		default:
			r.Count("retry_second_handshake_failed|"+client+"|"+sp.retry, 1)
			if res.ops[1].HasBoom {
				viol("initialize", "retry-vetoed|after-failed-handshake", "the second Initialize, whose context satisfies the before-request function, failed with the before-request error of the first: "+trunc(res.ops[1].Err, 200),
					map[string]interface{}{"operation": res.ops[1], "before_request_log_all": res.before})
			}
		}
	}
	// operations must succeed (other than the ones whose request was vetoed)
	for _, op := range res.ops {
		if op.Err == "" {
			continue
		}
		if vetoedOp[op.Idx] {
			continue
		}
		if op.Scripted == "503" || op.NoSess {
			continue // answered 503 by script; nothing to terminate: either outcome is accepted
		}
		if sp.retry != "" && op.Name == "Initialize" {
			continue // first: fails by script; second: accepted when the client cannot be re-initialised (counted above)
		}
		if op.Deadline {
			r.Inconclusive(fmt.Sprintf("%s mask=%d %s: %s hit the 15 s watchdog: %s", client, mask, sp.label, op.Name, op.Err))
			continue
		}
		viol(op.Kind, "operation-failed", fmt.Sprintf("%s failed against the reference server: %s", op.Name, trunc(op.Err, 200)), map[string]interface{}{"operation": op})
	}
	// handler factory received what was configured
	if cp != nil && c.F && !c.R {
		r.Eval(1)
		r.Distinct(fmt.Sprintf("comp|%s|handler-factory|S%dO%d", client, cp.count("S"), cp.count("O")))
		r.Count("comp_factory_calls", int64(len(res.factory)))
		if len(res.factory) == 0 {
			fam = "O"
			viol("handler-factory", "not-used", "NewHTTPReqHandler was overridden but never called", nil)
		}
		for _, fc := range res.factory {
			if n := cp.count("S"); n > 0 {
				fam = "S"
				if fc.ServiceName != serviceName(n) {
					viol("handler-factory", "service-name-not-passed", fmt.Sprintf("factory received service name %q, the last WithServiceName option configured %q", fc.ServiceName, serviceName(n)), map[string]interface{}{"factory_call": fc})
				} else if n > 1 {
					r.Count("comp_outcome|service-name|last-wins", 1)
					r.SetAdd("comp_outcomes", client+":service-name:last-wins")
				}
			}
			fam = "O"
			for o := 1; o <= cp.count("O"); o++ {
				if !contains(fc.Tags, optionTag(o)) {
					viol("handler-factory", "handler-option-not-passed", fmt.Sprintf("factory did not receive handler option #%d (WithHTTPReqHandlerOption adds options); it received %q", o, fc.Tags), map[string]interface{}{"factory_call": fc})
				} else if cp.count("O") > 1 {
					r.Count("comp_outcome|handler-option|every-option-passed", 1)
					r.SetAdd("comp_outcomes", client+":handler-option:every-option-passed")
				}
			}
			if len(fc.Tags) > cp.count("O") {
				r.Count("factory_option_received_more_than_once", 1)
			}
		}
		fam = ""
	} else if c.F && !c.R {
		r.Eval(1)
		r.Distinct(fmt.Sprintf("%s|handler-factory|%d", client, mask))
		r.Count("factory_calls", int64(len(res.factory)))
		if len(res.factory) == 0 {
			viol("handler-factory", "not-used", "NewHTTPReqHandler was overridden but never called", nil)
		}
		for _, fc := range res.factory {
			if fc.ServiceName != svcName {
				viol("handler-factory", "service-name-not-passed", fmt.Sprintf("factory received service name %q, configured %q", fc.ServiceName, svcName), map[string]interface{}{"factory_call": fc})
			}
			if fc.Sentinels == 0 {
				viol("handler-factory", "handler-option-not-passed", "factory did not receive the configured handler option", map[string]interface{}{"factory_call": fc})
			}
			if fc.Sentinels > 1 {
				r.Count("factory_option_received_more_than_once", 1)
			}
		}
	}
	if c.B {
		r.Max("before_request_calls_per_history", int64(len(res.before)))
	}
	// vetoed requests: nothing may be sent and the issuing operation must return the error
	if sp.failAt > 0 && len(failedAll) == 0 {
		r.Count("veto_point_not_reached", 1)
	}
	for _, failed := range failedAll {
		r.Eval(1)
		r.Count("vetoed_requests_judged", 1)
		r.SetAdd("vetoed_kinds", client+":"+failed.Kind)
		if cp != nil {
			fam = "B"
			r.Count("comp_vetoed_requests_judged", 1)
			r.Count(fmt.Sprintf("comp_vetoed_requests_judged|%s", cp.famTag("B")), 1)
			r.Distinct(fmt.Sprintf("comp-veto|%s|%s|%s", client, failed.Kind, cp.famTag("B")))
		} else if sp.retry != "" {
			r.Distinct(fmt.Sprintf("retry-veto|%s|%s|%d", client, failed.Kind, mask))
		} else {
			r.Distinct(fmt.Sprintf("veto|%s|%s|%d", client, failed.Kind, mask))
		}
		tag := strconv.Itoa(failed.N)
		extra := map[string]interface{}{"before_request_log": failed}
		sent := false
		for _, s := range res.srv {
			if contains(s.Header.Values(hdrBefore), tag) {
				sent = true
				extra["request_at_server"] = map[string]interface{}{"n": s.N, "method": s.Method, "path": s.Path, "kind": s.Kind, "headers": s.Header}
			}
		}
		for _, h := range res.handler {
			if contains(h.Before, tag) {
				sent = true
				extra["handler_log"] = h
			}
		}
		if sent {
			viol(failed.Kind, "sent-despite-before-request-error", "before-request returned an error but the request was sent", extra)
		}
		if !isBackground(failed.Kind) {
			if failed.CurOp < 0 || failed.CurOp >= len(res.ops) {
				r.Fatal("vetoed foreground request outside any call: %+v", failed)
			}
			op := res.ops[failed.CurOp]
			extra["operation"] = op
			switch {
			case op.Err == "":
				viol(failed.Kind, "before-request-error-swallowed", op.Name+" returned nil although before-request vetoed its request", extra)
			case !op.HasBoom:
				viol(failed.Kind, "before-request-error-not-returned", op.Name+" failed with an error that does not carry the before-request error: "+trunc(op.Err, 200), extra)
			default:
				r.Count("veto_errors_returned", 1)
			}
		} else {
			r.Count("vetoed_background_requests", 1)
		}
	}
}

// ---------------------------------------------------------------------------------------------

func main() {
	kit.MaybeServeStdioChild()
	kit.Silence()
	r := vh.NewRun("C19", "exploration")
	origFactory := mcp.NewHTTPReqHandler
	if tr, ok := http.DefaultTransport.(*http.Transport); ok {
		tr.DialContext = dialResetOnClose // clients without a configured handler use the default transport
	}
	j := &judge{r: r, samples: map[string]interface{}{}, succ: map[string]map[string]bool{}}
	clients := []string{clStream, clLegacy}

	type vetoBase struct {
		sp runSpec
		n  int
	}
	var bases []vetoBase
	rounds := r.Pick(2, 12)
	vetoHists := r.Pick(0, 4) // random histories that get the every-k veto pass
	for _, client := range clients {
		for mask := 0; mask < 32; mask++ {
			c := cfgOf(mask)
			sp := runSpec{client: client, cfg: c, hist: canonicalHistory(client), label: "canonical"}
			res := execute(sp)
			j.run(res)
			if c.B {
				bases = append(bases, vetoBase{sp, len(res.before)})
			}
			rng := r.Rand(fmt.Sprintf("hist-%s-%d", client, mask))
			for k := 0; k < rounds; k++ {
				sp := runSpec{client: client, cfg: c, hist: randomHistory(client, rng), label: fmt.Sprintf("random-%d", k)}
				res := execute(sp)
				j.run(res)
				if !c.B || len(res.before) == 0 {
					continue
				}
				n := len(res.before)
				if k < vetoHists {
					for kk := 1; kk <= n; kk++ {
						v := sp
						v.failAt = kk
						j.run(execute(v))
					}
				} else {
					// veto at two seeded positions
					for i := 0; i < 2; i++ {
						v := sp
						v.failAt = 1 + rng.Intn(n)
						j.run(execute(v))
					}
				}
			}
		}
	}
	// second pass on the canonical history: before-request vetoes the k-th request
	for _, b := range bases {
		for k := 1; k <= b.n; k++ {
			v := b.sp
			v.failAt = k
			j.run(execute(v))
			r.SetAdd(fmt.Sprintf("veto_positions_%s", b.sp.client), strconv.Itoa(k))
		}
	}
	// third pass: the handshake fails first and is retried on the same client with a different context
	retryRandom := r.Pick(0, 2)
	for _, client := range clients {
		for mask := 0; mask < 32; mask++ {
			c := cfgOf(mask)
			rng := r.Rand(fmt.Sprintf("retry-%s-%d", client, mask))
			for _, mode := range []string{"503", "veto", "refuse"} {
				if mode == "veto" && !c.B {
					continue
				}
				j.run(execute(runSpec{client: client, cfg: c, retry: mode, hist: retryHistory(canonicalHistory(client)), label: "canonical"}))
				for k := 0; k < retryRandom; k++ {
					j.run(execute(runSpec{client: client, cfg: c, retry: mode, hist: retryHistory(randomHistory(client, rng)), label: fmt.Sprintf("random-%d", k)}))
				}
			}
		}
	}
	// fourth pass: succession histories - every operation kind directly followed by every operation kind on one
	// client object, including TerminateSession, Close + Initialize again, and failed-then-retried operations
	succRounds := r.Pick(1, 4)
	succVetoes := r.Pick(0, 3)
	for _, client := range clients {
		for mask := 0; mask < 32; mask++ {
			c := cfgOf(mask)
			rng := r.Rand(fmt.Sprintf("succ-%s-%d", client, mask))
			for k := 0; k < succRounds; k++ {
				sp := runSpec{client: client, cfg: c, hist: successionHistory(client, rng), label: fmt.Sprintf("succession-%d", k)}
				res := execute(sp)
				j.run(res)
				if !c.B || len(res.before) == 0 {
					continue
				}
				for i := 0; i < succVetoes; i++ {
					v := sp
					v.failAt = 1 + rng.Intn(len(res.before))
					j.run(execute(v))
				}
			}
		}
	}
	// fifth pass: composed option lists - every option 0, 1, 2 or 3 times, in different orders, header sets with
	// disjoint / overlapping / differently spelled keys, a base shared by several clients, and a caller that goes
	// on using the header objects it handed over
	compRandom := r.Pick(16, 120)
	for _, client := range clients {
		for _, cp := range systematicCompositions() {
			j.run(execute(runSpec{client: client, cfg: cp.cfg(), comp: cp, hist: compHistory(client, cp), label: "composed-" + cp.Name}))
		}
		rng := r.Rand("compose-" + client)
		for k := 0; k < compRandom; k++ {
			cp := randomComposition(rng, k)
			hist := compHistory(client, cp)
			if k%2 == 1 {
				hist = compRandomHistory(client, cp, rng)
			}
			j.run(execute(runSpec{client: client, cfg: cp.cfg(), comp: cp, hist: hist, label: "composed-" + cp.Name}))
		}
	}
	// sixth pass: one configured target for every request kind - server URL forms x path option forms x
	// header-adding options, request lines recorded by a raw fronting server (target.go)
	tgtExtra := r.Pick(12, 150)
	for _, client := range clients {
		for _, ts := range targetList(client, r.Rand("target-"+client), tgtExtra) {
			j.target(execute(runSpec{client: client, hist: tgtHistory(client), label: "target-" + ts.Name, tgt: ts}))
		}
	}
	if fmt.Sprintf("%p", mcp.NewHTTPReqHandler) != fmt.Sprintf("%p", origFactory) {
		r.Fatal("NewHTTPReqHandler was not restored")
	}

	// samples: a few recorded requests with their joined logs
	for _, key := range []string{clStream + "|initialize", clStream + "|" + kRootsAnswer, clLegacy + "|" + kConnect,
		"comp|" + clLegacy + "|" + kConnect,  // composition pass (the evidence keeps six samples)
		"tgt|" + clStream, "tgt|" + clLegacy, // target pass: request lines by kind of one configuration with URL query and custom path
		clStream + "|" + kDelete, "comp|" + clLegacy + "|" + kRootsAnswer, clStream + "|" + kGetStream, "retry|" + clLegacy + "|" + kConnect + "|200", "comp|" + clStream + "|" + kDelete} {
		if s, ok := j.samples[key]; ok {
			r.Sample(s)
		}
	}

	// non-vacuity: every request kind of the statement was observed for both clients
	common := []string{"initialize", "notifications/initialized", "tools/list", "tools/call", "prompts/list", "prompts/get",
		"resources/list", "resources/read", kRootsChanged, kRootsAnswer, kErrorAnswer}
	want := map[string][]string{clStream: append([]string{kGetStream, kDelete}, common...), clLegacy: append([]string{kConnect}, common...)}
	for _, cl := range clients {
		for _, k := range want[cl] {
			r.Require(r.Counter("n|"+cl+"|"+k) > 0, "request kind %s of the %s client was never observed", k, cl)
		}
	}
	r.Require(r.Counter("server_requests_answered") > 0, "no server-issued request was ever answered")
	r.Require(r.Counter("vetoed_requests_judged") > 0, "no vetoed request was judged")
	r.Require(r.Counter("veto_errors_returned") > 0, "no operation ever returned the before-request error")
	for _, cl := range clients {
		for _, mode := range []string{"503", "veto", "refuse"} {
			r.Require(r.Counter("retry_second_handshake_ok|"+cl+"|"+mode) > 0, "no retried handshake of the %s client succeeded after a first one failed by %s", cl, mode)
		}
	}
	for _, cl := range clients {
		n := len(successionKinds(cl))
		r.Count("successions_observed|"+cl, int64(len(j.succ[cl])))
		r.Require(r.Counter("succession_histories|"+cl) > 0 && r.Counter("succession_histories|"+cl) == r.Counter("succession_histories_with_every_ordered_pair|"+cl),
			"%d of %d succession histories of the %s client executed every ordered pair of operation kinds", r.Counter("succession_histories_with_every_ordered_pair|"+cl), r.Counter("succession_histories|"+cl), cl)
		r.Require(len(j.succ[cl]) == n*n, "only %d of the %d ordered pairs of operation kinds were executed in direct succession on a %s client", len(j.succ[cl]), n*n, cl)
	}
	r.Require(r.Counter("requests_judged_after_a_termination") > 0, "no request sent after a session termination was judged")
	r.Require(r.Counter("requests_conforming_without_session_after_termination") > 0, "no request sent between a termination and the next handshake was judged")
	r.Require(r.Counter("requests_judged_after_termination_and_reinitialize") > 0, "no request sent in a re-issued session (terminate, Close, Initialize again) was judged")
	for _, k := range []string{"initialize", "notifications/initialized", kGetStream, kRootsAnswer, kErrorAnswer, kRootsChanged, kDelete, "tools/call"} {
		r.Require(r.Counter("n_after_termination|"+k) > 0, "request kind %s was never observed after a session termination on the same client", k)
	}
	r.Require(r.Counter("context_header_exact") > 0, "no request with a before-request context header was judged")
	// composition pass: every request kind of both clients under composed options, every multiplicity of every
	// option family, both kinds of header-name collision, requests after the caller's mutation, a shared base
	for _, cl := range clients {
		for _, k := range want[cl] {
			r.Require(r.Counter("comp_n|"+cl+"|"+k) > 0, "composition pass: request kind %s of the %s client was never observed", k, cl)
			r.Require(r.Counter("comp_n_after_caller_mutation|"+cl+"|"+k) > 0, "composition pass: request kind %s of the %s client was never observed after the caller had mutated its header objects", k, cl)
		}
		for fam, max := range map[string]int{"H": 3, "B": 3, "R": 3, "P": 3, "S": 2, "O": 3} {
			for n := 0; n <= max; n++ {
				key := fmt.Sprintf("comp_requests|%s|%s-x%d", cl, famNames[fam], n)
				r.Require(r.Counter(key) > 0, "composition pass: no request of the %s client was judged with the %s option given %d times", cl, famNames[fam], n)
			}
		}
	}
	for _, k := range []string{"one-set", "several-sets", "multi-valued", "key-given-in-non-canonical-form", "empty-value-carried"} {
		r.Require(r.Counter("comp_header_names_judged|"+k) > 0, "composition pass: no configured header name of class %q was judged on any request", k)
	}
	for _, k := range []string{"comp_requests_judged_after_caller_mutation|api", "comp_requests_judged_after_caller_mutation|in-place",
		"comp_requests_judged_with_other_clients_on_the_shared_base", "comp_vetoed_requests_judged|before-request-x2", "comp_vetoed_requests_judged|before-request-x3",
		"comp_factory_calls", "comp_runs_random"} {
		r.Require(r.Counter(k) > 0, "composition pass: counter %s is zero", k)
	}
	// target pass: every request kind of both clients observed with a server URL carrying a query AND a custom
	// path, with every query form, with every path form, with URL userinfo; every endpoint form announced
	for _, cl := range clients {
		for _, k := range tgtKinds(cl) {
			r.Require(r.Counter("tgt_cells_observed_with_url_query_and_custom_path|"+cl+"|"+k) > 0, "target pass: request kind %s of the %s client was never observed with a server URL query and a custom path", k, cl)
			r.Require(r.Counter("tgt_cells_observed_with_userinfo|"+cl+"|"+k) > 0, "target pass: request kind %s of the %s client was never observed with userinfo in the server URL", k, cl)
			for _, q := range queryForms {
				r.Require(r.Counter(fmt.Sprintf("tgt_cells_observed|%s|%s|query=%s", cl, k, q.class)) > 0, "target pass: request kind %s of the %s client was never observed with server URL query form %s", k, cl, q.class)
			}
			for _, p := range pathForms {
				r.Require(r.Counter(fmt.Sprintf("tgt_cells_observed|%s|%s|path=%s", cl, k, p.class)) > 0, "target pass: request kind %s of the %s client was never observed with path option form %s", k, cl, p.class)
			}
		}
	}
	for _, e := range endpointForms {
		r.Require(r.Counter("tgt_runs|legacy-endpoint="+e) > 0, "target pass: endpoint form %s was never announced", e)
	}
	if n := r.Counter("tgt_request_targets_not_in_origin_form"); n > 0 {
		r.Note(fmt.Sprintf("observation outside the statement: %d requests of the Streamable client left with a request target that does not start with '/' (WithClientPath given without leading slash: every request path overwrites req.URL.Path after http.NewRequest, and URL.RequestURI does not insert the slash; a net/http server answers 400). All request kinds agree with each other, so nothing is reported; the legacy SSE client sets the path before building the URL string and sends '/'+path.", n))
	}
	if n := r.Counter("comp_in_place_write_visible_on_request"); n > 0 {
		r.Note(fmt.Sprintf("observation outside the statement: WithHTTPHeaders keeps the caller's value slices (client.go: c.transportConfig.httpHeaders[k] = v, streamable_client.go withTransportHTTPHeaders: t.httpHeaders[k] = v): on %d requests a value the caller wrote IN PLACE into a slice it had handed over (h[k][i] = ...) after the client was built was sent instead of the configured one (%d requests did not show it). Mutations through the map / Header API (Set, Add, Del, new keys) never changed what was sent.",
			n, r.Counter("comp_in_place_write_not_visible_on_request")))
	}
	if n := r.Counter("comp_caller_header_objects_changed_by_client_construction"); n > 0 {
		r.Note(fmt.Sprintf("observation outside the statement: building clients changed %d of the caller's http.Header objects", n))
	}
	if n := r.Counter("retry_no_listening_stream_after_503"); n > 0 {
		r.Note(fmt.Sprintf("observation outside the statement: in %d retry histories the Streamable client opened no listening stream after the retried handshake: an initialize answered 503 (no session id) sets isStateless/enableGetSSE=false in send() before the status check, and the later successful handshake does not switch GET SSE back on", n))
	}
	if n := r.Counter("factory_option_received_more_than_once"); n > 0 {
		r.Note(fmt.Sprintf("observation outside the statement: in %d runs the Streamable client passed each WithHTTPReqHandlerOption value to NewHTTPReqHandler twice (transportConfig copy + transport option)", n))
	}

	r.Finish("2 clients (Streamable, legacy SSE) x all 32 combinations of {static headers, before-request, explicit request handler, custom path, service name + handler option via an overridden NewHTTPReqHandler factory}; "+
		"history = Initialize, (listening stream up), ListTools, CallTool, ListPrompts, GetPrompt, ListResources, ReadResource, roots list_changed notification, SetRootsProvider, server-issued roots/list and unknown-method requests answered, TerminateSession (Streamable), Close; "+
		"plus seeded random histories per configuration (quick 2, thorough 12: random order / repetition of operations, pushes and provider toggles). Every HTTP request recorded by the reference server is one evaluation, judged for static headers, session id, path, handler tag, before-request tag and context token. "+
		"Second pass: before-request returns an error on its k-th invocation (every k of the canonical history in each of the 16 configurations with before-request x 2 clients; random histories: two seeded k each, in thorough every k for 4 of them per configuration): nothing may be sent and the issuing operation must return that error. "+
		"Third pass (all 32 configurations x 2 clients; thorough adds 2 random histories each): Initialize #1 (token attempt-1) fails because the server answers its first request with 503, because before-request vetoes contexts carrying attempt-1 (configurations with before-request), or because the server hangs up on every connection before reading a request (it lets connections through afterwards; mode name 'refuse'); Initialize #2 on the same client object (token attempt-2), then the usual history. "+
		"Fourth pass, succession histories (all 32 configurations x 2 clients; quick 1, thorough 4 per configuration, thorough adds 3 seeded before-request veto positions each): after Initialize a seeded random Euler circuit over the operation kinds {6 request methods, roots list_changed, server-issued roots/list, server-issued unknown method, TerminateSession, an operation answered 503 then retried, an operation vetoed by before-request then retried, Streamable only: Close + Initialize on the same client object}, so that every kind is directly followed by every kind (itself included) on ONE client object, each call under its own context token. A terminated Streamable session stays terminated for the step that follows the DELETE (sent without session), then the harness re-initialises; the succession this separates is executed again at the end. The reference server hands out a fresh session id per initialize / legacy connect. "+
		"Per request at the server, exact multiplicities: each configured static header with exactly its configured values (none when not configured); Mcp-Session-Id exactly once with the id handed out by the latest answered initialize that was not deleted since, and absent while none is current (first initialize, everything between a DELETE and the next handshake's answer; an id handed out earlier is reported as stale, two values as duplicated); exactly one before-request tag; the context header that before-request adds from its ctx exactly once with this request's own token (another request's token next to it is reported as foreign). "+
		"Foreground requests must show the token of their own call, background requests the token of the latest started Initialize (the one whose handshake opened their stream), in the before-request log and in the handler log; a token of the failed attempt is reported as stale. Context tokens are unique per run, so a value leaking from an earlier, closed client of the same process would also be seen. "+
		"Fifth pass, composed option lists (both clients): 46 named lists + seeded random ones (quick 16, thorough 120 per client) in which WithHTTPHeaders, WithHTTPBeforeRequest, WithHTTPReqHandler, WithClientPath, WithServiceName and WithHTTPReqHandlerOption are each given 0, 1, 2 or 3 times in different orders: header sets with disjoint keys, the same key in two or three sets, keys that differ only in case across sets and within one set, keys given in non-canonical form, multi-valued headers, empty values, keys without values, nil and empty sets between others, the same option value twice; two other clients built before and after from the same base option values plus their own header set; the caller changing its header objects after NewClient or after Initialize (Set / delete / append / new key through the map API; separately: writes into the value slices it handed over). History: canonical + a call vetoed by every before-request function and retried + a call answered 503 and retried + (Streamable) terminate, Close, Initialize, more traffic, terminate; every second random list runs a random history instead. "+
		"Judged per request in that pass: a header name configured by one set only - exactly its values; a name configured by several sets (same canonical name) - at least the values of the last set naming it and nothing no set configured under it (merge or later-wins both accepted and counted); no header of another client, nothing the caller wrote after construction through the map API; the LAST before-request function exactly once (earlier ones at most once; counted), with the caller's context token; the LAST request handler, the LAST path (the server serves the earlier ones too, to tell 'earlier path used' from 'path ignored'), the factory receives the LAST service name and EVERY handler option; session id, veto and lost/duplicate rules as in the other passes. "+
		"Sixth pass, one target for every request kind (both clients; target.go): a PRNG-determined list - every server-URL query form {none, one parameter, several, escaped characters, empty value + valueless key, bare trailing '?'} x every WithClientPath form {not given, absolute, absolute with trailing slash, without leading slash, containing a literal '%', containing a space and non-ASCII, containing '?', empty string} once, plus seeded further draws (quick 12, thorough 150 per client); the URL path form {plain, trailing slash, prefix, prefix + trailing slash, escaped characters incl. %2F, no path, '/'}, userinfo (1 in 4), fragment (1 in 5), WithHTTPHeaders / a header-setting before-request function / a header-setting request handler (each 1 in 2) and the legacy endpoint form {path-absolute, relative, absolute URL, extra query parameters, escaped query, dot segments} are drawn. A raw TCP front records request line, Host and headers of every request and forwards it to the reference server under the served path (a misrouted request is still answered, so every kind stays observable). History: Initialize, (stream up), ListTools, notification, roots provider, server-issued roots/list and unknown request answered, CallTool, Streamable: Close + Initialize on the same client (second listening-stream GET), ListPrompts, roots/list answered, notification, TerminateSession. "+
		"Judged per (configuration, request kind) cell: request target byte-equal to the one most request kinds of that client use (Streamable: all kinds incl. both GETs and DELETE; legacy: all POST kinds), same Host, same Authorization derived from URL userinfo (legacy connect GET vs POSTs only when the announced endpoint is relative), Host = configured authority, decoded path = configured path (path option forms with more than one reading - no leading slash, literal '%', '?' - accept every reading and are otherwise judged across kinds only), raw query = the configured URL's query; legacy POSTs: query = the announced endpoint's own query, path = RFC 3986 resolution (net/url) of the announced endpoint against the configured connect URL; every header configured through WithHTTPHeaders / before-request / request handler present with its configured value. A cell whose kind was not observed counts as not observed (tgt_cells_not_observed), never as held. "+
		"A case is distinct by (client, request kind, configuration bitmask), target-pass cells by (client, kind, query form, path form, header options, endpoint form), composed cases by (list name or multiplicity profile, client, request kind), vetoed cases by (client, vetoed request kind, bitmask), retry cases by (failure mode, client, request kind, bitmask), successions by (client, ordered pair of kinds, static headers y/n, before-request y/n; only steps during which a request reached the server); all judged requests count, conforming or not. "+
		"Non-vacuity: every succession history without veto must have executed all n*n ordered pairs (169 Streamable, 144 legacy), and every Streamable request kind must have been judged after a termination on the same client.",
		[]string{
			"there is no public option for a custom http.Client; the recording request handler substitutes its own client, so 'through the configured handler' also covers 'with the configured client'",
			"operations of one client are issued sequentially; a foreground request is attributed to the call during which it arrived at the server, background requests (listening-stream GET, answers to server-issued requests) by kind",
			"an operation 'fails with that error' when errors.Is holds or its message contains the before-request error's text (several operations wrap with %v)",
			"no retry option is configured, so one request per operation is expected but not required",
			"configurations run one after another because NewHTTPReqHandler is a package variable",
			"a server-issued request whose answer never arrives within 10 s is inconclusive, not a violation",
			"the context handed to the configured request handler is held to the same rule as the one handed to before-request (the statement names only the latter explicitly); reported under separate handler-* symptoms",
			"a second Initialize that fails after a failed first one is accepted (client not re-initialisable) unless it fails with the before-request error although its own context passes the before-request function",
			"after a 503 on initialize the Streamable client may not open a listening stream; the harness waits 300 ms for it and otherwise skips the server pushes of that history (coverage, not verdict)",
			"'once one has been issued, the session id' is read as: the id currently in force - after a successful DELETE none is, until the next initialize is answered; an initialize sent after Close WITHOUT termination may (and with this library does) carry the still-valid id",
			"a call the harness made fail by a scripted 503, and TerminateSession while no session is current, may return an error or not; only the requests they emit are judged",
			"the legacy SSE client cannot be initialised again after Close and its TerminateSession sends nothing, so Close + Initialize successions exist for the Streamable client only",
			"composed option lists: the statement's 'configured' is read as 'in force after the whole option list was applied, as handed over at construction'. Common to both readings of a repeated option (later overrides earlier / they combine) is that the last instance is in force, so only that is required; which of the two the library does is counted (comp_outcome|...). WithHTTPReqHandlerOption is documented as ADDING options, so every one must reach the factory",
			"header names are compared in canonical form (HTTP header names are case-insensitive; the reference server is net/http); a configured header with an empty value must arrive with an empty value; a configured key without any value configures nothing",
			"a caller writing IN PLACE into a value slice it handed to WithHTTPHeaders (no Header-API call does that) is not decided by the statement (Go APIs commonly retain caller slices): counted and reported as a note, not judged; mutations through the map / Header API are judged",
			"violations of the composition pass carry the option family and its multiplicity as a fifth signature segment (e.g. |static-headers-x2), other symptoms there |composed-options",
			"target pass: 'goes to the configured URL and path' is read as: authority, userinfo and query of the server URL string handed to the constructor, path = the WithClientPath value when one is given and non-empty, else the URL's path; the legacy POSTs go to the endpoint the server announced, resolved per RFC 3986 against the connect URL (own query kept, base query not inherited). Whether a trailing bare '?' or a fragment is sent is only judged across request kinds",
			"client sockets are reset on close (SO_LINGER 0) to keep thousands of short-lived clients from exhausting ephemeral ports; the 'refuse' mode hangs up on accepted connections instead of unbinding the port",
		})
}
