package main

// Reference interpreter of the onion model (DESIGN.md Appendix A). It knows nothing of the library: it
// takes a chain of behaviours and one request and says which stages run in which order, what every
// stage sees (request tag, context marks, what came back from the inside) and what the client receives.

import (
	"fmt"
	"sort"
	"strconv"
	"strings"
)

type beh byte

const (
	bPass     beh = 'P' // call next, return its value
	bModReq   beh = 'Q' // call next with a modified request and a derived context
	bModRes   beh = 'R' // call next, transform what it returned
	bShort    beh = 'S' // return a result without calling next
	bShortErr beh = 'E' // return a *JSONRPCError without calling next
	bFail     beh = 'F' // return (nil, error) without calling next
	// further modify-request behaviours (scenario "rewrite"); all of them keep req.ID, append their tag suffix
	// to arguments.tag and derive a context, exactly like Q
	bModIn  beh = 'I' // rewrite req.Params on the object it was given, pass the same pointer on
	bRwCopy beh = 'M' // copy the request, set another Method (and the params that method needs) on the copy
	bRwIn   beh = 'N' // set another Method (and params) on the object it was given, pass the same pointer on
	bRwNew  beh = 'W' // build a whole new request object (only the id is taken over) with another Method
	// conditional variants: act only on requests whose id ends in "-bad", otherwise pass
	bFailBad     beh = 'f'
	bShortBad    beh = 's'
	bShortErrBad beh = 'e'
)

var sixBehaviours = []beh{bPass, bModReq, bModRes, bShort, bShortErr, bFail}

// tenBehaviours is the alphabet of the rewrite scenario.
var tenBehaviours = []beh{bPass, bModReq, bModRes, bShort, bShortErr, bFail, bModIn, bRwCopy, bRwIn, bRwNew}

func (b beh) rewritesMethod() bool { return b == bRwCopy || b == bRwIn || b == bRwNew }
func (b beh) modifiesRequest() bool {
	return b == bModReq || b == bModIn || b.rewritesMethod()
}

func isBad(id string) bool { return strings.HasSuffix(id, "-bad") }

// effective resolves a conditional behaviour for one request.
func (b beh) effective(id string) beh {
	switch b {
	case bFailBad:
		if isBad(id) {
			return bFail
		}
		return bPass
	case bShortBad:
		if isBad(id) {
			return bShort
		}
		return bPass
	case bShortErrBad:
		if isBad(id) {
			return bShortErr
		}
		return bPass
	}
	return b
}

func chainString(c []beh) string {
	if len(c) == 0 {
		return "-"
	}
	return string(toBytes(c))
}

func toBytes(c []beh) []byte {
	out := make([]byte, len(c))
	for i, b := range c {
		out[i] = byte(b)
	}
	return out
}

// mStage is one entry of a request's trace.
type mStage struct {
	Stage string `json:"stage"`            // m<i>-before | m<i>-after | handler
	Meth  string `json:"method,omitempty"` // before-stages and handler: the request's method as seen here
	Marks string `json:"marks,omitempty"`  // indices of the modReq middlewares whose context value is visible here
	Tag   string `json:"tag,omitempty"`    // the request's tag argument as seen here
	Inner string `json:"inner,omitempty"`  // after-stages: what the inside returned (result | rpcerr:<code> | goerr | -)
}

// mVal is what a stage returns.
type mVal struct {
	Class    string      // result | rpcerr | goerr
	Origin   string      // handler | short | shortErr | fail
	Method   string      // the request's method where the value was produced (decides the shape of a result)
	Base     *baseAnswer // handler values of methods judged against the middleware-free reference answer
	At       int         // index of the producing middleware (-1: handler)
	Tag      string      // handler results: the tag the handler saw
	ResMarks []int       // modRes middlewares applied, innermost first
	Code     int
	Msg      string
}

func (v mVal) classStr() string {
	if v.Class == "rpcerr" {
		return "rpcerr:" + strconv.Itoa(v.Code)
	}
	return v.Class
}

func shortErrCode(i int) int { return -32050 - i }

func fmtMarks(m []int) string {
	m = append([]int{}, m...)
	sort.Ints(m) // the observer lists the visible marks by ascending middleware number
	s := make([]string, len(m))
	for i, x := range m {
		s[i] = strconv.Itoa(x)
	}
	return strings.Join(s, ",")
}

// handlerObservable: methods whose handler is user code that can append to the trace.
func handlerObservable(method string) bool { return method == "tools/call" || method == "prompts/get" }

// modelled: methods whose handler answer the interpreter knows by itself; every other method's answer is
// taken from the reference answer of a middleware-free server (baseline.go).
func modelled(method string) bool {
	switch method {
	case "tools/call", "prompts/get", "ping", "tools/list":
		return true
	}
	return false
}

// evalEnv is what the interpreter needs beyond the chain: the method every rewriting middleware sets and
// the reference answers of the core for the methods it does not model.
type evalEnv struct {
	targets []string                        // by chain index; "" for middlewares that leave the method alone
	base    func(method string) *baseAnswer // nil result: no reference answer (the case cannot be judged)
	// uids: scenario "shared" — the number under which the middleware at chain position i is known (its stages are
	// named m<uid>-before/after, its tag suffix is +m<uid>, ...). One middleware value can sit at different positions
	// of different servers, so there the name cannot be the position. nil: the name is the position.
	uids []int
}

func (e *evalEnv) name(i int) int {
	if e.uids == nil {
		return i
	}
	return e.uids[i]
}

// eval interprets chain[i:] for one request and appends the stages that run to tr.
func eval(env *evalEnv, chain []beh, i int, id, method, tag string, marks []int, tr *[]mStage) mVal {
	if i == len(chain) {
		if handlerObservable(method) {
			*tr = append(*tr, mStage{Stage: "handler", Meth: method, Marks: fmtMarks(marks), Tag: tag})
		}
		if !modelled(method) {
			b := env.base(method)
			v := mVal{Class: b.Class, Origin: "handler", At: -1, Tag: tag, Method: method, Base: b, Code: b.Code, Msg: b.Msg}
			return v
		}
		return mVal{Class: "result", Origin: "handler", At: -1, Tag: tag, Method: method}
	}
	u := env.name(i)
	*tr = append(*tr, mStage{Stage: fmt.Sprintf("m%d-before", u), Meth: method, Marks: fmtMarks(marks), Tag: tag})
	var v mVal
	inner := "-"
	switch b := chain[i].effective(id); b {
	case bPass:
		v = eval(env, chain, i+1, id, method, tag, marks, tr)
		inner = v.classStr()
	case bModReq, bModIn, bRwCopy, bRwIn, bRwNew:
		m2 := method
		if b.rewritesMethod() {
			m2 = env.targets[i]
		}
		v = eval(env, chain, i+1, id, m2, tag+fmt.Sprintf("+m%d", u), append(append([]int{}, marks...), u), tr)
		inner = v.classStr()
	case bModRes:
		v = eval(env, chain, i+1, id, method, tag, marks, tr)
		inner = v.classStr()
		if v.Class != "goerr" { // an error travels outward untouched
			v.ResMarks = append(append([]int{}, v.ResMarks...), u)
		}
	case bShort:
		v = mVal{Class: "result", Origin: "short", At: u, Method: method}
	case bShortErr:
		v = mVal{Class: "rpcerr", Origin: "shortErr", At: u, Method: method, Code: shortErrCode(u), Msg: fmt.Sprintf("shortErr:m%d:%s", u, id)}
	case bFail:
		v = mVal{Class: "goerr", Origin: "fail", At: u, Method: method, Code: -32603, Msg: fmt.Sprintf("fail:m%d:%s", u, id)}
	}
	*tr = append(*tr, mStage{Stage: fmt.Sprintf("m%d-after", u), Inner: inner})
	return v
}

func textC(s string) map[string]interface{} { return map[string]interface{}{"type": "text", "text": s} }

func resSuffix(marks []int) string {
	s := ""
	for _, m := range marks {
		s += fmt.Sprintf("+m%d", m)
	}
	return s
}

// wantResult renders the result object the client must receive for a value of class "result".
// tools/list and the reference-judged methods with Origin handler are judged in judgeWire and return nil here.
func (v mVal) wantResult(id string) map[string]interface{} {
	method := v.Method
	if method == "tools/call" { // typed *CallToolResult all the way: modRes appends a text content
		base := id + "|" + v.Tag
		if v.Origin == "short" {
			base = fmt.Sprintf("short:m%d:%s", v.At, id)
		}
		content := []interface{}{textC(base)}
		for _, m := range v.ResMarks {
			content = append(content, textC(fmt.Sprintf("res+m%d", m)))
		}
		return map[string]interface{}{"content": content}
	}
	var out map[string]interface{}
	switch {
	case v.Origin == "short":
		out = map[string]interface{}{"c15_short": fmt.Sprintf("m%d", v.At), "nonce": id}
	case method == "prompts/get":
		out = map[string]interface{}{"messages": []interface{}{map[string]interface{}{"role": "user", "content": textC(id + "|" + v.Tag)}}}
	case method == "ping":
		out = map[string]interface{}{}
	default:
		return nil
	}
	if len(v.ResMarks) > 0 {
		out["_c15res"] = resSuffix(v.ResMarks)
	}
	return out
}

// wantErrMsg is the exact message of a short-circuit JSON-RPC error after the outer modRes stages.
func (v mVal) wantErrMsg() string { return v.Msg + resSuffix(v.ResMarks) }
