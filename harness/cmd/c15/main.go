// C15 — middlewares wrap every request as an onion, each exactly once.
package main

import (
	"context"
	"encoding/json"
	"fmt"
	"reflect"
	"sort"
	"strings"
	"sync"
	"sync/atomic"
	"time"

	"verifharness/lib/kit"
	"verifharness/lib/vh"
)

// per case: quick 8 requests from 2 sessions, thorough 16 from 4
var (
	reqsPerCase  = 8
	sessPerCase  = 2
	sampleStride = 1
)

var kinds = []kit.Kind{kit.SJSON, kit.SSSE, kit.LSSE}
var otherMethods = []string{"tools/list", "ping", "prompts/get"}

type caseSpec struct {
	No       int
	Scenario string // chain | isolation | rewrite
	Chain    []beh
	Kind     kit.Kind
	Method   string // the method the client sends
	Form     string
	Plan     *plan // rewrite scenario: what the method-rewriting middlewares set
}

// plan: the method the client sends and the methods the rewriting middlewares of the chain set, in chain order
// (cyclically when the chain has more rewriters than the plan has targets).
type plan struct {
	Class   string // alias>known | known>known | known>unknown | unknown>unknown | two-step | same
	Initial string
	Targets []string
}

func (p *plan) name() string {
	s := methodLabel(p.Initial)
	for _, t := range p.Targets {
		s += ">" + methodLabel(t)
	}
	return s
}

var plans = []plan{
	{"alias>known", "tools/ls", []string{"tools/list"}},
	{"alias>known", "x-vendor/call", []string{"tools/call"}},
	{"alias>known", "x-vendor/prompt", []string{"prompts/get"}},
	{"alias>known", " ", []string{"ping"}},
	{"alias>known", "logging/setLevel", []string{"tools/call"}},
	{"alias>known", "x-vendor/a", []string{"resources/list"}},
	{"known>known", "tools/list", []string{"tools/call"}},
	{"known>known", "tools/call", []string{"prompts/get"}},
	{"known>known", "ping", []string{"tools/call"}},
	{"known>known", "prompts/get", []string{"ping"}},
	{"known>known", "tools/call", []string{"tools/list"}},
	{"known>known", "tools/call", []string{"resources/read"}},
	{"known>known", "resources/list", []string{"prompts/get"}},
	{"known>unknown", "tools/call", []string{"x-vendor/do"}},
	{"known>unknown", "ping", []string{"logging/setLevel"}},
	{"known>unknown", "prompts/get", []string{" "}},
	{"known>unknown", "tools/list", []string{"completion/complete"}},
	{"unknown>unknown", "x-vendor/a", []string{"x-vendor/b"}},
	{"two-step", "x-vendor/call", []string{"prompts/get", "tools/call"}},
	{"two-step", "tools/call", []string{"x-vendor/do", "tools/call"}},
	{"two-step", "tools/ls", []string{"tools/list", "ping"}},
	{"same", "tools/call", []string{"tools/call"}},
	{"same", "prompts/get", []string{"prompts/get"}},
}

// targetsFor assigns the plan's targets to the rewriting middlewares of the chain.
func targetsFor(chain []beh, p *plan) []string {
	out := make([]string, len(chain))
	if p == nil {
		return out
	}
	k := 0
	for i, b := range chain {
		if b.rewritesMethod() {
			out[i] = p.Targets[k%len(p.Targets)]
			k++
		}
	}
	return out
}

func (sp caseSpec) methodSig() string {
	if sp.Plan != nil {
		return sp.Plan.name()
	}
	return methodLabel(sp.Method)
}

func hasRequestModifierBeyondQ(c []beh) bool {
	for _, b := range c {
		if b == bModIn || b.rewritesMethod() {
			return true
		}
	}
	return false
}

// chainsOver enumerates every chain of exactly length n over the alphabet.
func chainsOver(alpha []beh, n int) [][]beh {
	out := [][]beh{{}}
	for l := 0; l < n; l++ {
		var nx [][]beh
		for _, c := range out {
			for _, b := range alpha {
				nx = append(nx, append(append([]beh{}, c...), b))
			}
		}
		out = nx
	}
	return out
}

// buildRewriteChains: chains over the ten behaviours that contain at least one of I, M, N, W.
func buildRewriteChains(r *vh.Run) [][]beh {
	var chains [][]beh
	full := r.Pick(2, 3)
	for n := 1; n <= full; n++ {
		for _, c := range chainsOver(tenBehaviours, n) {
			if hasRequestModifierBeyondQ(c) {
				chains = append(chains, c)
			}
		}
	}
	rng := r.Rand("rewrite-chains")
	seen := map[string]bool{}
	for len(seen) < r.Pick(120, 600) {
		n := full + 1 + rng.Intn(4-full)
		c := make([]beh, n)
		for i := range c {
			c[i] = tenBehaviours[rng.Intn(len(tenBehaviours))]
		}
		if !hasRequestModifierBeyondQ(c) || seen[chainString(c)] {
			continue
		}
		seen[chainString(c)] = true
		chains = append(chains, c)
	}
	return chains
}

// allChains enumerates every chain of exactly length n over the six behaviours.
func allChains(n int) [][]beh {
	out := [][]beh{{}}
	for l := 0; l < n; l++ {
		var nx [][]beh
		for _, c := range out {
			for _, b := range sixBehaviours {
				nx = append(nx, append(append([]beh{}, c...), b))
			}
		}
		out = nx
	}
	return out
}

func buildChains(r *vh.Run) [][]beh {
	var chains [][]beh
	if !r.Quick() {
		for n := 0; n <= 4; n++ {
			chains = append(chains, allChains(n)...)
		}
		return chains
	}
	for n := 0; n <= 2; n++ {
		chains = append(chains, allChains(n)...)
	}
	rng := r.Rand("chains")
	seen := map[string]bool{}
	for len(seen) < 150 {
		n := 3 + rng.Intn(2)
		c := make([]beh, n)
		for i := range c {
			c[i] = sixBehaviours[rng.Intn(len(sixBehaviours))]
		}
		if seen[chainString(c)] {
			continue
		}
		seen[chainString(c)] = true
		chains = append(chains, c)
	}
	return chains
}

// isolationChains: a middleware acts only on requests whose id ends in "-bad"; the others must be served normally.
var isolationChains = []string{"f", "Pf", "fP", "QfR", "RfQ", "RRRf", "fRRR", "s", "RsQ", "QsR", "e", "ReQ", "QeRf", "fse", "PQRf"}

func buildCases(r *vh.Run) []caseSpec {
	var cases []caseSpec
	add := func(sc string, c []beh, k kit.Kind, m, f string) {
		cases = append(cases, caseSpec{No: len(cases), Scenario: sc, Chain: c, Kind: k, Method: m, Form: f})
	}
	extra := r.Pick(2, 2) // per chain and kind: that many methods off the dispatch table and that many unmodelled built-in ones
	for ci, c := range buildChains(r) {
		forms := formsFor(len(c))
		for ki, k := range kinds {
			for _, f := range forms {
				add("chain", c, k, "tools/call", f)
			}
			for mi, m := range otherMethods {
				add("chain", c, k, m, forms[(ci+ki+mi)%len(forms)])
			}
			for x := 0; x < extra; x++ {
				add("chain", c, k, offTable[(ci*extra+ki+x)%len(offTable)], forms[(ci+ki+x)%len(forms)])
				add("chain", c, k, inTable[(ci*extra+ki+x)%len(inTable)], forms[(ci+ki+x+1)%len(forms)])
			}
		}
	}
	for ci, s := range isolationChains {
		c := []beh(nil)
		for _, b := range []byte(s) {
			c = append(c, beh(b))
		}
		forms := formsFor(len(c))
		for ki, k := range kinds {
			for mi, m := range []string{"tools/call", "ping", "prompts/get", "logging/setLevel", "x-vendor/do", "resources/list"} {
				add("isolation", c, k, m, forms[(ci+ki+mi)%len(forms)])
			}
		}
	}
	for ci, c := range buildRewriteChains(r) {
		forms := formsFor(len(c))
		np := 5
		if !r.Quick() && len(c) <= 2 {
			np = len(plans)
		}
		for ki, k := range kinds {
			for x := 0; x < np; x++ {
				p := &plans[(ci*np+ki*7+x)%len(plans)]
				cases = append(cases, caseSpec{No: len(cases), Scenario: "rewrite", Chain: c, Kind: k, Method: p.Initial, Form: forms[(ci+ki+x)%len(forms)], Plan: p})
			}
		}
	}
	return cases
}

type reqOutcome struct {
	ID      string
	Sess    int
	Frames  []string
	Status  int
	HTTPErr string
	Timed   bool
}

type wireFrame struct {
	ID     json.RawMessage `json:"id"`
	Result json.RawMessage `json:"result"`
	Error  *struct {
		Code    int    `json:"code"`
		Message string `json:"message"`
	} `json:"error"`
}

func normalise(v interface{}) interface{} {
	b, _ := json.Marshal(v)
	var out interface{}
	_ = json.Unmarshal(b, &out)
	return out
}

func stopClass(chain []beh, id string) string {
	for _, b := range chain {
		switch b.effective(id) {
		case bShort, bShortErr, bFail:
			return string([]byte{byte(b.effective(id))})
		}
	}
	return "none"
}

func stagesOf(obs []obsStage) []mStage {
	out := make([]mStage, len(obs))
	for i, o := range obs {
		out[i] = o.mStage
	}
	return out
}

// traceSymptom classifies a trace mismatch.
func traceSymptom(want, got []mStage) string {
	wc, gc := map[string]int{}, map[string]int{}
	for _, s := range want {
		wc[s.Stage]++
	}
	for _, s := range got {
		gc[s.Stage]++
	}
	for s, n := range gc {
		if n > 1 {
			return "stage-ran-more-than-once"
		}
		if wc[s] == 0 {
			return "stage-ran-inside-a-stopped-chain"
		}
	}
	for s := range wc {
		if gc[s] == 0 {
			return "stage-missing"
		}
	}
	for i := range want {
		if want[i].Stage != got[i].Stage {
			return "stage-order"
		}
	}
	for i := range want {
		if want[i].Meth != got[i].Meth {
			return "method-seen-by-stage-differs"
		}
		if want[i].Tag != got[i].Tag {
			return "request-seen-by-stage-differs"
		}
		if want[i].Marks != got[i].Marks {
			return "context-seen-by-stage-differs"
		}
		if want[i].Inner != got[i].Inner {
			return "value-returned-to-stage-differs"
		}
	}
	return "trace-differs"
}

var (
	maxOverlap atomic.Int64
)

func runCase(r *vh.Run, sp caseSpec) {
	n := len(sp.Chain)
	cs := newCaseState(n)
	chs := chainString(sp.Chain)
	label := fmt.Sprintf("%s chain=%s method=%s form=%s", sp.Kind, chs, sp.methodSig(), sp.Form)
	rng := r.Rand(fmt.Sprintf("case-%d", sp.No))
	msig := sp.methodSig()

	// the methods this case can reach; those the interpreter does not model need a reference answer
	cs.targets = targetsFor(sp.Chain, sp.Plan)
	env := &evalEnv{targets: cs.targets, base: func(m string) *baseAnswer { return baseFor(sp.Kind, m) }}
	for _, m := range append([]string{sp.Method}, cs.targets...) {
		if m != "" && !modelled(m) && baseFor(sp.Kind, m) == nil {
			r.Count("cases_skipped_without_reference_answer", 1)
			r.Inconclusive(fmt.Sprintf("%s: skipped, the middleware-free %s server gave no usable reference answer to %q", label, sp.Kind, m))
			return
		}
	}

	// the requests of this case
	ids := make([]string, reqsPerCase)
	for k := range ids {
		ids[k] = fmt.Sprintf("c15-%d-%d", sp.No, k)
		if sp.Scenario == "isolation" && k%3 == 2 {
			ids[k] += "-bad"
		}
	}
	// model
	wantTrace := map[string][]mStage{}
	wantVal := map[string]mVal{}
	expectedCalls := int64(0)
	for _, id := range ids {
		var tr []mStage
		wantVal[id] = eval(env, sp.Chain, 0, id, sp.Method, "t", nil, &tr)
		wantTrace[id] = tr
		for _, s := range tr {
			if strings.HasSuffix(s.Stage, "-before") {
				expectedCalls++
			}
		}
	}
	// gate: a before-stage every request reaches
	if n > 0 {
		reach := 0 // highest index reached by every request
		for _, id := range ids {
			d := 0
			for d < n-1 {
				e := sp.Chain[d].effective(id)
				if e == bShort || e == bShortErr || e == bFail {
					break
				}
				d++
			}
			if id == ids[0] || d < reach {
				reach = d
			}
		}
		cs.gateAt = rng.Intn(reach + 1)
		cs.gate = fmt.Sprintf("c15-gate-%d", sp.No)
	}

	in := kit.Start(sp.Kind, cs.opts(sp.Kind, sp.Chain, sp.Form))
	defer in.Close()
	cs.register(in)
	ctx, cancel := context.WithTimeout(context.Background(), 90*time.Second)
	defer cancel()

	conns := make([]*kit.RawConn, sessPerCase)
	for s := range conns {
		c, err := in.Dial(ctx)
		if err != nil {
			r.Fatal("dial %s: %v", label, err)
		}
		defer c.Close()
		if err := c.Handshake(ctx); err != nil {
			r.Violation(fmt.Sprintf("C15|handshake|%s|len=%d|failed", sp.Kind, n), fmt.Sprintf("%s: handshake through the chain failed: %v", label, err), map[string]interface{}{"chain": chs, "form": sp.Form})
			if cs.gate != "" {
				kit.G.Open(cs.gate)
			}
			return
		}
		conns[s] = c
	}
	seenSess := map[string]bool{}
	for _, c := range conns {
		if c.SessionID == "" || seenSess[c.SessionID] {
			r.Fatal("%s: raw peer holds an unusable session id %q", label, c.SessionID)
		}
		seenSess[c.SessionID] = true
	}

	outs := make([]reqOutcome, len(ids))
	var wg sync.WaitGroup
	var answered atomic.Int64
	for k, id := range ids {
		wg.Add(1)
		go func(k int, id string) {
			defer wg.Done()
			defer answered.Add(1)
			c := conns[k%sessPerCase]
			ex := c.Post(ctx, reqBody(id, sp.Method), kit.PostOpts{WantID: kit.CanonID(json.RawMessage(fmt.Sprintf("%q", id))), Wait: postWait()})
			if ex.TimedOut {
				watchdogFired.Add(1)
			}
			o := reqOutcome{ID: id, Sess: k % sessPerCase, Frames: ex.Frames, Timed: ex.TimedOut}
			if ex.HTTP != nil {
				o.Status, o.HTTPErr = ex.HTTP.Status, ex.HTTP.Err
			}
			outs[k] = o
		}(k, id)
	}
	if cs.gate != "" {
		// hold the requests together: wait until every request either waits at the gate or has been answered
		// (a request that never reaches the gated stage must not stall the run; its trace tells the story)
		got, deadline := 0, time.Now().Add(20*time.Second)
		for {
			got = kit.G.AwaitWaiters(cs.gate, len(ids), 20*time.Millisecond)
			if got+int(answered.Load()) >= len(ids) {
				break
			}
			if time.Now().After(deadline) {
				r.Inconclusive(fmt.Sprintf("%s: only %d of %d requests reached the gated middleware m%d within 20 s, %d answered", label, got, len(ids), cs.gateAt, answered.Load()))
				break
			}
		}
		r.Max("requests_held_in_one_middleware", int64(got))
		kit.G.Open(cs.gate)
	}
	wg.Wait()
	for m := cs.maxInflight.Load(); ; {
		cur := maxOverlap.Load()
		if m <= cur || maxOverlap.CompareAndSwap(cur, m) {
			break
		}
	}
	r.Max("requests_inside_chain_at_once", cs.maxInflight.Load())

	cs.mu.Lock()
	traces := map[string][]obsStage{}
	for k, v := range cs.traces {
		traces[k] = append([]obsStage{}, v...)
	}
	cs.mu.Unlock()

	// traces under nonces nobody sent
	sent := map[string]bool{}
	for _, id := range ids {
		sent[id] = true
	}
	for nonce := range traces {
		if !sent[nonce] {
			r.Violation(fmt.Sprintf("C15|%s|%s|%s|stage-for-unknown-request", sp.Scenario, sp.Kind, msig),
				fmt.Sprintf("%s: stages were recorded for request %q which was never sent", label, nonce), map[string]interface{}{"trace": traces[nonce]})
		}
	}

	for _, o := range outs {
		r.Eval(1)
		r.Count("requests", 1)
		want, got := wantTrace[o.ID], traces[o.ID]
		v := wantVal[o.ID]
		stop := stopClass(sp.Chain, o.ID)
		wit := map[string]interface{}{"kind": sp.Kind, "chain": chs, "form": sp.Form, "method": sp.Method, "rewrites": cs.targets, "id": o.ID, "session": conns[o.Sess].SessionID,
			"expected_trace": want, "observed_trace": got, "frames": o.Frames, "status": o.Status, "http_err": o.HTTPErr, "timed_out": o.Timed,
			"expected_outcome": map[string]interface{}{"class": v.Class, "origin": v.Origin, "at": v.At, "code": v.Code, "modres": v.ResMarks}}
		r.Count("stages_observed", int64(len(got)))
		ok := true

		// 1. trace
		if !reflect.DeepEqual(stagesOf(got), want) && !(len(got) == 0 && len(want) == 0) {
			ok = false
			if o.Timed && len(o.Frames) == 0 && len(got) < len(want) {
				r.Inconclusive(fmt.Sprintf("%s: request %s did not finish before the watchdog (trace %d of %d stages)", label, o.ID, len(got), len(want)))
				continue
			}
			r.Violation(fmt.Sprintf("C15|%s|%s|%s|stop=%s|%s", sp.Scenario, sp.Kind, msig, stop, traceSymptom(want, stagesOf(got))),
				fmt.Sprintf("%s: request %s: trace differs from the onion model", label, o.ID), wit)
		}
		for _, s := range got {
			if s.ForeignMark {
				ok = false
				r.Violation(fmt.Sprintf("C15|%s|%s|%s|context-of-another-request", sp.Scenario, sp.Kind, msig),
					fmt.Sprintf("%s: request %s: stage %s saw a context value derived for another request", label, o.ID, s.Stage), wit)
				break
			}
		}

		// 2. what the client received
		if sym, what := judgeWire(o, v); sym != "" {
			ok = false
			if sym == "missing-answer" && o.Timed && len(got) < len(want) {
				r.Inconclusive(fmt.Sprintf("%s: request %s unanswered at the watchdog with an unfinished trace", label, o.ID))
			} else {
				r.Violation(fmt.Sprintf("C15|%s|%s|%s|outcome=%s|%s", sp.Scenario, sp.Kind, msig, v.Origin, sym),
					fmt.Sprintf("%s: request %s: %s", label, o.ID, what), wit)
			}
		}

		// 3. session seen by the stages
		judgeSessions(r, sp, label, o, conns[o.Sess].SessionID, got, wit)

		if ok {
			r.Distinct(fmt.Sprintf("%s|%s|%s|%s|%s", sp.Scenario, sp.Kind, chs, msig, sp.Form))
			r.SetAdd("outcome_classes", fmt.Sprintf("%s/%s/%s", sp.Kind, msig, v.Origin))
			countNewClasses(r, sp, want, got, v)
		}
	}

	// 4. notifications bypass the chain (nothing is in flight now)
	if n > 0 {
		judgeNotifications(r, sp, label, cs, conns, ctx)
	}

	// 5. invocation totals
	if n > 0 {
		wantForeign := int64(sessPerCase * n) // the initialize request of every handshake passes every middleware
		if c, f := cs.calls.Load(), cs.foreign.Load(); c != expectedCalls+wantForeign || f != wantForeign {
			r.Violation(fmt.Sprintf("C15|%s|%s|%s|invocation-total", sp.Scenario, sp.Kind, msig),
				fmt.Sprintf("%s: middlewares were invoked %d times (%d for requests that are not ours), the model says %d (%d)", label, c, f, expectedCalls+wantForeign, wantForeign), nil)
		}
		if x := cs.notifInChain.Load(); x != 0 {
			r.Violation(fmt.Sprintf("C15|notification|%s|entered-chain", sp.Kind), fmt.Sprintf("%s: %d middleware invocations carried a notification", label, x), nil)
		}
	}

	r.Count("cases", 1)
	r.SetAdd("chains", chs)
	r.SetAdd("form_by_len", fmt.Sprintf("len=%d/%s/%s", n, sp.Form, sp.Kind))
	r.SetAdd("methods", string(sp.Kind)+"/"+methodLabel(sp.Method))
	if sp.Plan != nil {
		r.SetAdd("rewrite_plans", string(sp.Kind)+"/"+sp.Plan.name())
	}
	if n >= 2 && sp.No%sampleStride == 0 {
		r.Sample(map[string]interface{}{"scenario": sp.Scenario, "kind": sp.Kind, "chain": chs, "form": sp.Form, "method": sp.Method, "rewrites": cs.targets, "id": outs[0].ID,
			"expected_trace": wantTrace[outs[0].ID], "observed_trace": traces[outs[0].ID], "answer": firstOr(outs[0].Frames)})
	}
}

// countNewClasses: evidence for the requests whose trace and answer matched the interpreter — what of the
// off-table / rewrite classes was actually observed.
func countNewClasses(r *vh.Run, sp caseSpec, want []mStage, got []obsStage, v mVal) {
	if len(sp.Chain) == 0 {
		return // no chain, nothing of the property to see
	}
	if sp.Plan == nil && isOffTable(sp.Method) {
		r.Count("offtable_requests_matched", 1)
		r.SetAdd("offtable_methods_matched", fmt.Sprintf("%s/%s/%s", sp.Kind, methodLabel(sp.Method), v.Origin))
	}
	if v.Origin == "handler" && v.Base != nil && v.Base.Class == "rpcerr" {
		for _, s := range got {
			if strings.HasSuffix(s.Stage, "-after") && s.Inner == fmt.Sprintf("rpcerr:%d", v.Base.Code) {
				r.Count(fmt.Sprintf("core_error_%d_seen_by_middleware", v.Base.Code), 1)
				break
			}
		}
	}
	ran := map[byte]bool{} // request-modifying behaviours that ran for this request
	for _, st := range want {
		var i int
		if _, err := fmt.Sscanf(st.Stage, "m%d-before", &i); err == nil && strings.HasSuffix(st.Stage, "-before") && i < len(sp.Chain) {
			if b := sp.Chain[i]; b.modifiesRequest() {
				ran[byte(b)] = true
			}
		}
	}
	if v.Origin == "handler" {
		for b := range ran {
			r.Count(fmt.Sprintf("core_reached_through_modifier_%c", b), 1)
		}
	}
	if sp.Plan != nil && (ran[byte(bRwCopy)] || ran[byte(bRwIn)] || ran[byte(bRwNew)]) {
		r.Count("rewrite_requests_matched/"+sp.Plan.Class, 1)
		if v.Origin == "handler" && v.Method != sp.Method {
			r.Count("core_acted_on_rewritten_method", 1)
			r.SetAdd("core_acted_on", fmt.Sprintf("%s/%s=>%s", sp.Kind, methodLabel(sp.Method), methodLabel(v.Method)))
		}
	}
}

func firstOr(s []string) string {
	if len(s) == 0 {
		return ""
	}
	if len(s[0]) > 600 {
		return s[0][:600]
	}
	return s[0]
}

// judgeWire compares the answer with the model's value; returns (symptom, description) or ("","").
func judgeWire(o reqOutcome, v mVal) (string, string) {
	method := v.Method
	var answers []string
	for _, f := range o.Frames {
		if _, has, hasMethod := kit.FrameID(f); has && !hasMethod {
			answers = append(answers, f)
		}
	}
	if len(answers) == 0 {
		return "missing-answer", fmt.Sprintf("no answer (status %d, timed out %v)", o.Status, o.Timed)
	}
	if len(answers) > 1 {
		return "answer-count", fmt.Sprintf("%d answers", len(answers))
	}
	var w wireFrame
	if err := json.Unmarshal([]byte(answers[0]), &w); err != nil {
		return "unparsable-answer", err.Error()
	}
	if kit.CanonID(w.ID) != fmt.Sprintf("%q", o.ID) {
		return "wrong-id", fmt.Sprintf("answered with id %s", string(w.ID))
	}
	if v.Origin == "handler" && v.Base != nil {
		return judgeBase(w, v)
	}
	switch v.Class {
	case "result":
		if w.Error != nil {
			return "error-instead-of-result", fmt.Sprintf("expected a result from %s, got error %d %q", v.Origin, w.Error.Code, w.Error.Message)
		}
		var got interface{}
		if err := json.Unmarshal(w.Result, &got); err != nil {
			return "no-result", "answer without result"
		}
		if method == "tools/list" && v.Origin == "handler" {
			gm, ok := got.(map[string]interface{})
			if !ok {
				return "result-differs", "tools/list result is not an object"
			}
			for k := range gm {
				if k != "tools" && k != "nextCursor" && k != "_c15res" {
					return "result-differs", "tools/list result has the unexpected member " + k
				}
			}
			tl, _ := gm["tools"].([]interface{})
			if len(tl) != 1 {
				return "result-differs", fmt.Sprintf("tools/list result lists %d tools, want the one registered", len(tl))
			}
			if t, _ := tl[0].(map[string]interface{}); t == nil || t["name"] != "c15echo" {
				return "result-differs", "tools/list result does not list c15echo"
			}
			gr, _ := gm["_c15res"].(string)
			if gr != resSuffix(v.ResMarks) {
				return "result-differs", fmt.Sprintf("result transformations %q, want %q", gr, resSuffix(v.ResMarks))
			}
			return "", ""
		}
		want := normalise(v.wantResult(o.ID))
		if !reflect.DeepEqual(got, want) {
			wb, _ := json.Marshal(want)
			return "result-differs", fmt.Sprintf("result %s, the model says %s", string(w.Result), string(wb))
		}
	case "rpcerr":
		if w.Error == nil {
			return "result-instead-of-error", fmt.Sprintf("expected the middleware's JSON-RPC error %d, got a result", v.Code)
		}
		if w.Error.Code != v.Code {
			return "error-code", fmt.Sprintf("error code %d, the middleware returned %d", w.Error.Code, v.Code)
		}
		if w.Error.Message != v.wantErrMsg() {
			return "error-message", fmt.Sprintf("error message %q, want %q", w.Error.Message, v.wantErrMsg())
		}
	case "goerr":
		if w.Error == nil {
			return "result-instead-of-error", "a middleware returned an error but the client got a result"
		}
		if w.Error.Code != -32603 {
			return "error-code", fmt.Sprintf("middleware error arrived with code %d, want -32603", w.Error.Code)
		}
		if !strings.Contains(w.Error.Message, v.Msg) {
			return "error-message", fmt.Sprintf("error message %q does not contain %q", w.Error.Message, v.Msg)
		}
	}
	return "", ""
}

// judgeSessions: every stage must see the requesting session. Middlewares: through the documented accessor
// ClientSessionFromContext. Handlers: through either accessor. A foreign session is a violation with any accessor.
func judgeSessions(r *vh.Run, sp caseSpec, label string, o reqOutcome, sessID string, got []obsStage, wit map[string]interface{}) bool {
	reported := map[string]bool{}
	for _, s := range got {
		where := "middleware"
		if s.Stage == "handler" {
			where = "handler"
		}
		key := fmt.Sprintf("%s_%s", where, sp.Kind)
		switch {
		case s.CS == "<nil>":
			r.Count("ClientSessionFromContext_nil_"+key, 1)
		case s.CS == sessID:
			r.Count("ClientSessionFromContext_own_"+key, 1)
		}
		switch {
		case s.GS == "<nil>":
			r.Count("GetSessionFromContext_nil_"+key, 1)
		case s.GS == sessID:
			r.Count("GetSessionFromContext_own_"+key, 1)
		}
		sym := ""
		switch {
		case s.CS != "<nil>" && s.CS != sessID:
			sym = "ClientSessionFromContext-foreign"
		case s.GS != "<nil>" && s.GS != sessID:
			sym = "GetSessionFromContext-foreign"
		case where == "middleware" && s.CS == "<nil>":
			sym = "ClientSessionFromContext-nil"
		case where == "handler" && s.CS == "<nil>" && s.GS == "<nil>":
			sym = "no-session"
		}
		if sym == "" {
			continue
		}
		sig := fmt.Sprintf("C15|%s|%s-session|%s", sp.Kind, where, sym)
		if where == "handler" {
			sig = fmt.Sprintf("C15|%s|%s-session|%s|%s", sp.Kind, where, s.Meth, sym)
		}
		if reported[sig] {
			continue
		}
		reported[sig] = true
		r.Violation(sig, fmt.Sprintf("%s: request %s of session %s: stage %s saw ClientSessionFromContext=%s GetSessionFromContext=%s", label, o.ID, sessID, s.Stage, s.CS, s.GS), wit)
	}
	return len(reported) > 0
}

var watchdogFired atomic.Int64

// notifWait: how long to wait for a notification handler. Streamable servers run it before the POST returns, so
// there is nothing to wait for; the legacy server runs it in a goroutine. After a few expiries the watchdog is
// shortened so that a tree on which no notification is ever delivered cannot stall the run (the cases stay inconclusive).
func notifWait(k kit.Kind) time.Duration {
	switch {
	case k != kit.LSSE:
		return 0
	case watchdogFired.Load() > 4:
		return 300 * time.Millisecond
	}
	return 10 * time.Second
}

// postWait: watchdog for an answer on the asynchronous legacy stream, shortened after repeated expiries.
func postWait() time.Duration {
	if watchdogFired.Load() > 4 {
		return time.Second
	}
	return 30 * time.Second
}

func waitFor(d time.Duration, cond func() bool) bool {
	deadline := time.Now().Add(d)
	for !cond() {
		if time.Now().After(deadline) {
			return false
		}
		time.Sleep(200 * time.Microsecond)
	}
	return true
}

func judgeNotifications(r *vh.Run, sp caseSpec, label string, cs *caseState, conns []*kit.RawConn, ctx context.Context) {
	n := len(sp.Chain)
	// the two notifications/initialized of the handshakes: delivered, and the chain saw only what the model counts
	r.Eval(1)
	if !waitFor(notifWait(sp.Kind), func() bool { return cs.notifCount("notifications/initialized") >= len(conns) }) {
		watchdogFired.Add(1)
		r.Inconclusive(fmt.Sprintf("%s: notifications/initialized handler ran %d times for %d handshakes", label, cs.notifCount("notifications/initialized"), len(conns)))
	} else {
		r.Count("notifications_delivered", int64(len(conns)))
		r.Distinct(fmt.Sprintf("notification|%s|notifications/initialized|len=%d", sp.Kind, n))
	}
	for _, m := range notifMethods[1:] {
		for s, c := range conns {
			r.Eval(1)
			before, had := cs.calls.Load(), cs.notifCount(m)
			body := fmt.Sprintf(`{"jsonrpc":"2.0","method":%q,"params":{"k":%d}}`, m, s)
			ex := c.Post(ctx, []byte(body), kit.PostOpts{NoWait: true})
			st := 0
			if ex.HTTP != nil {
				st = ex.HTTP.Status
			}
			if !waitFor(notifWait(sp.Kind), func() bool { return cs.notifCount(m) > had }) {
				watchdogFired.Add(1)
				r.Inconclusive(fmt.Sprintf("%s: notification %s (status %d) did not reach its handler", label, m, st))
				continue
			}
			r.Count("notifications_delivered", 1)
			if after := cs.calls.Load(); after != before {
				r.Violation(fmt.Sprintf("C15|notification|%s|%s|entered-chain", sp.Kind, m),
					fmt.Sprintf("%s: posting %s made the middlewares run %d times", label, m, after-before), map[string]interface{}{"chain": chainString(sp.Chain), "status": st})
				continue
			}
			r.Distinct(fmt.Sprintf("notification|%s|%s|len=%d", sp.Kind, m, n))
		}
	}
}

func main() {
	kit.MaybeServeStdioChild()
	if vh.ChildRole() == panicRole {
		panicChild()
		return
	}
	kit.Silence()
	r := vh.NewRun("C15", "exploration")
	reqsPerCase, sessPerCase = r.Pick(8, 16), r.Pick(2, 4)
	acquireBaselines(r)
	cases := buildCases(r)
	shared := buildSharedCases(r)
	values := buildValueCases(r)
	panics := buildPanicCases(r)
	ctxviews := buildCtxviewCases(r)
	handshakes := buildHandshakeCases(r)
	sampleStride = len(cases)/4 + 1
	workers := 8
	ch := make(chan func())
	var wg sync.WaitGroup
	for w := 0; w < workers; w++ {
		wg.Add(1)
		go func() {
			defer wg.Done()
			for job := range ch {
				job()
			}
		}()
	}
	for _, vc := range ctxviews {
		vc := vc
		ch <- func() { runCtxviewCase(r, vc) }
	}
	for _, hc := range handshakes {
		hc := hc
		ch <- func() { runHandshakeCase(r, hc) }
	}
	for _, vc := range values {
		vc := vc
		ch <- func() { runValueCase(r, vc) }
	}
	for _, pc := range panics {
		pc := pc
		ch <- func() { runPanicCase(r, pc) }
	}
	for _, sp := range shared {
		sp := sp
		ch <- func() { runShared(r, sp) }
	}
	for _, sp := range cases {
		sp := sp
		ch <- func() { runCase(r, sp) }
	}
	close(ch)
	wg.Wait()

	// non-vacuity
	r.Require(maxOverlap.Load() >= 2, "requests never overlapped inside a middleware (max %d)", maxOverlap.Load())
	lens := map[int]map[string]bool{}
	for _, sp := range cases {
		if lens[len(sp.Chain)] == nil {
			lens[len(sp.Chain)] = map[string]bool{}
		}
		lens[len(sp.Chain)][sp.Form] = true
	}
	var lk []int
	for l := range lens {
		lk = append(lk, l)
	}
	sort.Ints(lk)
	for _, l := range lk {
		for _, f := range formsFor(l) {
			r.Require(lens[l][f], "option form %s never used with a chain of length %d", f, l)
		}
	}
	r.Require(len(lk) == 5, "chain lengths covered: %v", lk)
	r.Require(r.Counter("stages_observed") > 0, "no stage was observed")
	r.Require(r.Counter("notifications_delivered") > 0, "no notification reached its handler")
	// the classes added for "every request" / "modify-request changes more than params": nothing observed, nothing claimed
	r.Require(r.Counter("offtable_requests_matched") > 0, "no request for a method off the dispatch table was seen passing a chain")
	r.Require(r.Counter("core_error_-32601_seen_by_middleware") > 0, "no middleware saw the core's method-not-found answer as its inner result")
	r.Require(r.Counter("core_acted_on_rewritten_method") > 0, "the core was never seen acting on a method a middleware had set")
	for _, c := range []string{"alias>known", "known>known", "known>unknown", "unknown>unknown", "two-step", "same"} {
		r.Require(r.Counter("rewrite_requests_matched/"+c) > 0, "no request of the rewrite class %s matched the interpreter", c)
	}
	for _, b := range []beh{bModReq, bModIn, bRwCopy, bRwIn, bRwNew} {
		r.Require(r.Counter(fmt.Sprintf("core_reached_through_modifier_%c", b)) > 0, "the core was never reached through a modify-request middleware of form %c", b)
	}

	// scenario shared: nothing observed, nothing claimed
	r.Require(r.Counter("shared_requests_matched_final") > 0, "scenario shared: no request to a server built from shared values matched the interpreter")
	r.Require(r.Counter("shared_requests_matched_early") > 0, "scenario shared: no server was asked right after its own construction")
	r.Require(r.Counter("shared_requests_matched_on_a_server_constructed_before_another") > 0, "scenario shared: no server was seen keeping its chain after a later server had been constructed from the same values")
	for _, k := range kinds {
		r.Require(r.Counter(fmt.Sprintf("shared_cases_held_spare_capacity_prefix_on_2+_servers/%s", k)) > 0,
			"scenario shared: on %s no case with two servers configured as spread-of-a-slice-with-spare-capacity + own middleware was judged", k)
		r.Require(r.Counter(fmt.Sprintf("shared_cases_held_sequential/%s", k)) > 0, "scenario shared: no sequentially constructed %s servers judged", k)
		r.Require(r.Counter(fmt.Sprintf("shared_cases_held_concurrent/%s", k)) > 0, "scenario shared: no concurrently constructed %s servers judged", k)
	}

	requireValues(r)
	requireCtxview(r)
	requireHandshake(r)

	r.Finish("chains over {pass P, modify-request Q, modify-result R, short-circuit result S, short-circuit JSON-RPC error E, fail F}: thorough = all 1555 of length 0..4, quick = all 43 of length <= 2 plus 150 seeded of length 3..4; "+
		"x server kinds {S-json, S-sse, L-sse} x methods {tools/call with every option form; tools/list, ping, prompts/get with rotating forms} x option forms {single WithMiddleware(a,b,..), one option per middleware, split 2+rest; none/empty for length 0} (WithSSEMiddleware on the legacy server); "+
		"every chain also with 2 methods off the dispatch table (logging/setLevel, x-vendor/do, \" \", Tools/Call, tools/call/, rpc.discover, tools) and 2 unmodelled built-in ones (completion/complete, resources/subscribe|unsubscribe|list|read|templates/list, prompts/list), rotating; "+
		"plus isolation chains whose middleware acts only on ids ending in -bad; "+
		"plus scenario rewrite: chains over the ten behaviours (the six + I params rewritten in place, M method rewritten on a copy, N method rewritten in place, W whole new request object) with at least one of I/M/N/W "+
		"(quick: all of length <= 2 plus 120 seeded of length 3..4; thorough: all of length <= 3 plus 600 seeded of length 4) x kinds x rotating rewrite plans (alias>known, known>known, known>unknown, unknown>unknown, two-step, same). "+
		"Notifications posted after the requests include ones named like requests (tools/call, x-vendor/do, logging/setLevel). Per case 8 (thorough: 16) concurrent requests from 2 (4) raw sessions held together at a gate inside one middleware, then custom and roots notifications. "+
		"A case is distinct by (scenario, kind, chain, method, form) and counts when trace and wire answer of a request matched the reference interpreter. "+
			"Plus scenario ctxview: pass-through chains of length 1..4 (option forms rotating; thorough: every form) on all six HTTP configurations {S-json, S-sse, SL-json, SL-sse, S-nosession, L-sse} with two HTTP context functions and the three list filters; "+
			"per server 2 (3) raw peers send {tools/call, prompts/get, resources/read, tools/list, prompts/list, resources/list, ping, x-vendor/do} one after the other and then all at once (held together inside one middleware), every request with its own header token; "+
			"every middleware (before and after next) and the innermost code (handler / list filter) records what it reads through ClientSessionFromContext, GetSessionFromContext, GetServerFromContext, GetNotificationSender, the context-function values, session data, ctx.Err/Deadline and the values outer stages added; "+
			"a (configuration x accessor x method) cell counts when all views of a fully observed request agreed (ctxview_cells_held, 6 x 9 x 8 = 432). "+
			"Plus scenario handshake: on all six HTTP configurations, chains of length 1..3 (thorough 1..4, every position) in which one stage — a middleware at the given position, or the tool / prompt handler — refuses exactly one request of a session "+
			"by a Go error, a short-circuit result or a short-circuit JSON-RPC error; the refused request is the first initialize of the connection, an initialize sent again with the live session's id, ping, tools/list, tools/call or prompts/get. "+
			"Script per session: [refused first initialize] handshake, listening stream (GET stream on stateful Streamable, the legacy stream), server notification, ping + tools/call, the refused request, [notifications/initialized], ping + tools/list + tools/call + prompts/get, server notification. "+
			"Judged: the refused request's own trace and answer; every other request of the session passes the whole onion once with the session's own session and gets a result; a stream that delivered before the refusal still delivers after it.",
		[]string{
			"the handler stage is observable only for tools/call and prompts/get; for ping and tools/list 'the handler ran' is judged by the answer",
			"for every other method (off the dispatch table or unmodelled built-in) the core's answer is whatever a middleware-free server of the same kind and registrations answers (asked twice at start, time-of-day members removed); the property is that the innermost middleware sees an answer of that class and the client receives it after the modify-result stages",
			"middlewares let requests that are not the check's own (initialize of the handshake) pass untouched",
			"GetSessionFromContext is recorded, only a foreign session through it is judged; the documented accessor for middlewares is ClientSessionFromContext",
			"interleavings are sampled (gate release), not enumerated",
			"scenario shared: the caller changes a slice only after the construction of every server that was given an option made from it before (what a server constructed from an option value whose slice changed between making the option and constructing the server is configured with is left open by the statement)",
			"scenario shared: every middleware value appears at most once in one server's chain",
			"scenario values: 'carrying the message' = the error message of the answer contains err.Error() of the middleware's error; a returned value is compared as the JSON value encoding/json makes of it; an envelope (JSONRPCResponse, JSONRPCError by value) may arrive wrapped as a result or as it is",
			"scenario values: for nil / typed-nil results only 'answered once under the request's id' is judged; for values that cannot be encoded, a typed-nil *JSONRPCError and an error object without id nothing is judged (values_open_outcome/* counts what happened)",
			"scenario values: the core's answer class for x-vendor/do and resources/list on the stateless / session-less kinds is taken from the reference answers of S-json / S-sse",
			"scenario ctxview: 'the request's own session' = the one session object any stage of the request can reach through either accessor; where the peer knows the session id (stateful Streamable, legacy SSE) it must be that one; in stateless mode it is whatever per-request session the server made, the same in every view; ClientSessionFromContext (the accessor documented for middlewares) yielding nothing in a stage of a request that has a session is a violation, GetSessionFromContext yielding nothing is only counted",
			"scenario ctxview: GetServerFromContext is judged for 'none or this server' and for agreement among the middlewares only: the tool manager adds the server handle for tool handlers by design (counted per stage kind in ctxview_server_handle/*)",
			"scenario ctxview: the innermost code of resources/read and of the list methods is attributed to its request by the context-function value (their params carry nothing of the request)",
			"scenario values, legacy SSE: an answer missing at the 30 s watchdog is a violation only when the request's trace is complete and a ping posted afterwards on the same session was answered",
			"scenario handshake: whether a refused first initialize leaves a session behind, what the core makes of a handler's error, the HTTP status of notifications/initialized after a refused initialize and what the stages of a re-initialize see as session are left open; a stream notification missing on a stream that is still open is inconclusive",
		})
}
