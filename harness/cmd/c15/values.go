package main

// Scenario "values": WHAT a middleware returns.
//
// The other scenarios let the failing behaviour return one plain errors.New value and the short-circuiting
// behaviours one plain result / one *JSONRPCError. Applications return whatever their own code produced: an error
// that wraps the Err() of the middleware's own sub-context (context.Canceled / DeadlineExceeded although the
// client is still there), io.EOF from a backend read, net/http sentinels, the library's own exported Err* values,
// joined errors, custom error types, errors with empty / multi-line / very long texts; results that are plain Go
// values, typed structs, pre-built JSON, a *JSONRPCError with any code, nil, a typed nil, an already wrapped
// JSONRPCResponse, something encoding/json refuses; a value AND an error.
//
// The statement: "a middleware error becomes a JSON-RPC internal error for that request only" — whatever the error
// value is; "a middleware that returns without calling the next stage prevents everything inside it from running
// and its return value is what the client receives" — whatever the value is; and the onion: the stages outside
// the acting middleware run their after-stage once, seeing what came back from the inside.
//
// One case = one server (kind x chain length x position of the acting middleware); every other middleware of the
// chain is a pass-through observer. The acting middleware picks the value to return, and whether it returns it
// instead of calling the next stage or after having called it, from the request's id, so one server answers the
// whole value table concurrently.

import (
	"context"
	"encoding/json"
	"errors"
	"fmt"
	"io"
	"io/fs"
	"math"
	"net"
	"net/http"
	"os"
	"reflect"
	"strings"
	"sync"
	"sync/atomic"
	"syscall"
	"time"

	mcp "trpc.group/trpc-go/trpc-mcp-go"

	"verifharness/lib/kit"
	"verifharness/lib/vh"
)

// value classes (what the statement says about the outcome)
const (
	vcErr    = "err"    // (anything, error): the client receives a JSON-RPC internal error carrying the message, under the request's id
	vcValue  = "value"  // (encodable value, nil): the client receives that value as the result
	vcRPCErr = "rpcerr" // (*JSONRPCError with the request's id, nil): the client receives that error
	vcNil    = "nil"    // (nil or a typed nil result, nil): the request is answered under its id; the shape of "nothing" is left open
	vcOpen   = "open"   // the statement does not say what the client can receive (unencodable content, an error object without id, ...): counted, not judged
)

type vspec struct {
	Name   string
	Family string // signature component
	Class  string
	mk     func(ctx context.Context, req *mcp.JSONRPCRequest, id string) (mcp.JSONRPCMessage, error)
	Is     error // errors: a target errors.Is holds for; the observers outside must still see it
	AsIs   bool  // value: an envelope the library may also deliver as it is instead of wrapping it as a result
}

// ---- error values ----------------------------------------------------------------------------------------------

type unwrapErr struct {
	msg   string
	inner error
}

func (e *unwrapErr) Error() string { return e.msg }
func (e *unwrapErr) Unwrap() error { return e.inner }

type isErr struct {
	msg    string
	target error
}

func (e isErr) Error() string        { return e.msg }
func (e isErr) Is(target error) bool { return target == e.target }

type isAnythingErr struct{ msg string }

func (e isAnythingErr) Error() string   { return e.msg }
func (e isAnythingErr) Is(x error) bool { return true }

type nilRecvErr struct{ x int }

func (e *nilRecvErr) Error() string {
	if e == nil {
		return "c15: error value is a nil pointer with an Error method"
	}
	return "c15: nilRecvErr"
}

type timeoutErr struct{ msg string }

func (e timeoutErr) Error() string   { return e.msg }
func (e timeoutErr) Timeout() bool   { return true }
func (e timeoutErr) Temporary() bool { return true }

type multiUnwrapErr struct {
	msg  string
	errs []error
}

func (e multiUnwrapErr) Error() string   { return e.msg }
func (e multiUnwrapErr) Unwrap() []error { return e.errs }

// libSentinels: every exported error value of the library's package.
var libSentinels = map[string]error{
	"ErrStatelessMode":              mcp.ErrStatelessMode,
	"ErrBroadcastFailed":            mcp.ErrBroadcastFailed,
	"ErrFilteredNotificationFailed": mcp.ErrFilteredNotificationFailed,
	"ErrNoClientSession":            mcp.ErrNoClientSession,
	"ErrStreamingNotSupported":      mcp.ErrStreamingNotSupported,
	"ErrMissingResultField":         mcp.ErrMissingResultField,
	"ErrInvalidRequestBody":         mcp.ErrInvalidRequestBody,
	"ErrInvalidContentType":         mcp.ErrInvalidContentType,
	"ErrSessionNotFound":            mcp.ErrSessionNotFound,
	"ErrInvalidSessionID":           mcp.ErrInvalidSessionID,
	"ErrSessionExpired":             mcp.ErrSessionExpired,
	"ErrSSENotSupported":            mcp.ErrSSENotSupported,
	"ErrInvalidEventFormat":         mcp.ErrInvalidEventFormat,
	"ErrResponseSerialization":      mcp.ErrResponseSerialization,
	"ErrNotificationSerialization":  mcp.ErrNotificationSerialization,
	"ErrRequestSerialization":       mcp.ErrRequestSerialization,
	"ErrHTTPRequestCreation":        mcp.ErrHTTPRequestCreation,
	"ErrHTTPRequestFailed":          mcp.ErrHTTPRequestFailed,
	"ErrResponseParsing":            mcp.ErrResponseParsing,
	"ErrInvalidResponseType":        mcp.ErrInvalidResponseType,
}

// stdSentinels: errors of the standard library a middleware gets back from its own I/O.
var stdSentinels = map[string]error{
	"io.EOF":                     io.EOF,
	"io.ErrUnexpectedEOF":        io.ErrUnexpectedEOF,
	"io.ErrClosedPipe":           io.ErrClosedPipe,
	"http.ErrAbortHandler":       http.ErrAbortHandler,
	"http.ErrServerClosed":       http.ErrServerClosed,
	"http.ErrHandlerTimeout":     http.ErrHandlerTimeout,
	"http.ErrBodyReadAfterClose": http.ErrBodyReadAfterClose,
	"net.ErrClosed":              net.ErrClosed,
	"os.ErrDeadlineExceeded":     os.ErrDeadlineExceeded,
	"fs.ErrNotExist":             fs.ErrNotExist,
	"syscall.EPIPE":              syscall.EPIPE,
	"syscall.ECONNRESET":         syscall.ECONNRESET,
}

func errSpec(name, family string, is error, f func(ctx context.Context, id string) error) vspec {
	return vspec{Name: name, Family: family, Class: vcErr, Is: is,
		mk: func(ctx context.Context, req *mcp.JSONRPCRequest, id string) (mcp.JSONRPCMessage, error) {
			return nil, f(ctx, id)
		}}
}

func sortedKeys(m map[string]error) []string {
	var ks []string
	for k := range m {
		ks = append(ks, k)
	}
	for i := 1; i < len(ks); i++ {
		for j := i; j > 0 && ks[j] < ks[j-1]; j-- {
			ks[j], ks[j-1] = ks[j-1], ks[j]
		}
	}
	return ks
}

type notEncodable struct {
	Name string      `json:"name"`
	C    chan int    `json:"c"`
	F    interface{} `json:"f"`
}

type failingMarshaler struct{}

func (failingMarshaler) MarshalJSON() ([]byte, error) {
	return nil, errors.New("c15: refuses to be encoded")
}

type ownMarshaler struct{ id string }

func (o ownMarshaler) MarshalJSON() ([]byte, error) {
	return []byte(fmt.Sprintf(`{"own":true,"nonce":%q,"list":[1,2,3]}`, o.id)), nil
}

type plainStruct struct {
	Nonce string            `json:"nonce"`
	N     int               `json:"n"`
	Opt   string            `json:"opt,omitempty"`
	Sub   map[string]string `json:"sub"`
	Ptr   *int              `json:"ptr"`
}

func rpcErr(id interface{}, code int, msg string, data interface{}) *mcp.JSONRPCError {
	e := &mcp.JSONRPCError{JSONRPC: "2.0", ID: id}
	e.Error.Code, e.Error.Message, e.Error.Data = code, msg, data
	return e
}

func valSpec(name, family, class string, f func(req *mcp.JSONRPCRequest, id string) mcp.JSONRPCMessage) vspec {
	return vspec{Name: name, Family: family, Class: class,
		mk: func(ctx context.Context, req *mcp.JSONRPCRequest, id string) (mcp.JSONRPCMessage, error) {
			return f(req, id), nil
		}}
}

// buildValueTable: the values, in a fixed order.
func buildValueTable() []vspec {
	var t []vspec
	// -- errors
	t = append(t,
		errSpec("plain", "err-plain", nil, func(ctx context.Context, id string) error { return errors.New("quota backend: unavailable for " + id) }),
		errSpec("context.Canceled", "err-is-context.Canceled", context.Canceled, func(ctx context.Context, id string) error { return context.Canceled }),
		errSpec("wrap(subctx.Err()=Canceled)", "err-is-context.Canceled", context.Canceled, func(ctx context.Context, id string) error {
			sub, cancel := context.WithCancel(ctx)
			cancel() // the middleware's own budget for its backend call is used up; the client is still there
			return fmt.Errorf("backend for %s: %w", id, sub.Err())
		}),
		errSpec("wrap(wrap(context.Canceled))", "err-is-context.Canceled", context.Canceled, func(ctx context.Context, id string) error {
			return fmt.Errorf("auth for %s: %w", id, fmt.Errorf("token service: %w", context.Canceled))
		}),
		errSpec("cause(subctx)=Canceled", "err-is-context.Canceled", context.Canceled, func(ctx context.Context, id string) error {
			sub, cancel := context.WithCancelCause(ctx)
			cancel(errors.New("budget of " + id + " used up"))
			return fmt.Errorf("backend for %s: %w (%v)", id, sub.Err(), context.Cause(sub))
		}),
		errSpec("join(plain,context.Canceled)", "err-is-context.Canceled", context.Canceled, func(ctx context.Context, id string) error {
			return errors.Join(errors.New("rate limiter for "+id), context.Canceled)
		}),
		errSpec("custom-Unwrap(context.Canceled)", "err-is-context.Canceled", context.Canceled, func(ctx context.Context, id string) error {
			return &unwrapErr{"custom error with Unwrap for " + id, context.Canceled}
		}),
		errSpec("custom-Is(context.Canceled)", "err-is-context.Canceled", context.Canceled, func(ctx context.Context, id string) error {
			return isErr{"custom error with Is for " + id, context.Canceled}
		}),
		errSpec("custom-Unwrap[](.., context.Canceled)", "err-is-context.Canceled", context.Canceled, func(ctx context.Context, id string) error {
			return multiUnwrapErr{"custom multi error for " + id, []error{io.EOF, context.Canceled}}
		}),
		errSpec("context.DeadlineExceeded", "err-is-context.DeadlineExceeded", context.DeadlineExceeded, func(ctx context.Context, id string) error { return context.DeadlineExceeded }),
		errSpec("wrap(subctx.Err()=DeadlineExceeded)", "err-is-context.DeadlineExceeded", context.DeadlineExceeded, func(ctx context.Context, id string) error {
			sub, cancel := context.WithDeadline(ctx, time.Unix(1, 0))
			defer cancel()
			return fmt.Errorf("backend for %s: %w", id, sub.Err())
		}),
		errSpec("join(context.DeadlineExceeded,context.Canceled)", "err-is-context.Canceled", context.Canceled, func(ctx context.Context, id string) error {
			return errors.Join(context.DeadlineExceeded, context.Canceled)
		}),
		errSpec("custom-Is(anything)", "err-custom-Is-anything", context.Canceled, func(ctx context.Context, id string) error {
			return isAnythingErr{"custom error whose Is says yes to everything, for " + id}
		}),
		errSpec("custom-Timeout()", "err-custom", nil, func(ctx context.Context, id string) error { return timeoutErr{"i/o timeout for " + id} }),
		errSpec("net.OpError(EPIPE)", "err-std-sentinel", syscall.EPIPE, func(ctx context.Context, id string) error {
			return &net.OpError{Op: "write", Net: "tcp", Err: os.NewSyscallError("write", syscall.EPIPE)}
		}),
		errSpec("nil-pointer-error-value", "err-custom", nil, func(ctx context.Context, id string) error { return (*nilRecvErr)(nil) }),
		errSpec("text-empty", "err-text", nil, func(ctx context.Context, id string) error { return errors.New("") }),
		errSpec("text-multi-line", "err-text", nil, func(ctx context.Context, id string) error {
			return errors.New("line one for " + id + "\nline two\r\n\r\ndata: {\"jsonrpc\":\"2.0\"}\n\nevent: message\n")
		}),
		errSpec("text-long", "err-text", nil, func(ctx context.Context, id string) error {
			return errors.New(id + ":" + strings.Repeat("long error text ", 3000))
		}),
		errSpec("text-json-specials", "err-text", nil, func(ctx context.Context, id string) error {
			return errors.New("\"quoted\" \\ back\\slash \t tab <html>&amp;   é世界 {\"error\":null} for " + id)
		}),
		errSpec("text-looks-like-an-answer", "err-text", nil, func(ctx context.Context, id string) error {
			return fmt.Errorf(`{"jsonrpc":"2.0","id":%q,"result":{}}`, id)
		}),
	)
	for _, k := range sortedKeys(stdSentinels) {
		s := stdSentinels[k]
		t = append(t,
			errSpec(k, "err-std-sentinel", s, func(ctx context.Context, id string) error { return s }),
			errSpec("wrap("+k+")", "err-std-sentinel", s, func(ctx context.Context, id string) error { return fmt.Errorf("upstream read for %s: %w", id, s) }))
	}
	for _, k := range sortedKeys(libSentinels) {
		s := libSentinels[k]
		t = append(t,
			errSpec("mcp."+k, "err-library-sentinel", s, func(ctx context.Context, id string) error { return s }),
			errSpec("wrap(mcp."+k+")", "err-library-sentinel", s, func(ctx context.Context, id string) error { return fmt.Errorf("downstream mcp call for %s: %w", id, s) }))
	}
	// -- a value AND an error
	t = append(t,
		vspec{Name: "result+error", Family: "both-value-and-error", Class: vcErr,
			mk: func(ctx context.Context, req *mcp.JSONRPCRequest, id string) (mcp.JSONRPCMessage, error) {
				return map[string]interface{}{"partial": id}, errors.New("partial result for " + id)
			}},
		vspec{Name: "result+wrap(context.Canceled)", Family: "both-value-and-error", Class: vcErr, Is: context.Canceled,
			mk: func(ctx context.Context, req *mcp.JSONRPCRequest, id string) (mcp.JSONRPCMessage, error) {
				return mcp.NewTextResult("partial " + id), fmt.Errorf("partial result for %s: %w", id, context.Canceled)
			}},
		vspec{Name: "JSONRPCError+error", Family: "both-value-and-error", Class: vcErr,
			mk: func(ctx context.Context, req *mcp.JSONRPCRequest, id string) (mcp.JSONRPCMessage, error) {
				return rpcErr(req.ID, -32001, "the value next to the error", nil), errors.New("the error next to the value, " + id)
			}},
		vspec{Name: "typed-nil-result+error", Family: "both-value-and-error", Class: vcErr,
			mk: func(ctx context.Context, req *mcp.JSONRPCRequest, id string) (mcp.JSONRPCMessage, error) {
				return (*mcp.CallToolResult)(nil), errors.New("typed nil next to the error, " + id)
			}},
	)
	// -- values
	one := 1
	t = append(t,
		valSpec("string", "value-plain-go", vcValue, func(req *mcp.JSONRPCRequest, id string) mcp.JSONRPCMessage { return "plain string for " + id }),
		valSpec("string-empty", "value-plain-go", vcValue, func(req *mcp.JSONRPCRequest, id string) mcp.JSONRPCMessage { return "" }),
		valSpec("map", "value-plain-go", vcValue, func(req *mcp.JSONRPCRequest, id string) mcp.JSONRPCMessage {
			return map[string]interface{}{"nonce": id, "n": 1, "nested": map[string]interface{}{"a": []int{1, 2}}, "nil": nil}
		}),
		valSpec("map-empty", "value-plain-go", vcValue, func(req *mcp.JSONRPCRequest, id string) mcp.JSONRPCMessage { return map[string]interface{}{} }),
		valSpec("map-with-error-member", "value-plain-go", vcValue, func(req *mcp.JSONRPCRequest, id string) mcp.JSONRPCMessage {
			return map[string]interface{}{"error": map[string]interface{}{"code": -32000, "message": "a result member called error"}, "id": "not-the-id", "nonce": id}
		}),
		valSpec("slice", "value-plain-go", vcValue, func(req *mcp.JSONRPCRequest, id string) mcp.JSONRPCMessage {
			return []interface{}{id, 1, true, nil, "x"}
		}),
		valSpec("slice-of-strings", "value-plain-go", vcValue, func(req *mcp.JSONRPCRequest, id string) mcp.JSONRPCMessage { return []string{id, "b"} }),
		valSpec("slice-empty", "value-plain-go", vcValue, func(req *mcp.JSONRPCRequest, id string) mcp.JSONRPCMessage { return []string{} }),
		valSpec("int", "value-plain-go", vcValue, func(req *mcp.JSONRPCRequest, id string) mcp.JSONRPCMessage { return 42 }),
		valSpec("int-zero", "value-plain-go", vcValue, func(req *mcp.JSONRPCRequest, id string) mcp.JSONRPCMessage { return 0 }),
		valSpec("float", "value-plain-go", vcValue, func(req *mcp.JSONRPCRequest, id string) mcp.JSONRPCMessage { return 2.5 }),
		valSpec("bool-true", "value-plain-go", vcValue, func(req *mcp.JSONRPCRequest, id string) mcp.JSONRPCMessage { return true }),
		valSpec("bool-false", "value-plain-go", vcValue, func(req *mcp.JSONRPCRequest, id string) mcp.JSONRPCMessage { return false }),
		valSpec("struct", "value-struct", vcValue, func(req *mcp.JSONRPCRequest, id string) mcp.JSONRPCMessage {
			return plainStruct{Nonce: id, N: 7, Sub: map[string]string{"k": "v"}, Ptr: &one}
		}),
		valSpec("struct-pointer", "value-struct", vcValue, func(req *mcp.JSONRPCRequest, id string) mcp.JSONRPCMessage { return &plainStruct{Nonce: id} }),
		valSpec("json.RawMessage", "value-struct", vcValue, func(req *mcp.JSONRPCRequest, id string) mcp.JSONRPCMessage {
			return json.RawMessage(fmt.Sprintf(`{"raw":true,"nonce":%q}`, id))
		}),
		valSpec("json.Marshaler", "value-struct", vcValue, func(req *mcp.JSONRPCRequest, id string) mcp.JSONRPCMessage { return ownMarshaler{id} }),
		valSpec("*CallToolResult", "value-library-type", vcValue, func(req *mcp.JSONRPCRequest, id string) mcp.JSONRPCMessage { return mcp.NewTextResult("typed " + id) }),
		valSpec("CallToolResult-by-value", "value-library-type", vcValue, func(req *mcp.JSONRPCRequest, id string) mcp.JSONRPCMessage {
			return *mcp.NewTextResult("by value " + id)
		}),
		valSpec("*CallToolResult-isError", "value-library-type", vcValue, func(req *mcp.JSONRPCRequest, id string) mcp.JSONRPCMessage {
			r := mcp.NewTextResult("tool-level error " + id)
			r.IsError = true
			return r
		}),
		valSpec("*ListToolsResult", "value-library-type", vcValue, func(req *mcp.JSONRPCRequest, id string) mcp.JSONRPCMessage {
			return &mcp.ListToolsResult{Tools: []mcp.Tool{*mcp.NewTool("made-up-" + id)}}
		}),
		valSpec("long-value", "value-plain-go", vcValue, func(req *mcp.JSONRPCRequest, id string) mcp.JSONRPCMessage {
			return map[string]interface{}{"nonce": id, "pad": strings.Repeat("0123456789abcdef", 4096)}
		}),
		valSpec("multi-line-string", "value-plain-go", vcValue, func(req *mcp.JSONRPCRequest, id string) mcp.JSONRPCMessage {
			return "line one " + id + "\n\ndata: x\r\nevent: y\n"
		}),
	)
	// -- an answer envelope made by the middleware
	t = append(t,
		vspec{Name: "JSONRPCResponse-by-value", Family: "value-wrapped-response", Class: vcValue, AsIs: true,
			mk: func(ctx context.Context, req *mcp.JSONRPCRequest, id string) (mcp.JSONRPCMessage, error) {
				return mcp.JSONRPCResponse{JSONRPC: "2.0", ID: req.ID, Result: map[string]interface{}{"wrapped": id}}, nil
			}},
		vspec{Name: "*JSONRPCResponse", Family: "value-wrapped-response", Class: vcValue, AsIs: true,
			mk: func(ctx context.Context, req *mcp.JSONRPCRequest, id string) (mcp.JSONRPCMessage, error) {
				return &mcp.JSONRPCResponse{JSONRPC: "2.0", ID: req.ID, Result: map[string]interface{}{"wrapped": id}}, nil
			}},
		vspec{Name: "JSONRPCError-by-value", Family: "value-wrapped-response", Class: vcValue, AsIs: true,
			mk: func(ctx context.Context, req *mcp.JSONRPCRequest, id string) (mcp.JSONRPCMessage, error) {
				return *rpcErr(req.ID, -32002, "error object by value for "+id, nil), nil
			}},
	)
	// -- *JSONRPCError built by the middleware, every code class
	for _, c := range []struct {
		name string
		code int
	}{{"parse-error", -32700}, {"invalid-request", -32600}, {"method-not-found", -32601}, {"invalid-params", -32602}, {"internal", -32603},
		{"server-defined-low", -32099}, {"server-defined-high", -32000}, {"reserved-unassigned", -32500}, {"application-negative", -1}, {"zero", 0},
		{"application-positive", 1}, {"http-like", 404}, {"int32-max", math.MaxInt32}, {"int32-min", math.MinInt32}} {
		c := c
		t = append(t, valSpec("*JSONRPCError("+c.name+")", "rpcerr-by-code", vcRPCErr, func(req *mcp.JSONRPCRequest, id string) mcp.JSONRPCMessage {
			return rpcErr(req.ID, c.code, fmt.Sprintf("middleware says %s for %s", c.name, id), nil)
		}))
	}
	t = append(t,
		valSpec("*JSONRPCError(data=string)", "rpcerr-with-data", vcRPCErr, func(req *mcp.JSONRPCRequest, id string) mcp.JSONRPCMessage {
			return rpcErr(req.ID, -32010, "with data for "+id, "details of "+id)
		}),
		valSpec("*JSONRPCError(data=map)", "rpcerr-with-data", vcRPCErr, func(req *mcp.JSONRPCRequest, id string) mcp.JSONRPCMessage {
			return rpcErr(req.ID, -32011, "with data for "+id, map[string]interface{}{"retry_after": 3, "nonce": id, "list": []string{"a"}})
		}),
		valSpec("*JSONRPCError(message-empty)", "rpcerr-text", vcRPCErr, func(req *mcp.JSONRPCRequest, id string) mcp.JSONRPCMessage {
			return rpcErr(req.ID, -32012, "", nil)
		}),
		valSpec("*JSONRPCError(message-multi-line)", "rpcerr-text", vcRPCErr, func(req *mcp.JSONRPCRequest, id string) mcp.JSONRPCMessage {
			return rpcErr(req.ID, -32013, "line one "+id+"\n\ndata: x\r\nline three", nil)
		}),
		valSpec("*JSONRPCError(message=context canceled)", "rpcerr-text", vcRPCErr, func(req *mcp.JSONRPCRequest, id string) mcp.JSONRPCMessage {
			return rpcErr(req.ID, -32014, context.Canceled.Error(), context.DeadlineExceeded.Error())
		}),
		valSpec("*JSONRPCError(no-jsonrpc-member-set)", "rpcerr-text", vcRPCErr, func(req *mcp.JSONRPCRequest, id string) mcp.JSONRPCMessage {
			e := rpcErr(req.ID, -32015, "version member left empty for "+id, nil)
			e.JSONRPC = ""
			return e
		}),
	)
	// -- nothing
	t = append(t,
		valSpec("nil", "value-nil", vcNil, func(req *mcp.JSONRPCRequest, id string) mcp.JSONRPCMessage { return nil }),
		valSpec("typed-nil-*CallToolResult", "value-typed-nil", vcNil, func(req *mcp.JSONRPCRequest, id string) mcp.JSONRPCMessage { return (*mcp.CallToolResult)(nil) }),
		valSpec("typed-nil-map", "value-typed-nil", vcNil, func(req *mcp.JSONRPCRequest, id string) mcp.JSONRPCMessage { return map[string]interface{}(nil) }),
		valSpec("typed-nil-slice", "value-typed-nil", vcNil, func(req *mcp.JSONRPCRequest, id string) mcp.JSONRPCMessage { return []string(nil) }),
		valSpec("typed-nil-*struct", "value-typed-nil", vcNil, func(req *mcp.JSONRPCRequest, id string) mcp.JSONRPCMessage { return (*plainStruct)(nil) }),
		valSpec("json.RawMessage(null)", "value-typed-nil", vcNil, func(req *mcp.JSONRPCRequest, id string) mcp.JSONRPCMessage { return json.RawMessage("null") }),
	)
	// -- left open by the statement: counted only
	t = append(t,
		valSpec("typed-nil-*JSONRPCError", "open-typed-nil-error-object", vcOpen, func(req *mcp.JSONRPCRequest, id string) mcp.JSONRPCMessage { return (*mcp.JSONRPCError)(nil) }),
		valSpec("typed-nil-*JSONRPCResponse", "open-typed-nil-error-object", vcOpen, func(req *mcp.JSONRPCRequest, id string) mcp.JSONRPCMessage { return (*mcp.JSONRPCResponse)(nil) }),
		valSpec("*JSONRPCError(without-id)", "open-error-object-without-id", vcOpen, func(req *mcp.JSONRPCRequest, id string) mcp.JSONRPCMessage {
			return rpcErr(nil, -32020, "the middleware left the id out, "+id, nil)
		}),
		valSpec("*JSONRPCError(data=chan)", "open-unencodable", vcOpen, func(req *mcp.JSONRPCRequest, id string) mcp.JSONRPCMessage {
			return rpcErr(req.ID, -32021, "unencodable data for "+id, make(chan int))
		}),
		valSpec("map-with-chan", "open-unencodable", vcOpen, func(req *mcp.JSONRPCRequest, id string) mcp.JSONRPCMessage {
			return map[string]interface{}{"nonce": id, "c": make(chan int)}
		}),
		valSpec("struct-with-chan-and-func", "open-unencodable", vcOpen, func(req *mcp.JSONRPCRequest, id string) mcp.JSONRPCMessage {
			return &notEncodable{Name: id, C: make(chan int), F: func() {}}
		}),
		valSpec("NaN", "open-unencodable", vcOpen, func(req *mcp.JSONRPCRequest, id string) mcp.JSONRPCMessage {
			return map[string]interface{}{"nonce": id, "x": math.NaN()}
		}),
		valSpec("failing-json.Marshaler", "open-unencodable", vcOpen, func(req *mcp.JSONRPCRequest, id string) mcp.JSONRPCMessage { return failingMarshaler{} }),
		valSpec("invalid-json.RawMessage", "open-unencodable", vcOpen, func(req *mcp.JSONRPCRequest, id string) mcp.JSONRPCMessage { return json.RawMessage(`{"broken":`) }),
		valSpec("*CallToolResult-with-unencodable-structuredContent", "open-unencodable", vcOpen, func(req *mcp.JSONRPCRequest, id string) mcp.JSONRPCMessage {
			r := mcp.NewTextResult("typed " + id)
			r.StructuredContent = map[string]interface{}{"f": func() {}}
			return r
		}),
	)
	return t
}

var valueTable = buildValueTable()

// ---- cases -----------------------------------------------------------------------------------------------------

var valueKinds = []kit.Kind{kit.SJSON, kit.SSSE, kit.LSSE, kit.SLJSON, kit.SLSSE, kit.SNoSess}

// (chain length, position of the acting middleware)
var valuePositions = [][2]int{{1, 0}, {2, 0}, {2, 1}, {3, 0}, {3, 1}, {3, 2}, {4, 1}, {4, 3}}

var valueMethods = []string{"tools/call", "ping", "prompts/get", "tools/list", "x-vendor/do", "resources/list"}

func posName(n, p int) string {
	switch {
	case n == 1:
		return "only"
	case p == 0:
		return "outermost"
	case p == n-1:
		return "innermost"
	}
	return "middle"
}

type valueCase struct {
	No   int
	Kind kit.Kind
	N, P int
	Form string
}

func buildValueCases(r *vh.Run) []valueCase {
	var out []valueCase
	reps := r.Pick(1, 3)
	for rep := 0; rep < reps; rep++ {
		for ki, k := range valueKinds {
			for pi, np := range valuePositions {
				forms := formsFor(np[0])
				out = append(out, valueCase{No: len(out), Kind: k, N: np[0], P: np[1], Form: forms[(ki+pi+rep)%len(forms)]})
			}
		}
	}
	return out
}

type vret struct {
	res    mcp.JSONRPCMessage
	err    error
	msg    string // err.Error()
	called bool
}

type valState struct {
	cs      *caseState
	p       int
	mu      sync.Mutex
	ret     map[string]*vret
	foreign atomic.Int64
}

// id of a request: c15v-<case>-<value index>-<i|a>-<k>
func valueID(caseNo, vi int, after bool, k int) string {
	w := "i"
	if after {
		w = "a"
	}
	return fmt.Sprintf("c15v-%d-%d-%s-%d", caseNo, vi, w, k)
}

func parseValueID(id string) (vi int, after bool, ok bool) {
	var caseNo, k int
	var w string
	parts := strings.Split(id, "-")
	if len(parts) != 5 || parts[0] != "c15v" {
		return 0, false, false
	}
	if _, err := fmt.Sscanf(parts[1]+" "+parts[2]+" "+parts[3]+" "+parts[4], "%d %d %s %d", &caseNo, &vi, &w, &k); err != nil {
		return 0, false, false
	}
	if vi < 0 || vi >= len(valueTable) {
		return 0, false, false
	}
	return vi, w == "a", true
}

func (vs *valState) mw(i int) mcp.Middleware {
	cs := vs.cs
	return func(next mcp.HandlerFunc) mcp.HandlerFunc {
		return func(ctx context.Context, req *mcp.JSONRPCRequest) (mcp.JSONRPCMessage, error) {
			cs.calls.Add(1)
			if req.ID == nil || strings.HasPrefix(req.Method, "notifications/") {
				cs.notifInChain.Add(1)
			}
			id, ok := req.ID.(string)
			vi, after, ok2 := parseValueID(id)
			if !ok || !ok2 {
				vs.foreign.Add(1)
				return next(ctx, req)
			}
			csid, gsid := sessOf(ctx)
			cs.record(id, obsStage{mStage: mStage{Stage: fmt.Sprintf("m%d-before", i), Meth: req.Method, Tag: tagOf(req.Params)}, CS: csid, GS: gsid})
			var res mcp.JSONRPCMessage
			var err error
			inner := "-"
			if i != vs.p { // observer
				res, err = next(ctx, req)
				inner = vs.observe(id, res, err)
			} else {
				if after {
					ires, ierr := next(ctx, req)
					inner = innerClass(ires, ierr)
				}
				res, err = valueTable[vi].mk(ctx, req, id)
				rt := &vret{res: res, err: err, called: true}
				if err != nil {
					rt.msg = err.Error()
				}
				vs.mu.Lock()
				vs.ret[id] = rt
				vs.mu.Unlock()
			}
			cs.record(id, obsStage{mStage: mStage{Stage: fmt.Sprintf("m%d-after", i), Inner: inner}, CS: csid, GS: gsid})
			return res, err
		}
	}
}

// observe: what an observer outside the acting middleware got back, as a class; an error must still be the
// acting middleware's error (text, and what errors.Is finds in it).
func (vs *valState) observe(id string, res mcp.JSONRPCMessage, err error) string {
	c := innerClass(res, err)
	vs.mu.Lock()
	rt := vs.ret[id]
	vs.mu.Unlock()
	if rt == nil || !rt.called { // the observer is inside the acting middleware
		return c
	}
	vi, _, _ := parseValueID(id)
	if err != nil {
		if err.Error() != rt.msg {
			return c + "/other-text"
		}
		if is := valueTable[vi].Is; is != nil && !errors.Is(err, is) {
			return c + "/errors.Is-lost"
		}
	}
	return c
}

func (vs *valState) opts(kind kit.Kind, n int, form string) kit.Opts {
	var o kit.Opts
	for _, g := range formGroups(n, form) {
		ms := make([]mcp.Middleware, 0, len(g))
		for _, i := range g {
			ms = append(ms, vs.mw(i))
		}
		if kind == kit.LSSE {
			o.SSEOpts = append(o.SSEOpts, mcp.WithSSEMiddleware(ms...))
		} else {
			o.ServerOpts = append(o.ServerOpts, mcp.WithMiddleware(ms...))
		}
	}
	return o
}

// coreClass: what the inside of the chain returns for the method on a server with the case's registrations.
func coreClass(kind kit.Kind, method string) string {
	if modelled(method) {
		return "result"
	}
	switch kind { // the reference answers are taken on the three kinds of the other scenarios; the dispatch is the same code
	case kit.SLJSON, kit.SNoSess:
		kind = kit.SJSON
	case kit.SLSSE:
		kind = kit.SSSE
	}
	if b := baseFor(kind, method); b != nil {
		if b.Class == "rpcerr" {
			return fmt.Sprintf("rpcerr:%d", b.Code)
		}
		return "result"
	}
	return ""
}

// expectedClassOf: the class the observers outside the acting middleware must see.
func expectedClassOf(rt *vret) string { return innerClass(rt.res, rt.err) }

func valueTrace(vc valueCase, method string, after bool, outClass, core string) []mStage {
	var tr []mStage
	before := func(i int) { tr = append(tr, mStage{Stage: fmt.Sprintf("m%d-before", i), Meth: method, Tag: "t"}) }
	for i := 0; i <= vc.P; i++ {
		before(i)
	}
	actorInner := "-"
	if after {
		for i := vc.P + 1; i < vc.N; i++ {
			before(i)
		}
		if handlerObservable(method) {
			tr = append(tr, mStage{Stage: "handler", Meth: method, Tag: "t"})
		}
		for i := vc.N - 1; i > vc.P; i-- {
			tr = append(tr, mStage{Stage: fmt.Sprintf("m%d-after", i), Inner: core})
		}
		actorInner = core
	}
	tr = append(tr, mStage{Stage: fmt.Sprintf("m%d-after", vc.P), Inner: actorInner})
	for i := vc.P - 1; i >= 0; i-- {
		tr = append(tr, mStage{Stage: fmt.Sprintf("m%d-after", i), Inner: outClass})
	}
	return tr
}

type vreq struct {
	ID     string
	VI     int
	After  bool
	Method string
	Conn   int
}

type fullFrame struct {
	JSONRPC *string         `json:"jsonrpc"`
	ID      json.RawMessage `json:"id"`
	Result  json.RawMessage `json:"result"`
	Error   *struct {
		Code    *int            `json:"code"`
		Message *string         `json:"message"`
		Data    json.RawMessage `json:"data"`
	} `json:"error"`
}

// answersFor: the frames that are answers (id, no method) and, of those, the ones under the request's id.
func answersFor(frames []string, id string) (mine []string, others int) {
	for _, f := range frames {
		fid, has, hasMethod := kit.FrameID(f)
		if !has || hasMethod {
			continue
		}
		if fid == fmt.Sprintf("%q", id) {
			mine = append(mine, f)
		} else {
			others++
		}
	}
	return
}

func jsonEqual(raw json.RawMessage, want interface{}) bool {
	var got interface{}
	if len(raw) == 0 {
		return false
	}
	if err := json.Unmarshal(raw, &got); err != nil {
		return false
	}
	return reflect.DeepEqual(got, normalise(want))
}

func clip(s string) string {
	if len(s) > 300 {
		return s[:300] + fmt.Sprintf("...(%d bytes)", len(s))
	}
	return s
}

// judgeValueWire: symptom and description, or "", "".
func judgeValueWire(spec vspec, rt *vret, id string, frames []string) (string, string) {
	mine, _ := answersFor(frames, id)
	if len(mine) == 0 {
		return "missing-answer", "no answer under the request's id"
	}
	if len(mine) > 1 {
		return "answer-count", fmt.Sprintf("%d answers under the request's id", len(mine))
	}
	var w fullFrame
	if err := json.Unmarshal([]byte(mine[0]), &w); err != nil {
		return "unparsable-answer", err.Error()
	}
	switch spec.Class {
	case vcErr:
		if w.Error == nil || w.Error.Code == nil || w.Error.Message == nil {
			return "result-instead-of-error", "the middleware returned an error, the answer is not an error: " + clip(mine[0])
		}
		if *w.Error.Code != -32603 {
			return "error-code", fmt.Sprintf("middleware error arrived with code %d, want -32603 (internal error)", *w.Error.Code)
		}
		if !strings.Contains(*w.Error.Message, rt.msg) {
			return "error-message", fmt.Sprintf("error message %q does not carry the middleware's %q", clip(*w.Error.Message), clip(rt.msg))
		}
		if len(w.Result) > 0 && string(w.Result) != "null" {
			return "result-next-to-error", "the answer carries a result next to the error: " + clip(mine[0])
		}
	case vcValue:
		if spec.AsIs && jsonEqual(json.RawMessage(mine[0]), rt.res) {
			return "", "" // the envelope was delivered as the middleware made it
		}
		if w.Error != nil {
			return "error-instead-of-result", fmt.Sprintf("the middleware returned a value, the client got the error %s", clip(mine[0]))
		}
		if !jsonEqual(w.Result, rt.res) {
			wb, _ := json.Marshal(rt.res)
			return "result-differs", fmt.Sprintf("result %s, the middleware returned %s", clip(string(w.Result)), clip(string(wb)))
		}
	case vcRPCErr:
		e := rt.res.(*mcp.JSONRPCError)
		if w.Error == nil || w.Error.Code == nil || w.Error.Message == nil {
			return "result-instead-of-error", "the middleware returned a JSON-RPC error object, the answer is not an error: " + clip(mine[0])
		}
		if *w.Error.Code != e.Error.Code {
			return "error-code", fmt.Sprintf("error code %d, the middleware returned %d", *w.Error.Code, e.Error.Code)
		}
		if *w.Error.Message != e.Error.Message {
			return "error-message", fmt.Sprintf("error message %q, the middleware returned %q", clip(*w.Error.Message), clip(e.Error.Message))
		}
		if e.Error.Data != nil && !jsonEqual(w.Error.Data, e.Error.Data) {
			return "error-data", fmt.Sprintf("error data %s differs from the middleware's", clip(string(w.Error.Data)))
		}
		if e.Error.Data == nil && len(w.Error.Data) > 0 && string(w.Error.Data) != "null" {
			return "error-data", fmt.Sprintf("error data %s, the middleware set none", clip(string(w.Error.Data)))
		}
	case vcNil:
		// answered under the request's id: that is all the statement fixes
	}
	return "", ""
}

// answerShape names what came back for the request. shared: the frames were collected from a stream other
// requests answer on at the same time (legacy SSE with a fence), so only frames under the id can be attributed.
func answerShapeOn(frames []string, id string, shared bool) string {
	mine, _ := answersFor(frames, id)
	if len(mine) == 0 && !shared {
		for _, f := range frames {
			if strings.TrimSpace(f) == "null" {
				return "frame-null"
			}
			if _, has, _ := kit.FrameID(f); !has && strings.Contains(f, `"error"`) {
				return "error-frame-without-id"
			}
		}
	}
	if len(mine) == 0 {
		return "no-answer-under-the-id"
	}
	var w fullFrame
	if json.Unmarshal([]byte(mine[0]), &w) != nil {
		return "unparsable"
	}
	switch {
	case w.Error != nil && w.Error.Code != nil:
		return fmt.Sprintf("error:%d", *w.Error.Code)
	case len(w.Result) == 0:
		return "no-result-member"
	case string(w.Result) == "null":
		return "result-null"
	}
	return "result"
}

func answerShape(frames []string, id string) string { return answerShapeOn(frames, id, false) }

var valueSamples atomic.Int64

func runValueCase(r *vh.Run, vc valueCase) {
	cs := newCaseState(vc.N)
	vs := &valState{cs: cs, p: vc.P, ret: map[string]*vret{}}
	pos := posName(vc.N, vc.P)
	label := fmt.Sprintf("values %s len=%d acting=m%d(%s) form=%s", vc.Kind, vc.N, vc.P, pos, vc.Form)

	in := kit.Start(vc.Kind, vs.opts(vc.Kind, vc.N, vc.Form))
	defer in.Close()
	cs.register(in)
	ctx, cancel := context.WithTimeout(context.Background(), 120*time.Second)
	defer cancel()

	conns := make([]*kit.RawConn, 2)
	for s := range conns {
		c, err := in.Dial(ctx)
		if err != nil {
			r.Fatal("dial %s: %v", label, err)
		}
		defer c.Close()
		if err := c.Handshake(ctx); err != nil {
			r.Violation(fmt.Sprintf("C15|handshake|%s|len=%d|failed", vc.Kind, vc.N), fmt.Sprintf("%s: handshake through the chain failed: %v", label, err), nil)
			return
		}
		conns[s] = c
	}

	// the requests: every value, instead of / after the next stage, methods rotating
	var reqs []vreq
	for vi := range valueTable {
		for w := 0; w < 2; w++ {
			m := valueMethods[(vi+vc.No+w)%len(valueMethods)]
			if coreClass(vc.Kind, m) == "" {
				m = "ping"
			}
			reqs = append(reqs, vreq{ID: valueID(vc.No, vi, w == 1, len(reqs)), VI: vi, After: w == 1, Method: m, Conn: len(reqs) % len(conns)})
		}
	}
	rng := r.Rand(fmt.Sprintf("values-%d", vc.No))
	rng.Shuffle(len(reqs), func(i, j int) { reqs[i], reqs[j] = reqs[j], reqs[i] })

	outs := make([]reqOutcome, len(reqs))
	sem := make(chan struct{}, 12)
	var wg sync.WaitGroup
	for k, q := range reqs {
		wg.Add(1)
		sem <- struct{}{}
		go func(k int, q vreq) {
			defer wg.Done()
			defer func() { <-sem }()
			c := conns[q.Conn]
			po := kit.PostOpts{WantID: fmt.Sprintf("%q", q.ID), Wait: postWait()}
			if valueTable[q.VI].Class == vcOpen {
				po = kit.PostOpts{Wait: postWait()} // there may be no answer under the id to wait for: fence
			}
			ex := c.Post(ctx, reqBody(q.ID, q.Method), po)
			if ex.TimedOut {
				watchdogFired.Add(1)
			}
			o := reqOutcome{ID: q.ID, Sess: q.Conn, Frames: ex.Frames, Timed: ex.TimedOut}
			if ex.HTTP != nil {
				o.Status, o.HTTPErr = ex.HTTP.Status, ex.HTTP.Err
			}
			if ex.TimedOut && vc.Kind == kit.LSSE && po.WantID != "" {
				// the answer did not arrive on the event stream; is the stream alive and past this request?
				fid := fmt.Sprintf("%q", "c15fence-"+q.ID)
				fx := c.Post(ctx, []byte(`{"jsonrpc":"2.0","id":`+fid+`,"method":"ping"}`), kit.PostOpts{WantID: fid, Wait: 20 * time.Second})
				if len(fx.Frames) == 1 && !fx.TimedOut {
					o.HTTPErr = "fence-answered"
				}
			}
			outs[k] = o
		}(k, q)
	}
	wg.Wait()

	cs.mu.Lock()
	traces := map[string][]obsStage{}
	for k, v := range cs.traces {
		traces[k] = append([]obsStage{}, v...)
	}
	cs.mu.Unlock()

	for k, q := range reqs {
		o := outs[k]
		spec := valueTable[q.VI]
		r.Eval(1)
		r.Count("values_requests", 1)
		when := "instead-of-next"
		if q.After {
			when = "after-next"
		}
		vs.mu.Lock()
		rt := vs.ret[q.ID]
		vs.mu.Unlock()
		got := traces[q.ID]
		wit := map[string]interface{}{"kind": vc.Kind, "chain_length": vc.N, "acting_middleware": vc.P, "form": vc.Form, "method": q.Method, "id": q.ID,
			"value": spec.Name, "class": spec.Class, "when": when, "observed_trace": got, "frames": clipAll(o.Frames), "status": o.Status, "http_err": o.HTTPErr, "timed_out": o.Timed}
		sigBase := fmt.Sprintf("C15|values|%s|acting=%s|%s|value=%s", vc.Kind, pos, when, spec.Family)
		if rt == nil {
			if o.Timed {
				r.Inconclusive(fmt.Sprintf("%s: request %s never reached the acting middleware before the watchdog", label, q.ID))
			} else {
				r.Violation(sigBase+"|acting-middleware-not-reached", fmt.Sprintf("%s: request %s (%s) was answered without the acting middleware having run", label, q.ID, spec.Name), wit)
			}
			continue
		}
		if rt.err != nil {
			wit["middleware_error"] = clip(rt.msg)
		} else if b, err := json.Marshal(rt.res); err == nil {
			wit["middleware_value"] = clip(string(b))
		}
		ok := true
		// 1. the onion around the acting middleware
		want := valueTrace(vc, q.Method, q.After, expectedClassOf(rt), coreClass(vc.Kind, q.Method))
		wit["expected_trace"] = want
		if !reflect.DeepEqual(stagesOf(got), want) {
			ok = false
			if o.Timed && len(got) < len(want) {
				r.Inconclusive(fmt.Sprintf("%s: request %s did not finish before the watchdog (trace %d of %d stages)", label, q.ID, len(got), len(want)))
				continue
			}
			r.Violation(sigBase+"|"+traceSymptom(want, stagesOf(got)), fmt.Sprintf("%s: request %s (%s, %s): trace differs from the onion model", label, q.ID, spec.Name, when), wit)
		}
		// 2. what the client received
		shape := answerShapeOn(o.Frames, q.ID, vc.Kind == kit.LSSE)
		if spec.Class == vcOpen {
			r.Count(fmt.Sprintf("values_open_outcome/%s/%s/%s", spec.Name, kindGroup(vc.Kind), shape), 1)
			if ok {
				r.Distinct(fmt.Sprintf("values|%s|%s|%s|%s", vc.Kind, pos, when, spec.Name))
				r.Count("values_requests_observed/"+spec.Class, 1)
			}
			continue
		}
		if sym, what := judgeValueWire(spec, rt, q.ID, o.Frames); sym != "" {
			ok = false
			switch {
			case sym == "missing-answer" && o.Timed && len(got) < len(want):
				r.Inconclusive(fmt.Sprintf("%s: request %s unanswered at the watchdog with an unfinished trace", label, q.ID))
			case sym == "missing-answer" && o.Timed && o.HTTPErr != "fence-answered":
				r.Inconclusive(fmt.Sprintf("%s: request %s unanswered at the watchdog, and so was a ping sent afterwards", label, q.ID))
			default:
				r.Violation(sigBase+"|"+sym, fmt.Sprintf("%s: request %s (%s, %s): %s (status %d)", label, q.ID, spec.Name, when, what, o.Status), wit)
			}
		}
		if ok {
			r.Distinct(fmt.Sprintf("values|%s|%s|%s|%s", vc.Kind, pos, when, spec.Name))
			r.Count("values_requests_matched/"+spec.Class, 1)
			r.Count("values_requests_matched_on/"+string(vc.Kind), 1)
			r.Count("values_requests_matched_at/"+pos+"/"+when, 1)
			r.SetAdd("values_matched", spec.Name)
			if spec.Class == vcNil {
				r.Count(fmt.Sprintf("values_nil_outcome/%s/%s/%s", spec.Name, kindGroup(vc.Kind), shape), 1)
			}
			if spec.Is == context.Canceled {
				r.Count("values_errors_wrapping_context.Canceled_answered_as_internal_error", 1)
			}
		}
	}

	// 3. notifications bypass the chain whatever the middlewares would return
	for _, m := range []string{"notifications/verif", "tools/call"} {
		for s, c := range conns {
			r.Eval(1)
			before, had := cs.calls.Load(), cs.notifCount(m)
			body := fmt.Sprintf(`{"jsonrpc":"2.0","method":%q,"params":{"k":%d}}`, m, s)
			ex := c.Post(ctx, []byte(body), kit.PostOpts{NoWait: true})
			st := 0
			if ex.HTTP != nil {
				st = ex.HTTP.Status
			}
			if !waitFor(notifWait(vc.Kind), func() bool { return cs.notifCount(m) > had }) {
				watchdogFired.Add(1)
				r.Inconclusive(fmt.Sprintf("%s: notification %s (status %d) did not reach its handler", label, m, st))
				continue
			}
			if after := cs.calls.Load(); after != before {
				r.Violation(fmt.Sprintf("C15|notification|%s|%s|entered-chain", vc.Kind, m),
					fmt.Sprintf("%s: posting %s made the middlewares run %d times", label, m, after-before), map[string]interface{}{"status": st})
				continue
			}
			r.Count("values_notifications_delivered", 1)
		}
	}
	if x := cs.notifInChain.Load(); x != 0 {
		r.Violation(fmt.Sprintf("C15|notification|%s|entered-chain", vc.Kind), fmt.Sprintf("%s: %d middleware invocations carried a notification", label, x), nil)
	}
	r.Count("values_cases", 1)
	if valueSamples.Add(1) <= 2 && len(reqs) > 0 {
		q := reqs[0]
		r.Sample(map[string]interface{}{"scenario": "values", "kind": vc.Kind, "chain_length": vc.N, "acting_middleware": vc.P, "value": valueTable[q.VI].Name, "method": q.Method,
			"id": q.ID, "observed_trace": traces[q.ID], "answer": firstOr(outs[0].Frames)})
	}
}

func kindGroup(k kit.Kind) string {
	if k == kit.LSSE {
		return "legacy"
	}
	if k == kit.SSSE || k == kit.SLSSE {
		return "streamable-sse"
	}
	return "streamable-json"
}

func clipAll(fs []string) []string {
	out := make([]string, len(fs))
	for i, f := range fs {
		out[i] = clip(f)
	}
	return out
}

// requireValues: nothing observed, nothing claimed.
func requireValues(r *vh.Run) {
	for _, c := range []string{vcErr, vcValue, vcRPCErr, vcNil} {
		r.Require(r.Counter("values_requests_matched/"+c) > 0, "scenario values: no request of class %s matched", c)
	}
	r.Require(r.Counter("values_requests_observed/"+vcOpen) > 0, "scenario values: no request with a value the statement leaves open was observed")
	for _, k := range valueKinds {
		r.Require(r.Counter("values_requests_matched_on/"+string(k)) > 0, "scenario values: nothing matched on %s", k)
	}
	for _, p := range []string{"only", "outermost", "middle", "innermost"} {
		for _, w := range []string{"instead-of-next", "after-next"} {
			r.Require(r.Counter("values_requests_matched_at/"+p+"/"+w) > 0, "scenario values: nothing matched with the acting middleware %s, %s", p, w)
		}
	}
	r.Require(r.Counter("values_errors_wrapping_context.Canceled_answered_as_internal_error") > 0, "scenario values: no middleware error wrapping context.Canceled was seen answered")
	r.Require(r.Counter("values_notifications_delivered") > 0, "scenario values: no notification reached its handler")
}
