package main

// Scenario "ctxview": WHAT a stage can read from the context it runs with.
//
// The statement: every request passes m1-before .. mn-before, the method handler, mn-after .. m1-after "each exactly
// once and with the request's own context and session". The other scenarios look at the session a stage sees on
// the three configurations that keep sessions (stateful Streamable x JSON / SSE answers, legacy SSE) and compare it
// with the session id the peer holds. Here every stage of the onion — each middleware before and after calling the
// next stage, and the innermost code the library runs for the request (tool / prompt / resource handler, the
// tools|prompts|resources list filter) — records the whole view it has through every context accessor package mcp
// exports (ClientSessionFromContext, GetSessionFromContext, GetServerFromContext, GetNotificationSender), the
// values the HTTP context functions derived from this request's headers, the session data reachable through the
// session it sees, ctx.Err / Deadline and the values outer stages added to the context. Oracle: the views of one
// request agree with each other (stage vs stage, before vs after, stage vs innermost code, accessor vs accessor),
// the context-function value is the token this request's header carried, and where the peer knows the session id
// (stateful, legacy) the session is that one. Where a configuration has no session at all, everybody agrees on
// that too. Servers: all six HTTP configurations (stdio servers take no middlewares).

import (
	"context"
	"encoding/json"
	"fmt"
	"net/http"
	"sort"
	"strconv"
	"strings"
	"sync"
	"sync/atomic"
	"time"

	mcp "trpc.group/trpc-go/trpc-mcp-go"

	"verifharness/lib/kit"
	"verifharness/lib/vh"
)

const cvHeader = "X-C15-Token"

type (
	cvKeyA struct{} // set by the first context function: the header's token
	cvKeyB struct{} // set by the second one from what the first one set (they run in registration order)
	cvMark int      // set by middleware i for everything inside it
)

var cvKinds = []kit.Kind{kit.SJSON, kit.SSSE, kit.SLJSON, kit.SLSSE, kit.SNoSess, kit.LSSE}

// method kinds; inner = the innermost code of the library that runs with the request's context can be observed
var cvMethods = []struct {
	Method string
	Inner  string // "" = not observable
}{
	{"tools/call", "handler"}, {"prompts/get", "handler"}, {"resources/read", "handler"},
	{"tools/list", "filter"}, {"prompts/list", "filter"}, {"resources/list", "filter"},
	{"ping", ""}, {"x-vendor/do", ""},
}

// accessors (the columns of the cell table)
var cvAccessors = []string{
	"ClientSessionFromContext", "GetSessionFromContext", "context-function-values", "GetServerFromContext", "GetNotificationSender",
	"session-data-written-by-this-request", "session-data-written-earlier-in-the-session", "ctx.Err+Deadline", "values-added-by-outer-stages",
}

// cvView: what one stage read.
type cvView struct {
	Stage    string `json:"stage"`
	CSPtr    string `json:"client_session_ptr"`
	CSID     string `json:"client_session_id"`
	GSPtr    string `json:"get_session_ptr"`
	GSID     string `json:"get_session_id"`
	TokA     string `json:"ctxfunc_1"`
	TokB     string `json:"ctxfunc_2"`
	Srv      string `json:"server"` // <nil> | own | foreign:<type>
	Sender   string `json:"notification_sender"`
	ReqCS    string `json:"reqdata_via_client_session"`
	ReqGS    string `json:"reqdata_via_get_session"`
	OwnerCS  string `json:"owner_via_client_session"`
	OwnerGS  string `json:"owner_via_get_session"`
	Err      string `json:"ctx_err"`
	Deadline string `json:"ctx_deadline"`
	Marks    string `json:"marks"`
	Foreign  bool   `json:"foreign_mark,omitempty"`
}

func ptrOf(v interface{}) string {
	if v == nil {
		return "<nil>"
	}
	return fmt.Sprintf("%T@%p", v, v)
}

type cvState struct {
	no     int
	n      int
	own    interface{} // the server object of the case
	mu     sync.Mutex
	views  map[string][]cvView // by request id
	stray  []cvView            // innermost code that could not attribute itself to a request
	calls  atomic.Int64
	gate   string
	gateAt int
	hold   atomic.Bool // concurrent phase: stages wait at the gate
}

func dataOf(s mcp.Session, key string) string {
	if s == nil {
		return "<nosess>"
	}
	v, ok := s.GetData(key)
	if !ok {
		return "<unset>"
	}
	return fmt.Sprint(v)
}

// view reads everything the context offers. id: the request the stage believes it runs for.
func (st *cvState) view(ctx context.Context, stage, id string) cvView {
	v := cvView{Stage: stage, CSPtr: "<nil>", CSID: "<nil>", GSPtr: "<nil>", GSID: "<nil>", TokA: "<unset>", TokB: "<unset>", Srv: "<nil>", Sender: "<nil>", Err: "<nil>", Deadline: "none"}
	var cs, gs mcp.Session
	if s := mcp.ClientSessionFromContext(ctx); s != nil {
		cs = s
		v.CSPtr, v.CSID = ptrOf(s), s.GetID()
	}
	if s, ok := mcp.GetSessionFromContext(ctx); ok && s != nil {
		gs = s
		v.GSPtr, v.GSID = ptrOf(s), s.GetID()
	}
	if t, ok := ctx.Value(cvKeyA{}).(string); ok {
		v.TokA = t
	}
	if t, ok := ctx.Value(cvKeyB{}).(string); ok {
		v.TokB = t
	}
	if srv := mcp.GetServerFromContext(ctx); srv != nil {
		if srv == st.own {
			v.Srv = "own"
		} else {
			v.Srv = fmt.Sprintf("foreign:%T", srv)
		}
	}
	if snd, ok := mcp.GetNotificationSender(ctx); ok && snd != nil {
		v.Sender = ptrOf(snd)
	}
	v.ReqCS, v.ReqGS = dataOf(cs, "c15cv-req-"+id), dataOf(gs, "c15cv-req-"+id)
	v.OwnerCS, v.OwnerGS = dataOf(cs, "c15cv-owner"), dataOf(gs, "c15cv-owner")
	if e := ctx.Err(); e != nil {
		v.Err = e.Error()
	}
	if d, ok := ctx.Deadline(); ok {
		v.Deadline = d.Format(time.RFC3339Nano)
	}
	var m []int
	for i := 0; i < st.n; i++ {
		if x, ok := ctx.Value(cvMark(i)).(string); ok {
			m = append(m, i)
			if x != id {
				v.Foreign = true
			}
		}
	}
	v.Marks = fmtMarks(m)
	return v
}

func (st *cvState) record(id string, v cvView) {
	st.mu.Lock()
	st.views[id] = append(st.views[id], v)
	st.mu.Unlock()
}

// id of a request: c15cv-<case>-<conn>-<k>
func cvID(caseNo, conn, k int) string { return fmt.Sprintf("c15cv-%d-%d-%d", caseNo, conn, k) }

func cvConnOf(id string) string {
	p := strings.Split(id, "-")
	if len(p) != 4 || p[0] != "c15cv" {
		return ""
	}
	return p[2]
}

func (st *cvState) mw(i int) mcp.Middleware {
	return func(next mcp.HandlerFunc) mcp.HandlerFunc {
		return func(ctx context.Context, req *mcp.JSONRPCRequest) (mcp.JSONRPCMessage, error) {
			st.calls.Add(1)
			id, _ := req.ID.(string)
			if cvConnOf(id) == "" {
				return next(ctx, req)
			}
			if i == 0 {
				// the outermost stage writes into the session it runs with: a value of this request, and (once per
				// session) whose session it is — what later stages and later requests of the session must find
				s := mcp.ClientSessionFromContext(ctx)
				if s == nil {
					if g, ok := mcp.GetSessionFromContext(ctx); ok {
						s = g
					}
				}
				if s != nil {
					s.SetData("c15cv-req-"+id, id)
					if _, ok := s.GetData("c15cv-owner"); !ok {
						s.SetData("c15cv-owner", "conn"+cvConnOf(id))
					}
				}
			}
			st.record(id, st.view(ctx, fmt.Sprintf("m%d-before", i), id))
			if st.gateAt == i && st.hold.Load() {
				kit.G.Wait(ctx, st.gate)
			}
			res, err := next(context.WithValue(ctx, cvMark(i), id), req)
			st.record(id, st.view(ctx, fmt.Sprintf("m%d-after", i), id))
			return res, err
		}
	}
}

// inner: the innermost code records itself. nonce: the request id where the request's params carry it.
func (st *cvState) inner(ctx context.Context, stage, nonce string) {
	id := nonce
	if id == "" {
		if t, ok := ctx.Value(cvKeyA{}).(string); ok {
			id = t
		}
	}
	if cvConnOf(id) == "" {
		if t, ok := ctx.Value(cvKeyA{}).(string); ok && t == "" && nonce == "" {
			return // a request that is not the scenario's (no token header)
		}
		st.mu.Lock()
		st.stray = append(st.stray, st.view(ctx, stage, id))
		st.mu.Unlock()
		return
	}
	st.record(id, st.view(ctx, stage, id))
}

func cvCtxA(ctx context.Context, r *http.Request) context.Context {
	return context.WithValue(ctx, cvKeyA{}, r.Header.Get(cvHeader))
}

func cvCtxB(ctx context.Context, r *http.Request) context.Context {
	a, _ := ctx.Value(cvKeyA{}).(string)
	return context.WithValue(ctx, cvKeyB{}, "2:"+a+":"+r.Header.Get(cvHeader))
}

func (st *cvState) opts(kind kit.Kind, form string) kit.Opts {
	var o kit.Opts
	tf := func(ctx context.Context, t []*mcp.Tool) []*mcp.Tool { st.inner(ctx, "filter", ""); return t }
	pf := func(ctx context.Context, p []*mcp.Prompt) []*mcp.Prompt { st.inner(ctx, "filter", ""); return p }
	rf := func(ctx context.Context, x []*mcp.Resource) []*mcp.Resource { st.inner(ctx, "filter", ""); return x }
	if kind == kit.LSSE {
		// the legacy server takes one context function
		o.SSEOpts = append(o.SSEOpts, mcp.WithSSEContextFunc(func(ctx context.Context, r *http.Request) context.Context { return cvCtxB(cvCtxA(ctx, r), r) }),
			mcp.WithSSEToolListFilter(tf), mcp.WithSSEPromptListFilter(pf), mcp.WithSSEResourceListFilter(rf))
	} else {
		o.ServerOpts = append(o.ServerOpts, mcp.WithHTTPContextFunc(cvCtxA), mcp.WithHTTPContextFunc(cvCtxB),
			mcp.WithToolListFilter(tf), mcp.WithPromptListFilter(pf), mcp.WithResourceListFilter(rf))
	}
	for _, g := range formGroups(st.n, form) {
		ms := make([]mcp.Middleware, 0, len(g))
		for _, i := range g {
			ms = append(ms, st.mw(i))
		}
		if kind == kit.LSSE {
			o.SSEOpts = append(o.SSEOpts, mcp.WithSSEMiddleware(ms...))
		} else {
			o.ServerOpts = append(o.ServerOpts, mcp.WithMiddleware(ms...))
		}
	}
	return o
}

func (st *cvState) register(in *kit.Instance) {
	in.RegisterTool(mcp.NewTool("c15echo", mcp.WithString("nonce", mcp.Required()), mcp.WithString("tag")),
		func(ctx context.Context, req *mcp.CallToolRequest) (*mcp.CallToolResult, error) {
			nonce, _ := req.Params.Arguments["nonce"].(string)
			st.inner(ctx, "handler", nonce)
			return mcp.NewTextResult(nonce), nil
		})
	in.RegisterPrompt(&mcp.Prompt{Name: "c15prompt", Arguments: []mcp.PromptArgument{{Name: "nonce", Required: true}, {Name: "tag"}}},
		func(ctx context.Context, req *mcp.GetPromptRequest) (*mcp.GetPromptResult, error) {
			st.inner(ctx, "handler", req.Params.Arguments["nonce"])
			return &mcp.GetPromptResult{Messages: []mcp.PromptMessage{{Role: mcp.RoleUser, Content: mcp.NewTextContent("p")}}}, nil
		})
	in.RegisterResource(&mcp.Resource{URI: "res://c15", Name: "c15res", MimeType: "text/plain"},
		func(ctx context.Context, req *mcp.ReadResourceRequest) (mcp.ResourceContents, error) {
			st.inner(ctx, "handler", "") // resources/read carries nothing of the request but the uri: attributed by the context-function value
			return mcp.TextResourceContents{URI: "res://c15", MIMEType: "text/plain", Text: "c15"}, nil
		})
}

type cvCase struct {
	No   int
	Kind kit.Kind
	N    int
	Form string
}

func buildCtxviewCases(r *vh.Run) []cvCase {
	var out []cvCase
	for ki, k := range cvKinds {
		for n := 1; n <= 4; n++ {
			forms := formsFor(n)
			if r.Quick() {
				forms = []string{forms[(ki+n)%len(forms)]}
			}
			for _, f := range forms {
				out = append(out, cvCase{No: len(out), Kind: k, N: n, Form: f})
			}
		}
	}
	return out
}

type cvReq struct {
	ID     string
	Conn   int
	Method string
	Inner  string
	Phase  string // sequential | concurrent
}

type cvOut struct {
	Frames  []string
	Status  int
	HTTPErr string
	Timed   bool
}

var (
	cvCellMu sync.Mutex
	cvCells  = map[string]bool{} // kind/accessor/method cells whose oracle held on at least one fully observed request
	cvSample atomic.Int64
)

func cvExpectedStages(n int, inner string) []string {
	var s []string
	for i := 0; i < n; i++ {
		s = append(s, fmt.Sprintf("m%d-before", i))
	}
	if inner != "" {
		s = append(s, inner)
	}
	for i := n - 1; i >= 0; i-- {
		s = append(s, fmt.Sprintf("m%d-after", i))
	}
	return s
}

func isMwStage(s string) bool { return strings.HasPrefix(s, "m") }

// spread classifies a disagreement of one field among the views of a request.
func spread(views []cvView, get func(cvView) string) string {
	mw, in := map[string]bool{}, map[string]bool{}
	for _, v := range views {
		if isMwStage(v.Stage) {
			mw[get(v)] = true
		} else {
			in[get(v)] = true
		}
	}
	all := map[string]bool{}
	for k := range mw {
		all[k] = true
	}
	for k := range in {
		all[k] = true
	}
	switch {
	case len(all) <= 1:
		return ""
	case len(mw) <= 1 && len(in) <= 1:
		return "middlewares-and-innermost-code-differ"
	case len(mw) > 1:
		for i := range views { // before vs after of one middleware?
			for j := range views {
				a, b := views[i].Stage, views[j].Stage
				if strings.HasSuffix(a, "-before") && b == strings.TrimSuffix(a, "-before")+"-after" && get(views[i]) != get(views[j]) {
					return "before-and-after-of-one-middleware-differ"
				}
			}
		}
		return "middlewares-differ"
	}
	return "innermost-stages-differ"
}

func runCtxviewCase(r *vh.Run, vc cvCase) {
	st := &cvState{no: vc.No, n: vc.N, views: map[string][]cvView{}, gate: fmt.Sprintf("c15cv-gate-%d", vc.No), gateAt: vc.No % vc.N}
	label := fmt.Sprintf("ctxview %s len=%d form=%s", vc.Kind, vc.N, vc.Form)
	in := kit.Start(vc.Kind, st.opts(vc.Kind, vc.Form))
	defer in.Close()
	st.own = in.Srv()
	st.register(in)
	ctx, cancel := context.WithTimeout(context.Background(), 120*time.Second)
	defer cancel()

	nconn := r.Pick(2, 3)
	conns := make([]*kit.RawConn, nconn)
	for s := range conns {
		c, err := in.Dial(ctx)
		if err != nil {
			r.Fatal("dial %s: %v", label, err)
		}
		defer c.Close()
		if err := c.Handshake(ctx); err != nil {
			r.Violation(fmt.Sprintf("C15|handshake|%s|len=%d|failed", vc.Kind, vc.N), fmt.Sprintf("%s: handshake through the chain failed: %v", label, err), nil)
			return
		}
		conns[s] = c
	}

	var reqs []cvReq
	add := func(phase string, reps int) {
		for rep := 0; rep < reps; rep++ {
			for _, m := range cvMethods {
				for ci := range conns {
					reqs = append(reqs, cvReq{ID: cvID(vc.No, ci, len(reqs)), Conn: ci, Method: m.Method, Inner: m.Inner, Phase: phase})
				}
			}
		}
	}
	add("sequential", 1)
	nseq := len(reqs)
	add("concurrent", r.Pick(1, 2))
	outs := make([]cvOut, len(reqs))
	post := func(k int) {
		q := reqs[k]
		ex := conns[q.Conn].Post(ctx, reqBody(q.ID, q.Method), kit.PostOpts{WantID: fmt.Sprintf("%q", q.ID), Wait: postWait(), Headers: map[string]string{cvHeader: q.ID}})
		if ex.TimedOut {
			watchdogFired.Add(1)
		}
		o := cvOut{Frames: ex.Frames, Timed: ex.TimedOut}
		if ex.HTTP != nil {
			o.Status, o.HTTPErr = ex.HTTP.Status, ex.HTTP.Err
		}
		outs[k] = o
	}
	for k := 0; k < nseq; k++ {
		post(k)
	}
	// concurrent: all at once, held together inside one middleware
	st.hold.Store(true)
	var wg sync.WaitGroup
	var answered atomic.Int64
	for k := nseq; k < len(reqs); k++ {
		wg.Add(1)
		go func(k int) {
			defer wg.Done()
			defer answered.Add(1)
			post(k)
		}(k)
	}
	nconc := len(reqs) - nseq
	got, deadline := 0, time.Now().Add(20*time.Second)
	for {
		got = kit.G.AwaitWaiters(st.gate, nconc, 20*time.Millisecond)
		if got+int(answered.Load()) >= nconc {
			break
		}
		if time.Now().After(deadline) {
			r.Inconclusive(fmt.Sprintf("%s: only %d of %d requests reached the gated middleware m%d within 20 s", label, got, nconc, st.gateAt))
			break
		}
	}
	r.Max("ctxview_requests_held_in_one_middleware", int64(got))
	kit.G.Open(st.gate)
	wg.Wait()

	st.mu.Lock()
	views := map[string][]cvView{}
	for k, v := range st.views {
		views[k] = append([]cvView{}, v...)
	}
	stray := append([]cvView{}, st.stray...)
	st.mu.Unlock()

	if len(stray) > 0 {
		r.Violation(fmt.Sprintf("C15|ctxview|%s|innermost-code-without-the-requests-context-function-value", vc.Kind),
			fmt.Sprintf("%s: %d handler / filter invocations ran with a context in which the value the context function derived from the request's header names no request that was sent", label, len(stray)),
			map[string]interface{}{"views": stray})
	}
	sent := map[string]bool{}
	for _, q := range reqs {
		sent[q.ID] = true
	}
	for id := range views {
		if !sent[id] {
			r.Violation(fmt.Sprintf("C15|ctxview|%s|stage-for-unknown-request", vc.Kind), fmt.Sprintf("%s: stages were recorded for request %q which was never sent", label, id), map[string]interface{}{"views": views[id]})
		}
	}

	for k, q := range reqs {
		o, vs := outs[k], views[q.ID]
		r.Eval(1)
		r.Count("ctxview_requests", 1)
		r.Count("ctxview_views_recorded", int64(len(vs)))
		wit := map[string]interface{}{"kind": vc.Kind, "chain_length": vc.N, "form": vc.Form, "method": q.Method, "phase": q.Phase, "id": q.ID, "header_token": q.ID,
			"peer_session_id": conns[q.Conn].SessionID, "views": vs, "frames": clipAll(o.Frames), "status": o.Status, "http_err": o.HTTPErr, "timed_out": o.Timed}
		sig := func(acc, sym string) string { return fmt.Sprintf("C15|ctxview|%s|%s|%s|%s", vc.Kind, q.Method, acc, sym) }

		// the onion itself
		want := cvExpectedStages(vc.N, q.Inner)
		var gotStages []string
		for _, v := range vs {
			gotStages = append(gotStages, v.Stage)
		}
		if strings.Join(gotStages, ",") != strings.Join(want, ",") {
			if o.Timed && len(gotStages) < len(want) {
				r.Inconclusive(fmt.Sprintf("%s: request %s did not finish before the watchdog (%d of %d stages)", label, q.ID, len(gotStages), len(want)))
				continue
			}
			wit["expected_stages"] = want
			r.Violation(sig("trace", "stages-differ-from-the-onion"), fmt.Sprintf("%s: request %s (%s): stages %v, the onion is %v", label, q.ID, q.Method, gotStages, want), wit)
			continue
		}
		// answered once under its id
		mine, _ := answersFor(o.Frames, q.ID)
		if len(mine) != 1 {
			if o.Timed {
				r.Inconclusive(fmt.Sprintf("%s: request %s unanswered at the watchdog", label, q.ID))
			} else {
				r.Violation(sig("answer", "answer-count"), fmt.Sprintf("%s: request %s (%s): %d answers under its id (status %d)", label, q.ID, q.Method, len(mine), o.Status), wit)
			}
			continue
		}
		var w fullFrame
		_ = json.Unmarshal([]byte(mine[0]), &w)
		if q.Method == "x-vendor/do" {
			if w.Error == nil || w.Error.Code == nil || *w.Error.Code != -32601 {
				r.Violation(sig("answer", "unknown-method-not-refused"), fmt.Sprintf("%s: request %s: %s", label, q.ID, clip(mine[0])), wit)
				continue
			}
		} else if w.Error != nil {
			r.Violation(sig("answer", "error-instead-of-result"), fmt.Sprintf("%s: request %s (%s): %s", label, q.ID, q.Method, clip(mine[0])), wit)
			continue
		}

		bad := map[string]string{} // accessor -> symptom
		fail := func(acc, sym string) {
			if bad[acc] == "" {
				bad[acc] = sym
			}
		}
		connName := "conn" + strconv.Itoa(q.Conn)
		peerSID := conns[q.Conn].SessionID
		knowsSID := vc.Kind.Stateful() || vc.Kind == kit.LSSE
		anySession := false
		for _, v := range vs {
			if v.CSPtr != "<nil>" || v.GSPtr != "<nil>" {
				anySession = true
			}
		}

		// 1/2. the session, through either accessor
		for _, a := range []struct {
			acc      string
			ptr, sid func(cvView) string
		}{
			{"ClientSessionFromContext", func(v cvView) string { return v.CSPtr }, func(v cvView) string { return v.CSID }},
			{"GetSessionFromContext", func(v cvView) string { return v.GSPtr }, func(v cvView) string { return v.GSID }},
		} {
			if s := spread(vs, func(v cvView) string { return a.ptr(v) + "/" + a.sid(v) }); s != "" {
				fail(a.acc, s)
			}
			for _, v := range vs {
				switch {
				case vc.Kind == kit.SNoSess && a.ptr(v) != "<nil>":
					fail(a.acc, "session-on-a-server-without-sessions")
				case knowsSID && a.ptr(v) != "<nil>" && a.sid(v) != peerSID:
					fail(a.acc, "session-of-another-peer")
				case knowsSID && a.ptr(v) == "<nil>" && a.acc == "ClientSessionFromContext":
					fail(a.acc, "nil")
				}
			}
		}
		// the two accessors name the same session: a stage for which the documented accessor yields nothing
		// while the request does have a session does not run with the request's session
		for _, v := range vs {
			switch {
			case v.CSPtr != "<nil>" && v.GSPtr != "<nil>" && v.CSPtr != v.GSPtr:
				fail("ClientSessionFromContext", "accessors-name-different-sessions")
			case v.CSPtr == "<nil>" && anySession:
				fail("ClientSessionFromContext", "nil-although-the-request-has-a-session")
			case v.GSPtr == "<nil>" && anySession:
				r.Count(fmt.Sprintf("ctxview_GetSessionFromContext_nil_although_session/%s/%s", vc.Kind, stageKind(v.Stage)), 1)
			}
		}
		// 3. context-function values: this request's header
		if s := spread(vs, func(v cvView) string { return v.TokA + "|" + v.TokB }); s != "" {
			fail("context-function-values", s)
		}
		for _, v := range vs {
			switch {
			case v.TokA == "<unset>" || v.TokB == "<unset>":
				fail("context-function-values", "missing")
			case v.TokA != q.ID || v.TokB != "2:"+q.ID+":"+q.ID:
				fail("context-function-values", "of-another-request")
			}
		}
		// 4. server handle: the tool manager adds it for tool handlers, the legacy server for everything; a stage
		// either sees none or this server, and the middlewares agree among themselves
		var mwViews []cvView
		for _, v := range vs {
			if isMwStage(v.Stage) {
				mwViews = append(mwViews, v)
			}
			if strings.HasPrefix(v.Srv, "foreign") {
				fail("GetServerFromContext", "another-server")
			}
			r.Count(fmt.Sprintf("ctxview_server_handle/%s/%s/%s", kindGroup(vc.Kind), stageKindM(v.Stage, q.Method), v.Srv), 1)
		}
		if s := spread(mwViews, func(v cvView) string { return v.Srv }); s != "" {
			fail("GetServerFromContext", s)
		}
		// 5. notification sender
		if s := spread(vs, func(v cvView) string { return v.Sender }); s != "" {
			fail("GetNotificationSender", s)
		}
		for _, v := range vs {
			r.Count(fmt.Sprintf("ctxview_notification_sender/%s/%s", vc.Kind, senderClass(v.Sender)), 1)
		}
		// 6. session data written by the outermost stage of this request
		if s := spread(vs, func(v cvView) string { return v.ReqCS + "|" + v.ReqGS }); s != "" {
			fail("session-data-written-by-this-request", s)
		}
		for _, v := range vs {
			for _, d := range []string{v.ReqCS, v.ReqGS} {
				if d != "<nosess>" && d != q.ID {
					fail("session-data-written-by-this-request", "not-found-in-the-session-the-stage-sees")
				}
			}
		}
		// 7. session data written earlier in the session (by the first request of this peer; in stateless mode the
		// session lives for this request only, so it is this request's own mark)
		if s := spread(vs, func(v cvView) string { return v.OwnerCS + "|" + v.OwnerGS }); s != "" {
			fail("session-data-written-earlier-in-the-session", s)
		}
		for _, v := range vs {
			for _, d := range []string{v.OwnerCS, v.OwnerGS} {
				if d != "<nosess>" && d != connName {
					fail("session-data-written-earlier-in-the-session", "session-written-to-by-another-peer")
				}
			}
		}
		// 8. the context itself: alive while the peer waits, the same deadline everywhere
		if s := spread(vs, func(v cvView) string { return v.Err + "|" + v.Deadline }); s != "" {
			fail("ctx.Err+Deadline", s)
		}
		// 9. values added by outer stages
		for _, v := range vs {
			wantMarks := vc.N
			if isMwStage(v.Stage) {
				fmt.Sscanf(v.Stage, "m%d-", &wantMarks)
			}
			idx := make([]int, wantMarks)
			for i := range idx {
				idx[i] = i
			}
			switch {
			case v.Foreign:
				fail("values-added-by-outer-stages", "of-another-request")
			case v.Marks != fmtMarks(idx):
				fail("values-added-by-outer-stages", "not-those-of-the-enclosing-stages")
			}
		}

		for _, acc := range cvAccessors {
			if sym := bad[acc]; sym != "" {
				r.Violation(sig(acc, sym), fmt.Sprintf("%s: request %s (%s, %s) with header token %s of the peer holding session %q: what the stages read through %s does not fit one request: %s",
					label, q.ID, q.Method, q.Phase, q.ID, peerSID, acc, sym), wit)
				continue
			}
			cell := fmt.Sprintf("%s/%s/%s", vc.Kind, acc, q.Method)
			cvCellMu.Lock()
			if !cvCells[cell] {
				cvCells[cell] = true
				r.Count("ctxview_cells_held", 1)
			}
			cvCellMu.Unlock()
			r.Distinct(fmt.Sprintf("ctxview|%s|%s|%s|%s|len=%d", vc.Kind, q.Method, acc, q.Phase, vc.N))
		}
		if len(bad) == 0 {
			r.Count("ctxview_requests_all_views_agree", 1)
			r.Count("ctxview_requests_all_views_agree/"+string(vc.Kind)+"/"+q.Phase, 1)
			if q.Inner != "" {
				r.Count("ctxview_requests_with_innermost_view_agreeing/"+string(vc.Kind), 1)
			}
			sess := "none"
			if anySession {
				sess = "same-session-object-in-every-view"
			}
			r.Count(fmt.Sprintf("ctxview_session/%s/%s", vc.Kind, sess), 1)
		}
	}
	r.Count("ctxview_cases", 1)
	if cvSample.Add(1) <= 3 && len(reqs) > 0 {
		k := (vc.No * 5) % len(reqs)
		r.Sample(map[string]interface{}{"scenario": "ctxview", "kind": vc.Kind, "chain_length": vc.N, "form": vc.Form, "method": reqs[k].Method, "phase": reqs[k].Phase, "id": reqs[k].ID,
			"peer_session_id": conns[reqs[k].Conn].SessionID, "views": views[reqs[k].ID]})
	}
}

func stageKind(s string) string {
	if isMwStage(s) {
		return "middleware"
	}
	return s
}

func stageKindM(s, method string) string {
	if isMwStage(s) {
		return "middleware"
	}
	return s + ":" + method
}

func senderClass(s string) string {
	if s == "<nil>" {
		return "none"
	}
	if i := strings.Index(s, "@"); i > 0 {
		return s[:i]
	}
	return s
}

// requireCtxview: nothing observed, nothing claimed.
func requireCtxview(r *vh.Run) {
	cvCellMu.Lock()
	defer cvCellMu.Unlock()
	var missing []string
	for _, k := range cvKinds {
		for _, a := range cvAccessors {
			for _, m := range cvMethods {
				if c := fmt.Sprintf("%s/%s/%s", k, a, m.Method); !cvCells[c] {
					missing = append(missing, c)
				}
			}
		}
	}
	sort.Strings(missing)
	if len(missing) > 6 {
		missing = append(missing[:6], fmt.Sprintf("... %d more", len(missing)-6))
	}
	r.Require(len(missing) == 0, "scenario ctxview: (configuration x accessor x method) cells never seen holding: %v", missing)
	for _, k := range cvKinds {
		for _, p := range []string{"sequential", "concurrent"} {
			r.Require(r.Counter("ctxview_requests_all_views_agree/"+string(k)+"/"+p) > 0, "scenario ctxview: no %s request on %s had all its views agreeing", p, k)
		}
		r.Require(r.Counter("ctxview_requests_with_innermost_view_agreeing/"+string(k)) > 0, "scenario ctxview: on %s no request was seen whose handler / filter view agreed with the middlewares' views", k)
		want := "same-session-object-in-every-view"
		if k == kit.SNoSess {
			want = "none"
		}
		r.Require(r.Counter(fmt.Sprintf("ctxview_session/%s/%s", k, want)) > 0, "scenario ctxview: on %s no request was seen with session %s", k, want)
	}
}
