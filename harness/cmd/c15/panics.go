package main

// Scenario "panics": a middleware that panics. The statement of C15 says nothing about panics, so nothing is
// judged; what happens is counted (was the request answered and how, did the next request on the same server get
// its answer, did the process survive). The panic can take the whole process down (the legacy server runs the
// chain in a goroutine of its own), so every observation is made in a child process.

import (
	"context"
	"encoding/json"
	"errors"
	"fmt"
	"net/http"
	"os"
	"strconv"
	"time"

	mcp "trpc.group/trpc-go/trpc-mcp-go"

	"verifharness/lib/kit"
	"verifharness/lib/vh"
)

const panicRole = "c15-panic"

var panicVariants = []string{"string", "error", "http.ErrAbortHandler", "runtime-error", "after-next"}

func doPanic(variant string, next mcp.HandlerFunc, ctx context.Context, req *mcp.JSONRPCRequest) {
	switch variant {
	case "string":
		panic("c15: middleware panics with a string")
	case "error":
		panic(errors.New("c15: middleware panics with an error"))
	case "http.ErrAbortHandler":
		panic(http.ErrAbortHandler)
	case "runtime-error":
		var m map[string]int
		m["x"] = 1
	case "after-next":
		_, _ = next(ctx, req)
		panic("c15: middleware panics after the next stage returned")
	}
}

type panicReport struct {
	Kind      string `json:"kind"`
	Variant   string `json:"variant"`
	N         int    `json:"chain_length"`
	P         int    `json:"acting_middleware"`
	Reached   bool   `json:"acting_middleware_reached"`
	Shape     string `json:"answer"`
	Status    int    `json:"status"`
	HTTPErr   string `json:"http_err,omitempty"`
	NextShape string `json:"next_request_answer"`
	OuterSaw  string `json:"outer_after_stage"` // ran | not-run | -
}

// panicChild: one server, one panicking request, one ordinary request afterwards; prints one JSON line.
func panicChild() {
	kit.Silence()
	a := os.Args[1:]
	if len(a) < 4 {
		fmt.Println(`{"error":"args"}`)
		os.Exit(3)
	}
	kind, variant := kit.Kind(a[0]), a[1]
	n, _ := strconv.Atoi(a[2])
	p, _ := strconv.Atoi(a[3])
	rep := panicReport{Kind: string(kind), Variant: variant, N: n, P: p, Shape: "-", NextShape: "-", OuterSaw: "-"}
	flush := func() {
		b, _ := json.Marshal(rep)
		fmt.Println(string(b))
		os.Stdout.Sync()
	}
	outerAfter := false
	var ms []mcp.Middleware
	for i := 0; i < n; i++ {
		i := i
		ms = append(ms, func(next mcp.HandlerFunc) mcp.HandlerFunc {
			return func(ctx context.Context, req *mcp.JSONRPCRequest) (mcp.JSONRPCMessage, error) {
				if id, _ := req.ID.(string); id != "c15p-boom" {
					return next(ctx, req)
				}
				if i == p {
					rep.Reached = true
					flush() // the process may not live to tell
					doPanic(variant, next, ctx, req)
				}
				res, err := next(ctx, req)
				if i < p {
					outerAfter = true
				}
				return res, err
			}
		})
	}
	var o kit.Opts
	if kind == kit.LSSE {
		o.SSEOpts = []mcp.SSEOption{mcp.WithSSEMiddleware(ms...)}
	} else {
		o.ServerOpts = []mcp.ServerOption{mcp.WithMiddleware(ms...)}
	}
	in := kit.Start(kind, o)
	cs := newCaseState(n)
	cs.register(in)
	ctx, cancel := context.WithTimeout(context.Background(), 60*time.Second)
	defer cancel()
	c, err := in.Dial(ctx)
	if err != nil {
		rep.Shape = "dial-failed"
		flush()
		os.Exit(3)
	}
	if err := c.Handshake(ctx); err != nil {
		rep.Shape = "handshake-failed"
		flush()
		os.Exit(3)
	}
	ex := c.Post(ctx, reqBody("c15p-boom", "ping"), kit.PostOpts{WantID: `"c15p-boom"`, Wait: 3 * time.Second})
	rep.Shape = answerShape(ex.Frames, "c15p-boom")
	if ex.HTTP != nil {
		rep.Status, rep.HTTPErr = ex.HTTP.Status, ex.HTTP.Err
		if len(rep.HTTPErr) > 80 {
			rep.HTTPErr = rep.HTTPErr[:80]
		}
	}
	if p > 0 {
		rep.OuterSaw = "not-run"
		if outerAfter {
			rep.OuterSaw = "ran"
		}
	}
	ex2 := c.Post(ctx, reqBody("c15p-next", "ping"), kit.PostOpts{WantID: `"c15p-next"`, Wait: 10 * time.Second})
	rep.NextShape = answerShape(ex2.Frames, "c15p-next")
	flush()
	c.Close()
	in.Close()
	os.Exit(0)
}

type panicCase struct {
	No      int
	Kind    kit.Kind
	Variant string
	N, P    int
}

func buildPanicCases(r *vh.Run) []panicCase {
	var out []panicCase
	pos := [][2]int{{1, 0}, {3, 0}, {3, 1}, {3, 2}}
	for ki, k := range valueKinds {
		for vi, v := range panicVariants {
			for x := 0; x < r.Pick(1, len(pos)); x++ {
				np := pos[(ki+vi+x)%len(pos)]
				out = append(out, panicCase{No: len(out), Kind: k, Variant: v, N: np[0], P: np[1]})
			}
		}
	}
	return out
}

func runPanicCase(r *vh.Run, pc panicCase) {
	res := r.SpawnChild(panicRole, fmt.Sprintf("panic-%d", pc.No), []string{string(pc.Kind), pc.Variant, strconv.Itoa(pc.N), strconv.Itoa(pc.P)}, nil, nil, 90*time.Second)
	r.Eval(1)
	var rep panicReport
	lines := splitLines(string(res.Stdout()))
	if len(lines) == 0 || json.Unmarshal([]byte(lines[len(lines)-1]), &rep) != nil || !rep.Reached {
		r.Inconclusive(fmt.Sprintf("panics %s %s: the child reported nothing usable (%s)", pc.Kind, pc.Variant, res.Describe()))
		return
	}
	died := "process-survived"
	switch {
	case res.TimedOut:
		died = "child-timed-out"
	case res.ExitCode != 0 || res.Signal != "":
		died = "process-died"
	}
	r.Count("panics_observed", 1)
	r.Count(fmt.Sprintf("panics_outcome/%s/%s/%s/answer=%s/next=%s/outer-after=%s", kindGroup(pc.Kind), pc.Variant, died, rep.Shape, rep.NextShape, rep.OuterSaw), 1)
	r.Distinct(fmt.Sprintf("panics|%s|%s|%s", pc.Kind, pc.Variant, posName(pc.N, pc.P)))
}

func splitLines(s string) []string {
	var out []string
	cur := ""
	for _, c := range s {
		if c == '\n' {
			if cur != "" {
				out = append(out, cur)
			}
			cur = ""
			continue
		}
		cur += string(c)
	}
	if cur != "" {
		out = append(out, cur)
	}
	return out
}
