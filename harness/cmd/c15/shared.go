package main

// Scenario "shared": HOW chains are configured, across servers and over time.
//
// The other scenarios build one server per case from option values made for that server alone. Applications do
// not: they keep one []Middleware of common middlewares (grown with append, so it has spare capacity, or a prefix
// of a longer slice) and spread it into WithMiddleware(common...) / WithSSEMiddleware(common...) of several
// servers, each followed by its own WithMiddleware(extra); they pass one option value to several servers; they
// go on appending to / overwriting / re-slicing their slices after a server was constructed; they construct
// servers one after the other or at the same time.
//
// One case = 2..4 servers of one kind built from shared values with different extras, in different option
// layouts (k groups of sizes n1..nk), with the caller changing its slices between and after the constructions.
// The property is judged AFTER all servers exist and after the caller's last change (and, for some servers, once
// more right after their own construction): every request to server s passes exactly the middlewares configured
// for s at the moment s was constructed, in registration order, each once — never a middleware of another
// server, never a value the caller stored in its slice afterwards — and no middleware is invoked more or less
// often than the requests of the servers it was configured on account for.
//
// Every middleware value of a case has a number (uid) and is known to the interpreter under that number, because
// one value sits at different positions of different servers.

import (
	"context"
	"encoding/json"
	"fmt"
	"reflect"
	"strings"
	"sync"
	"sync/atomic"
	"time"

	mcp "trpc.group/trpc-go/trpc-mcp-go"

	"verifharness/lib/kit"
	"verifharness/lib/vh"
)

const sharedPoolMax = 40

var sharedSamples atomic.Int64 // the evidence file keeps six samples; two of them from this scenario

// layouts: the option groups a server is configured with, in order.
//
//	C   the caller's common slice, spread          C< C>  a prefix / the rest of it, spread (two options)
//	X   the server's extras as fresh arguments     x0 x1  one extra per option
//	Xa  the extras in a slice grown with append that the caller keeps (and reuses later)
//	A   one call with a slice the caller assembled from copies of common and extras (and reuses later)
//	O   one option VALUE made from the common slice before the first server and given to every server
//	-   the option called without arguments
//	T   the rest of the longer slice the common slice is a prefix of (build prefix-of-bigger), spread: the values
//	    that sit in the common slice's spare capacity are this server's chain
type layout struct {
	Name   string
	Tokens []string
	NE     int  // extras it needs
	Class  bool // a spread of the shared slice first, the server's own middleware(s) registered after it
}

var layouts = []layout{
	{"common+extra", []string{"C", "X"}, 1, true},
	{"common+extra+extra", []string{"C", "x0", "x1"}, 2, true},
	{"common+extras", []string{"C", "X"}, 2, true},
	{"commonA+commonB+extra", []string{"C<", "C>", "X"}, 1, true},
	{"option-value+extra", []string{"O", "X"}, 1, true},
	{"empty+common+empty+extra", []string{"-", "C", "-", "Xa"}, 1, true},
	{"common+extra-kept", []string{"C", "Xa"}, 1, true},
	{"extra+common", []string{"X", "C"}, 1, false},
	{"extra+common+extra", []string{"x0", "C", "x1"}, 2, false},
	{"single-call", []string{"A"}, 1, false},
	{"single-call-2", []string{"A"}, 2, false},
	{"common-only", []string{"C"}, 0, false},
	{"option-value-only", []string{"O"}, 0, false},
	{"extra-only", []string{"X"}, 1, false},
	{"tail-of-bigger", []string{"T"}, 0, false},
	{"tail-of-bigger+extra", []string{"T", "X"}, 1, false},
}

func (l layout) has(tok string) bool {
	for _, t := range l.Tokens {
		if t == tok {
			return true
		}
	}
	return false
}

type sharedSpec struct {
	No         int
	Kind       kit.Kind
	NServers   int
	Concurrent bool // the servers are constructed at the same time
	ForceClass bool // the first two servers use a Class layout on a slice with spare capacity
}

func buildSharedCases(r *vh.Run) []sharedSpec {
	var out []sharedSpec
	per := r.Pick(70, 500)
	for _, k := range kinds {
		for i := 0; i < per; i++ {
			out = append(out, sharedSpec{No: len(out), Kind: k, NServers: 2 + i%3, Concurrent: i%4 == 3, ForceClass: i%3 != 2})
		}
	}
	return out
}

type poolMW struct {
	UID  int    `json:"uid"`
	Role string `json:"role"` // common | later-common | extra | poison | spare
	Srv  int    `json:"server"`
	Beh  string `json:"behaviour"`
	b    beh
}

type sharedServer struct {
	Name    string
	Layout  layout
	Chain   []int // uids configured, in registration order
	Early   bool
	Spare   bool // the spread common slice had spare capacity when this server was configured
	in      *kit.Instance
	conns   []*kit.RawConn
	opts    kit.Opts
	builtAt int // construction order
}

type sharedReq struct {
	ID     string
	Srv    int
	Conn   int
	Method string
	Phase  string // early | final
}

// sharedRun is the caller: its slices, and next to them what it means them to hold (uids), kept without any aliasing.
type sharedRun struct {
	r    *vh.Run
	sp   sharedSpec
	cs   *caseState
	pool []poolMW

	common    []mcp.Middleware
	logical   []int
	all       []mcp.Middleware   // build prefix-of-bigger: the longer slice common is a prefix of
	nc0       int                // ... and where its tail starts
	spareUIDs []int              // ... and what the tail holds
	kept      [][]mcp.Middleware // slices the caller handed to an option and still holds
	optSO     mcp.ServerOption   // layout token O
	optSSE    mcp.SSEOption
	optUIDs   []int
	optSpare  bool

	build   string
	between []string
	final   string
	servers []*sharedServer
	wantPer []int64

	violated  atomic.Bool
	undecided atomic.Bool
}

func (sr *sharedRun) newMW(role string, srv int, b beh) (int, mcp.Middleware) {
	uid := len(sr.pool)
	if uid >= sharedPoolMax {
		sr.r.Fatal("shared case %d: more than %d middleware values", sr.sp.No, sharedPoolMax)
	}
	sr.pool = append(sr.pool, poolMW{UID: uid, Role: role, Srv: srv, Beh: string([]byte{byte(b)}), b: b})
	return uid, sr.cs.mw(uid, b)
}

var (
	commonAlphabet = []beh{bPass, bPass, bModReq, bModRes, bFailBad, bShortBad, bShortErrBad}
	extraAlphabet  = []beh{bPass, bModReq, bModRes, bModReq, bModRes, bShort, bShortErr, bFail, bFailBad, bShortBad, bShortErrBad}
)

func pickBeh(rng interface{ Intn(int) int }, a []beh) beh { return a[rng.Intn(len(a))] }

func cloneInts(a []int) []int { return append([]int{}, a...) }

// addGroup turns one group into an option. The slice is spread as it is: the option sees the caller's backing array.
func (sr *sharedRun) addGroup(o *kit.Opts, ms []mcp.Middleware) {
	if sr.sp.Kind == kit.LSSE {
		o.SSEOpts = append(o.SSEOpts, mcp.WithSSEMiddleware(ms...))
	} else {
		o.ServerOpts = append(o.ServerOpts, mcp.WithMiddleware(ms...))
	}
}

// exact returns the middlewares in a slice without spare capacity (what f(a, b) passes).
func exact(ms ...mcp.Middleware) []mcp.Middleware {
	out := make([]mcp.Middleware, len(ms))
	copy(out, ms)
	return out
}

// configure renders the options of server s from the caller's values as they are now.
func (sr *sharedRun) configure(rng interface{ Intn(int) int }, s int, lay layout) *sharedServer {
	srv := &sharedServer{Name: fmt.Sprintf("srv%d", s), Layout: lay, Spare: cap(sr.common) > len(sr.common)}
	if lay.Tokens[0] == "O" {
		srv.Spare = sr.optSpare
	}
	var extras []mcp.Middleware
	var extraUIDs []int
	for e := 0; e < lay.NE; e++ {
		uid, m := sr.newMW("extra", s, pickBeh(rng, extraAlphabet))
		extras, extraUIDs = append(extras, m), append(extraUIDs, uid)
	}
	split := 0
	if len(sr.common) >= 2 {
		split = 1 + rng.Intn(len(sr.common)-1)
	} else {
		split = len(sr.common)
	}
	for _, t := range lay.Tokens {
		switch t {
		case "C":
			sr.addGroup(&srv.opts, sr.common)
			srv.Chain = append(srv.Chain, sr.logical...)
		case "C<":
			sr.addGroup(&srv.opts, sr.common[:split])
			srv.Chain = append(srv.Chain, sr.logical[:split]...)
		case "C>":
			sr.addGroup(&srv.opts, sr.common[split:])
			srv.Chain = append(srv.Chain, sr.logical[split:]...)
		case "X":
			sr.addGroup(&srv.opts, exact(extras...))
			srv.Chain = append(srv.Chain, extraUIDs...)
		case "x0":
			sr.addGroup(&srv.opts, exact(extras[0]))
			srv.Chain = append(srv.Chain, extraUIDs[0])
		case "x1":
			sr.addGroup(&srv.opts, exact(extras[1]))
			srv.Chain = append(srv.Chain, extraUIDs[1])
		case "Xa":
			k := make([]mcp.Middleware, 0, len(extras)+1+rng.Intn(3))
			k = append(k, extras...)
			sr.kept = append(sr.kept, k)
			sr.addGroup(&srv.opts, k)
			srv.Chain = append(srv.Chain, extraUIDs...)
		case "A":
			k := make([]mcp.Middleware, 0, len(sr.common)+len(extras)+rng.Intn(3))
			k = append(append(k, sr.common...), extras...)
			sr.kept = append(sr.kept, k)
			sr.addGroup(&srv.opts, k)
			srv.Chain = append(append(srv.Chain, sr.logical...), extraUIDs...)
		case "O":
			if sr.sp.Kind == kit.LSSE {
				srv.opts.SSEOpts = append(srv.opts.SSEOpts, sr.optSSE)
			} else {
				srv.opts.ServerOpts = append(srv.opts.ServerOpts, sr.optSO)
			}
			srv.Chain = append(srv.Chain, sr.optUIDs...)
		case "-":
			sr.addGroup(&srv.opts, nil)
		case "T":
			sr.addGroup(&srv.opts, sr.all[sr.nc0:])
			srv.Chain = append(srv.Chain, sr.spareUIDs...)
		}
	}
	srv.Chain = cloneInts(srv.Chain)
	return srv
}

// buildCommon makes the caller's common slice in one of the ways application code does.
func (sr *sharedRun) buildCommon(rng interface{ Intn(int) int }, nc int, wantSpare bool) {
	var ms []mcp.Middleware
	for i := 0; i < nc; i++ {
		uid, m := sr.newMW("common", -1, pickBeh(rng, commonAlphabet))
		ms = append(ms, m)
		sr.logical = append(sr.logical, uid)
	}
	builds := []string{"append", "make-cap", "prefix-of-bigger", "literal"}
	if nc == 0 {
		builds = []string{"nil", "make-cap", "prefix-of-bigger"}
	}
	sr.build = builds[rng.Intn(len(builds))]
	if wantSpare && (sr.build == "literal" || sr.build == "nil") {
		sr.build = "make-cap"
	}
	switch sr.build {
	case "append": // cap 1, 2, 4: spare capacity with three elements
		for _, m := range ms {
			sr.common = append(sr.common, m)
		}
		if wantSpare && cap(sr.common) == len(sr.common) {
			sr.build = "append+reserve"
			sr.common = append(make([]mcp.Middleware, 0, 2*len(ms)+1), ms...)
		}
	case "make-cap":
		sr.common = append(make([]mcp.Middleware, 0, nc+1+rng.Intn(4)), ms...)
	case "literal":
		sr.common = exact(ms...)
	case "prefix-of-bigger": // the slots behind common hold other live values of the caller
		sr.all = exact(ms...)
		for i := 0; i < 2; i++ {
			uid, m := sr.newMW("spare", -1, pickBeh(rng, commonAlphabet))
			sr.all = append(sr.all, m)
			sr.spareUIDs = append(sr.spareUIDs, uid)
		}
		sr.nc0 = nc
		sr.all = sr.all[:len(sr.all):len(sr.all)]
		sr.common = sr.all[:nc]
	case "nil":
	}
}

// mutateBetween: the caller changes its common slice between two constructions; servers built later are
// configured from the new content, servers built earlier keep what they were given.
func (sr *sharedRun) mutateBetween(rng interface{ Intn(int) int }, maxLen int) string {
	ops := []string{"none", "replace", "append", "truncate"}
	op := ops[rng.Intn(len(ops))]
	switch op {
	case "replace":
		if len(sr.common) == 0 {
			return "none"
		}
		j := rng.Intn(len(sr.common))
		uid, m := sr.newMW("later-common", -1, pickBeh(rng, commonAlphabet))
		sr.common[j] = m
		sr.logical = cloneInts(sr.logical)
		sr.logical[j] = uid
	case "append":
		if len(sr.common) >= maxLen || sr.all != nil { // (appending to a prefix of the longer slice would be the caller overwriting its own tail)
			return "none"
		}
		uid, m := sr.newMW("later-common", -1, pickBeh(rng, commonAlphabet))
		sr.common = append(sr.common, m)
		sr.logical = append(cloneInts(sr.logical), uid)
	case "truncate":
		if len(sr.common) == 0 {
			return "none"
		}
		sr.common = sr.common[:len(sr.common)-1]
		sr.logical = cloneInts(sr.logical[:len(sr.logical)-1])
	}
	return op
}

// mutateFinal: after the last construction the caller reuses its slices for something else. Nothing of this
// may show in any server.
func (sr *sharedRun) mutateFinal(rng interface{ Intn(int) int }) string {
	ops := []string{"append", "overwrite", "reslice-append", "overwrite-capacity+nil", "append", "overwrite", "none"}
	op := ops[rng.Intn(len(ops))]
	if op == "none" {
		return op
	}
	_, poison := sr.newMW("poison", -1, bPass)
	switch op {
	case "append":
		sr.common = append(sr.common, poison)
	case "overwrite":
		for i := range sr.common {
			sr.common[i] = poison
		}
	case "reslice-append":
		n := len(sr.common) + 1
		sr.common = sr.common[:0]
		for i := 0; i < n; i++ {
			sr.common = append(sr.common, poison)
		}
	case "overwrite-capacity+nil":
		full := sr.common[:cap(sr.common)]
		for i := range full {
			full[i] = poison
		}
		sr.common = nil
	}
	for _, k := range sr.kept { // scratch slices handed to an option earlier
		full := k[:cap(k)]
		for i := range full {
			full[i] = poison
		}
	}
	if op != "append" {
		for i := range sr.all {
			sr.all[i] = poison
		}
	}
	return op
}

func (sr *sharedRun) label() string {
	var ls []string
	for _, s := range sr.servers {
		ls = append(ls, s.Layout.Name)
	}
	mode := "sequential"
	if sr.sp.Concurrent {
		mode = "concurrent"
	}
	return fmt.Sprintf("shared #%d %s build=%s layouts=[%s] between=[%s] final=%s %s", sr.sp.No, sr.sp.Kind, sr.build, strings.Join(ls, " "), strings.Join(sr.between, " "), sr.final, mode)
}

func (sr *sharedRun) describe() map[string]interface{} {
	var srv []map[string]interface{}
	for _, s := range sr.servers {
		srv = append(srv, map[string]interface{}{"name": s.Name, "layout": s.Layout.Name, "groups": s.Layout.Tokens, "configured": sr.chainNames(s.Chain), "common_slice_had_spare_capacity": s.Spare, "constructed_as_number": s.builtAt, "also_asked_right_after_construction": s.Early})
	}
	return map[string]interface{}{"kind": sr.sp.Kind, "common_slice_built_by": sr.build, "servers": srv, "caller_changes_between_constructions": sr.between,
		"caller_change_after_last_construction": sr.final, "constructed_concurrently": sr.sp.Concurrent, "middleware_values": sr.pool}
}

func (sr *sharedRun) chainNames(c []int) string {
	var s []string
	for _, u := range c {
		p := sr.pool[u]
		s = append(s, fmt.Sprintf("m%d(%s,%s)", u, p.Role, p.Beh))
	}
	return "[" + strings.Join(s, " ") + "]"
}

func (sr *sharedRun) behaviours(c []int) []beh {
	out := make([]beh, len(c))
	for i, u := range c {
		out[i] = sr.pool[u].b
	}
	return out
}

func (sr *sharedRun) start(s *sharedServer, order int) {
	s.builtAt = order
	s.in = kit.Start(sr.sp.Kind, s.opts)
	sr.cs.registerAs(s.in, s.Name)
}

var sharedMethods = []string{"tools/call", "prompts/get", "ping", "tools/call", "tools/list", "tools/call"}

func stageUID(stage string) (int, bool) {
	var u int
	var rest string
	if n, _ := fmt.Sscanf(stage, "m%d-%s", &u, &rest); n == 2 {
		return u, true
	}
	return 0, false
}

// sharedSymptom: does the trace hold a middleware that is not configured on this server?
func (sr *sharedRun) sharedSymptom(s *sharedServer, want, got []mStage) string {
	own := map[int]bool{}
	for _, u := range s.Chain {
		own[u] = true
	}
	elsewhere := map[int]bool{}
	for _, o := range sr.servers {
		if o != s {
			for _, u := range o.Chain {
				elsewhere[u] = true
			}
		}
	}
	for _, st := range got {
		if u, ok := stageUID(st.Stage); ok && !own[u] {
			if elsewhere[u] {
				return "middleware-of-another-server-ran"
			}
			role := "unknown"
			if u < len(sr.pool) {
				role = sr.pool[u].Role
			}
			return "middleware-never-configured-ran-" + role
		}
	}
	return traceSymptom(want, got)
}

// dial opens n sessions on server s; false: the case cannot go on.
func (sr *sharedRun) dial(ctx context.Context, s *sharedServer, n int) bool {
	for i := 0; i < n; i++ {
		c, err := s.in.Dial(ctx)
		if err != nil {
			sr.r.Fatal("%s: dial %s: %v", sr.label(), s.Name, err)
		}
		s.conns = append(s.conns, c)
		if err := c.Handshake(ctx); err != nil {
			sr.violated.Store(true)
			sr.r.Violation(fmt.Sprintf("C15|shared|%s|%s|handshake-failed", sr.sp.Kind, s.Layout.Name),
				fmt.Sprintf("%s: handshake with %s through its chain %s failed: %v", sr.label(), s.Name, sr.chainNames(s.Chain), err), sr.describe())
			return false
		}
		for _, u := range s.Chain { // the initialize request passes every middleware of this server untouched
			sr.wantPer[u]++
		}
	}
	return true
}

// ask sends the requests at once and judges each of them.
func (sr *sharedRun) ask(ctx context.Context, reqs []sharedReq) {
	r := sr.r
	outs := make([]reqOutcome, len(reqs))
	var wg sync.WaitGroup
	for k, q := range reqs {
		wg.Add(1)
		go func(k int, q sharedReq) {
			defer wg.Done()
			c := sr.servers[q.Srv].conns[q.Conn]
			ex := c.Post(ctx, reqBody(q.ID, q.Method), kit.PostOpts{WantID: kit.CanonID(json.RawMessage(fmt.Sprintf("%q", q.ID))), Wait: postWait()})
			if ex.TimedOut {
				watchdogFired.Add(1)
			}
			o := reqOutcome{ID: q.ID, Sess: q.Conn, Frames: ex.Frames, Timed: ex.TimedOut}
			if ex.HTTP != nil {
				o.Status, o.HTTPErr = ex.HTTP.Status, ex.HTTP.Err
			}
			outs[k] = o
		}(k, q)
	}
	wg.Wait()

	sr.cs.mu.Lock()
	traces := map[string][]obsStage{}
	for k, v := range sr.cs.traces {
		traces[k] = append([]obsStage{}, v...)
	}
	sr.cs.mu.Unlock()

	for k, q := range reqs {
		o, s := outs[k], sr.servers[q.Srv]
		r.Eval(1)
		r.Count("requests", 1)
		r.Count("shared_requests", 1)
		env := &evalEnv{uids: s.Chain, base: func(string) *baseAnswer { return nil }}
		chain := sr.behaviours(s.Chain)
		var want []mStage
		v := eval(env, chain, 0, q.ID, q.Method, "t", nil, &want)
		for _, st := range want {
			if u, ok := stageUID(st.Stage); ok && strings.HasSuffix(st.Stage, "-before") {
				sr.wantPer[u]++
			}
		}
		got := traces[q.ID]
		label := fmt.Sprintf("%s: %s request %s (%s) to %s configured %s", sr.label(), q.Phase, q.ID, q.Method, s.Name, sr.chainNames(s.Chain))
		wit := map[string]interface{}{"case": sr.describe(), "server": s.Name, "phase": q.Phase, "method": q.Method, "id": q.ID, "session": s.conns[q.Conn].SessionID,
			"expected_trace": want, "observed_trace": got, "frames": o.Frames, "status": o.Status, "http_err": o.HTTPErr, "timed_out": o.Timed,
			"expected_outcome": map[string]interface{}{"class": v.Class, "origin": v.Origin, "at": v.At, "code": v.Code, "modres": v.ResMarks}}
		r.Count("stages_observed", int64(len(got)))
		ok := true
		msig := methodLabel(q.Method)

		if !reflect.DeepEqual(stagesOf(got), want) && !(len(got) == 0 && len(want) == 0) {
			ok = false
			if o.Timed && len(o.Frames) == 0 && len(got) < len(want) {
				sr.undecided.Store(true)
				r.Inconclusive(fmt.Sprintf("%s: did not finish before the watchdog (trace %d of %d stages)", label, len(got), len(want)))
				continue
			}
			sr.violated.Store(true)
			r.Violation(fmt.Sprintf("C15|shared|%s|%s|%s|%s", sr.sp.Kind, s.Layout.Name, q.Phase, sr.sharedSymptom(s, want, stagesOf(got))),
				fmt.Sprintf("%s: trace differs from the onion of the middlewares configured for this server", label), wit)
		}
		for _, st := range got {
			if st.ForeignMark {
				ok = false
				sr.violated.Store(true)
				r.Violation(fmt.Sprintf("C15|shared|%s|%s|context-of-another-request", sr.sp.Kind, msig), fmt.Sprintf("%s: stage %s saw a context value derived for another request", label, st.Stage), wit)
				break
			}
			if st.Stage == "handler" && st.Srv != s.Name {
				ok = false
				sr.violated.Store(true)
				r.Violation(fmt.Sprintf("C15|shared|%s|%s|handler-of-another-server", sr.sp.Kind, msig), fmt.Sprintf("%s: the handler registered on %q ran", label, st.Srv), wit)
				break
			}
		}
		if sym, what := judgeWire(o, v); sym != "" {
			ok = false
			if sym == "missing-answer" && o.Timed && len(got) < len(want) {
				sr.undecided.Store(true)
				r.Inconclusive(fmt.Sprintf("%s: unanswered at the watchdog with an unfinished trace", label))
			} else {
				sr.violated.Store(true)
				r.Violation(fmt.Sprintf("C15|shared|%s|%s|%s|outcome=%s|%s", sr.sp.Kind, s.Layout.Name, q.Phase, v.Origin, sym), fmt.Sprintf("%s: %s", label, what), wit)
			}
		}
		if judgeSessions(r, caseSpec{Kind: sr.sp.Kind, Scenario: "shared"}, label, o, s.conns[q.Conn].SessionID, got, wit) {
			ok = false
		}
		if ok {
			r.Count("shared_requests_matched", 1)
			r.Count("shared_requests_matched_"+q.Phase, 1)
			if !sr.sp.Concurrent && s.builtAt < len(sr.servers)-1 && q.Phase == "final" {
				r.Count("shared_requests_matched_on_a_server_constructed_before_another", 1)
			}
			r.SetAdd("outcome_classes", fmt.Sprintf("%s/%s/%s", sr.sp.Kind, msig, v.Origin))
		} else {
			sr.violated.Store(true)
		}
	}
}

func runShared(r *vh.Run, sp sharedSpec) {
	rng := r.Rand(fmt.Sprintf("shared-%d", sp.No))
	sr := &sharedRun{r: r, sp: sp, cs: newCaseState(sharedPoolMax), wantPer: make([]int64, sharedPoolMax)}
	nc := rng.Intn(4) // 0..3 common middlewares
	if sp.ForceClass {
		nc = 1 + rng.Intn(3)
	}
	sr.buildCommon(rng, nc, sp.ForceClass)

	// the layouts; an option VALUE shared by the servers excludes changing its slice between the constructions
	// (what a later server is configured with would then be anybody's reading)
	lays := make([]layout, sp.NServers)
	usesO := false
	for s := range lays {
		for {
			l := layouts[rng.Intn(len(layouts))]
			if sp.ForceClass && s < 2 && !l.Class || l.has("T") && sr.all == nil {
				continue
			}
			lays[s] = l
			break
		}
		if lays[s].Tokens[0] == "O" {
			usesO = true
		}
	}
	if usesO {
		if sp.Kind == kit.LSSE {
			sr.optSSE = mcp.WithSSEMiddleware(sr.common...)
		} else {
			sr.optSO = mcp.WithMiddleware(sr.common...)
		}
		sr.optUIDs, sr.optSpare = cloneInts(sr.logical), cap(sr.common) > len(sr.common)
	}

	ctx, cancel := context.WithTimeout(context.Background(), 120*time.Second)
	defer cancel()
	defer func() {
		for _, s := range sr.servers {
			for _, c := range s.conns {
				c.Close()
			}
			if s.in != nil {
				s.in.Close()
			}
		}
	}()

	nreq, nsess := r.Pick(4, 8), r.Pick(1, 2)
	fit := func(l layout) layout { // a chain has at most 4 middlewares
		for !l.has("T") && len(sr.logical)+l.NE > 4 {
			switch l.NE {
			case 2:
				l = layouts[0] // common+extra
			default:
				l = layouts[11] // common-only
			}
		}
		return l
	}
	if layouts[0].Name != "common+extra" || layouts[11].Name != "common-only" {
		r.Fatal("layout table changed")
	}

	if sp.Concurrent {
		for s := range lays {
			sr.servers = append(sr.servers, sr.configure(rng, s, fit(lays[s])))
		}
		var wg sync.WaitGroup
		gate := make(chan struct{})
		var order atomic.Int64
		for _, s := range sr.servers {
			wg.Add(1)
			go func(s *sharedServer) {
				defer wg.Done()
				<-gate
				sr.start(s, int(order.Add(1))-1)
			}(s)
		}
		close(gate)
		wg.Wait()
		for _, s := range sr.servers {
			s.builtAt = 0 // no server is "earlier"
		}
		for i := 1; i < len(sr.servers); i++ {
			sr.between = append(sr.between, "-")
		}
	} else {
		for s := range lays {
			srv := sr.configure(rng, s, fit(lays[s]))
			sr.servers = append(sr.servers, srv)
			sr.start(srv, s)
			if rng.Intn(3) == 0 { // ask this server once now, before the others exist and before the caller changes anything
				srv.Early = true
				if !sr.dial(ctx, srv, 1) {
					return
				}
				sr.ask(ctx, []sharedReq{{ID: fmt.Sprintf("c15-sh%d-s%d-early", sp.No, s), Srv: s, Conn: 0, Method: sharedMethods[(sp.No+s)%len(sharedMethods)], Phase: "early"}})
			}
			if s < len(lays)-1 {
				op := "none"
				if !usesO {
					op = sr.mutateBetween(rng, 3)
				}
				sr.between = append(sr.between, op)
			}
		}
	}
	sr.final = sr.mutateFinal(rng)

	// every server exists, the caller is done with its slices: now the onion of every server
	var reqs []sharedReq
	for s, srv := range sr.servers {
		have := len(srv.conns)
		if !sr.dial(ctx, srv, nsess) {
			return
		}
		for k := 0; k < nreq; k++ {
			id := fmt.Sprintf("c15-sh%d-s%d-%d", sp.No, s, k)
			if k%3 == 2 {
				id += "-bad"
			}
			reqs = append(reqs, sharedReq{ID: id, Srv: s, Conn: have + k%nsess, Method: sharedMethods[(sp.No+s+k)%len(sharedMethods)], Phase: "final"})
		}
	}
	rng.Shuffle(len(reqs), func(i, j int) { reqs[i], reqs[j] = reqs[j], reqs[i] })
	sr.ask(ctx, reqs)

	// stages recorded for requests nobody sent
	sent := map[string]bool{}
	for s := range sr.servers {
		sent[fmt.Sprintf("c15-sh%d-s%d-early", sp.No, s)] = true
		for k := 0; k < nreq; k++ {
			sent[fmt.Sprintf("c15-sh%d-s%d-%d", sp.No, s, k)] = true
			sent[fmt.Sprintf("c15-sh%d-s%d-%d-bad", sp.No, s, k)] = true
		}
	}
	sr.cs.mu.Lock()
	for nonce, tr := range sr.cs.traces {
		if !sent[nonce] {
			sr.violated.Store(true)
			r.Violation(fmt.Sprintf("C15|shared|%s|stage-for-unknown-request", sp.Kind), fmt.Sprintf("%s: stages were recorded for request %q which was never sent", sr.label(), nonce), map[string]interface{}{"trace": tr})
		}
	}
	sr.cs.mu.Unlock()

	// invocation totals per middleware value: the counters of the middlewares of other servers did not move
	if !sr.undecided.Load() {
		for u, p := range sr.pool {
			got, want := sr.cs.per[u].Load(), sr.wantPer[u]
			if got != want {
				sr.violated.Store(true)
				r.Violation(fmt.Sprintf("C15|shared|%s|invocation-total|%s", sp.Kind, p.Role),
					fmt.Sprintf("%s: middleware m%d (%s) was invoked %d times; the requests and handshakes of the servers it is configured on account for %d", sr.label(), u, p.Role, got, want),
					map[string]interface{}{"case": sr.describe(), "uid": u, "invoked": got, "accounted_for": want})
			}
		}
		r.Count("shared_middleware_values_with_matching_totals", int64(len(sr.pool)))
	}
	if x := sr.cs.notifInChain.Load(); x != 0 {
		sr.violated.Store(true)
		r.Violation(fmt.Sprintf("C15|notification|%s|entered-chain", sp.Kind), fmt.Sprintf("%s: %d middleware invocations carried a notification", sr.label(), x), nil)
	}

	// evidence: what this case exercised, if it was judged and held
	r.Count("shared_cases", 1)
	r.Count("shared_servers", int64(len(sr.servers)))
	if sr.violated.Load() || sr.undecided.Load() {
		return
	}
	r.Count("shared_cases_held", 1)
	var ls []string
	classServers, longest := 0, 0
	for _, s := range sr.servers {
		ls = append(ls, s.Layout.Name)
		r.SetAdd("shared_layouts", fmt.Sprintf("%s/%s", sp.Kind, s.Layout.Name))
		r.SetAdd("shared_group_sizes", fmt.Sprintf("%s/%s/len=%d", sp.Kind, strings.Join(s.Layout.Tokens, ","), len(s.Chain)))
		if s.Layout.Class && s.Spare {
			classServers++
		}
		if len(s.Chain) > longest {
			longest = len(s.Chain)
		}
	}
	mode := "sequential"
	if sp.Concurrent {
		mode = "concurrent"
	}
	r.SetAdd("shared_common_slice_builds", fmt.Sprintf("%s/%s", sp.Kind, sr.build))
	r.SetAdd("shared_caller_changes_after", fmt.Sprintf("%s/%s", sp.Kind, sr.final))
	for _, b := range sr.between {
		if b != "-" {
			r.SetAdd("shared_caller_changes_between", fmt.Sprintf("%s/%s", sp.Kind, b))
		}
	}
	r.Count(fmt.Sprintf("shared_cases_held_%s/%s", mode, sp.Kind), 1)
	r.Max("shared_servers_per_case", int64(len(sr.servers)))
	r.Max("shared_longest_chain", int64(longest))
	if classServers >= 2 && sr.final != "none" {
		// the class the scenario exists for: two or more servers whose own middleware was registered after a spread
		// of the same caller slice with spare capacity, judged after the caller reused the slice
		r.Count(fmt.Sprintf("shared_cases_held_spare_capacity_prefix_on_2+_servers/%s", sp.Kind), 1)
	}
	r.Distinct(fmt.Sprintf("shared|%s|%s|nc=%d|%s|%s|%s|%s", sp.Kind, sr.build, nc, strings.Join(ls, ","), strings.Join(sr.between, ","), sr.final, mode))
	if sp.No%29 == 0 && sharedSamples.Add(1) <= 2 {
		q := fmt.Sprintf("c15-sh%d-s0-0", sp.No)
		sr.cs.mu.Lock()
		tr := append([]obsStage{}, sr.cs.traces[q]...)
		sr.cs.mu.Unlock()
		r.Sample(map[string]interface{}{"scenario": "shared", "case": sr.describe(), "id": q, "observed_trace_on_srv0_after_everything": tr})
	}
}
