package main

// Methods beyond the four the interpreter models itself, and the reference answers of the core for them.
//
// Property C15 says nothing about WHAT the core answers to logging/setLevel or resources/list; it says that the
// chain runs around every request and that what the inside returned travels outward. So the interpreter takes
// the core's answer for such a method from a server of the same kind and the same registrations WITHOUT any
// middleware (the path that does not build a chain) and requires that the innermost middleware sees an answer of
// that class and the client receives it (after the modify-result stages). Every method is asked twice; an
// answer that is not reproducible is compared by class only.

import (
	"context"
	"encoding/json"
	"fmt"
	"reflect"
	"sync"
	"time"

	"verifharness/lib/kit"
	"verifharness/lib/vh"
)

// offTable: methods the built-in dispatch table does not know (legal JSON-RPC method strings all the same).
var offTable = []string{
	"logging/setLevel", // a regular MCP method the server does not implement
	"x-vendor/do",      // vendor method
	" ",                // the shortest method string that is not empty
	"Tools/Call",       // differs from a known method by case only
	"tools/call/",      // differs from a known method by a trailing separator
	"rpc.discover",     // reserved-looking
	"tools",            // a prefix of known methods
}

// inTable: built-in methods the interpreter does not model; completion/complete and resources/subscribe (for a
// resource that does not exist) are answered -32601 by their handlers.
var inTable = []string{
	"completion/complete",
	"resources/subscribe",
	"resources/unsubscribe",
	"resources/list",
	"resources/read",
	"resources/templates/list",
	"prompts/list",
}

// aliases used by the rewrite plans only (all off the table)
var aliasMethods = []string{"tools/ls", "x-vendor/call", "x-vendor/prompt", "x-vendor/a", "x-vendor/b"}

func isOffTable(m string) bool {
	for _, x := range offTable {
		if x == m {
			return true
		}
	}
	for _, x := range aliasMethods {
		if x == m {
			return true
		}
	}
	return false
}

// methodLabel: method strings as they appear in signatures and keys.
func methodLabel(m string) string {
	if m == " " {
		return "<space>"
	}
	return m
}

// paramsJSON is the params member a request for the method carries. For the reference-judged methods it does
// not depend on the request id, so that the reference answer is comparable.
func paramsJSON(method, id, tag string) string {
	switch method {
	case "tools/call":
		return fmt.Sprintf(`{"name":"c15echo","arguments":{"nonce":%q,"tag":%q}}`, id, tag)
	case "prompts/get":
		return fmt.Sprintf(`{"name":"c15prompt","arguments":{"nonce":%q,"tag":%q}}`, id, tag)
	case "resources/read", "resources/unsubscribe":
		return fmt.Sprintf(`{"uri":"res://c15","arguments":{"tag":%q}}`, tag)
	case "resources/subscribe":
		return fmt.Sprintf(`{"uri":"res://c15-missing","arguments":{"tag":%q}}`, tag)
	case "completion/complete":
		return fmt.Sprintf(`{"ref":{"type":"ref/prompt","name":"c15prompt"},"argument":{"name":"tag","value":"t"},"arguments":{"tag":%q}}`, tag)
	case "logging/setLevel":
		return fmt.Sprintf(`{"level":"info","arguments":{"tag":%q}}`, tag)
	}
	// ping, tools/list, the list methods, vendor methods: the tag rides along where the method ignores it
	return fmt.Sprintf(`{"arguments":{"tag":%q}}`, tag)
}

// paramsObj is paramsJSON as the value encoding/json produces for an interface{} member.
func paramsObj(method, id, tag string) interface{} {
	var v interface{}
	if err := json.Unmarshal([]byte(paramsJSON(method, id, tag)), &v); err != nil {
		panic(err)
	}
	return v
}

type baseAnswer struct {
	Class  string      `json:"class"` // result | rpcerr
	Code   int         `json:"code,omitempty"`
	Msg    string      `json:"message,omitempty"`
	Result interface{} `json:"result,omitempty"` // decoded result without the volatile members
	Stable bool        `json:"reproducible"`
}

// volatile: result members that carry the time of day.
var volatile = []string{"subscribeTime", "unsubscribeTime"}

func stripVolatile(v interface{}) interface{} {
	if m, ok := v.(map[string]interface{}); ok {
		for _, k := range volatile {
			delete(m, k)
		}
	}
	return v
}

func parseAnswer(frames []string, id string) (*baseAnswer, string) {
	var answers []string
	for _, f := range frames {
		if _, has, hasMethod := kit.FrameID(f); has && !hasMethod {
			answers = append(answers, f)
		}
	}
	if len(answers) != 1 {
		return nil, fmt.Sprintf("%d answers", len(answers))
	}
	var w wireFrame
	if err := json.Unmarshal([]byte(answers[0]), &w); err != nil {
		return nil, err.Error()
	}
	if kit.CanonID(w.ID) != fmt.Sprintf("%q", id) {
		return nil, "answer with id " + string(w.ID)
	}
	if w.Error != nil {
		return &baseAnswer{Class: "rpcerr", Code: w.Error.Code, Msg: w.Error.Message}, ""
	}
	var res interface{}
	if err := json.Unmarshal(w.Result, &res); err != nil {
		return nil, "answer without result"
	}
	return &baseAnswer{Class: "result", Result: stripVolatile(res)}, ""
}

var (
	baseMu    sync.Mutex
	baselines = map[kit.Kind]map[string]*baseAnswer{}
)

func baseFor(k kit.Kind, m string) *baseAnswer {
	baseMu.Lock()
	defer baseMu.Unlock()
	return baselines[k][m]
}

// acquireBaselines asks a middleware-free server of every kind for the answer to every reference-judged method.
func acquireBaselines(r *vh.Run) {
	var methods []string
	methods = append(methods, offTable...)
	methods = append(methods, aliasMethods...)
	methods = append(methods, inTable...)
	for _, k := range kinds {
		cs := newCaseState(0)
		in := kit.Start(k, kit.Opts{})
		cs.register(in)
		ctx, cancel := context.WithTimeout(context.Background(), 120*time.Second)
		c, err := in.Dial(ctx)
		if err != nil {
			r.Fatal("reference server %s: dial: %v", k, err)
		}
		if err := c.Handshake(ctx); err != nil {
			r.Fatal("reference server %s: handshake: %v", k, err)
		}
		got := map[string]*baseAnswer{}
		for mi, m := range methods {
			var two [2]*baseAnswer
			for rep := 0; rep < 2; rep++ {
				id := fmt.Sprintf("c15-ref-%d-%d", mi, rep)
				ex := c.Post(ctx, reqBody(id, m), kit.PostOpts{WantID: kit.CanonID(json.RawMessage(fmt.Sprintf("%q", id))), Wait: 30 * time.Second})
				a, why := parseAnswer(ex.Frames, id)
				if a == nil {
					st := 0
					if ex.HTTP != nil {
						st = ex.HTTP.Status
					}
					r.Inconclusive(fmt.Sprintf("reference server %s: no usable answer to %q (%s, status %d, timed out %v); cases that need it are skipped", k, m, why, st, ex.TimedOut))
					two[0] = nil
					break
				}
				two[rep] = a
			}
			if two[0] == nil || two[1] == nil {
				continue
			}
			a := two[0]
			a.Stable = reflect.DeepEqual(two[0], two[1])
			if !a.Stable && two[0].Class != two[1].Class {
				r.Inconclusive(fmt.Sprintf("reference server %s: %q answered %s once and %s once; cases that need it are skipped", k, m, two[0].Class, two[1].Class))
				continue
			}
			got[m] = a
			r.Count("reference_answers", 1)
			cls := a.Class
			if a.Class == "rpcerr" {
				cls = fmt.Sprintf("rpcerr:%d", a.Code)
			}
			r.SetAdd("reference_answer_classes", fmt.Sprintf("%s/%s=%s", k, methodLabel(m), cls))
			if !a.Stable {
				r.SetAdd("reference_answers_not_reproducible", fmt.Sprintf("%s/%s", k, methodLabel(m)))
			}
		}
		c.Close()
		cancel()
		in.Close()
		baseMu.Lock()
		baselines[k] = got
		baseMu.Unlock()
	}
}

// judgeBase compares a handler answer of a reference-judged method with the reference.
func judgeBase(w wireFrame, v mVal) (string, string) {
	b := v.Base
	switch b.Class {
	case "rpcerr":
		if w.Error == nil {
			return "result-instead-of-error", fmt.Sprintf("the core answers %q with error %d, the client got a result", v.Method, b.Code)
		}
		if w.Error.Code != b.Code {
			return "error-code", fmt.Sprintf("error code %d, the core answers %q with %d", w.Error.Code, v.Method, b.Code)
		}
		if b.Stable && w.Error.Message != b.Msg+resSuffix(v.ResMarks) {
			return "error-message", fmt.Sprintf("error message %q, want %q", w.Error.Message, b.Msg+resSuffix(v.ResMarks))
		}
	case "result":
		if w.Error != nil {
			return "error-instead-of-result", fmt.Sprintf("the core answers %q with a result, the client got error %d %q", v.Method, w.Error.Code, w.Error.Message)
		}
		var got interface{}
		if err := json.Unmarshal(w.Result, &got); err != nil {
			return "no-result", "answer without result"
		}
		gm, ok := got.(map[string]interface{})
		if !ok {
			return "result-differs", "result is not an object"
		}
		gr, _ := gm["_c15res"].(string)
		if gr != resSuffix(v.ResMarks) {
			return "result-differs", fmt.Sprintf("result transformations %q, want %q", gr, resSuffix(v.ResMarks))
		}
		delete(gm, "_c15res")
		stripVolatile(gm)
		if b.Stable && !reflect.DeepEqual(got, b.Result) {
			wb, _ := json.Marshal(b.Result)
			return "result-differs", fmt.Sprintf("result %s, the middleware-free server answers %s", string(w.Result), string(wb))
		}
	}
	return "", ""
}
