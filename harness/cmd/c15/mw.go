package main

// Instrumented middlewares, handlers and the per-case observation state.

import (
	"context"
	"encoding/json"
	"errors"
	"fmt"
	"strings"
	"sync"
	"sync/atomic"

	mcp "trpc.group/trpc-go/trpc-mcp-go"

	"verifharness/lib/kit"
)

// obsStage is one observed trace entry plus what the stage saw of the session.
type obsStage struct {
	mStage
	CS          string `json:"client_session"` // ClientSessionFromContext: id or <nil>
	GS          string `json:"get_session"`    // GetSessionFromContext: id or <nil>
	ForeignMark bool   `json:"foreign_mark,omitempty"`
	Srv         string `json:"server,omitempty"` // handler stages of scenario "shared": the server whose handler ran
}

type caseState struct {
	n      int
	mu     sync.Mutex
	traces map[string][]obsStage

	calls        atomic.Int64   // every invocation of an instrumented middleware (any request)
	per          []atomic.Int64 // the same per middleware number
	foreign      atomic.Int64   // invocations for requests that are not ours (initialize)
	notifInChain atomic.Int64   // invocations whose request looks like a notification
	inflight     atomic.Int64
	maxInflight  atomic.Int64

	gate   string
	gateAt int // index of the middleware whose before-stage waits on the gate (-1: none)

	targets []string // by chain index: the method a rewriting middleware sets ("" otherwise)

	nmu    sync.Mutex
	notifs map[string]int // notification handler deliveries by method
}

func newCaseState(n int) *caseState {
	return &caseState{n: n, traces: map[string][]obsStage{}, gateAt: -1, notifs: map[string]int{}, per: make([]atomic.Int64, n)}
}

type markKey int

func sessOf(ctx context.Context) (cs, gs string) {
	cs, gs = "<nil>", "<nil>"
	if s := mcp.ClientSessionFromContext(ctx); s != nil {
		cs = s.GetID()
	}
	if s, ok := mcp.GetSessionFromContext(ctx); ok && s != nil {
		gs = s.GetID()
	}
	return
}

// visibleMarks lists the modReq indices whose context value is visible; foreign = a mark of another request.
func (cs *caseState) visibleMarks(ctx context.Context, nonce string) (string, bool) {
	var m []int
	foreign := false
	for i := 0; i < cs.n; i++ {
		if v, ok := ctx.Value(markKey(i)).(string); ok {
			m = append(m, i)
			if v != nonce {
				foreign = true
			}
		}
	}
	return fmtMarks(m), foreign
}

func tagOf(params interface{}) string {
	pm, ok := params.(map[string]interface{})
	if !ok {
		return ""
	}
	am, ok := pm["arguments"].(map[string]interface{})
	if !ok {
		return ""
	}
	s, _ := am["tag"].(string)
	return s
}

// withTagSuffix returns a deep copy of params whose arguments.tag got the suffix appended.
func withTagSuffix(params interface{}, suffix string) interface{} {
	b, err := json.Marshal(params)
	if err != nil {
		return params
	}
	var pm map[string]interface{}
	if json.Unmarshal(b, &pm) != nil {
		return params
	}
	am, ok := pm["arguments"].(map[string]interface{})
	if !ok {
		return params
	}
	s, _ := am["tag"].(string)
	am["tag"] = s + suffix
	return pm
}

func (cs *caseState) record(nonce string, st obsStage) {
	cs.mu.Lock()
	cs.traces[nonce] = append(cs.traces[nonce], st)
	cs.mu.Unlock()
}

func innerClass(res mcp.JSONRPCMessage, err error) string {
	if err != nil {
		return "goerr"
	}
	if e, ok := res.(*mcp.JSONRPCError); ok && e != nil {
		return fmt.Sprintf("rpcerr:%d", e.Error.Code)
	}
	return "result"
}

// applyModRes is the result transformation of a modRes middleware at index i.
func applyModRes(i int, res mcp.JSONRPCMessage, err error) (mcp.JSONRPCMessage, error) {
	if err != nil {
		return res, err
	}
	switch v := res.(type) {
	case *mcp.JSONRPCError:
		c := *v
		c.Error.Message = v.Error.Message + fmt.Sprintf("+m%d", i)
		return &c, nil
	case *mcp.CallToolResult:
		c := *v
		c.Content = append(append([]mcp.Content{}, v.Content...), mcp.NewTextContent(fmt.Sprintf("res+m%d", i)))
		return &c, nil
	}
	b, merr := json.Marshal(res)
	if merr != nil {
		return res, nil
	}
	var m map[string]interface{}
	if json.Unmarshal(b, &m) != nil || m == nil {
		return res, nil
	}
	prev, _ := m["_c15res"].(string)
	m["_c15res"] = prev + fmt.Sprintf("+m%d", i)
	return m, nil
}

// mw builds the instrumented middleware for position i with behaviour b.
func (cs *caseState) mw(i int, b beh) mcp.Middleware {
	return func(next mcp.HandlerFunc) mcp.HandlerFunc {
		return func(ctx context.Context, req *mcp.JSONRPCRequest) (mcp.JSONRPCMessage, error) {
			cs.calls.Add(1)
			if i < len(cs.per) {
				cs.per[i].Add(1)
			}
			if req.ID == nil || strings.HasPrefix(req.Method, "notifications/") {
				cs.notifInChain.Add(1)
			}
			id, ok := req.ID.(string)
			if !ok || !strings.HasPrefix(id, "c15-") {
				cs.foreign.Add(1)
				return next(ctx, req)
			}
			marks, fm := cs.visibleMarks(ctx, id)
			csid, gsid := sessOf(ctx)
			tag := tagOf(req.Params)
			cs.record(id, obsStage{mStage: mStage{Stage: fmt.Sprintf("m%d-before", i), Meth: req.Method, Marks: marks, Tag: tag}, CS: csid, GS: gsid, ForeignMark: fm})
			if i == 0 {
				n := cs.inflight.Add(1)
				for {
					m := cs.maxInflight.Load()
					if n <= m || cs.maxInflight.CompareAndSwap(m, n) {
						break
					}
				}
				defer cs.inflight.Add(-1)
			}
			if cs.gateAt == i {
				kit.G.Wait(ctx, cs.gate)
			}
			var res mcp.JSONRPCMessage
			var err error
			inner := "-"
			switch b.effective(id) {
			case bPass:
				res, err = next(ctx, req)
				inner = innerClass(res, err)
			case bModReq:
				r2 := *req
				r2.Params = withTagSuffix(req.Params, fmt.Sprintf("+m%d", i))
				res, err = next(context.WithValue(ctx, markKey(i), id), &r2)
				inner = innerClass(res, err)
			case bModIn: // same object, new params
				req.Params = withTagSuffix(req.Params, fmt.Sprintf("+m%d", i))
				res, err = next(context.WithValue(ctx, markKey(i), id), req)
				inner = innerClass(res, err)
			case bRwCopy: // copy with another method and the params that method takes
				r2 := *req
				r2.Method = cs.targets[i]
				r2.Params = paramsObj(cs.targets[i], id, tag+fmt.Sprintf("+m%d", i))
				res, err = next(context.WithValue(ctx, markKey(i), id), &r2)
				inner = innerClass(res, err)
			case bRwIn: // same object, another method
				req.Method = cs.targets[i]
				req.Params = paramsObj(cs.targets[i], id, tag+fmt.Sprintf("+m%d", i))
				res, err = next(context.WithValue(ctx, markKey(i), id), req)
				inner = innerClass(res, err)
			case bRwNew: // a whole new request object; only the id is taken over
				r2 := &mcp.JSONRPCRequest{JSONRPC: "2.0", ID: req.ID, Params: paramsObj(cs.targets[i], id, tag+fmt.Sprintf("+m%d", i)),
					Request: mcp.Request{Method: cs.targets[i]}}
				res, err = next(context.WithValue(ctx, markKey(i), id), r2)
				inner = innerClass(res, err)
			case bModRes:
				res, err = next(ctx, req)
				inner = innerClass(res, err)
				res, err = applyModRes(i, res, err)
			case bShort:
				if req.Method == "tools/call" {
					res = mcp.NewTextResult(fmt.Sprintf("short:m%d:%s", i, id))
				} else {
					res = map[string]interface{}{"c15_short": fmt.Sprintf("m%d", i), "nonce": id}
				}
			case bShortErr:
				e := &mcp.JSONRPCError{JSONRPC: "2.0", ID: req.ID}
				e.Error.Code = shortErrCode(i)
				e.Error.Message = fmt.Sprintf("shortErr:m%d:%s", i, id)
				res = e
			case bFail:
				err = errors.New(fmt.Sprintf("fail:m%d:%s", i, id))
			}
			csid, gsid = sessOf(ctx)
			cs.record(id, obsStage{mStage: mStage{Stage: fmt.Sprintf("m%d-after", i), Inner: inner}, CS: csid, GS: gsid})
			return res, err
		}
	}
}

// serverOptions renders the chain in the given option form.
func formGroups(n int, form string) [][]int {
	idx := make([]int, n)
	for i := range idx {
		idx[i] = i
	}
	switch form {
	case "none":
		return nil
	case "empty":
		return [][]int{{}}
	case "single":
		return [][]int{idx}
	case "repeated":
		var g [][]int
		for _, i := range idx {
			g = append(g, []int{i})
		}
		return g
	case "split": // WithMiddleware(m0, m1), WithMiddleware(m2, ...)
		return [][]int{idx[:2], idx[2:]}
	}
	panic("unknown form " + form)
}

func formsFor(n int) []string {
	switch {
	case n == 0:
		return []string{"none", "empty"}
	case n == 1:
		return []string{"single"}
	case n == 2:
		return []string{"single", "repeated"}
	default:
		return []string{"single", "repeated", "split"}
	}
}

func (cs *caseState) opts(kind kit.Kind, chain []beh, form string) kit.Opts {
	var o kit.Opts
	for _, g := range formGroups(len(chain), form) {
		ms := make([]mcp.Middleware, 0, len(g))
		for _, i := range g {
			ms = append(ms, cs.mw(i, chain[i]))
		}
		if kind == kit.LSSE {
			o.SSEOpts = append(o.SSEOpts, mcp.WithSSEMiddleware(ms...))
		} else {
			o.ServerOpts = append(o.ServerOpts, mcp.WithMiddleware(ms...))
		}
	}
	return o
}

// notifMethods: the handshake's notification, a custom and a standard one, and notifications that carry the
// method name of a request (a known one, an unknown one): a message without id is a notification whatever it is called.
var notifMethods = []string{"notifications/initialized", "notifications/verif", "notifications/roots/list_changed", "tools/call", "x-vendor/do", "logging/setLevel"}

// register installs the tool, the prompt and the notification handlers of a case.
func (cs *caseState) register(in *kit.Instance) { cs.registerAs(in, "") }

// registerAs: the same; the handler stages carry the name of the server they were registered on.
func (cs *caseState) registerAs(in *kit.Instance, srv string) {
	in.RegisterTool(mcp.NewTool("c15echo", mcp.WithDescription("echo nonce and tag"), mcp.WithString("nonce", mcp.Required()), mcp.WithString("tag")),
		func(ctx context.Context, req *mcp.CallToolRequest) (*mcp.CallToolResult, error) {
			nonce, _ := req.Params.Arguments["nonce"].(string)
			tag, _ := req.Params.Arguments["tag"].(string)
			marks, fm := cs.visibleMarks(ctx, nonce)
			csid, gsid := sessOf(ctx)
			cs.record(nonce, obsStage{mStage: mStage{Stage: "handler", Meth: "tools/call", Marks: marks, Tag: tag}, CS: csid, GS: gsid, ForeignMark: fm, Srv: srv})
			return mcp.NewTextResult(nonce + "|" + tag), nil
		})
	in.RegisterPrompt(&mcp.Prompt{Name: "c15prompt", Arguments: []mcp.PromptArgument{{Name: "nonce", Required: true}, {Name: "tag"}}},
		func(ctx context.Context, req *mcp.GetPromptRequest) (*mcp.GetPromptResult, error) {
			nonce, tag := req.Params.Arguments["nonce"], req.Params.Arguments["tag"]
			marks, fm := cs.visibleMarks(ctx, nonce)
			csid, gsid := sessOf(ctx)
			cs.record(nonce, obsStage{mStage: mStage{Stage: "handler", Meth: "prompts/get", Marks: marks, Tag: tag}, CS: csid, GS: gsid, ForeignMark: fm, Srv: srv})
			return &mcp.GetPromptResult{Messages: []mcp.PromptMessage{{Role: mcp.RoleUser, Content: mcp.NewTextContent(nonce + "|" + tag)}}}, nil
		})
	in.RegisterResource(&mcp.Resource{URI: "res://c15", Name: "c15res", MimeType: "text/plain"},
		func(ctx context.Context, req *mcp.ReadResourceRequest) (mcp.ResourceContents, error) {
			return mcp.TextResourceContents{URI: "res://c15", MIMEType: "text/plain", Text: "c15"}, nil
		})
	for _, m := range notifMethods {
		m := m
		h := func(ctx context.Context, n *mcp.JSONRPCNotification) error {
			cs.nmu.Lock()
			cs.notifs[m]++
			cs.nmu.Unlock()
			return nil
		}
		if in.Server != nil {
			in.Server.RegisterNotificationHandler(m, h)
		} else if in.SSE != nil {
			in.SSE.RegisterNotificationHandler(m, h)
		}
	}
}

func (cs *caseState) notifCount(m string) int {
	cs.nmu.Lock()
	defer cs.nmu.Unlock()
	return cs.notifs[m]
}

func reqBody(id, method string) []byte {
	return []byte(fmt.Sprintf(`{"jsonrpc":"2.0","id":%q,"method":%q,"params":%s}`, id, method, paramsJSON(method, id, "t")))
}
