package main

// Scenario handshake: a stage (a middleware at every position, or the innermost handler) refuses ONE request of a
// session — by returning a Go error, by short-circuiting with a result, or by short-circuiting with a JSON-RPC
// error — where the refused request is of every method INCLUDING the handshake messages: the first initialize of a
// connection (no session yet), an initialize sent again on a live session, ping, tools/list, tools/call, prompts/get.
// The session then goes on: notifications/initialized, further requests of four methods, a server notification on the
// listening stream. "For that request only": every later request of the session must pass the whole onion with
// the session's own session and be answered with a result, and the stream the session listened on must still be there.

import (
	"context"
	"encoding/json"
	"errors"
	"fmt"
	"net/url"
	"reflect"
	"strings"
	"sync"
	"time"

	mcp "trpc.group/trpc-go/trpc-mcp-go"

	"verifharness/lib/kit"
	"verifharness/lib/vh"
)

var hsKinds = []kit.Kind{kit.SJSON, kit.SSSE, kit.SLJSON, kit.SLSSE, kit.SNoSess, kit.LSSE}
var hsVictims = []string{"initialize-first", "initialize-again", "ping", "tools/list", "tools/call", "prompts/get"}
var hsModes = []string{"fail", "short", "rpcerr"}
var hsProbes = []string{"ping", "tools/list", "tools/call", "prompts/get"}

const hsNotif = "notifications/c15hs"

type hsCase struct {
	No   int
	Kind kit.Kind
	N    int // chain length
	At   int // refusing stage: 0..N-1 a middleware, N the innermost handler
	Mode string
	Form string
}

type hsStage struct {
	Stage string `json:"stage"`
	Meth  string `json:"method,omitempty"`
	CS    string `json:"client_session"`
	GS    string `json:"get_session"`
}

type hsState struct {
	c      hsCase
	mu     sync.Mutex
	traces map[string][]hsStage
}

func (st *hsState) record(id string, s hsStage) {
	st.mu.Lock()
	st.traces[id] = append(st.traces[id], s)
	st.mu.Unlock()
}

func (st *hsState) trace(id string) []hsStage {
	st.mu.Lock()
	defer st.mu.Unlock()
	return append([]hsStage{}, st.traces[id]...)
}

func hsBad(id string) bool { return strings.HasSuffix(id, "-bad") }

func (st *hsState) mw(i int) mcp.Middleware {
	return func(next mcp.HandlerFunc) mcp.HandlerFunc {
		return func(ctx context.Context, req *mcp.JSONRPCRequest) (mcp.JSONRPCMessage, error) {
			id, ok := req.ID.(string)
			if !ok || !strings.HasPrefix(id, "c15hs-") {
				return next(ctx, req) // the accepted initialize of the handshake
			}
			csid, gsid := sessOf(ctx)
			st.record(id, hsStage{Stage: fmt.Sprintf("m%d-before", i), Meth: req.Method, CS: csid, GS: gsid})
			var res mcp.JSONRPCMessage
			var err error
			if i == st.c.At && hsBad(id) {
				switch st.c.Mode {
				case "fail":
					err = errors.New(fmt.Sprintf("fail:m%d:%s", i, id))
				case "short":
					if req.Method == "tools/call" {
						res = mcp.NewTextResult(fmt.Sprintf("short:m%d:%s", i, id))
					} else {
						res = map[string]interface{}{"c15_short": fmt.Sprintf("m%d", i), "nonce": id}
					}
				default:
					e := &mcp.JSONRPCError{JSONRPC: "2.0", ID: req.ID}
					e.Error.Code = shortErrCode(i)
					e.Error.Message = fmt.Sprintf("shortErr:m%d:%s", i, id)
					res = e
				}
			} else {
				res, err = next(ctx, req)
			}
			csid, gsid = sessOf(ctx)
			st.record(id, hsStage{Stage: fmt.Sprintf("m%d-after", i), CS: csid, GS: gsid})
			return res, err
		}
	}
}

func (st *hsState) opts() kit.Opts {
	var o kit.Opts
	for _, g := range formGroups(st.c.N, st.c.Form) {
		ms := make([]mcp.Middleware, 0, len(g))
		for _, i := range g {
			ms = append(ms, st.mw(i))
		}
		if st.c.Kind == kit.LSSE {
			o.SSEOpts = append(o.SSEOpts, mcp.WithSSEMiddleware(ms...))
		} else {
			o.ServerOpts = append(o.ServerOpts, mcp.WithMiddleware(ms...))
		}
	}
	return o
}

func (st *hsState) register(in *kit.Instance) {
	refuse := func(nonce string) error {
		if st.c.At == st.c.N && hsBad(nonce) {
			return errors.New("fail:handler:" + nonce)
		}
		return nil
	}
	in.RegisterTool(mcp.NewTool("c15echo", mcp.WithString("nonce", mcp.Required()), mcp.WithString("tag")),
		func(ctx context.Context, req *mcp.CallToolRequest) (*mcp.CallToolResult, error) {
			nonce, _ := req.Params.Arguments["nonce"].(string)
			csid, gsid := sessOf(ctx)
			st.record(nonce, hsStage{Stage: "handler", Meth: "tools/call", CS: csid, GS: gsid})
			if err := refuse(nonce); err != nil {
				return nil, err
			}
			return mcp.NewTextResult(nonce), nil
		})
	in.RegisterPrompt(&mcp.Prompt{Name: "c15prompt", Arguments: []mcp.PromptArgument{{Name: "nonce", Required: true}, {Name: "tag"}}},
		func(ctx context.Context, req *mcp.GetPromptRequest) (*mcp.GetPromptResult, error) {
			nonce := req.Params.Arguments["nonce"]
			csid, gsid := sessOf(ctx)
			st.record(nonce, hsStage{Stage: "handler", Meth: "prompts/get", CS: csid, GS: gsid})
			if err := refuse(nonce); err != nil {
				return nil, err
			}
			return &mcp.GetPromptResult{Messages: []mcp.PromptMessage{{Role: mcp.RoleUser, Content: mcp.NewTextContent(nonce)}}}, nil
		})
}

func buildHandshakeCases(r *vh.Run) []hsCase {
	type np struct{ n, at int }
	var pos []np
	if r.Quick() {
		pos = []np{{1, 0}, {2, 0}, {2, 1}, {3, 1}, {2, 2}}
	} else {
		for n := 1; n <= 4; n++ {
			for at := 0; at <= n; at++ {
				pos = append(pos, np{n, at})
			}
		}
	}
	var out []hsCase
	for ki, k := range hsKinds {
		for pi, p := range pos {
			modes := hsModes
			if p.at == p.n {
				modes = []string{"fail"} // the innermost handler: returns an error
			}
			for mi, m := range modes {
				forms := formsFor(p.n)
				out = append(out, hsCase{No: len(out), Kind: k, N: p.n, At: p.at, Mode: m, Form: forms[(ki+pi+mi)%len(forms)]})
			}
		}
	}
	return out
}

// hsExpected: the stages a request passes; stop < 0: the whole onion.
func hsExpected(n, stop int, method string) []string {
	var out []string
	last := n - 1
	if stop >= 0 && stop < n {
		last = stop
	}
	for i := 0; i <= last; i++ {
		out = append(out, fmt.Sprintf("m%d-before", i))
	}
	if (stop < 0 || stop >= n) && (method == "tools/call" || method == "prompts/get") {
		out = append(out, "handler")
	}
	for i := last; i >= 0; i-- {
		out = append(out, fmt.Sprintf("m%d-after", i))
	}
	return out
}

func hsStageNames(t []hsStage) []string {
	out := make([]string, len(t))
	for i, s := range t {
		out[i] = s.Stage
	}
	return out
}

type hsAnswer struct {
	n      int // answers under the id
	w      wireFrame
	status int
	herr   string
	timed  bool
	frames []string
}

func hsPost(ctx context.Context, c *kit.RawConn, id string, body []byte, o kit.PostOpts) hsAnswer {
	o.WantID = kit.CanonID(json.RawMessage(fmt.Sprintf("%q", id)))
	o.Wait = postWait()
	ex := c.Post(ctx, body, o)
	a := hsAnswer{timed: ex.TimedOut, frames: ex.Frames}
	if ex.TimedOut {
		watchdogFired.Add(1)
	}
	if ex.HTTP != nil {
		a.status, a.herr = ex.HTTP.Status, ex.HTTP.Err
	}
	for _, f := range ex.Frames {
		if fid, has, hasMethod := kit.FrameID(f); has && !hasMethod && fid == o.WantID {
			a.n++
			_ = json.Unmarshal([]byte(f), &a.w)
		}
	}
	return a
}

func hsSessionOf(c *kit.RawConn) string {
	if c.SessionID != "" {
		return c.SessionID
	}
	if c.MsgURL != "" {
		if u, err := url.Parse(c.MsgURL); err == nil {
			return u.Query().Get("sessionId")
		}
	}
	return ""
}

func runHandshakeCase(r *vh.Run, hc hsCase) {
	st := &hsState{c: hc, traces: map[string][]hsStage{}}
	in := kit.Start(hc.Kind, st.opts())
	defer in.Close()
	st.register(in)
	ctx, cancel := context.WithTimeout(context.Background(), 120*time.Second)
	defer cancel()
	at := fmt.Sprintf("m%d", hc.At)
	if hc.At == hc.N {
		at = "handler"
	}
	for vi, victim := range hsVictims {
		if hc.At == hc.N && victim != "tools/call" && victim != "prompts/get" {
			continue // only these two have a handler of the check's own
		}
		runHandshakeVictim(r, hc, st, in, ctx, vi, victim, at)
	}
	r.Count("handshake_cases", 1)
}

func runHandshakeVictim(r *vh.Run, hc hsCase, st *hsState, in *kit.Instance, ctx context.Context, vi int, victim, at string) {
	label := fmt.Sprintf("handshake %s len=%d form=%s: %s refuses (%s) a %s request", hc.Kind, hc.N, hc.Form, at, hc.Mode, victim)
	sigBase := fmt.Sprintf("C15|handshake|%s|victim=%s|%s", hc.Kind, victim, hc.Mode)
	var script []map[string]interface{}
	wit := func(extra map[string]interface{}) map[string]interface{} {
		m := map[string]interface{}{"kind": hc.Kind, "chain_length": hc.N, "form": hc.Form, "refusing_stage": at, "mode": hc.Mode, "victim": victim, "script": script}
		for k, v := range extra {
			m[k] = v
		}
		return m
	}
	c, err := in.Dial(ctx)
	if err != nil {
		r.Inconclusive(fmt.Sprintf("%s: dial: %v", label, err))
		return
	}
	defer c.Close()
	seq := 0
	newID := func(bad bool) string {
		seq++
		id := fmt.Sprintf("c15hs-%d-%d-%d", hc.No, vi, seq)
		if bad {
			id += "-bad"
		}
		return id
	}
	sid := ""
	allHeld := true

	// refused: post the victim request and judge its own trace and answer.
	refused := func(method string, body func(id string) []byte, o kit.PostOpts) bool {
		id := newID(true)
		a := hsPost(ctx, c, id, body(id), o)
		tr := st.trace(id)
		script = append(script, map[string]interface{}{"step": "refused " + victim, "id": id, "status": a.status, "http_err": a.herr, "frames": a.frames, "trace": tr, "session_header_sent": !o.NoSessionID && sid != ""})
		r.Eval(1)
		want := hsExpected(hc.N, hc.At, method)
		if !reflect.DeepEqual(hsStageNames(tr), want) {
			if a.timed && a.n == 0 && len(tr) < len(want) {
				r.Inconclusive(fmt.Sprintf("%s: the refused request did not finish before the watchdog", label))
				return false
			}
			r.Violation(sigBase+"|refused-request-trace", fmt.Sprintf("%s: the refused request %s passed the stages %v, the onion model says %v", label, id, hsStageNames(tr), want), wit(nil))
			return false
		}
		if a.n != 1 {
			if a.n == 0 && a.timed {
				r.Inconclusive(fmt.Sprintf("%s: the refused request was not answered before the watchdog", label))
				return false
			}
			r.Violation(sigBase+"|refused-request-answer-count", fmt.Sprintf("%s: the refused request %s got %d answers (status %d)", label, id, a.n, a.status), wit(nil))
			return false
		}
		sym := ""
		switch {
		case hc.At == hc.N:
			// what the core makes of a handler error is not this scenario's business
		case hc.Mode == "fail":
			if a.w.Error == nil || a.w.Error.Code != -32603 || !strings.Contains(a.w.Error.Message, fmt.Sprintf("fail:m%d:%s", hc.At, id)) {
				sym = "not-an-internal-error-with-the-middleware's-message"
			}
		case hc.Mode == "short":
			var got interface{}
			if a.w.Error != nil || json.Unmarshal(a.w.Result, &got) != nil {
				sym = "not-the-middleware's-result"
			} else if method == "tools/call" {
				if !reflect.DeepEqual(got, normalise(mcp.NewTextResult(fmt.Sprintf("short:m%d:%s", hc.At, id)))) {
					sym = "not-the-middleware's-result"
				}
			} else if !reflect.DeepEqual(got, map[string]interface{}{"c15_short": fmt.Sprintf("m%d", hc.At), "nonce": id}) {
				sym = "not-the-middleware's-result"
			}
		default:
			if a.w.Error == nil || a.w.Error.Code != shortErrCode(hc.At) || a.w.Error.Message != fmt.Sprintf("shortErr:m%d:%s", hc.At, id) {
				sym = "not-the-middleware's-error"
			}
		}
		if sym != "" {
			r.Violation(sigBase+"|refused-request-answer|"+sym, fmt.Sprintf("%s: the refused request %s was answered with %s", label, id, firstOr(a.frames)), wit(nil))
			return false
		}
		r.Count("handshake_refused_requests_judged/"+victim, 1)
		return true
	}

	// probe: an ordinary request of the session; must pass the whole onion with the session's own session and get a result.
	probe := func(phase, method string) {
		id := newID(false)
		a := hsPost(ctx, c, id, reqBody(id, method), kit.PostOpts{})
		tr := st.trace(id)
		script = append(script, map[string]interface{}{"step": phase + " " + method, "id": id, "status": a.status, "http_err": a.herr, "frames": a.frames, "trace": tr})
		r.Eval(1)
		want := hsExpected(hc.N, -1, method)
		sig := fmt.Sprintf("%s|%s-%s", sigBase, phase, method)
		if a.n == 0 && a.timed {
			allHeld = false
			r.Inconclusive(fmt.Sprintf("%s: %s request %s (%s) unanswered at the watchdog (trace %v)", label, phase, id, method, hsStageNames(tr)))
			return
		}
		if !reflect.DeepEqual(hsStageNames(tr), want) {
			allHeld = false
			r.Violation(sig+"|"+traceSymptomNames(want, hsStageNames(tr)), fmt.Sprintf("%s: the %s request %s (%s) of the same session passed the stages %v, the onion model says %v (status %d, answer %s)",
				label, phase, id, method, hsStageNames(tr), want, a.status, firstOr(a.frames)), wit(nil))
			return
		}
		if a.n != 1 || a.w.Error != nil || len(a.w.Result) == 0 {
			allHeld = false
			r.Violation(sig+"|no-result", fmt.Sprintf("%s: the %s request %s (%s) of the same session got %d answers, status %d: %s", label, phase, id, method, a.n, a.status, firstOr(a.frames)), wit(nil))
			return
		}
		if sid != "" {
			for _, s := range tr {
				if s.CS != sid {
					allHeld = false
					r.Violation(sig+"|session-seen-by-stage", fmt.Sprintf("%s: stage %s of the %s request %s (%s) saw session %s, the session is %s", label, s.Stage, phase, id, method, s.CS, sid), wit(nil))
					return
				}
			}
		}
		r.Count("handshake_requests_held_"+phase, 1)
	}

	// 1. the first initialize of the connection is the refused request
	if victim == "initialize-first" {
		id0 := ""
		if !refused("initialize", func(id string) []byte { id0 = id; return kit.InitBody(fmt.Sprintf("%q", id), "") }, kit.PostOpts{NoSessionID: true}) {
			return
		}
		_ = id0
	}
	// 2. the handshake (its initialize is let through by every stage)
	if err := c.Handshake(ctx); err != nil {
		if strings.Contains(err.Error(), "timed out true") {
			r.Inconclusive(fmt.Sprintf("%s: handshake: %v", label, err))
			return
		}
		ph := "handshake"
		if victim == "initialize-first" {
			ph = "handshake-after-refused-initialize"
		}
		r.Violation(sigBase+"|"+ph+"|failed", fmt.Sprintf("%s: the handshake failed: %v", label, err), wit(nil))
		return
	}
	sid = hsSessionOf(c)
	if (hc.Kind.Stateful() || hc.Kind == kit.LSSE) && sid == "" {
		r.Inconclusive(fmt.Sprintf("%s: the raw peer learnt no session id", label))
		return
	}
	script = append(script, map[string]interface{}{"step": "handshake", "session": sid})
	// 3. the listening stream
	hasStream := hc.Kind == kit.LSSE
	if hc.Kind.Stateful() {
		if _, err := c.OpenGet(ctx); err != nil {
			r.Inconclusive(fmt.Sprintf("%s: listening stream: %v", label, err))
		} else {
			hasStream = true
		}
	}
	notify := func(tag string) (delivered, closed bool, sendErr error) {
		from := c.Log.Len()
		params := map[string]interface{}{"k": fmt.Sprintf("%d-%d-%s", hc.No, vi, tag)}
		if in.Server != nil {
			sendErr = in.Server.SendNotification(sid, hsNotif, params)
		} else {
			sendErr = in.SSE.SendNotification(sid, hsNotif, params)
		}
		if sendErr == nil {
			_, delivered = c.Log.WaitFor(from, 10*time.Second, func(f kit.Frame) bool {
				return strings.Contains(f.Data, hsNotif) && strings.Contains(f.Data, fmt.Sprintf("%d-%d-%s", hc.No, vi, tag))
			})
		}
		return delivered, c.Log.Closed(), sendErr
	}
	streamWorked := false
	if hasStream {
		d, cl, serr := notify("pre")
		streamWorked = d
		script = append(script, map[string]interface{}{"step": "server notification before the refusal", "delivered": d, "stream_closed": cl, "send_error": fmt.Sprint(serr)})
	}
	// 4. requests before the refusal (for a refused first initialize they are already "after")
	phase := "before"
	if victim == "initialize-first" {
		phase = "after"
	}
	probe(phase, "ping")
	probe(phase, "tools/call")
	// 5. the refused request
	switch victim {
	case "initialize-first":
	case "initialize-again":
		if !refused("initialize", func(id string) []byte { return kit.InitBody(fmt.Sprintf("%q", id), "") }, kit.PostOpts{}) {
			return
		}
		if (hc.No+vi)%2 == 0 {
			ex := c.Post(ctx, []byte(kit.InitializedBody), kit.PostOpts{NoWait: true})
			stt := 0
			if ex.HTTP != nil {
				stt = ex.HTTP.Status
			}
			script = append(script, map[string]interface{}{"step": "notifications/initialized after the refused initialize", "status": stt})
		}
	default:
		if !refused(victim, func(id string) []byte { return reqBody(id, victim) }, kit.PostOpts{}) {
			return
		}
	}
	// 6. the session goes on
	for _, m := range hsProbes {
		probe("after", m)
	}
	// 7. the stream the session listens on
	if hasStream && streamWorked {
		r.Eval(1)
		d, cl, serr := notify("post")
		script = append(script, map[string]interface{}{"step": "server notification after the refusal", "delivered": d, "stream_closed": cl, "send_error": fmt.Sprint(serr)})
		switch {
		case d:
			r.Count("handshake_stream_alive_after_refusal", 1)
		case cl || serr != nil:
			allHeld = false
			r.Violation(sigBase+"|listening-stream-lost", fmt.Sprintf("%s: the session's listening stream delivered a server notification before the refused request and is gone after it (closed %v, send error %v)", label, cl, serr), wit(nil))
		default:
			allHeld = false
			r.Inconclusive(fmt.Sprintf("%s: server notification not seen on the open stream within 10 s", label))
		}
	}
	if allHeld {
		r.Distinct(fmt.Sprintf("handshake|%s|%s|%s|len=%d|at=%s", hc.Kind, victim, hc.Mode, hc.N, at))
		r.Count("handshake_sessions_held/"+victim, 1)
		r.SetAdd("handshake_cells_held", fmt.Sprintf("%s/%s/%s", hc.Kind, victim, hc.Mode))
		if victim == "initialize-again" && hc.Kind.Stateful() {
			r.Count("handshake_reinitialize_refused_on_live_stateful_session_held", 1)
		}
		if hc.No%17 == 0 && vi == 1 {
			r.Sample(wit(nil))
		}
	}
}

func traceSymptomNames(want, got []string) string {
	w := make([]mStage, len(want))
	g := make([]mStage, len(got))
	for i, s := range want {
		w[i].Stage = s
	}
	for i, s := range got {
		g[i].Stage = s
	}
	return traceSymptom(w, g)
}

func requireHandshake(r *vh.Run) {
	for _, v := range hsVictims {
		r.Require(r.Counter("handshake_refused_requests_judged/"+v) > 0, "scenario handshake: no refused %s request was judged", v)
		r.Require(r.Counter("handshake_sessions_held/"+v) > 0, "scenario handshake: no session was seen going on normally after a refused %s request", v)
	}
	r.Require(r.Counter("handshake_reinitialize_refused_on_live_stateful_session_held") > 0, "scenario handshake: no stateful Streamable session was seen going on after a refused re-initialize")
	r.Require(r.Counter("handshake_stream_alive_after_refusal") > 0, "scenario handshake: no listening stream was seen alive after a refusal")
	r.Require(r.Counter("handshake_requests_held_after") > 0, "scenario handshake: no request after a refusal was judged")
}
