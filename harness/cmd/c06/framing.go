package main

// HTTP-level FRAMING of the request as hostile input. Everything else in this check varies the body bytes and the
// header values but lets net/http's client frame the request with an honest Content-Length. Here the requests are
// written byte by byte on raw TCP connections, against the five Streamable configurations (POST endpoint, plus
// GET / DELETE carrying a body) and the legacy SSE server (message endpoint, plus GET / DELETE carrying a body).
//
// Three groups of framing classes:
//
//   legal    — framings RFC 9112 allows for delivering a body: Transfer-Encoding: chunked (one chunk, 1-byte chunks,
//              seeded chunk sizes over several TCP segments, chunk extensions, declared / undeclared trailers,
//              upper-case hex with leading zeros, odd header case), honest Content-Length written in small pieces or
//              with leading zeros, Expect: 100-continue (waiting / not waiting for the interim response, chunked),
//              HTTP/1.0 with Content-Length, pipelining (honest or chunked request + a ping in one segment), a chunked
//              request on a re-used connection. Each is sent with every body of a small table (ping, tools/list,
//              echo calls small / 64 KiB, unknown method, a notification, truncated JSON, empty body).
//              Oracle (differential): the reaction equals the reaction to the SAME body sent with an honest
//              Content-Length in one segment — same HTTP status, same JSON-RPC frames (ids and per-request session
//              ids aside). A connection closed without a status line is "no answer" = violation; a watchdog expiring
//              with the connection still open is inconclusive.
//   lenient  — framings whose legality is arguable or that net/http may refuse on its own (both Content-Length and
//              Transfer-Encoding, duplicate Content-Length, HTTP/1.0 chunked / without length, other codings).
//   hostile  — illegal framings: malformed chunk size lines, missing final chunk, truncation in mid-chunk, Content-Length
//              larger than what is sent (then half-close / reset / stall), smaller (garbage follows), zero with a body
//              following, huge (2^62, 2^63-1, 2^63, 2^64, 1<<40), garbage values, Expect without ever sending the body,
//              a request head cut short.
//              Oracle for lenient + hostile: any status or a closed connection is fine.
//
// For every probe of every group: no "panic" line in the server's ErrorLog, the process lives (the child's death is
// seen by the parent), and a well-formed ping on a FRESH connection right afterwards (for stalling probes: while the
// stalled connection is still open) is answered with a result. An independent library-free client is called every
// few probes. GET / DELETE carrying a body must get a status line.

import (
	"bufio"
	"bytes"
	"context"
	"encoding/json"
	"fmt"
	"io"
	"math/rand"
	"net"
	"net/http"
	"net/url"
	"reflect"
	"regexp"
	"sort"
	"strconv"
	"strings"
	"syscall"
	"time"

	"verifharness/lib/kit"
	"verifharness/lib/leak"
	"verifharness/lib/vh"
)

const (
	frWatchdog = 20 * time.Second       // legal framing: how long an answer is waited for (expiry = inconclusive)
	frObserve  = 4 * time.Second        // hostile framing: how long a reaction is looked for (expiry = just noted)
	frStall    = 350 * time.Millisecond // stalling probes: pause before the follow-up is sent on another connection
	lastChunk  = "0\r\n\r\n"
)

type rawResp struct {
	Status   int      `json:"status"`
	Interim  []int    `json:"interim,omitempty"`
	CT       string   `json:"content_type,omitempty"`
	Frames   []string `json:"frames,omitempty"`
	Body     string   `json:"body,omitempty"`
	Err      string   `json:"err,omitempty"`
	Closed   bool     `json:"closed_without_status,omitempty"`
	TimedOut bool     `json:"timed_out,omitempty"`
}

func (r *rawResp) outcome() string {
	switch {
	case r == nil:
		return "not-read"
	case r.Status != 0:
		return fmt.Sprintf("status-%dxx", r.Status/100)
	case r.TimedOut:
		return "no-reaction-while-open"
	default:
		return "closed-without-status"
	}
}

// readResp reads one final HTTP response (interim 1xx responses are recorded and skipped).
func readResp(conn net.Conn, br *bufio.Reader, method string, wait time.Duration, headOnly bool, onContinue func()) *rawResp {
	r := &rawResp{}
	_ = conn.SetReadDeadline(time.Now().Add(wait))
	for {
		resp, err := http.ReadResponse(br, &http.Request{Method: method})
		if err != nil {
			r.Err = err.Error()
			if ne, ok := err.(net.Error); ok && ne.Timeout() {
				r.TimedOut = true
			} else {
				r.Closed = true
			}
			return r
		}
		if resp.StatusCode/100 == 1 {
			r.Interim = append(r.Interim, resp.StatusCode)
			if resp.StatusCode == 100 && onContinue != nil {
				onContinue()
				onContinue = nil
			}
			continue
		}
		r.Status = resp.StatusCode
		r.CT = resp.Header.Get("Content-Type")
		if headOnly {
			return r
		}
		b, err := io.ReadAll(io.LimitReader(resp.Body, 16<<20))
		if err != nil {
			r.Err = "body: " + err.Error()
			if ne, ok := err.(net.Error); ok && ne.Timeout() {
				r.TimedOut = true
			}
		}
		r.Body = bounded(string(b))
		if strings.HasPrefix(r.CT, "text/event-stream") {
			r.Frames = sseData(b)
		} else if s := strings.TrimSpace(string(b)); s != "" {
			r.Frames = []string{s}
		}
		return r
	}
}

// sseData returns the data values of the events of a complete event-stream body.
func sseData(b []byte) []string {
	var out []string
	text := strings.NewReplacer("\r\n", "\n", "\r", "\n").Replace(string(b))
	for _, block := range strings.Split(text, "\n\n") {
		var data []string
		for _, l := range strings.Split(block, "\n") {
			if strings.HasPrefix(l, "data:") {
				data = append(data, strings.TrimPrefix(strings.TrimPrefix(l, "data:"), " "))
			}
		}
		if len(data) > 0 {
			out = append(out, strings.Join(data, "\n"))
		}
	}
	return out
}

var sessRe = regexp.MustCompile(`(session\\*":\\*")[^"\\]*`)

// canonFrame makes two answers to the same request comparable: the id member is dropped, per-request session ids in
// the echo text are blanked, arrays are compared as multisets (tools/list order is a map order).
func canonFrame(f string) string {
	f = sessRe.ReplaceAllString(f, `$1`)
	var v interface{}
	if json.Unmarshal([]byte(f), &v) != nil {
		return "non-json:" + f
	}
	if m, ok := v.(map[string]interface{}); ok {
		delete(m, "id")
	}
	return canonValue(v)
}

func canonValue(v interface{}) string {
	switch x := v.(type) {
	case map[string]interface{}:
		keys := make([]string, 0, len(x))
		for k := range x {
			keys = append(keys, k)
		}
		sort.Strings(keys)
		var b strings.Builder
		b.WriteByte('{')
		for _, k := range keys {
			b.WriteString(strconv.Quote(k) + ":" + canonValue(x[k]) + ",")
		}
		b.WriteByte('}')
		return b.String()
	case []interface{}:
		el := make([]string, len(x))
		for i := range x {
			el[i] = canonValue(x[i])
		}
		sort.Strings(el)
		return "[" + strings.Join(el, ",") + "]"
	default:
		b, _ := json.Marshal(x)
		return string(b)
	}
}

type reaction struct {
	Status int
	Frames []string // canonical
}

func (a reaction) equal(b reaction) bool {
	return a.Status == b.Status && reflect.DeepEqual(a.Frames, b.Frames)
}

// framer drives one server instance.
type framer struct {
	rep    *vh.Reporter
	in     *kit.Instance
	kind   kit.Kind
	addr   string
	post   string // request-target of the endpoint that takes messages
	sess   string
	accept string
	c      *kit.RawConn // legacy: the session whose event stream carries the answers
	n      int
	panics int
	counts map[string]int
	rng    *rand.Rand
}

func (f *framer) nextID() string {
	f.n++
	return fmt.Sprintf(`"fr-%s-%d"`, f.kind, f.n)
}

// head builds a request head without the terminating empty line.
func (f *framer) head(method, target, proto string, lines ...string) string {
	var b strings.Builder
	fmt.Fprintf(&b, "%s %s %s\r\nHost: %s\r\nContent-Type: application/json\r\nAccept: %s\r\n", method, target, proto, f.addr, f.accept)
	if f.sess != "" && f.kind.IsStreamable() {
		fmt.Fprintf(&b, "Mcp-Session-Id: %s\r\n", f.sess)
	}
	for _, l := range lines {
		b.WriteString(l + "\r\n")
	}
	return b.String()
}

func (f *framer) honest(body []byte) []byte {
	return []byte(f.head("POST", f.post, "HTTP/1.1", fmt.Sprintf("Content-Length: %d", len(body))) + "\r\n" + string(body))
}

func pingBody(id string) []byte {
	return []byte(`{"jsonrpc":"2.0","id":` + id + `,"method":"ping"}`)
}

// chunkedBody encodes body as chunks (without the last-chunk).
func chunkedBody(body []byte, size func(i int) int, ext string, upper bool, zeros int) []byte {
	var b bytes.Buffer
	for i := 0; len(body) > 0; i++ {
		n := size(i)
		if n < 1 {
			n = 1
		}
		if n > len(body) {
			n = len(body)
		}
		hex := strconv.FormatInt(int64(n), 16)
		if upper {
			hex = strings.ToUpper(hex)
		}
		b.WriteString(strings.Repeat("0", zeros) + hex + ext + "\r\n")
		b.Write(body[:n])
		b.WriteString("\r\n")
		body = body[n:]
	}
	return b.Bytes()
}

func whole(int) int { return 1 << 30 }

func pieces(b []byte, n int) [][]byte {
	var out [][]byte
	for len(b) > 0 {
		k := n
		if k > len(b) {
			k = len(b)
		}
		out = append(out, b[:k])
		b = b[k:]
	}
	return out
}

// step is one thing done on the probe's connection.
type step struct {
	write    []byte
	waitCont bool   // the peer waits for the interim 100 before it goes on (see runExpect)
	read     string // "" | "final" (one final response expected here)
}

type probe struct {
	class   string
	group   string // legal | lenient | hostile
	method  string
	steps   []step
	end     string // "" (read the answer) | "halfclose" | "reset" | "stall"
	second  bool   // a pipelined / keep-alive well-formed ping is part of the probe; its answer is judged too
	pingID  string
	first   bool // the ping comes BEFORE the judged request (keep-alive re-use)
	body    []byte
	bodyKey string
	id      string
}

type bodySpec struct {
	key  string
	make func(id string) []byte
	id   bool // the answer carries the id (legacy: wait for it on the event stream)
}

func bodyTable(thorough bool) []bodySpec {
	big := 64 << 10
	if thorough {
		big = 512 << 10
	}
	return []bodySpec{
		{"ping", pingBody, true},
		{"tools/list", func(id string) []byte { return []byte(`{"jsonrpc":"2.0","id":` + id + `,"method":"tools/list"}`) }, true},
		{"echo-2k", func(id string) []byte {
			return []byte(`{"jsonrpc":"2.0","id":` + id + `,"method":"tools/call","params":{"name":"echo","arguments":{"nonce":"fr-echo","payload":"` + strings.Repeat("ab", 1024) + `"}}}`)
		}, true},
		{"echo-big", func(id string) []byte {
			return []byte(`{"jsonrpc":"2.0","id":` + id + `,"method":"tools/call","params":{"name":"echo","arguments":{"nonce":"fr-big","payload":"` + strings.Repeat("0123456789abcdef", big/16) + `"}}}`)
		}, true},
		{"unknown-method", func(id string) []byte { return []byte(`{"jsonrpc":"2.0","id":` + id + `,"method":"verif/no-such"}`) }, true},
		{"notification", func(id string) []byte {
			return []byte(`{"jsonrpc":"2.0","method":"notifications/verif-framing","params":{"k":1}}`)
		}, false},
		{"truncated-json", func(id string) []byte { return []byte(`{"jsonrpc":"2.0","id":` + id + `,"method":"pi`) }, false},
		{"empty", func(id string) []byte { return nil }, false},
	}
}

// legalProbes: every legal framing of one body.
func (f *framer) legalProbes(bs bodySpec) []probe {
	var out []probe
	add := func(class string, build func(p *probe)) {
		p := probe{class: class, group: "legal", method: "POST", bodyKey: bs.key}
		if bs.id {
			p.id = f.nextID()
		}
		p.body = bs.make(p.id)
		build(&p)
		out = append(out, p)
	}
	te := "Transfer-Encoding: chunked"
	h := func(lines ...string) string { return f.head("POST", f.post, "HTTP/1.1", lines...) + "\r\n" }
	one := func(b ...[]byte) []step { return []step{{write: bytes.Join(b, nil), read: "final"}} }
	add("te-chunked|one-chunk", func(p *probe) {
		p.steps = one([]byte(h(te)), chunkedBody(p.body, whole, "", false, 0), []byte(lastChunk))
	})
	add("te-chunked|1-byte-chunks", func(p *probe) {
		p.steps = one([]byte(h(te)), chunkedBody(p.body, func(int) int { return 1 }, "", false, 0), []byte(lastChunk))
	})
	add("te-chunked|seeded-sizes-over-segments", func(p *probe) {
		enc := append(chunkedBody(p.body, func(int) int { return 1 + f.rng.Intn(3000) }, "", false, 0), lastChunk...)
		p.steps = []step{{write: []byte(h(te))}}
		for len(enc) > 0 {
			k := 1 + f.rng.Intn(4096)
			if k > len(enc) {
				k = len(enc)
			}
			p.steps = append(p.steps, step{write: enc[:k]})
			enc = enc[k:]
		}
		p.steps[len(p.steps)-1].read = "final"
	})
	add("te-chunked|chunk-extensions", func(p *probe) {
		p.steps = one([]byte(h(te)), chunkedBody(p.body, func(int) int { return 700 }, `;verif=1;q="a b"`, false, 0), []byte("0;last=yes\r\n\r\n"))
	})
	add("te-chunked|trailers-declared", func(p *probe) {
		p.steps = one([]byte(h(te, "Trailer: X-Verif-Checksum")), chunkedBody(p.body, func(int) int { return 1000 }, "", false, 0), []byte("0\r\nX-Verif-Checksum: 0123abcd\r\n\r\n"))
	})
	add("te-chunked|trailers-undeclared", func(p *probe) {
		p.steps = one([]byte(h(te)), chunkedBody(p.body, whole, "", false, 0), []byte("0\r\nX-Verif-A: 1\r\nX-Verif-B: two\r\n\r\n"))
	})
	add("te-chunked|upper-hex-leading-zeros", func(p *probe) {
		p.steps = one([]byte(h(te)), chunkedBody(p.body, func(int) int { return 171 }, "", true, 3), []byte("0000\r\n\r\n"))
	})
	add("te-chunked|header-case", func(p *probe) {
		p.steps = one([]byte(h("transfer-encoding: CHUNKED")), chunkedBody(p.body, whole, "", false, 0), []byte(lastChunk))
	})
	add("te-chunked|small-segments", func(p *probe) {
		all := bytes.Join([][]byte{[]byte(h(te)), chunkedBody(p.body, func(int) int { return 333 }, "", false, 0), []byte(lastChunk)}, nil)
		seg := 1
		if len(all) > 4096 {
			seg = 997
		}
		for _, s := range pieces(all, seg) {
			p.steps = append(p.steps, step{write: s})
		}
		p.steps[len(p.steps)-1].read = "final"
	})
	add("cl-honest|small-segments", func(p *probe) {
		all := f.honest(p.body)
		seg := 1
		if len(all) > 4096 {
			seg = 1013
		}
		for _, s := range pieces(all, seg) {
			p.steps = append(p.steps, step{write: s})
		}
		p.steps[len(p.steps)-1].read = "final"
	})
	add("cl-honest|leading-zeros", func(p *probe) {
		p.steps = one([]byte(h(fmt.Sprintf("Content-Length: 000%d", len(p.body)))), p.body)
	})
	add("expect-100|wait-for-continue", func(p *probe) {
		p.steps = []step{{write: []byte(h(fmt.Sprintf("Content-Length: %d", len(p.body)), "Expect: 100-continue")), waitCont: true}, {write: p.body, read: "final"}}
	})
	add("expect-100|body-at-once", func(p *probe) {
		p.steps = one([]byte(h(fmt.Sprintf("Content-Length: %d", len(p.body)), "Expect: 100-continue")), p.body)
	})
	add("expect-100|chunked-wait-for-continue", func(p *probe) {
		p.steps = []step{{write: []byte(h(te, "Expect: 100-continue")), waitCont: true},
			{write: append(chunkedBody(p.body, func(int) int { return 512 }, "", false, 0), lastChunk...), read: "final"}}
	})
	add("http10|content-length", func(p *probe) {
		p.steps = one([]byte(f.head("POST", f.post, "HTTP/1.0", fmt.Sprintf("Content-Length: %d", len(p.body)))+"\r\n"), p.body)
	})
	add("pipelined|cl-then-ping", func(p *probe) {
		p.second, p.pingID = true, f.nextID()
		p.steps = []step{{write: append(f.honest(p.body), f.honest(pingBody(p.pingID))...), read: "final"}, {read: "final"}}
	})
	add("pipelined|chunked-then-ping", func(p *probe) {
		p.second, p.pingID = true, f.nextID()
		w := bytes.Join([][]byte{[]byte(h(te)), chunkedBody(p.body, func(int) int { return 4000 }, "", false, 0), []byte(lastChunk), f.honest(pingBody(p.pingID))}, nil)
		p.steps = []step{{write: w, read: "final"}, {read: "final"}}
	})
	add("keep-alive|ping-then-chunked", func(p *probe) {
		p.second, p.first, p.pingID = true, true, f.nextID()
		w := bytes.Join([][]byte{[]byte(h(te)), chunkedBody(p.body, func(int) int { return 2048 }, "", false, 0), []byte(lastChunk)}, nil)
		p.steps = []step{{write: f.honest(pingBody(p.pingID)), read: "final"}, {write: w, read: "final"}}
	})
	return out
}

// hostileProbes: lenient and illegal framings (body: a ping unless the class says otherwise).
func (f *framer) hostileProbes() []probe {
	var out []probe
	te := "Transfer-Encoding: chunked"
	h := func(lines ...string) string { return f.head("POST", f.post, "HTTP/1.1", lines...) + "\r\n" }
	add := func(group, class, end string, build func(id string, body []byte) []byte) {
		id := f.nextID()
		body := pingBody(id)
		out = append(out, probe{class: class, group: group, method: "POST", end: end, id: id, body: body,
			steps: []step{{write: build(id, body), read: "final"}}})
	}
	ends := func(group, class string, build func(id string, body []byte) []byte) {
		for _, e := range []string{"halfclose", "reset", "stall"} {
			add(group, class+"|then-"+e, e, build)
		}
	}
	cl := func(v string) func(string, []byte) []byte {
		return func(_ string, b []byte) []byte { return append([]byte(h("Content-Length: "+v)), b...) }
	}
	ch := func(b []byte) []byte { return chunkedBody(b, whole, "", false, 0) }
	cat := func(parts ...interface{}) []byte {
		var b bytes.Buffer
		for _, p := range parts {
			switch x := p.(type) {
			case string:
				b.WriteString(x)
			case []byte:
				b.Write(x)
			}
		}
		return b.Bytes()
	}
	// ---- lenient
	add("lenient", "cl-and-te|cl-correct", "", func(_ string, b []byte) []byte {
		return cat(h(te, fmt.Sprintf("Content-Length: %d", len(b))), ch(b), lastChunk)
	})
	add("lenient", "cl-and-te|cl-wrong", "", func(_ string, b []byte) []byte {
		return cat(h(fmt.Sprintf("Content-Length: %d", 3), te), ch(b), lastChunk)
	})
	add("lenient", "duplicate-cl|same", "", func(_ string, b []byte) []byte {
		return cat(h(fmt.Sprintf("Content-Length: %d", len(b)), fmt.Sprintf("Content-Length: %d", len(b))), b)
	})
	add("lenient", "duplicate-cl|different", "", func(_ string, b []byte) []byte {
		return cat(h(fmt.Sprintf("Content-Length: %d", len(b)), fmt.Sprintf("Content-Length: %d", len(b)+7)), b)
	})
	add("lenient", "duplicate-cl|list-value", "", func(_ string, b []byte) []byte {
		return cat(h(fmt.Sprintf("Content-Length: %d, %d", len(b), len(b))), b)
	})
	add("lenient", "http10|no-length-body-until-close", "halfclose", func(_ string, b []byte) []byte {
		return cat(f.head("POST", f.post, "HTTP/1.0")+"\r\n", b)
	})
	add("lenient", "http11|no-length-body-follows", "", func(_ string, b []byte) []byte { return cat(h(), b) })
	add("lenient", "http10|te-chunked", "", func(_ string, b []byte) []byte {
		return cat(f.head("POST", f.post, "HTTP/1.0", te)+"\r\n", ch(b), lastChunk)
	})
	for _, v := range []string{"gzip, chunked", "identity", "chunked, chunked", "xchunked", "chunked;q=1", ""} {
		v := v
		add("lenient", "te-coding|"+v, "", func(_ string, b []byte) []byte {
			return cat(h("Transfer-Encoding: "+v), ch(b), lastChunk)
		})
	}
	add("lenient", "te-coding|two-header-lines", "", func(_ string, b []byte) []byte {
		return cat(h(te, te), ch(b), lastChunk)
	})
	add("lenient", "te-chunked|bare-lf-line-ends", "", func(_ string, b []byte) []byte {
		return cat(strings.ReplaceAll(h(te), "\r\n", "\n"), fmt.Sprintf("%x\n", len(b)), b, "\n0\n\n")
	})
	add("lenient", "cl-value|surrounding-whitespace", "", func(_ string, b []byte) []byte {
		return cat(h(fmt.Sprintf("Content-Length: \t %d  ", len(b))), b)
	})
	// ---- hostile: malformed chunking
	for name, line := range map[string]string{"bad-size-line": "zz", "negative-size": "-1", "size-17-hex-digits": "1ffffffffffffffff", "empty-size-line": "",
		"size-with-0x": "0x1f", "size-with-space": "1 f", "size-then-garbage": "1f garbage"} {
		line := line
		add("hostile", "te-malformed|"+name, "", func(_ string, b []byte) []byte { return cat(h(te), line+"\r\n", b, "\r\n", lastChunk) })
	}
	ends("hostile", "te-malformed|huge-size-short-data", func(_ string, b []byte) []byte { return cat(h(te), "7fffffffffffffff\r\n", b) })
	ends("hostile", "te-malformed|size-2^64-1-short-data", func(_ string, b []byte) []byte { return cat(h(te), "ffffffffffffffff\r\n", b) })
	ends("hostile", "te-malformed|missing-final-chunk", func(_ string, b []byte) []byte { return cat(h(te), ch(b)) })
	ends("hostile", "te-malformed|truncated-mid-chunk", func(_ string, b []byte) []byte {
		return cat(h(te), fmt.Sprintf("%x\r\n", len(b)), b[:len(b)/2])
	})
	ends("hostile", "te-malformed|truncated-in-size-line", func(_ string, b []byte) []byte { return cat(h(te), "1") })
	ends("hostile", "te-malformed|truncated-in-trailer", func(_ string, b []byte) []byte { return cat(h(te), ch(b), "0\r\nX-Verif: un") })
	add("hostile", "te-malformed|missing-crlf-after-data", "", func(_ string, b []byte) []byte { return cat(h(te), fmt.Sprintf("%x\r\n", len(b)), b, lastChunk) })
	add("hostile", "te-malformed|chunk-longer-than-size", "", func(_ string, b []byte) []byte {
		return cat(h(te), fmt.Sprintf("%x\r\n", len(b)-5), b, "\r\n", lastChunk)
	})
	add("hostile", "te-malformed|8k-chunk-extension", "", func(_ string, b []byte) []byte {
		return cat(h(te), fmt.Sprintf("%x;x=%s\r\n", len(b), strings.Repeat("e", 8192)), b, "\r\n", lastChunk)
	})
	add("hostile", "te-malformed|2MiB-trailer", "", func(_ string, b []byte) []byte {
		return cat(h(te), ch(b), "0\r\nX-Verif: ", strings.Repeat("t", 2<<20), "\r\n\r\n")
	})
	add("hostile", "te-malformed|forbidden-trailer-declared", "", func(_ string, b []byte) []byte {
		return cat(h(te, "Trailer: Content-Length"), ch(b), "0\r\nContent-Length: 3\r\n\r\n")
	})
	// ---- hostile: Content-Length that lies
	ends("hostile", "cl-larger|complete-json", func(_ string, b []byte) []byte { return cat(h(fmt.Sprintf("Content-Length: %d", len(b)+1000)), b) })
	ends("hostile", "cl-larger|truncated-json", func(_ string, b []byte) []byte {
		return cat(h(fmt.Sprintf("Content-Length: %d", len(b))), b[:len(b)-9])
	})
	ends("hostile", "cl-larger|by-one", func(_ string, b []byte) []byte { return cat(h(fmt.Sprintf("Content-Length: %d", len(b)+1)), b) })
	ends("hostile", "cl-larger|no-body-at-all", func(_ string, b []byte) []byte { return cat(h("Content-Length: 4096")) })
	add("hostile", "cl-smaller|truncates-json-rest-is-pipelined-garbage", "", func(_ string, b []byte) []byte { return cat(h(fmt.Sprintf("Content-Length: %d", len(b)-9)), b) })
	add("hostile", "cl-exact|pipelined-garbage-follows", "", func(_ string, b []byte) []byte {
		return cat(h(fmt.Sprintf("Content-Length: %d", len(b))), b, "\x00\x01garbage that is no request line\r\n\r\n")
	})
	add("hostile", "cl-zero|body-follows", "", cl("0"))
	for _, v := range []string{"4611686018427387904", "9223372036854775807", "9223372036854775808", "18446744073709551616", "99999999999999999999999999"} {
		name := map[string]string{"4611686018427387904": "2^62", "9223372036854775807": "2^63-1", "9223372036854775808": "2^63", "18446744073709551616": "2^64", "99999999999999999999999999": "26-digits"}[v]
		for _, e := range []string{"halfclose", "stall"} {
			add("hostile", "cl-huge|"+name+"|then-"+e, e, cl(v))
		}
	}
	for _, v := range []string{"abc", "-5", "+44", "0x2c", "4e1", "44.0", "", "44 44", "４４"} {
		add("hostile", "cl-garbage|"+v, "", cl(v))
	}
	add("hostile", "cl-header|space-before-colon", "", func(_ string, b []byte) []byte { return cat(h(fmt.Sprintf("Content-Length : %d", len(b))), b) })
	add("hostile", "cl-header|obs-fold", "", func(_ string, b []byte) []byte { return cat(h(fmt.Sprintf("Content-Length:\r\n %d", len(b))), b) })
	// ---- hostile: Expect
	ends("hostile", "expect-100|body-never-sent", func(_ string, b []byte) []byte { return cat(h("Content-Length: 44", "Expect: 100-continue")) })
	add("hostile", "expect|unknown-expectation", "", func(_ string, b []byte) []byte {
		return cat(h(fmt.Sprintf("Content-Length: %d", len(b)), "Expect: 200-fine"), b)
	})
	// ---- hostile: request head cut short
	ends("hostile", "truncated-head|in-content-length", func(_ string, b []byte) []byte { return []byte(strings.TrimSuffix(h("Content-Le"), "\r\n\r\n")) })
	ends("hostile", "truncated-head|before-empty-line", func(_ string, b []byte) []byte { return []byte(strings.TrimSuffix(h(te), "\r\n")) })
	return out
}

// run performs the steps of one probe on a fresh connection. Returns the final responses read (in order), and a
// function that ends a stalling probe.
func (f *framer) run(p probe) ([]*rawResp, func()) {
	conn, err := (&net.Dialer{Timeout: 20 * time.Second}).Dial("tcp", f.addr)
	if err != nil {
		return []*rawResp{{Err: "dial: " + err.Error(), TimedOut: true}}, func() {}
	}
	tc := conn.(*net.TCPConn)
	br := bufio.NewReaderSize(tc, 64<<10)
	wait := frWatchdog
	if p.group != "legal" {
		wait = frObserve
	}
	var got []*rawResp
	closeNow := func() { _ = tc.Close() }
	for _, st := range p.steps {
		if len(st.write) > 0 {
			_ = tc.SetWriteDeadline(time.Now().Add(wait))
			_, _ = tc.Write(st.write) // a server that answered and closed already: what it sent is still readable
		}
		switch {
		case p.end == "reset":
			_ = tc.SetLinger(0)
			closeNow()
			return got, func() {}
		case p.end == "halfclose" && st.read == "final":
			_ = tc.CloseWrite()
			got = append(got, readResp(tc, br, p.method, wait, false, nil))
			closeNow()
			return got, func() {}
		case p.end == "stall" && st.read == "final":
			got = append(got, readResp(tc, br, p.method, frStall, false, nil))
			return got, closeNow
		case st.read == "final":
			got = append(got, readResp(tc, br, p.method, wait, false, nil))
		}
	}
	closeNow()
	return got, func() {}
}

// awaitContinue reads an interim 100 response (or a final one that came instead).
func awaitContinue(tc net.Conn, br *bufio.Reader, method string, wait time.Duration) (cont bool, final *rawResp) {
	_ = tc.SetReadDeadline(time.Now().Add(wait))
	resp, err := http.ReadResponse(br, &http.Request{Method: method})
	if err != nil {
		r := &rawResp{Err: err.Error()}
		if ne, ok := err.(net.Error); ok && ne.Timeout() {
			r.TimedOut = true
		} else {
			r.Closed = true
		}
		return false, r
	}
	if resp.StatusCode == 100 {
		return true, nil
	}
	r := &rawResp{Status: resp.StatusCode, CT: resp.Header.Get("Content-Type")}
	b, _ := io.ReadAll(io.LimitReader(resp.Body, 16<<20))
	r.Body = bounded(string(b))
	if strings.HasPrefix(r.CT, "text/event-stream") {
		r.Frames = sseData(b)
	} else if s := strings.TrimSpace(string(b)); s != "" {
		r.Frames = []string{s}
	}
	return false, r
}

// reactionOf turns what came back for one message into the comparable reaction; on the legacy server the JSON-RPC
// answer to an accepted message is taken from the session's event stream.
func (f *framer) reactionOf(r *rawResp, id string, from int) (reaction, string) {
	re := reaction{Status: r.Status}
	frames := r.Frames
	if f.kind == kit.LSSE && r.Status == 202 && len(frames) == 0 && id != "" {
		fr, ok := f.c.Log.WaitFor(from, frWatchdog, func(fr kit.Frame) bool {
			got, has, hasMethod := kit.FrameID(fr.Data)
			return has && !hasMethod && got == id
		})
		if !ok {
			return re, "no frame with the request's id on the event stream before the watchdog"
		}
		frames = []string{fr.Data}
	}
	for _, fr := range frames {
		re.Frames = append(re.Frames, canonFrame(fr))
	}
	return re, ""
}

// fresh sends a well-formed ping with an honest Content-Length on a fresh connection. "" = answered with a result.
func (f *framer) fresh() (problem string, inconclusive bool) {
	id := f.nextID()
	from := 0
	if f.c != nil {
		from = f.c.Log.Len()
	}
	rs, _ := f.run(probe{group: "legal", method: "POST", steps: []step{{write: f.honest(pingBody(id)), read: "final"}}})
	r := rs[0]
	if r.Status == 0 {
		if r.TimedOut {
			return "watchdog: " + r.Err, true
		}
		return "connection closed without a status line: " + r.Err, false
	}
	re, late := f.reactionOf(r, id, from)
	if late != "" {
		return late, true
	}
	if len(re.Frames) != 1 || !strings.Contains(re.Frames[0], `"result":`) {
		return fmt.Sprintf("status %d frames %v", r.Status, re.Frames), false
	}
	return "", false
}

func (f *framer) checkPanics(class string) {
	p := f.in.ErrLog.Panics()
	if len(p) > f.panics {
		f.rep.Violation(fmt.Sprintf("C06|framing|%s|%s|panic-in-handler|%s", class, f.kind, panicSite(f.in.ErrLog.String())),
			fmt.Sprintf("%s: request framing %q: net/http recovered a panic while serving: %s", f.kind, class, p[f.panics]),
			map[string]interface{}{"log": bounded2(f.in.ErrLog.String(), 1500)})
		f.panics = len(p)
	}
}

func (f *framer) count(p probe) {
	fam := p.class
	if i := strings.Index(fam, "|"); i > 0 {
		fam = fam[:i]
	}
	f.counts[p.group+"|"+fam]++
	f.rep.Count(fmt.Sprintf("framing|%s|%s|%s", p.group, fam, f.kind), 1)
	f.rep.Count("framing_probes_"+p.group+"_"+string(f.kind), 1)
	f.rep.Eval(1)
}

func (f *framer) after(p probe, endStall func()) {
	f.checkPanics(p.class)
	if why, inc := f.fresh(); why != "" {
		if inc {
			f.rep.Inconclusive(fmt.Sprintf("%s: framing %q: the follow-up ping on a fresh connection: %s", f.kind, p.class, why))
		} else {
			f.rep.Violation(fmt.Sprintf("C06|framing|%s|%s|not-serving-afterwards", p.class, f.kind),
				fmt.Sprintf("%s: after a request framed as %q a well-formed ping on a fresh connection was not answered: %s", f.kind, p.class, why), nil)
		}
	} else {
		f.rep.Count("framing_followups_ok_"+string(f.kind), 1)
	}
	endStall()
	f.checkPanics(p.class)
}

func framing(rep *vh.Reporter, kind kit.Kind, seed int64, thorough bool) {
	// a correct server streams the body; one that reserves what the peer announces must not take the machine along
	_ = syscall.Setrlimit(syscall.RLIMIT_AS, &syscall.Rlimit{Cur: 48 << 30, Max: 48 << 30})
	r := &vh.Run{Seed: seed}
	in := kit.Start(kind, kit.Opts{})
	kit.StdFixture(in)
	ctx := context.Background()
	c, err := in.Dial(ctx)
	if err == nil {
		err = c.Handshake(ctx)
	}
	var other *kit.RawConn
	if err == nil {
		if other, err = in.Dial(ctx); err == nil {
			err = other.Handshake(ctx)
		}
	}
	if err != nil {
		rep.Violation(fmt.Sprintf("C06|framing|handshake|%s", kind), fmt.Sprint(err), nil)
		rep.Done()
		return
	}
	f := &framer{rep: rep, in: in, kind: kind, addr: in.TS.Listener.Addr().String(), post: in.Path, sess: c.SessionID, accept: acceptOf(kind),
		counts: map[string]int{}, rng: r.Rand("c06-framing-" + string(kind))}
	if kind == kit.LSSE {
		u, _ := url.Parse(c.MsgURL)
		f.post = u.RequestURI()
		f.c = c
		f.sess = ""
	}
	libBase := leak.Settle(func() int { n, _ := leak.LibNow(); return n }, 2*time.Second)

	// ---- legal framings: differential against the honest Content-Length form of the same body
	nLegal, nSame := 0, 0
	for _, bs := range bodyTable(thorough) {
		// the reference: honest Content-Length, one segment (twice: the reference itself must be reproducible)
		var ref [2]reaction
		refOK := true
		for k := 0; k < 2 && refOK; k++ {
			id := ""
			if bs.id {
				id = f.nextID()
			}
			from := 0
			if f.c != nil {
				from = f.c.Log.Len()
			}
			hp := probe{class: "cl-honest|one-segment", group: "legal", method: "POST", bodyKey: bs.key, steps: []step{{write: f.honest(bs.make(id)), read: "final"}}}
			rep.Progress(fmt.Sprintf("%s framing %s body=%s", kind, hp.class, bs.key))
			rs, _ := f.run(hp)
			f.count(hp)
			if rs[0].Status == 0 {
				refOK = false
				if rs[0].TimedOut {
					rep.Inconclusive(fmt.Sprintf("%s: framing reference (honest Content-Length, body %s) hit the watchdog: %s", kind, bs.key, rs[0].Err))
				} else {
					rep.Violation(fmt.Sprintf("C06|framing|cl-honest|one-segment|%s|body=%s|no-http-answer", kind, bs.key), fmt.Sprintf("%s: a request with an honest Content-Length (body %s) got no HTTP answer: %s", kind, bs.key, rs[0].Err), rs[0])
				}
				break
			}
			var late string
			ref[k], late = f.reactionOf(rs[0], id, from)
			if late != "" {
				refOK = false
				rep.Inconclusive(fmt.Sprintf("%s: framing reference (body %s): %s", kind, bs.key, late))
			}
			f.checkPanics(hp.class)
		}
		if refOK && !ref[0].equal(ref[1]) {
			refOK = false
			rep.Inconclusive(fmt.Sprintf("%s: the reaction to body %s sent twice with an honest Content-Length is not reproducible (%v / %v); no differential for it", kind, bs.key, ref[0], ref[1]))
		}
		if !refOK {
			continue
		}
		rep.Distinct(fmt.Sprintf("framing|%s|reference|body=%s|status=%d|frames=%d", kind, bs.key, ref[0].Status, len(ref[0].Frames)))
		probes := f.legalProbes(bs)
		for i, p := range probes {
			rep.Progress(fmt.Sprintf("%s framing %s body=%s", kind, p.class, p.bodyKey))
			from := 0
			if f.c != nil {
				from = f.c.Log.Len()
			}
			var rs []*rawResp
			if strings.HasPrefix(p.class, "expect-100|") && len(p.steps) == 2 && p.steps[0].waitCont {
				rs = f.runExpect(p)
			} else {
				rs, _ = f.run(p)
			}
			f.count(p)
			nLegal++
			// which response belongs to the judged request, which to the accompanying ping
			var main, ping *rawResp
			switch {
			case !p.second:
				main = rs[0]
			case p.first:
				ping = rs[0]
				if len(rs) > 1 {
					main = rs[1]
				}
			default:
				main = rs[0]
				if len(rs) > 1 {
					ping = rs[1]
				}
			}
			sig := func(sym string) string {
				return fmt.Sprintf("C06|framing|%s|%s|body=%s|%s", p.class, kind, p.bodyKey, sym)
			}
			wit := func(r *rawResp) map[string]interface{} {
				return map[string]interface{}{"body": bounded(string(p.body)), "reference": ref[0], "got": r}
			}
			judgeOne := func(r *rawResp, id string, want *reaction, what string) {
				switch {
				case r == nil:
					rep.Violation(sig("no-http-answer|"+what), fmt.Sprintf("%s: %s of a request framed as %q (body %s) was never answered: the connection ended first", kind, what, p.class, p.bodyKey), wit(r))
				case r.Status == 0 && r.TimedOut:
					rep.Inconclusive(fmt.Sprintf("%s: framing %q body %s: %s: watchdog (%s)", kind, p.class, p.bodyKey, what, r.Err))
				case r.Status == 0:
					rep.Violation(sig("no-http-answer|"+what), fmt.Sprintf("%s: legal framing %q (body %s): %s got neither an HTTP status nor a JSON-RPC error, the server closed the connection: %s", kind, p.class, p.bodyKey, what, r.Err), wit(r))
				default:
					got, late := f.reactionOf(r, id, from)
					if late != "" {
						rep.Inconclusive(fmt.Sprintf("%s: framing %q body %s: %s: %s", kind, p.class, p.bodyKey, what, late))
						return
					}
					if want != nil && !got.equal(*want) {
						rep.Violation(sig("differs-from-content-length-form|"+what), fmt.Sprintf("%s: body %s framed as %q was answered status %d with %d frame(s), the same body with an honest Content-Length status %d with %d frame(s)", kind, p.bodyKey, p.class, got.Status, len(got.Frames), want.Status, len(want.Frames)),
							map[string]interface{}{"body": bounded(string(p.body)), "reference": *want, "got": got, "raw": r})
						return
					}
					if want == nil && (len(got.Frames) != 1 || !strings.Contains(got.Frames[0], `"result":`)) {
						rep.Violation(sig("accompanying-ping-not-answered"), fmt.Sprintf("%s: the well-formed ping sharing a connection with a request framed as %q (body %s) was answered status %d frames %v", kind, p.class, p.bodyKey, got.Status, got.Frames), wit(r))
						return
					}
					if want != nil {
						nSame++
						rep.Distinct(fmt.Sprintf("framing|%s|legal|%s|body=%s|same-as-content-length-form", kind, p.class, p.bodyKey))
					}
				}
			}
			judgeOne(main, p.id, &ref[0], "the request")
			if p.second {
				judgeOne(ping, p.pingID, nil, "the accompanying ping")
			}
			f.after(p, func() {})
			if i%6 == 5 {
				if ok, why := canary(ctx, other, fmt.Sprintf("framing-%s-%d", bs.key, i)); !ok {
					rep.Violation(fmt.Sprintf("C06|framing|%s|%s|other-client-not-served", p.class, kind), fmt.Sprintf("%s: a well-formed call from an independent client failed after framing %q: %s", kind, p.class, why), nil)
				} else {
					rep.Count("canaries_ok", 1)
				}
			}
		}
	}

	// ---- lenient and hostile framings (seed-shuffled; the address-space-sized announcement goes last)
	hp := f.hostileProbes()
	f.rng.Shuffle(len(hp), func(i, j int) { hp[i], hp[j] = hp[j], hp[i] })
	for _, e := range []string{"halfclose", "stall"} {
		id := f.nextID()
		b := pingBody(id)
		hp = append(hp, probe{class: "cl-huge|1<<40|then-" + e, group: "hostile", method: "POST", end: e, id: id, body: b,
			steps: []step{{write: append([]byte(f.head("POST", f.post, "HTTP/1.1", "Content-Length: 1099511627776")+"\r\n"), b...), read: "final"}}})
	}
	nHostile := 0
	for i, p := range hp {
		rep.Progress(fmt.Sprintf("%s framing %s", kind, p.class))
		rs, endStall := f.run(p)
		f.count(p)
		nHostile++
		var r0 *rawResp
		if len(rs) > 0 {
			r0 = rs[0]
		}
		f.after(p, endStall)
		rep.Distinct(fmt.Sprintf("framing|%s|%s|%s|%s", kind, p.group, p.class, r0.outcome()))
		if i%8 == 7 {
			if ok, why := canary(ctx, other, fmt.Sprintf("framing-h-%d", i)); !ok {
				rep.Violation(fmt.Sprintf("C06|framing|%s|%s|other-client-not-served", p.class, kind), fmt.Sprintf("%s: a well-formed call from an independent client failed after framing %q: %s", kind, p.class, why), nil)
			} else {
				rep.Count("canaries_ok", 1)
			}
		}
	}

	// ---- GET / DELETE carrying a body (legal HTTP): a status line must come back
	nVerb := f.verbsWithBody(ctx)

	// ---- afterwards
	if ok, why := canary(ctx, c, "framing-same"); !ok {
		rep.Violation(fmt.Sprintf("C06|framing|canary-same-session|%s", kind), why, nil)
	}
	if ok, why := canary(ctx, other, "framing-other"); !ok {
		rep.Violation(fmt.Sprintf("C06|framing|canary-other-client|%s", kind), why, nil)
	}
	if fr, err := in.Dial(ctx); err == nil {
		hctx, hc := context.WithTimeout(ctx, 15*time.Second)
		err := fr.Handshake(hctx)
		hc()
		if err != nil {
			rep.Violation(fmt.Sprintf("C06|framing|canary-fresh-client|%s", kind), err.Error(), nil)
		} else if ok, why := canary(ctx, fr, "framing-fresh"); !ok {
			rep.Violation(fmt.Sprintf("C06|framing|canary-fresh-client|%s", kind), why, nil)
		}
		fr.Close()
	}
	f.checkPanics("end-of-batch")
	time.Sleep(100 * time.Millisecond)
	libEnd := leak.Settle(func() int { n, _ := leak.LibNow(); return n }, 3*time.Second)
	_, by := leak.LibNow()
	total := nLegal + nHostile + nVerb
	if libEnd-libBase > 40 && libEnd-libBase > total/8 {
		rep.Violation(fmt.Sprintf("C06|framing|goroutine-growth|%s", kind), fmt.Sprintf("%s: goroutines with library frames grew from %d to %d over %d hostile framings", kind, libBase, libEnd, total), map[string]interface{}{"by_function": leak.Describe(by)})
	}
	if nLegal == 0 || nSame == 0 {
		rep.Inconclusive(fmt.Sprintf("%s: no legal framing could be compared with its Content-Length form (%d sent, %d equal): the framing scenario observed nothing", kind, nLegal, nSame))
	}
	rep.Sample(map[string]interface{}{"kind": kind, "scenario": "request-framing", "legal_probes": nLegal, "legal_same_as_content_length_form": nSame, "lenient_and_hostile_probes": nHostile,
		"verbs_with_body": nVerb, "lib_goroutines": []int{libBase, libEnd}, "probes_per_group_and_class_family": f.counts})
	other.Close()
	c.Close()
	in.Close()
	rep.Done()
}

// runExpect: Expect: 100-continue where the peer waits for the interim response before it sends the body.
func (f *framer) runExpect(p probe) []*rawResp {
	conn, err := (&net.Dialer{Timeout: 20 * time.Second}).Dial("tcp", f.addr)
	if err != nil {
		return []*rawResp{{Err: "dial: " + err.Error(), TimedOut: true}}
	}
	defer conn.Close()
	br := bufio.NewReaderSize(conn, 64<<10)
	_ = conn.SetWriteDeadline(time.Now().Add(frWatchdog))
	_, _ = conn.Write(p.steps[0].write)
	// a peer does not wait for the interim response for ever (RFC 9110 10.1.1): after a pause it sends the body anyway
	_ = conn.SetReadDeadline(time.Now().Add(1500 * time.Millisecond))
	if _, perr := br.Peek(1); perr != nil {
		if ne, ok := perr.(net.Error); ok && ne.Timeout() {
			_ = conn.SetWriteDeadline(time.Now().Add(frWatchdog))
			_, _ = conn.Write(p.steps[1].write)
			return []*rawResp{readResp(conn, br, p.method, frWatchdog, false, nil)}
		}
	}
	cont, final := awaitContinue(conn, br, p.method, frWatchdog)
	if !cont {
		return []*rawResp{final} // answered (or closed) without asking for the body
	}
	_, _ = conn.Write(p.steps[1].write)
	r := readResp(conn, br, p.method, frWatchdog, false, nil)
	r.Interim = append([]int{100}, r.Interim...)
	return []*rawResp{r}
}

// verbsWithBody: GET and DELETE requests that carry a body (Content-Length and chunked). Only the response head is
// read (a GET may open an event stream).
func (f *framer) verbsWithBody(ctx context.Context) int {
	n := 0
	body := pingBody(`"fr-verb"`)
	type target struct{ name, path, sess string }
	var targets []target
	switch {
	case f.kind == kit.LSSE:
		targets = []target{{"event-stream-endpoint", f.in.Path, ""}, {"message-endpoint", f.post, ""}}
	case f.kind.Stateful():
		tmp, err := f.in.Dial(ctx)
		if err == nil && tmp.Handshake(ctx) == nil {
			targets = append(targets, target{"live-session", f.in.Path, tmp.SessionID})
			defer tmp.Close()
		}
		targets = append(targets, target{"no-session", f.in.Path, ""}, target{"unknown-session", f.in.Path, "0123456789abcdef0123456789abcdef"})
	default:
		targets = []target{{"no-session", f.in.Path, ""}}
	}
	for _, t := range targets {
		for _, verb := range []string{"GET", "DELETE"} {
			for _, enc := range []string{"content-length", "chunked", "cl-2^62-short-body"} {
				class := fmt.Sprintf("body-on-%s|%s|%s", verb, enc, t.name)
				f.rep.Progress(fmt.Sprintf("%s framing %s", f.kind, class))
				var b strings.Builder
				fmt.Fprintf(&b, "%s %s HTTP/1.1\r\nHost: %s\r\nAccept: text/event-stream\r\nContent-Type: application/json\r\n", verb, t.path, f.addr)
				if t.sess != "" {
					fmt.Fprintf(&b, "Mcp-Session-Id: %s\r\n", t.sess)
				}
				switch enc {
				case "content-length":
					fmt.Fprintf(&b, "Content-Length: %d\r\n\r\n%s", len(body), body)
				case "chunked":
					fmt.Fprintf(&b, "Transfer-Encoding: chunked\r\n\r\n%s%s", chunkedBody(body, func(int) int { return 7 }, "", false, 0), lastChunk)
				default:
					fmt.Fprintf(&b, "Content-Length: 4611686018427387904\r\n\r\n%s", body)
				}
				group := "legal"
				if enc == "cl-2^62-short-body" {
					group = "hostile"
				}
				p := probe{class: class, group: group, method: verb}
				conn, err := (&net.Dialer{Timeout: 20 * time.Second}).Dial("tcp", f.addr)
				if err != nil {
					f.rep.Inconclusive(fmt.Sprintf("%s: %s: dial: %v", f.kind, class, err))
					continue
				}
				_, _ = conn.Write([]byte(b.String()))
				r := readResp(conn, bufio.NewReader(conn), verb, frWatchdog, true, nil)
				f.count(p)
				n++
				switch {
				case r.Status != 0:
					f.rep.Distinct(fmt.Sprintf("framing|%s|%s|status-%dxx", f.kind, class, r.Status/100))
				case r.TimedOut:
					f.rep.Inconclusive(fmt.Sprintf("%s: %s: no status line before the watchdog", f.kind, class))
				case group == "legal":
					f.rep.Violation(fmt.Sprintf("C06|framing|%s|%s|no-http-answer", class, f.kind), fmt.Sprintf("%s: a %s request carrying a body (%s) got no HTTP status, the server closed the connection: %s", f.kind, verb, enc, r.Err), r)
				}
				// stays open during the follow-up when the server opened a stream
				f.after(p, func() { _ = conn.Close() })
			}
		}
	}
	return n
}
