package main

// Hostile answers to requests the SERVER issued. A tool handler asks the peer for its roots (ListRoots), the peer sees
// the roots/list request on its stream / stdout and answers it with every shape an answer can be bent into — each JSON
// type as result and as error, both, neither, retyped and foreign ids, duplicates, responses that also carry a method —
// and only then with the proper answer. The floor of C06 applies: no crash (the child process is the observation), no
// wedge, the call that asked is answered (result or error), and the next well-formed request from this and from an
// independent client is served.

import (
	"context"
	"encoding/json"
	"fmt"
	"strings"
	"time"

	mcp "trpc.group/trpc-go/trpc-mcp-go"

	"verifharness/lib/kit"
	"verifharness/lib/vh"
)

// answerShapes: %s is replaced by the raw id of the pending server request.
var answerShapes = []struct{ name, tmpl string }{
	{"result=null", `{"jsonrpc":"2.0","id":%s,"result":null}`},
	{"error=null", `{"jsonrpc":"2.0","id":%s,"error":null}`},
	{"result=null+error=null", `{"jsonrpc":"2.0","id":%s,"result":null,"error":null}`},
	{"neither", `{"jsonrpc":"2.0","id":%s}`},
	{"result=bool", `{"jsonrpc":"2.0","id":%s,"result":true}`},
	{"result=int", `{"jsonrpc":"2.0","id":%s,"result":5}`},
	{"result=string", `{"jsonrpc":"2.0","id":%s,"result":"str"}`},
	{"result=array", `{"jsonrpc":"2.0","id":%s,"result":[1]}`},
	{"result={}", `{"jsonrpc":"2.0","id":%s,"result":{}}`},
	{"result.roots=null", `{"jsonrpc":"2.0","id":%s,"result":{"roots":null}}`},
	{"result.roots=string", `{"jsonrpc":"2.0","id":%s,"result":{"roots":"x"}}`},
	{"result.roots=[int]", `{"jsonrpc":"2.0","id":%s,"result":{"roots":[1,2]}}`},
	{"result.roots=[null]", `{"jsonrpc":"2.0","id":%s,"result":{"roots":[null]}}`},
	{"result.roots=[{}]", `{"jsonrpc":"2.0","id":%s,"result":{"roots":[{}]}}`},
	{"result.roots[0].uri=int", `{"jsonrpc":"2.0","id":%s,"result":{"roots":[{"uri":7,"name":[]}]}}`},
	{"error=bool", `{"jsonrpc":"2.0","id":%s,"error":true}`},
	{"error=int", `{"jsonrpc":"2.0","id":%s,"error":5}`},
	{"error=string", `{"jsonrpc":"2.0","id":%s,"error":"boom"}`},
	{"error=array", `{"jsonrpc":"2.0","id":%s,"error":[1]}`},
	{"error={}", `{"jsonrpc":"2.0","id":%s,"error":{}}`},
	{"error.code=string", `{"jsonrpc":"2.0","id":%s,"error":{"code":"x","message":5}}`},
	{"error=proper", `{"jsonrpc":"2.0","id":%s,"error":{"code":-32603,"message":"peer refuses"}}`},
	{"result+error", `{"jsonrpc":"2.0","id":%s,"result":{"roots":[]},"error":{"code":-1,"message":"both"}}`},
	{"result+method", `{"jsonrpc":"2.0","id":%s,"method":"roots/list","result":{"roots":[]}}`},
	{"no-jsonrpc", `{"id":%s,"result":{"roots":[]}}`},
	{"jsonrpc=1.0", `{"jsonrpc":"1.0","id":%s,"result":{"roots":[]}}`},
	{"id=string-of-id", `{"jsonrpc":"2.0","id":"%s","result":{"roots":[]}}`},
	{"id=float", `{"jsonrpc":"2.0","id":%s.0,"result":{"roots":[]}}`},
	{"id=[id]", `{"jsonrpc":"2.0","id":[%s],"result":{"roots":[]}}`},
	{"id={}", `{"jsonrpc":"2.0","id":{"v":%s},"result":null}`},
	{"id=null", `{"jsonrpc":"2.0","id":null,"result":null}`},
	{"id=bool", `{"jsonrpc":"2.0","id":true,"result":null}`},
	{"id=negative", `{"jsonrpc":"2.0","id":-%s,"result":null}`},
	{"id=never-sent", `{"jsonrpc":"2.0","id":9%s77,"result":null}`},
	{"duplicate-members", `{"jsonrpc":"2.0","id":%s,"result":null,"result":{"roots":[]},"id":0}`},
	{"deep-result", `{"jsonrpc":"2.0","id":%s,"result":{"roots":` + strings.Repeat("[", 2000) + strings.Repeat("]", 2000) + `}}`},
	{"large-result", `{"jsonrpc":"2.0","id":%s,"result":{"roots":[{"uri":"file:///` + strings.Repeat("a", 300000) + `","name":"big"}]}}`},
	{"truncated", `{"jsonrpc":"2.0","id":%s,"result":{"roots":[`},
	{"array-of-answers", `[{"jsonrpc":"2.0","id":%s,"result":null}]`},
	{"proper-twice", `{"jsonrpc":"2.0","id":%s,"result":{"roots":[{"uri":"file:///first","name":"first"}]}}`},
}

func srvreq(rep *vh.Reporter, kind kit.Kind) {
	in := kit.Start(kind, kit.Opts{})
	kit.StdFixture(in)
	registerAskTools(in)
	srvreqRun(rep, kind, in)
}

// registerAskTools registers the two tools that issue a request to the peer from inside a tool call.
func registerAskTools(in *kit.Instance) {
	for _, name := range []string{"askroots", "askraw"} {
		name := name
		in.RegisterTool(mcp.NewTool(name, mcp.WithString("nonce")), func(ctx context.Context, req *mcp.CallToolRequest) (*mcp.CallToolResult, error) {
			rctx, cancel := context.WithTimeout(ctx, 1500*time.Millisecond)
			defer cancel()
			var err error
			var got interface{}
			if name == "askroots" {
				switch {
				case in.Server != nil:
					got, err = in.Server.ListRoots(rctx)
				case in.SSE != nil:
					got, err = in.SSE.ListRoots(rctx)
				default:
					got, err = in.Stdio.ListRoots(rctx)
				}
			} else {
				rq := &mcp.JSONRPCRequest{JSONRPC: "2.0"}
				rq.Method = "sampling/createMessage"
				sid := ""
				if s := mcp.ClientSessionFromContext(ctx); s != nil {
					sid = s.GetID()
				}
				var raw *json.RawMessage
				switch {
				case in.Server != nil:
					rq.ID = int64(700000 + time.Now().UnixNano()%100000)
					raw, err = in.Server.SendRequest(rctx, sid, rq)
				case in.SSE != nil:
					rq.ID = int64(700000 + time.Now().UnixNano()%100000)
					raw, err = in.SSE.SendRequest(rctx, sid, rq)
				default:
					rq.ID = int64(700000 + time.Now().UnixNano()%100000)
					raw, err = in.Stdio.SendRequest(rctx, rq)
				}
				if raw != nil {
					got = string(*raw)
				}
			}
			if err != nil {
				return mcp.NewTextResult("err: " + err.Error()), nil
			}
			b, _ := json.Marshal(got)
			if len(b) > 200 {
				b = b[:200]
			}
			return mcp.NewTextResult("ok: " + string(b)), nil
		})
	}
}

func srvreqRun(rep *vh.Reporter, kind kit.Kind, in *kit.Instance) {
	ctx := context.Background()
	dial := func() *kit.RawConn {
		c, err := in.Dial(ctx)
		if err == nil {
			err = c.Handshake(ctx)
		}
		if err == nil && kind.IsStreamable() {
			_, err = c.OpenGet(ctx)
		}
		if err != nil {
			rep.Violation(fmt.Sprintf("C06|srvreq|dial|%s", kind), fmt.Sprint(err), nil)
			rep.Done()
			return nil
		}
		return c
	}
	c := dial()
	if c == nil {
		return
	}
	other := dial()
	if other == nil {
		return
	}
	time.Sleep(50 * time.Millisecond) // legacy: the initialized notification is processed asynchronously
	n := 0
	type ansShape struct {
		name, tmpl string
		times      int
	}
	var shapes []ansShape
	for _, sh := range answerShapes {
		shapes = append(shapes, ansShape{sh.name, sh.tmpl, 1})
	}
	// Repeated answers: the same large, VALID answer several times back to back, so that a later copy is still being
	// decoded / re-encoded by the server while an earlier one has already been delivered and the asking call has
	// returned (what a retrying or duplicating peer does). The window is a few milliseconds wide, hence several rounds.
	for i, roots := range []int{40000, 40000, 12000, 40000, 3500, 40000, 25000, 40000} {
		var b strings.Builder
		b.WriteString(`{"jsonrpc":"2.0","id":%s,"result":{"roots":[`)
		for j := 0; j < roots; j++ {
			if j > 0 {
				b.WriteByte(',')
			}
			fmt.Fprintf(&b, `{"uri":"file:///srv/data/projects/%06d/workspace","name":"workspace-%06d"}`, j, j)
		}
		b.WriteString(`]}}`)
		shapes = append(shapes, ansShape{fmt.Sprintf("valid-%d-roots-x4#%d", roots, i), b.String(), 4})
	}
	for _, tool := range []string{"askroots", "askraw"} {
		for _, sh := range shapes {
			n++
			rep.Progress(fmt.Sprintf("%s srvreq tool=%s answer=%s", kind, tool, sh.name))
			callID := fmt.Sprintf(`"ask-%d"`, n)
			from := c.Log.Len()
			done := make(chan *kit.Exchange, 1)
			go func() {
				done <- c.Post(ctx, []byte(fmt.Sprintf(`{"jsonrpc":"2.0","id":%s,"method":"tools/call","params":{"name":"%s","arguments":{"nonce":"x"}}}`, callID, tool)), kit.PostOpts{WantID: callID, Wait: 20 * time.Second})
			}()
			f, ok := c.Log.WaitFor(from, 10*time.Second, func(f kit.Frame) bool {
				return strings.Contains(f.Data, `"method":"roots/list"`) || strings.Contains(f.Data, `"method":"sampling/createMessage"`)
			})
			if !ok {
				rep.Inconclusive(fmt.Sprintf("%s: the server-issued request of tool %s never reached the peer's stream", kind, tool))
				<-done
				continue
			}
			var m struct {
				ID json.RawMessage `json:"id"`
			}
			_ = json.Unmarshal([]byte(f.Data), &m)
			id := string(m.ID)
			hostile := strings.ReplaceAll(sh.tmpl, "%s", id)
			for k := 0; k < sh.times; k++ {
				c.Post(ctx, []byte(hostile), kit.PostOpts{NoWait: true})
			}
			if sh.times > 1 {
				rep.Count("repeated_large_answers_"+string(kind), int64(sh.times))
			}
			if sh.name == "truncated" && kind == kit.Stdio {
				// a line is a line on stdio; nothing more to do
			}
			// an independent client posts the same bytes too (it has no such request pending)
			other.Post(ctx, []byte(hostile), kit.PostOpts{NoWait: true})
			// then the proper answer (a no-op when the hostile one was accepted as the answer)
			c.Post(ctx, []byte(fmt.Sprintf(`{"jsonrpc":"2.0","id":%s,"result":{"roots":[{"uri":"file:///proper","name":"proper"}]}}`, id)), kit.PostOpts{NoWait: true})
			ex := <-done
			rep.Eval(1)
			answered := false
			for _, fr := range ex.Frames {
				if strings.Contains(fr, `"result"`) || strings.Contains(fr, `"error"`) {
					answered = true
				}
			}
			sig := fmt.Sprintf("C06|srvreq|%s|tool=%s|answer=%s", kind, tool, sh.name)
			if !answered {
				rep.Violation(sig+"|asking-call-never-answered", fmt.Sprintf("%s: tools/call %s asked the peer, the peer answered %s and then properly; the call itself was never answered (timed out %v)", kind, tool, sh.name, ex.TimedOut),
					map[string]interface{}{"hostile_answer": bounded(hostile), "frames": ex.Frames})
				continue
			}
			ok1, why1 := canary(ctx, c, fmt.Sprintf("sr-%d", n))
			ok2, why2 := canary(ctx, other, fmt.Sprintf("sr-o-%d", n))
			switch {
			case !ok1:
				rep.Violation(sig+"|same-client-not-served", fmt.Sprintf("%s: after answering a server-issued request with %s the same client's next call failed: %s", kind, sh.name, why1), map[string]interface{}{"hostile_answer": bounded(hostile)})
			case !ok2:
				rep.Violation(sig+"|other-client-not-served", fmt.Sprintf("%s: after a peer answered a server-issued request with %s an independent client's call failed: %s", kind, sh.name, why2), map[string]interface{}{"hostile_answer": bounded(hostile)})
			default:
				rep.Distinct(fmt.Sprintf("srvreq|%s|%s|%s", kind, tool, sh.name))
				rep.Count("hostile_answers_survived_"+string(kind), 1)
			}
			if n%13 == 0 && len(ex.Frames) > 0 {
				rep.Sample(map[string]interface{}{"kind": kind, "tool": tool, "hostile_answer": bounded(hostile), "call_answer": bounded(ex.Frames[len(ex.Frames)-1])})
			}
		}
	}
	if p := in.ErrLog.Panics(); len(p) > 0 {
		rep.Violation(fmt.Sprintf("C06|srvreq|panic-in-handler|%s|%s", kind, panicSite(in.ErrLog.String())), "net/http recovered a panic while serving: "+p[0], map[string]interface{}{"log": bounded(in.ErrLog.String())})
	}
	other.Close()
	c.Close()
	in.Close()
	rep.Done()
}
