// C06 — servers survive arbitrary peer input.
// The server under test and the hostile peers run in a CHILD process per (configuration, batch): a panic,
// a runtime fatal error or a wedged server ends only that child and is itself the observation.
package main

import (
	"context"
	"fmt"
	"os"
	"os/exec"
	"path/filepath"
	"strconv"
	"strings"
	"sync"
	"sync/atomic"
	"time"

	"verifharness/lib/gen"
	"verifharness/lib/kit"
	"verifharness/lib/leak"
	"verifharness/lib/peer"
	"verifharness/lib/vh"
)

const nBatches = 3

func canary(ctx context.Context, c *kit.RawConn, tag string) (bool, string) {
	id := fmt.Sprintf(`"canary-%s"`, tag)
	cctx, cancel := context.WithTimeout(ctx, 15*time.Second)
	defer cancel()
	ex := c.Post(cctx, kit.EchoCallBody(id, "canary-"+tag, "cp", nil), kit.PostOpts{WantID: id, Wait: 15 * time.Second})
	o := gen.Observe(c.In.Kind, ex)
	if o.Class != "result" || !strings.Contains(strings.Join(o.Frames, ""), "canary-"+tag) {
		return false, fmt.Sprintf("class=%s status=%d frames=%v", o.Class, o.Status, o.Frames)
	}
	return true, ""
}

// answered says whether the outcome is an answer at all (the C06 floor: never silence, never an empty 2xx).
func judge(rq gen.Req, o gen.Outcome) string {
	switch rq.Expect.Class {
	case "accepted", "anything":
		if o.Class == "transport-error" {
			return "transport-error"
		}
		return ""
	}
	switch o.Class {
	case "silence", "empty-2xx", "accepted-202", "no-answer-frame":
		return "no-answer|" + o.Class
	case "transport-error":
		return "transport-error"
	case "malformed":
		return "malformed-answer"
	}
	// faults must be answered by an error, not served as if fine
	if rq.Expect.Class == "error" || rq.Expect.Class == "refuse" || rq.Expect.Class == "httprefuse" {
		if o.Class == "result" {
			return "fault-served-as-success"
		}
	}
	if rq.Expect.Class == "result" && o.Class != "result" {
		return "well-formed-request-refused|" + o.Class
	}
	return ""
}

// storm: several hostile peers at once (each with its own connection / session), shuffled inputs, while an
// independent client keeps calling; looks for crashes, wedges and cross-client damage under concurrency.
func storm(rep *vh.Reporter, kind kit.Kind, seed int64, level int) {
	r := &vh.Run{Seed: seed}
	in := kit.Start(kind, kit.Opts{})
	kit.StdFixture(in)
	ctx := context.Background()
	other, err := in.Dial(ctx)
	if err == nil {
		err = other.Handshake(ctx)
	}
	if err != nil {
		rep.Violation(fmt.Sprintf("C06|storm|second-client|%s", kind), fmt.Sprint(err), nil)
		rep.Done()
		return
	}
	libBase := leak.Settle(func() int { n, _ := leak.LibNow(); return n }, 2*time.Second)
	nPeers := 6
	if kind == kit.Stdio {
		nPeers = 3
	}
	var wg sync.WaitGroup
	var sent atomic.Int64
	stop := make(chan struct{})
	canaryFail := atomic.Int64{}
	go func() {
		i := 0
		for {
			select {
			case <-stop:
				return
			default:
			}
			i++
			if ok, why := canary(ctx, other, fmt.Sprintf("storm-%d", i)); !ok {
				if canaryFail.Add(1) == 1 {
					rep.Violation(fmt.Sprintf("C06|storm|other-client-not-served|%s", kind), fmt.Sprintf("%s: a well-formed call from an independent client failed while %d hostile peers were active: %s", kind, nPeers, why), nil)
				}
			} else {
				rep.Count("canaries_ok", 1)
			}
			time.Sleep(2 * time.Millisecond)
		}
	}()
	for p := 0; p < nPeers; p++ {
		wg.Add(1)
		go func(p int) {
			defer wg.Done()
			c, err := in.Dial(ctx)
			if err != nil {
				return
			}
			defer c.Close()
			if c.Handshake(ctx) != nil {
				return
			}
			ids := gen.NewIDGen(fmt.Sprintf("st-%s-%d", kind, p), 100000*(p+1))
			rng := r.Rand(fmt.Sprintf("c06-storm-%s-%d", kind, p))
			reqs := gen.Requests(kind, rng, ids, 0)
			rng.Shuffle(len(reqs), func(i, j int) { reqs[i], reqs[j] = reqs[j], reqs[i] })
			if len(reqs) > 220 {
				reqs = reqs[:220]
			}
			for _, rq := range reqs {
				body := rq.Body
				if len(body) > 200000 {
					continue // keep the storm fast; giant inputs are covered sequentially
				}
				if kind == kit.Stdio {
					body = []byte(strings.NewReplacer("\n", " ", "\r", " ").Replace(string(body)))
				}
				o := rq.Opts
				o.NoWait = kind == kit.Stdio || kind == kit.LSSE
				xctx, cancel := context.WithTimeout(ctx, 20*time.Second)
				ex := c.Post(xctx, body, o)
				cancel()
				sent.Add(1)
				if ex.HTTP != nil && ex.HTTP.Status == 0 && !strings.Contains(ex.HTTP.Err, "invalid header") {
					rep.Violation(fmt.Sprintf("C06|storm|%s|%s|transport-error", rq.Label, kind), fmt.Sprintf("%s: no HTTP answer under concurrent hostile load: %s", kind, ex.HTTP.Err), nil)
				}
			}
			// the hostile peer's own connection still works afterwards
			if ok, why := canary(ctx, c, fmt.Sprintf("peer-%d", p)); !ok {
				rep.Violation(fmt.Sprintf("C06|storm|canary-same-connection|%s", kind), why, nil)
			}
		}(p)
	}
	wg.Wait()
	close(stop)
	rep.Eval(int(sent.Load()))
	if p := in.ErrLog.Panics(); len(p) > 0 {
		rep.Violation(fmt.Sprintf("C06|panic-in-handler|%s|%s", kind, panicSite(in.ErrLog.String())), "net/http recovered a panic while serving: "+p[0], map[string]interface{}{"log": bounded(in.ErrLog.String())})
	}
	time.Sleep(100 * time.Millisecond)
	libEnd := leak.Settle(func() int { n, _ := leak.LibNow(); return n }, 3*time.Second)
	_, by := leak.LibNow()
	if libEnd-libBase > 40 {
		rep.Violation(fmt.Sprintf("C06|storm|goroutine-growth|%s", kind), fmt.Sprintf("%s: goroutines with library frames grew from %d to %d over %d hostile inputs", kind, libBase, libEnd, sent.Load()), map[string]interface{}{"by_function": leak.Describe(by)})
	}
	rep.Distinct(fmt.Sprintf("storm|%s|peers=%d", kind, nPeers))
	rep.Count("storm_inputs_"+string(kind), sent.Load())
	other.Close()
	in.Close()
	rep.Done()
}

func child() {
	kit.Silence()
	rep := vh.NewReporter()
	kind := kit.Kind(os.Getenv("C06_KIND"))
	if os.Getenv("C06_BATCH") == "storm" {
		sd, _ := strconv.ParseInt(os.Getenv("C06_SEED"), 10, 64)
		lv, _ := strconv.Atoi(os.Getenv("C06_LEVEL"))
		storm(rep, kind, sd, lv)
		return
	}
	if os.Getenv("C06_BATCH") == "srvreq" {
		srvreq(rep, kind)
		return
	}
	if os.Getenv("C06_BATCH") == "stalled" {
		sd, _ := strconv.ParseInt(os.Getenv("C06_SEED"), 10, 64)
		lv, _ := strconv.Atoi(os.Getenv("C06_LEVEL"))
		stalled(rep, kind, sd, lv > 0)
		return
	}
	if os.Getenv("C06_BATCH") == "framing" {
		sd, _ := strconv.ParseInt(os.Getenv("C06_SEED"), 10, 64)
		lv, _ := strconv.Atoi(os.Getenv("C06_LEVEL"))
		framing(rep, kind, sd, lv > 0)
		return
	}
	batch, _ := strconv.Atoi(os.Getenv("C06_BATCH"))
	seed, _ := strconv.ParseInt(os.Getenv("C06_SEED"), 10, 64)
	level, _ := strconv.Atoi(os.Getenv("C06_LEVEL"))
	r := &vh.Run{Seed: seed}
	in := kit.Start(kind, kit.Opts{})
	kit.StdFixture(in)
	ctx := context.Background()
	c, err := in.Dial(ctx)
	if err != nil {
		rep.Violation(fmt.Sprintf("C06|dial|%s", kind), err.Error(), nil)
		rep.Done()
		return
	}
	if err := c.Handshake(ctx); err != nil {
		rep.Violation(fmt.Sprintf("C06|handshake|%s", kind), err.Error(), nil)
		rep.Done()
		return
	}
	// an independent well-formed client (own connection / own stdio loop)
	other, err := in.Dial(ctx)
	if err == nil {
		err = other.Handshake(ctx)
	}
	if err != nil {
		rep.Violation(fmt.Sprintf("C06|second-client|%s", kind), fmt.Sprint(err), nil)
		rep.Done()
		return
	}
	ids := gen.NewIDGen(fmt.Sprintf("c06-%s-%d", kind, batch), 10000*batch)
	all := gen.Requests(kind, r.Rand(fmt.Sprintf("c06-%s", kind)), ids, level)
	all = append(all, gen.HTTPLevel(kind, in, ids)...)
	all = append(all, extraHTTP(kind, in, c)...)
	var reqs []gen.Req
	for i, rq := range all {
		if i%nBatches == batch {
			reqs = append(reqs, rq)
		}
	}
	libBase := leak.Settle(func() int { n, _ := leak.LibNow(); return n }, 2*time.Second)
	sess := gen.NewSession(c, kind)
	half := len(reqs) / 2
	libHalf := -1
	for i, rq := range reqs {
		rep.Progress(fmt.Sprintf("%s #%d %s :: %s", kind, i, rq.Label, bounded(string(rq.Body))))
		xctx, cancel := context.WithTimeout(ctx, 20*time.Second)
		var ex *kit.Exchange
		var o gen.Outcome
		if rq.Label == "http|GET-live-session" {
			ex = getLive(xctx, c)
			sess = gen.NewSession(c, kind)
			o = gen.Observe(kind, ex)
		} else {
			ex, o = sess.Do(xctx, rq)
		}
		cancel()
		// an initialize variant is also sent the way a NEW client would send it: without a session id
		if kind.Stateful() && strings.Contains(rq.Label, "initialize") && rq.Label != "http|GET-live-session" {
			o2 := rq.Opts
			o2.NoSessionID = true
			nctx, nc := context.WithTimeout(ctx, 15*time.Second)
			ex = c.Post(nctx, rq.Body, o2)
			nc()
		}
		// follow any session the server hands out in reaction to this input (e.g. an initialize it rejected):
		// the ordinary next messages of a handshake, sent in THAT session, must not damage the server
		if kind.IsStreamable() && ex.HTTP != nil && ex.HTTP.Sess != "" && ex.HTTP.Sess != c.SessionID {
			h := map[string]string{"Mcp-Session-Id": ex.HTTP.Sess}
			for _, follow := range []string{kit.InitializedBody, `{"jsonrpc":"2.0","id":"follow-ping","method":"ping"}`, kit.InitializedBody, `{"jsonrpc":"2.0","id":"follow-list","method":"tools/list"}`} {
				fctx, fc := context.WithTimeout(ctx, 15*time.Second)
				fx := c.Post(fctx, []byte(follow), kit.PostOpts{Headers: h, NoSessionID: true})
				fc()
				if fx.HTTP != nil && fx.HTTP.Status == 0 {
					rep.Violation(fmt.Sprintf("C06|%s|%s|follow-up-in-issued-session|transport-error", rq.Label, kind), fmt.Sprintf("%s: follow-up message in the session issued for input %q got no HTTP answer: %s", kind, rq.Label, fx.HTTP.Err), nil)
				}
			}
			fctx, fc := context.WithTimeout(ctx, 15*time.Second)
			c.HP.Do(fctx, "DELETE", in.URL(), h, nil)
			fc()
			rep.Count("issued_sessions_followed", 1)
			// a brand-new client must still be able to connect right now
			if fresh, err := in.Dial(ctx); err == nil {
				hctx, hc := context.WithTimeout(ctx, 15*time.Second)
				if err := fresh.Handshake(hctx); err != nil {
					rep.Violation(fmt.Sprintf("C06|new-client-not-served|%s|after=%s+handshake-messages", kind, rq.Label), fmt.Sprintf("%s: after input %q and the ordinary handshake messages in the session it was issued, a new client's initialize was not answered: %v", kind, rq.Label, err), nil)
				}
				hc()
				fresh.Close()
			}
		}
		rep.Eval(1)
		if sym := judge(rq, o); sym != "" {
			rep.Violation(fmt.Sprintf("C06|%s|%s|%s", rq.Label, kind, sym), fmt.Sprintf("%s: input class %q: %s", kind, rq.Label, sym),
				map[string]interface{}{"input": bounded(string(rq.Body)), "outcome": o, "expect": rq.Expect})
		} else {
			rep.Distinct(fmt.Sprintf("%s|%s|%s", kind, rq.Label, o.Class))
		}
		// well-formed traffic from the other client keeps being served
		if i%8 == 7 {
			if ok, why := canary(ctx, other, fmt.Sprintf("%d-%d", batch, i)); !ok {
				rep.Violation(fmt.Sprintf("C06|other-client-not-served|%s|after=%s", kind, rq.Label), fmt.Sprintf("%s: a well-formed call from an independent client failed after input %q: %s", kind, rq.Label, why), nil)
			} else {
				rep.Count("canaries_ok", 1)
			}
		}
		if i == half {
			libHalf = leak.Settle(func() int { n, _ := leak.LibNow(); return n }, 2*time.Second)
		}
	}
	// after the batch: same connection, fresh connection, independent client
	if ok, why := canary(ctx, c, "same"); !ok {
		rep.Violation(fmt.Sprintf("C06|canary-same-connection|%s", kind), why, nil)
	}
	if ok, why := canary(ctx, other, "other"); !ok {
		rep.Violation(fmt.Sprintf("C06|canary-other-client|%s", kind), why, nil)
	}
	if fresh, err := in.Dial(ctx); err == nil {
		hctx, hc := context.WithTimeout(ctx, 15*time.Second)
		err := fresh.Handshake(hctx)
		hc()
		if err != nil {
			rep.Violation(fmt.Sprintf("C06|canary-fresh-connection|%s", kind), err.Error(), nil)
		} else if ok, why := canary(ctx, fresh, "fresh"); !ok {
			rep.Violation(fmt.Sprintf("C06|canary-fresh-connection|%s", kind), why, nil)
		}
		fresh.Close()
	}
	if p := in.ErrLog.Panics(); len(p) > 0 {
		rep.Violation(fmt.Sprintf("C06|panic-in-handler|%s|%s", kind, panicSite(in.ErrLog.String())), "net/http recovered a panic while serving: "+p[0], map[string]interface{}{"log": bounded(in.ErrLog.String())})
	}
	// goroutines with library frames must not grow with the number of inputs
	libEnd, by := 0, map[string]int{}
	libEnd = leak.Settle(func() int { n, _ := leak.LibNow(); return n }, 3*time.Second)
	_, by = leak.LibNow()
	rep.Max("lib_goroutines_end", int64(libEnd))
	grow1, grow2 := libHalf-libBase, libEnd-libHalf
	if libHalf >= 0 && grow1 > 4 && grow2 > 4 && libEnd-libBase > len(reqs)/8 {
		rep.Violation(fmt.Sprintf("C06|goroutine-growth|%s", kind), fmt.Sprintf("%s: goroutines with library frames: %d before, %d after %d inputs, %d after %d inputs", kind, libBase, libHalf, half, libEnd, len(reqs)),
			map[string]interface{}{"by_function": leak.Describe(by)})
	}
	rep.Count("inputs_"+string(kind), int64(len(reqs)))
	rep.Sample(map[string]interface{}{"kind": kind, "batch": batch, "inputs": len(reqs), "lib_goroutines": []int{libBase, libHalf, libEnd}, "example": reqs[len(reqs)/3].Label})
	other.Close()
	c.Close()
	in.Close()
	rep.Done()
}

func panicSite(log string) string {
	for _, l := range strings.Split(log, "\n") {
		if strings.HasPrefix(l, "trpc.group/trpc-go/trpc-mcp-go") {
			l = strings.TrimPrefix(l, "trpc.group/trpc-go/trpc-mcp-go")
			if i := strings.LastIndex(l, "("); i > 0 {
				l = l[:i]
			}
			return strings.TrimPrefix(l, ".")
		}
	}
	return "unknown"
}

func bounded(s string) string {
	if len(s) > 300 {
		return s[:300] + fmt.Sprintf("...(%d bytes)", len(s))
	}
	return s
}

// getLive opens and closes a listening stream on the live session.
func getLive(ctx context.Context, c *kit.RawConn) *kit.Exchange {
	re, err := c.OpenGet(ctx)
	if err == nil {
		c.Get.Close()
		c.Get = nil
		c.Log = kit.NewFrameLog()
	}
	return &kit.Exchange{HTTP: re}
}

// extraHTTP: GET / DELETE with every session-id class (incl. on servers without sessions).
func extraHTTP(kind kit.Kind, in *kit.Instance, c *kit.RawConn) []gen.Req {
	if !kind.IsStreamable() {
		return nil
	}
	var out []gen.Req
	sess := map[string]string{"none": "\x00del", "unknown": "0123456789abcdef0123456789abcdef", "odd": "~~<>~~"}
	for name, v := range sess {
		for _, verb := range []string{"GET", "DELETE"} {
			h := map[string]string{"Accept": "text/event-stream"}
			if v != "\x00del" {
				h["Mcp-Session-Id"] = v
			}
			out = append(out, gen.Req{Label: fmt.Sprintf("http|%s|session=%s", verb, name), Opts: kit.PostOpts{Method: verb, Headers: h, NoSessionID: true}, Expect: gen.Expect{Class: "httprefuse"}, HTTP: true})
		}
	}
	if kind.Stateful() {
		out = append(out, gen.Req{Label: "http|GET-live-session", Expect: gen.Expect{Class: "anything"}, HTTP: true})
	}
	_ = peer.NewHTTPPeer
	return out
}

func main() {
	kit.MaybeServeStdioChild()
	if vh.ChildRole() == "c06" {
		child()
		return
	}
	r := vh.NewRun("C06", "exploration")
	level := r.Pick(0, 1)
	type job struct {
		kind  kit.Kind
		batch int
	}
	var jobs []job
	for _, k := range kit.AllKinds {
		for b := 0; b < nBatches; b++ {
			jobs = append(jobs, job{k, b})
		}
		jobs = append(jobs, job{k, -1}) // concurrent storm
		if k == kit.SJSON || k == kit.SSSE || k == kit.LSSE || k == kit.Stdio {
			jobs = append(jobs, job{k, -2}) // hostile answers to server-issued requests
		}
		jobs = append(jobs, job{k, -3}) // peers that stop reading their stream and disconnect with answers waiting
	}
	// second phase (after everything above has finished, so that the schedule of the first phase is what it always was):
	// hostile HTTP framing of the request, byte by byte on raw connections
	phase1 := len(jobs)
	for _, k := range kit.AllKinds {
		if k != kit.Stdio {
			jobs = append(jobs, job{k, -4})
		}
	}
	sem := make(chan struct{}, 8)
	done := make(chan struct{}, len(jobs))
	for ji, j := range jobs {
		if ji == phase1 {
			for k := 0; k < phase1; k++ {
				<-done
			}
		}
		sem <- struct{}{}
		go func(j job) {
			defer func() { <-sem; done <- struct{}{} }()
			tag := fmt.Sprintf("%s-b%d", j.kind, j.batch)
			batchArg := strconv.Itoa(j.batch)
			if j.batch == -1 {
				tag = fmt.Sprintf("%s-storm", j.kind)
				batchArg = "storm"
			}
			if j.batch == -2 {
				tag = fmt.Sprintf("%s-srvreq", j.kind)
				batchArg = "srvreq"
			}
			if j.batch == -3 {
				tag = fmt.Sprintf("%s-stalled", j.kind)
				batchArg = "stalled"
			}
			if j.batch == -4 {
				tag = fmt.Sprintf("%s-framing", j.kind)
				batchArg = "framing"
			}
			res := r.SpawnChild("c06", tag, nil, []string{"C06_KIND=" + string(j.kind), "C06_BATCH=" + batchArg, "C06_SEED=" + strconv.FormatInt(r.Seed, 10), "C06_LEVEL=" + strconv.Itoa(level)}, nil, 10*time.Minute)
			cr := r.Merge(res.Stdout())
			stderr := res.Stderr()
			switch {
			case res.TimedOut:
				site := vh.FirstLibFrame(stderr)
				if site != "" {
					r.Violation(fmt.Sprintf("C06|wedged|%s|%s", j.kind, site), fmt.Sprintf("%s: server child did not finish; last input: %s", j.kind, cr.LastProgress), map[string]interface{}{"last_input": cr.LastProgress, "dump_head": bounded(stderr)})
				} else {
					r.Inconclusive(fmt.Sprintf("child %s hit the watchdog without a library frame in the dump (last input %s)", tag, cr.LastProgress))
				}
			case !cr.Done:
				r.Violation(fmt.Sprintf("C06|process-death|%s|%s", j.kind, vh.FirstLibFrame(stderr)), fmt.Sprintf("%s: server process died (%s): %s; last input: %s", j.kind, res.Describe(), vh.CrashLine(stderr), cr.LastProgress),
					map[string]interface{}{"last_input": cr.LastProgress, "crash": vh.CrashLine(stderr), "stderr_tail": tail(stderr, 3000)})
			}
			r.Count("children", 1)
		}(j)
	}
	for k := phase1; k < len(jobs); k++ {
		<-done
	}
	nativeFuzz(r)
	r.Finish("server + hostile peers in a child process per (configuration, batch): the C03 request lattice (every member of every method's request x {absent, null, bool, int, float, string, array, object}, envelope faults, non-JSON / truncated bodies, 10000-deep and 1 MiB values, unsolicited responses with every id type), HTTP-level faults (paths, verbs, headers, GET/DELETE with every session-id class, also on servers without sessions), interleaved with well-formed calls from an independent client every 8 inputs; after each batch canaries on the same, a fresh and the independent connection, net/http ErrorLog scan for recovered panics, goroutines with library frames at quiescence after N/2 and N inputs. Thorough adds truncation at every offset, bit flips and random bytes. Then Go native fuzzing (coverage-guided, iteration-bounded) over the three entry points, seeded with the lattice; a concurrent storm of 6 hostile peers per configuration; on the four configurations with server-issued requests, 40 hostile answer shapes (every JSON type as result and as error, both, neither, retyped / foreign / never-sent ids, duplicates, deep, large, truncated) to a roots/list and to a raw SendRequest the server issued from inside a tool call, each followed by the proper answer and canaries. Peers hostile in their READING behaviour (one child per configuration): a peer opens its stream (legacy event stream / Streamable listening stream / the answers of its own pipelined POSTs, JSON or POST-SSE / stdio stdout over OS pipes) over a raw connection, stops reading, sends 320 (thorough 640) seed-shuffled requests of 24 answer classes (results small, 128 KiB and 1 MiB; unknown method / tool / prompt / resource and invalid params with 128 KiB echoed names or ids; handler failures; unencodable results; notifications; answers to requests never sent; tool calls that make the server send requests and notifications to that stream) until answers are parked behind full queues and buffers (parked goroutines are counted; fewer than 8 = scenario not observed, inconclusive), and disconnects by close or reset; 1 peer, then 2 more (thorough: then 4 more). Judged on the goroutine table only: goroutines with library frames that did not exist before, are still parked in a channel operation or lock after the peers left, in a number that grows from phase to phase = leak; an independent client is called while the peers are stalled and afterwards, a fresh client connects afterwards. HTTP FRAMING of the request as hostile input (one child per HTTP configuration, five Streamable + legacy message endpoint; requests written byte by byte on raw TCP connections): 18 legal framings (Transfer-Encoding: chunked as one chunk / 1-byte chunks / seeded sizes over seeded TCP segments / chunk extensions / declared and undeclared trailers / upper-case hex with leading zeros / odd header case / small segments; honest Content-Length in small segments / with leading zeros; Expect: 100-continue waiting and not waiting, also chunked; HTTP/1.0 with Content-Length; pipelined with a ping; on a re-used connection) x 8 bodies (ping, tools/list, echo 2 KiB and 64 KiB (thorough 512 KiB), unknown method, notification, truncated JSON, empty), judged differentially against the same body sent with an honest Content-Length (same status, same JSON-RPC frames; a connection closed without a status line = no answer); ~25 lenient framings (both Content-Length and Transfer-Encoding, duplicate Content-Length, HTTP/1.0 without length / chunked, other codings) and ~90 illegal ones (malformed chunk size lines, missing final chunk, truncation in mid-chunk / size line / trailer, Content-Length larger than the body then half-close / reset / stall, smaller with pipelined garbage, zero, 2^62, 2^63-1, 2^63, 2^64, 1<<40 under an address-space limit, garbage values, Expect without body, truncated head) where any status or a closed connection is accepted; GET / DELETE carrying a body must get a status line; after EVERY probe: no panic line in the ErrorLog, a well-formed ping on a fresh connection is answered (for stalling probes while the stalled connection is open). Distinct = (configuration, input class, answer class) that conformed, (configuration, stalled stream, peers) with back-pressure built, (configuration, framing class, body) answered as its Content-Length form, (configuration, hostile framing class, reaction).",
		[]string{"'no sequence of bytes' is sampled", "memory exhaustion by unbounded bodies is not driven", "goroutine growth is judged on counts at quiescence, never on time", "after stalled peers left, the harness waits up to 50 s for their goroutines to end before it looks at what is parked; a set that is still changing is inconclusive, not a violation", "a peer that stops reading is modelled by a raw TCP connection (8 KiB receive buffer) / an OS pipe that is simply not read; how many answers the kernel absorbs before the server blocks is measured, not assumed", "request framing: 'legal' is RFC 9112 as net/http implements it; the reference reaction is the same body with an honest Content-Length sent twice (not reproducible = no differential, inconclusive); answers are compared with the id and per-request session ids removed and arrays as multisets; a watchdog (20 s) expiring with the connection open is inconclusive, only a connection closed without a status line is 'no answer'", "the child that receives absurd Content-Length announcements runs under RLIMIT_AS = 48 GiB: a server that reserves what the peer announces dies there instead of taking the machine along", "coverage-guided fuzzing (go test -fuzz, iteration-bounded) runs over ServeHTTP of the Streamable server, the legacy message endpoint and one stdio line, seeded with the lattice"})
}

func tail(s string, n int) string {
	if len(s) > n {
		return s[len(s)-n:]
	}
	return s
}

// nativeFuzz runs the coverage-guided Go fuzz targets of harness/fuzz over the three server entry points,
// iteration-bounded (never time-bounded). A failing input is a violation; its file is moved to the out directory.
func nativeFuzz(r *vh.Run) {
	dir := filepath.Join(vh.VerifDir, "harness")
	targets := []struct {
		name  string
		quick int
		thor  int
	}{{"FuzzStreamablePost", 30000, 600000}, {"FuzzStdioLine", 3000, 60000}, {"FuzzLegacyMessage", 15000, 300000}}
	for _, t := range targets {
		n := r.Pick(t.quick, t.thor)
		cmd := exec.Command("go", "test", "-tags", "verif", "-run", "^$", "-fuzz", "^"+t.name+"$", "-fuzztime", fmt.Sprintf("%dx", n), "./fuzz/")
		cmd.Dir = dir
		out, err := cmd.CombinedOutput()
		text := string(out)
		execs := 0
		for _, l := range strings.Split(text, "\n") {
			if i := strings.Index(l, "execs: "); i >= 0 {
				fmt.Sscanf(l[i:], "execs: %d", &execs)
			}
		}
		r.Count("fuzz_execs_"+t.name, int64(execs))
		r.Eval(execs)
		if err == nil && strings.Contains(text, "PASS") {
			r.Distinct("native-fuzz|" + t.name)
			continue
		}
		if strings.Contains(text, "Failing input written to") || strings.Contains(text, "--- FAIL") {
			witness := map[string]interface{}{"output_tail": tail(text, 3000)}
			if i := strings.Index(text, "Failing input written to "); i >= 0 {
				rest := strings.TrimSpace(text[i+len("Failing input written to "):])
				if j := strings.IndexAny(rest, "\n "); j > 0 {
					rest = rest[:j]
				}
				src := filepath.Join(dir, "fuzz", rest)
				if b, e := os.ReadFile(src); e == nil {
					witness["failing_input_file"] = string(b)
					dst := filepath.Join(r.OutDir, "fuzz-"+t.name+"-"+filepath.Base(rest))
					os.WriteFile(dst, b, 0o644)
					os.Remove(src)
					witness["saved_as"] = dst
				}
			}
			site := "oracle"
			if strings.Contains(text, "panic:") {
				site = "panic|" + vh.FirstLibFrame(text)
			}
			r.Violation(fmt.Sprintf("C06|native-fuzz|%s|%s", t.name, site), fmt.Sprintf("coverage-guided fuzzing of %s found a failing input", t.name), witness)
			continue
		}
		r.Inconclusive(fmt.Sprintf("native fuzz target %s could not be run: %v: %s", t.name, err, tail(text, 400)))
	}
	os.RemoveAll(filepath.Join(dir, "fuzz", "testdata"))
}
