package main

// Peers that are hostile in their READING behaviour. A peer opens its stream (legacy event stream; Streamable
// listening stream; the answers of its own POSTs; stdio stdout), STOPS READING, and keeps sending requests of every
// answer class — results, JSON-RPC errors with large echoed names / ids, handler failures, unencodable results,
// notifications, answers to requests the server never sent, calls that make the server issue requests and
// notifications of its own — until the server-side queues and the socket / pipe buffers are full and answers are
// waiting for space. Then it DISCONNECTS (close or reset) with the answers still waiting. First one such peer, then
// two more.
//
// Oracle (C06: "leak a goroutine per request", "stop serving other clients"): once the peers are gone, every
// goroutine with a library frame that was started for them has ended. What is judged is the goroutine table, not
// time: a goroutine that did not exist before the peers came, is parked in a channel operation / lock in two dumps
// after the peers left, and whose number grows with the number of departed peers, is a leak. A count that is still
// moving is inconclusive. An independent well-formed client is served while the peers are stalled and afterwards,
// and a fresh client can connect afterwards.

import (
	"bufio"
	"context"
	"fmt"
	"math/rand"
	"net"
	"net/url"
	"os"
	"sort"
	"strings"
	"sync"
	"sync/atomic"
	"time"

	mcp "trpc.group/trpc-go/trpc-mcp-go"

	"verifharness/lib/kit"
	"verifharness/lib/leak"
	"verifharness/lib/peer"
	"verifharness/lib/vh"
)

const stallBig = 128 << 10

type stallReq struct {
	class string
	body  string
}

// stallMix builds n requests over every answer class (shuffled by the seed). About 60 % of the answers are ~128 KiB.
func stallMix(rng *rand.Rand, tag string, n int, getStream bool, huge int) []stallReq {
	big := strings.Repeat("x", stallBig)
	type cls struct {
		name string
		f    func(id, bigid string, i int) string
	}
	classes := []cls{
		{"result-big", func(id, _ string, i int) string {
			return fmt.Sprintf(`{"jsonrpc":"2.0","id":%s,"method":"tools/call","params":{"name":"echo","arguments":{"nonce":"n%d","pad_n":%d}}}`, id, i, stallBig)
		}},
		{"result-small", func(id, _ string, i int) string { return fmt.Sprintf(`{"jsonrpc":"2.0","id":%s,"method":"ping"}`, id) }},
		{"result-list", func(id, _ string, i int) string {
			return fmt.Sprintf(`{"jsonrpc":"2.0","id":%s,"method":"tools/list"}`, id)
		}},
		{"error-unknown-method", func(_, bigid string, i int) string {
			return fmt.Sprintf(`{"jsonrpc":"2.0","id":%s,"method":"no/such-%d"}`, bigid, i)
		}},
		{"error-unknown-tool", func(id, _ string, i int) string {
			return fmt.Sprintf(`{"jsonrpc":"2.0","id":%s,"method":"tools/call","params":{"name":"nosuch-%s","arguments":{}}}`, id, big)
		}},
		{"error-unknown-prompt", func(id, _ string, i int) string {
			return fmt.Sprintf(`{"jsonrpc":"2.0","id":%s,"method":"prompts/get","params":{"name":"nosuch-%s"}}`, id, big)
		}},
		{"error-unknown-resource", func(id, _ string, i int) string {
			return fmt.Sprintf(`{"jsonrpc":"2.0","id":%s,"method":"resources/read","params":{"uri":"res://nosuch-%s"}}`, id, big)
		}},
		{"error-invalid-params", func(_, bigid string, i int) string {
			return fmt.Sprintf(`{"jsonrpc":"2.0","id":%s,"method":"tools/call","params":"not-an-object"}`, bigid)
		}},
		{"error-invalid-params-name", func(_, bigid string, i int) string {
			return fmt.Sprintf(`{"jsonrpc":"2.0","id":%s,"method":"tools/call","params":{"name":7}}`, bigid)
		}},
		{"handler-failure-tool", func(id, _ string, i int) string {
			return fmt.Sprintf(`{"jsonrpc":"2.0","id":%s,"method":"tools/call","params":{"name":"fail","arguments":{"nonce":"%s"}}}`, id, big)
		}},
		{"handler-failure-prompt", func(_, bigid string, i int) string {
			return fmt.Sprintf(`{"jsonrpc":"2.0","id":%s,"method":"prompts/get","params":{"name":"p-fail"}}`, bigid)
		}},
		{"handler-failure-resource", func(_, bigid string, i int) string {
			return fmt.Sprintf(`{"jsonrpc":"2.0","id":%s,"method":"resources/read","params":{"uri":"res://fail"}}`, bigid)
		}},
		{"result-iserror", func(id, _ string, i int) string {
			return fmt.Sprintf(`{"jsonrpc":"2.0","id":%s,"method":"tools/call","params":{"name":"iserr","arguments":{"nonce":"%s"}}}`, id, big)
		}},
		{"unencodable-nan", func(_, bigid string, i int) string {
			return fmt.Sprintf(`{"jsonrpc":"2.0","id":%s,"method":"tools/call","params":{"name":"nan","arguments":{"nonce":"x"}}}`, bigid)
		}},
		{"unencodable-chan", func(_, bigid string, i int) string {
			return fmt.Sprintf(`{"jsonrpc":"2.0","id":%s,"method":"tools/call","params":{"name":"chan","arguments":{"nonce":"x"}}}`, bigid)
		}},
		{"notification-unknown", func(_, _ string, i int) string {
			return fmt.Sprintf(`{"jsonrpc":"2.0","method":"notifications/verif-unknown-%d","params":{"pad":"%s"}}`, i, big[:4096])
		}},
		{"notification-cancelled", func(id, _ string, i int) string {
			return fmt.Sprintf(`{"jsonrpc":"2.0","method":"notifications/cancelled","params":{"requestId":%s,"reason":"r"}}`, id)
		}},
		{"answer-never-sent-result", func(_, _ string, i int) string {
			return fmt.Sprintf(`{"jsonrpc":"2.0","id":%d,"result":{"roots":[{"uri":"file:///%s","name":"r"}]}}`, i%60+1, big[:4096])
		}},
		{"answer-never-sent-error", func(_, _ string, i int) string {
			return fmt.Sprintf(`{"jsonrpc":"2.0","id":%d,"error":{"code":-1,"message":"%s"}}`, i%60+1, big[:4096])
		}},
		{"answer-never-sent-string-id", func(_, bigid string, i int) string {
			return fmt.Sprintf(`{"jsonrpc":"2.0","id":%s,"result":null}`, bigid)
		}},
		{"server-request-roots", func(id, _ string, i int) string {
			return fmt.Sprintf(`{"jsonrpc":"2.0","id":%s,"method":"tools/call","params":{"name":"askroots","arguments":{"nonce":"x"}}}`, id)
		}},
		{"server-request-raw", func(id, _ string, i int) string {
			return fmt.Sprintf(`{"jsonrpc":"2.0","id":%s,"method":"tools/call","params":{"name":"askraw","arguments":{"nonce":"x"}}}`, id)
		}},
		{"handler-notifications", func(id, _ string, i int) string {
			return fmt.Sprintf(`{"jsonrpc":"2.0","id":%s,"method":"tools/call","params":{"name":"notify","arguments":{"nonce":"%s","n":6}}}`, id, big[:8192])
		}},
		{"server-notification", func(id, _ string, i int) string {
			return fmt.Sprintf(`{"jsonrpc":"2.0","id":%s,"method":"tools/call","params":{"name":"tellme","arguments":{"pad_n":%d}}}`, id, stallBig)
		}},
	}
	// weights: the big results are cheap to ask for; on the listening-stream scenario the traffic that goes to that
	// stream (server notifications, server requests) dominates
	order := []int{}
	for ci, c := range classes {
		w := 1
		switch {
		case c.name == "result-big":
			w = 4
		case getStream && c.name == "server-notification":
			w = 16
		case getStream && strings.HasPrefix(c.name, "server-request"):
			w = 4
		}
		for k := 0; k < w; k++ {
			order = append(order, ci)
		}
	}
	out := make([]stallReq, 0, n)
	for i := 0; i < n; i++ {
		c := classes[order[i%len(order)]]
		id := fmt.Sprintf(`"%s-%d"`, tag, i)
		bigid := fmt.Sprintf(`"%s-%d-%s"`, tag, i, big)
		out = append(out, stallReq{c.name, c.f(id, bigid, i)})
	}
	// huge results (1 MiB for a tiny request): what it takes to fill the buffers of a connection whose answers
	// are never read
	for i := 0; i < huge; i++ {
		out = append(out, stallReq{"result-huge", fmt.Sprintf(`{"jsonrpc":"2.0","id":"%s-huge-%d","method":"tools/call","params":{"name":"echo","arguments":{"nonce":"h%d","pad_n":%d}}}`, tag, i, i, 1<<20)})
	}
	rng.Shuffle(len(out), func(i, j int) { out[i], out[j] = out[j], out[i] })
	return out
}

// stalledPeer is one hostile peer after it has stopped reading; disconnect ends it.
type stalledPeer struct {
	sent       int64
	classes    map[string]int
	disconnect func(reset bool)
}

func rawDial(addr string) (*net.TCPConn, error) {
	c, err := (&net.Dialer{Timeout: 20 * time.Second}).Dial("tcp", addr)
	if err != nil {
		return nil, err
	}
	tc := c.(*net.TCPConn)
	_ = tc.SetReadBuffer(8192) // a small window: the peer is not going to read
	return tc, nil
}

func endConn(tc *net.TCPConn, reset bool) {
	if reset {
		_ = tc.SetLinger(0)
	}
	_ = tc.Close()
}

func readLineUntil(br *bufio.Reader, pred func(string) bool) (string, error) {
	for {
		l, err := br.ReadString('\n')
		if pred(l) {
			return strings.TrimSpace(l), nil
		}
		if err != nil {
			return "", err
		}
	}
}

func countClasses(reqs []stallReq) map[string]int {
	m := map[string]int{}
	for _, r := range reqs {
		m[r.class]++
	}
	return m
}

// openLegacy: event stream opened over a raw TCP connection, handshake read from it, then never read again; the
// requests go to the message endpoint (their 202s are read).
func openLegacy(in *kit.Instance, reqs []stallReq) (*stalledPeer, error) {
	addr := in.TS.Listener.Addr().String()
	tc, err := rawDial(addr)
	if err != nil {
		return nil, err
	}
	_ = tc.SetDeadline(time.Now().Add(60 * time.Second))
	fmt.Fprintf(tc, "GET %s HTTP/1.1\r\nHost: %s\r\nAccept: text/event-stream\r\n\r\n", in.Path, addr)
	br := bufio.NewReaderSize(tc, 4096)
	ep, err := readLineUntil(br, func(l string) bool { return strings.HasPrefix(l, "data: ") })
	if err != nil {
		tc.Close()
		return nil, fmt.Errorf("legacy stream: no endpoint event: %v", err)
	}
	u, err := url.Parse(strings.TrimPrefix(ep, "data: "))
	if err != nil {
		tc.Close()
		return nil, err
	}
	base, _ := url.Parse(in.BaseURL())
	msgURL := base.ResolveReference(u).String()
	hp := peer.NewHTTPPeer()
	hdr := map[string]string{"Content-Type": "application/json"}
	ctx := context.Background()
	hp.Do(ctx, "POST", msgURL, hdr, kit.InitBody(`"init-0"`, ""))
	if _, err := readLineUntil(br, func(l string) bool { return strings.Contains(l, `"init-0"`) }); err != nil {
		tc.Close()
		hp.Close()
		return nil, fmt.Errorf("legacy stream: no initialize answer: %v", err)
	}
	hp.Do(ctx, "POST", msgURL, hdr, []byte(kit.InitializedBody))
	_ = tc.SetDeadline(time.Time{})
	// from here on the peer never reads its stream again
	p := &stalledPeer{classes: countClasses(reqs)}
	var wg sync.WaitGroup
	ch := make(chan stallReq)
	for w := 0; w < 6; w++ {
		wg.Add(1)
		go func() {
			defer wg.Done()
			for rq := range ch {
				pctx, cancel := context.WithTimeout(ctx, 60*time.Second)
				re := hp.Do(pctx, "POST", msgURL, hdr, []byte(rq.body))
				cancel()
				if re.Status != 0 {
					atomic.AddInt64(&p.sent, 1)
				}
			}
		}()
	}
	for _, rq := range reqs {
		ch <- rq
	}
	close(ch)
	wg.Wait()
	p.disconnect = func(reset bool) {
		endConn(tc, reset)
		hp.Close()
	}
	return p, nil
}

func httpPost(addr, path, accept, sess, body string) string {
	var b strings.Builder
	fmt.Fprintf(&b, "POST %s HTTP/1.1\r\nHost: %s\r\nContent-Type: application/json\r\nAccept: %s\r\n", path, addr, accept)
	if sess != "" {
		fmt.Fprintf(&b, "Mcp-Session-Id: %s\r\n", sess)
	}
	fmt.Fprintf(&b, "Content-Length: %d\r\n\r\n%s", len(body), body)
	return b.String()
}

func acceptOf(kind kit.Kind) string {
	if kind == kit.SSSE || kind == kit.SLSSE {
		return "application/json, text/event-stream"
	}
	return "application/json"
}

// openStreamable: (a) getStream=false — the peer pipelines its POSTs over a few raw connections and never reads a
// single answer (JSON bodies or POST-SSE streams); (b) getStream=true — the peer opens the listening stream, reads
// the response head and nothing more, and sends one POST per connection (never reading those either), most of
// which make the server write to the listening stream.
func openStreamable(in *kit.Instance, kind kit.Kind, reqs []stallReq, getStream bool) (*stalledPeer, error) {
	addr := in.TS.Listener.Addr().String()
	ctx := context.Background()
	hs, err := in.Dial(ctx)
	if err != nil {
		return nil, err
	}
	hctx, hc := context.WithTimeout(ctx, 60*time.Second)
	err = hs.Handshake(hctx)
	hc()
	if err != nil {
		hs.Close()
		return nil, err
	}
	sess := hs.SessionID
	p := &stalledPeer{classes: countClasses(reqs)}
	var conns []*net.TCPConn
	var mu sync.Mutex
	var wg sync.WaitGroup
	closeAll := func(reset bool) {
		mu.Lock()
		for i, c := range conns {
			endConn(c, reset && i%2 == 0)
		}
		mu.Unlock()
	}
	if getStream {
		g, err := rawDial(addr)
		if err != nil {
			hs.Close()
			return nil, err
		}
		_ = g.SetDeadline(time.Now().Add(60 * time.Second))
		fmt.Fprintf(g, "GET %s HTTP/1.1\r\nHost: %s\r\nAccept: text/event-stream\r\nMcp-Session-Id: %s\r\n\r\n", in.Path, addr, sess)
		br := bufio.NewReaderSize(g, 512)
		status, err := br.ReadString('\n')
		if err != nil || !strings.Contains(status, " 200") {
			g.Close()
			hs.Close()
			return nil, fmt.Errorf("listening stream refused: %q %v", strings.TrimSpace(status), err)
		}
		if _, err := readLineUntil(br, func(l string) bool { return strings.TrimSpace(l) == "" }); err != nil {
			g.Close()
			hs.Close()
			return nil, err
		}
		_ = g.SetDeadline(time.Time{})
		conns = append(conns, g) // closed first
		for _, rq := range reqs {
			c, err := rawDial(addr)
			if err != nil {
				continue
			}
			mu.Lock()
			conns = append(conns, c)
			mu.Unlock()
			_ = c.SetWriteDeadline(time.Now().Add(60 * time.Second))
			if _, err := c.Write([]byte(httpPost(addr, in.Path, acceptOf(kind), sess, rq.body))); err == nil {
				atomic.AddInt64(&p.sent, 1)
			}
		}
	} else {
		const nConn = 16
		for k := 0; k < nConn; k++ {
			c, err := rawDial(addr)
			if err != nil {
				continue
			}
			conns = append(conns, c)
			wg.Add(1)
			go func(k int, c *net.TCPConn) {
				defer wg.Done()
				for i := k; i < len(reqs); i += nConn {
					// blocks for good once both directions are full; ended by disconnect
					if _, err := c.Write([]byte(httpPost(addr, in.Path, acceptOf(kind), sess, reqs[i].body))); err != nil {
						return
					}
					atomic.AddInt64(&p.sent, 1)
				}
			}(k, c)
		}
	}
	p.disconnect = func(reset bool) {
		closeAll(reset)
		wg.Wait()
		hs.Close()
	}
	return p, nil
}

// openStdio: the real transport loop over OS pipes; the peer reads the initialize answer from stdout and then
// never again, and finally closes both pipes.
func openStdio(in *kit.Instance, reqs []stallReq, cleanup *[]func()) (*stalledPeer, error) {
	inR, inW, err := os.Pipe()
	if err != nil {
		return nil, err
	}
	outR, outW, err := os.Pipe()
	if err != nil {
		return nil, err
	}
	sctx, cancel := context.WithCancel(context.Background())
	served := make(chan error, 1)
	go func() { served <- in.ServeStdio(sctx, inR, outW) }()
	*cleanup = append(*cleanup, func() { cancel(); inR.Close(); outW.Close() })
	_ = outR.SetReadDeadline(time.Now().Add(60 * time.Second))
	br := bufio.NewReaderSize(outR, 4096)
	inW.Write(append(kit.InitBody(`"init-0"`, ""), '\n'))
	if _, err := readLineUntil(br, func(l string) bool { return strings.Contains(l, `"init-0"`) }); err != nil {
		outR.Close()
		inW.Close()
		return nil, fmt.Errorf("stdio: no initialize answer: %v", err)
	}
	inW.Write([]byte(kit.InitializedBody + "\n"))
	// from here on the peer never reads stdout again
	p := &stalledPeer{classes: countClasses(reqs)}
	_ = inW.SetWriteDeadline(time.Now().Add(120 * time.Second))
	for _, rq := range reqs {
		if _, err := inW.Write([]byte(rq.body + "\n")); err != nil {
			break
		}
		p.sent++
	}
	p.disconnect = func(reset bool) {
		if reset {
			inW.Close()
			outR.Close()
		} else {
			outR.Close()
			inW.Close()
		}
		select {
		case <-served:
		case <-time.After(20 * time.Second):
		}
	}
	return p, nil
}

func libIDs() (map[string]leak.G, int) {
	gs := leak.Parse(leak.Dump())
	m := map[string]leak.G{}
	for _, g := range gs {
		if g.LibTop != "" {
			m[g.ID] = g
		}
	}
	return m, len(m)
}

func parkedState(st string) bool {
	for _, p := range []string{"chan send", "chan receive", "select", "sync.Mutex.Lock", "sync.RWMutex", "semacquire", "sync.Cond.Wait", "sync.WaitGroup.Wait"} {
		if strings.HasPrefix(st, p) {
			return true
		}
	}
	return false
}

// newLib returns the library goroutines that are not in base.
func newLib(base map[string]leak.G) map[string]leak.G {
	now, _ := libIDs()
	for id := range base {
		delete(now, id)
	}
	return now
}

// steady polls until the number of new library goroutines has been the same for 6 polls 100 ms apart (or 15 s).
func steady(base map[string]leak.G) int {
	last, same := len(newLib(base)), 0
	for dl := time.Now().Add(15 * time.Second); time.Now().Before(dl) && same < 6; {
		time.Sleep(100 * time.Millisecond)
		if n := len(newLib(base)); n == last {
			same++
		} else {
			last, same = n, 0
		}
	}
	return last
}

// drained waits (patiently: this is a watchdog, not the judgement) until at most tol new library goroutines are
// left and returns what is left.
func drained(base map[string]leak.G, tol int) map[string]leak.G {
	left := newLib(base)
	for dl := time.Now().Add(50 * time.Second); len(left) > tol && time.Now().Before(dl); {
		time.Sleep(150 * time.Millisecond)
		left = newLib(base)
	}
	return left
}

func byTop(gs map[string]leak.G) (map[string]int, string) {
	by := map[string]int{}
	for _, g := range gs {
		by[g.LibTop+" ["+strings.SplitN(g.State, ",", 2)[0]+"]"]++
	}
	top, n := "", 0
	keys := make([]string, 0, len(by))
	for k := range by {
		keys = append(keys, k)
	}
	sort.Strings(keys)
	for _, k := range keys {
		if by[k] > n {
			top, n = k, by[k]
		}
	}
	if i := strings.Index(top, " ["); i > 0 {
		top = top[:i]
	}
	return by, top
}

func patientCanary(ctx context.Context, c *kit.RawConn, tag string) (bool, string) {
	id := fmt.Sprintf(`"canary-%s"`, tag)
	cctx, cancel := context.WithTimeout(ctx, 45*time.Second)
	defer cancel()
	ex := c.Post(cctx, kit.EchoCallBody(id, "canary-"+tag, "cp", nil), kit.PostOpts{WantID: id, Wait: 45 * time.Second})
	for _, f := range ex.Frames {
		if strings.Contains(f, `"result"`) && strings.Contains(f, "canary-"+tag) {
			return true, ""
		}
	}
	st := 0
	if ex.HTTP != nil {
		st = ex.HTTP.Status
	}
	return false, fmt.Sprintf("status=%d timed_out=%v frames=%d", st, ex.TimedOut, len(ex.Frames))
}

func stalled(rep *vh.Reporter, kind kit.Kind, seed int64, thorough bool) {
	r := &vh.Run{Seed: seed}
	in := kit.Start(kind, kit.Opts{})
	kit.StdFixture(in)
	registerAskTools(in)
	// tellme: the server itself sends a (large) notification to the caller's session
	in.RegisterTool(mcp.NewTool("tellme", mcp.WithNumber("pad_n")), func(ctx context.Context, req *mcp.CallToolRequest) (*mcp.CallToolResult, error) {
		n, _ := req.Params.Arguments["pad_n"].(float64)
		params := map[string]interface{}{"pad": strings.Repeat("t", int(n))}
		sid := ""
		if s := mcp.ClientSessionFromContext(ctx); s != nil {
			sid = s.GetID()
		}
		var err error
		switch {
		case in.Server != nil:
			err = in.Server.SendNotification(sid, "notifications/verif-tell", params)
		case in.SSE != nil:
			err = in.SSE.SendNotification(sid, "notifications/verif-tell", params)
		default:
			if sender, ok := mcp.GetNotificationSender(ctx); ok {
				err = sender.SendCustomNotification("notifications/verif-tell", params)
			}
		}
		return mcp.NewTextResult(fmt.Sprintf("told err=%v", err)), nil
	})
	ctx := context.Background()
	other, err := in.Dial(ctx)
	if err == nil {
		err = other.Handshake(ctx)
	}
	if err != nil {
		rep.Violation(fmt.Sprintf("C06|stalled-peer|second-client|%s", kind), fmt.Sprint(err), nil)
		rep.Done()
		return
	}
	var cleanup []func()
	type scen struct {
		name string
		open func(reqs []stallReq) (*stalledPeer, error)
		get  bool
		huge int
	}
	var scens []scen
	switch {
	case kind == kit.LSSE:
		scens = append(scens, scen{"legacy-event-stream", func(q []stallReq) (*stalledPeer, error) { return openLegacy(in, q) }, false, 0})
	case kind == kit.Stdio:
		scens = append(scens, scen{"stdout", func(q []stallReq) (*stalledPeer, error) { return openStdio(in, q, &cleanup) }, false, 0})
	default:
		scens = append(scens, scen{"post-answers", func(q []stallReq) (*stalledPeer, error) { return openStreamable(in, kind, q, false) }, false, 96})
		if kind.Stateful() {
			scens = append(scens, scen{"listening-stream", func(q []stallReq) (*stalledPeer, error) { return openStreamable(in, kind, q, true) }, true, 0})
		}
	}
	nReq := 320
	phases := []int{1, 2}
	if thorough {
		nReq = 640
		phases = []int{1, 2, 4}
	}
	const tol = 4
	for _, sc := range scens {
		time.Sleep(100 * time.Millisecond)
		_ = leak.Settle(func() int { n, _ := leak.LibNow(); return n }, 2*time.Second)
		base, baseN := libIDs()
		var leakedAfter []int
		var lastLeft map[string]leak.G
		departed, built := 0, 0
		moving := false
		for ph, peers := range phases {
			rep.Progress(fmt.Sprintf("%s stalled %s phase=%d peers=%d", kind, sc.name, ph, peers))
			var ps []*stalledPeer
			sent := int64(0)
			for p := 0; p < peers; p++ {
				tag := fmt.Sprintf("st-%s-%d-%d", sc.name, ph, p)
				reqs := stallMix(r.Rand("c06-stalled-"+string(kind)+"-"+tag), tag, nReq, sc.get, sc.huge)
				sp, err := sc.open(reqs)
				if err != nil {
					rep.Inconclusive(fmt.Sprintf("%s: stalled peer (%s) could not be set up: %v", kind, sc.name, err))
					continue
				}
				ps = append(ps, sp)
			}
			if len(ps) == 0 {
				continue
			}
			before := len(lastLeft)
			parked := steady(base) - before
			for _, sp := range ps {
				sent += atomic.LoadInt64(&sp.sent)
			}
			rep.Eval(int(sent))
			rep.Count("stalled_requests_"+string(kind), sent)
			rep.Max("stalled_parked_"+string(kind)+"_"+sc.name, int64(parked))
			parkedBy, _ := byTop(newLib(base))
			// an independent well-formed client is served while the peers sit there
			if ok, why := patientCanary(ctx, other, fmt.Sprintf("stalled-%s-%d", sc.name, ph)); !ok {
				rep.Violation(fmt.Sprintf("C06|stalled-peer|%s|stream=%s|other-client-not-served-while-stalled", kind, sc.name),
					fmt.Sprintf("%s: %d peer(s) stopped reading their %s and sent %d requests; a well-formed call of an independent client was not answered: %s", kind, len(ps), sc.name, sent, why),
					map[string]interface{}{"parked_by_function": parkedBy})
			} else {
				rep.Count("canaries_ok", 1)
			}
			for i, sp := range ps {
				sp.disconnect((ph+i)%2 == 1)
			}
			departed += len(ps)
			left := drained(base, before+tol)
			lastLeft = left
			leakedAfter = append(leakedAfter, len(left))
			if parked >= 8 {
				built++
				rep.Distinct(fmt.Sprintf("stalled|%s|%s|peers=%d", kind, sc.name, peers))
			}
			rep.Sample(map[string]interface{}{"kind": kind, "scenario": "stalled-peer/" + sc.name, "phase_peers": peers, "requests_written": sent, "classes": len(ps[0].classes),
				"lib_goroutines_base": baseN, "parked_while_stalled": parked, "parked_by_function": parkedBy, "new_lib_goroutines_after_disconnect": len(left)})
			if ok, why := patientCanary(ctx, other, fmt.Sprintf("gone-%s-%d", sc.name, ph)); !ok {
				rep.Violation(fmt.Sprintf("C06|stalled-peer|%s|stream=%s|other-client-not-served-afterwards", kind, sc.name),
					fmt.Sprintf("%s: after %d stalled peer(s) disconnected a well-formed call of an independent client was not answered: %s", kind, departed, why), nil)
			}
		}
		if built == 0 {
			rep.Inconclusive(fmt.Sprintf("%s: no back-pressure could be built on %s (nothing was parked while the peers were stalled); the scenario observed nothing", kind, sc.name))
		}
		// judgement: goroutines that did not exist before, are still there after the peers left, and whose number
		// grows from phase to phase
		grows := len(leakedAfter) >= 2 && leakedAfter[0] > tol
		for i := 1; i < len(leakedAfter); i++ {
			if leakedAfter[i]-leakedAfter[i-1] <= tol {
				grows = false
			}
		}
		if grows {
			// the same goroutines, parked, in two more dumps
			time.Sleep(1500 * time.Millisecond)
			again := newLib(base)
			stuck := map[string]leak.G{}
			for id, g := range again {
				if old, ok := lastLeft[id]; ok && parkedState(g.State) && parkedState(old.State) {
					stuck[id] = g
				}
			}
			if len(again) != len(lastLeft) {
				moving = true
			}
			by, top := byTop(stuck)
			switch {
			case len(stuck) > tol*len(leakedAfter) && !moving:
				ex := ""
				for _, g := range stuck {
					ex = g.Raw
					break
				}
				rep.Violation(fmt.Sprintf("C06|stalled-peer|%s|stream=%s|goroutine-per-request-left-behind|%s", kind, sc.name, top),
					fmt.Sprintf("%s: peers that stopped reading their %s, sent %d requests each and disconnected with answers waiting: %v new goroutines with library frames are left after %v departed peers (cumulative per phase), %d of them parked for good", kind, sc.name, nReq, leakedAfter, phases, len(stuck)),
					map[string]interface{}{"left_after_each_phase": leakedAfter, "peers_per_phase": phases, "requests_per_peer": nReq, "by_function": by, "example_stack": bounded2(ex, 2500)})
			default:
				rep.Inconclusive(fmt.Sprintf("%s: %s: new library goroutines after the stalled peers left were %v but the set was still changing (%d -> %d, %d parked)", kind, sc.name, leakedAfter, len(lastLeft), len(again), len(stuck)))
			}
		} else {
			rep.Count("stalled_scenarios_clean_"+string(kind), 1)
		}
	}
	// afterwards: a fresh client connects and is served
	if fresh, err := in.Dial(ctx); err != nil {
		rep.Violation(fmt.Sprintf("C06|stalled-peer|%s|fresh-client-not-served", kind), err.Error(), nil)
	} else {
		hctx, hc := context.WithTimeout(ctx, 45*time.Second)
		err := fresh.Handshake(hctx)
		hc()
		if err != nil {
			rep.Violation(fmt.Sprintf("C06|stalled-peer|%s|fresh-client-not-served", kind), err.Error(), nil)
		} else if ok, why := patientCanary(ctx, fresh, "fresh-after-stalled"); !ok {
			rep.Violation(fmt.Sprintf("C06|stalled-peer|%s|fresh-client-not-served", kind), why, nil)
		} else {
			rep.Count("canaries_ok", 1)
		}
		fresh.Close()
	}
	if p := in.ErrLog.Panics(); len(p) > 0 {
		rep.Violation(fmt.Sprintf("C06|stalled-peer|panic-in-handler|%s|%s", kind, panicSite(in.ErrLog.String())), "net/http recovered a panic while serving: "+p[0], map[string]interface{}{"log": bounded(in.ErrLog.String())})
	}
	for _, f := range cleanup {
		f()
	}
	other.Close()
	in.Close()
	rep.Done()
}

func bounded2(s string, n int) string {
	if len(s) > n {
		return s[:n] + "..."
	}
	return s
}
