// C05, second half: server-issued requests that FAIL. "A request that times out, is cancelled or answered leaves
// nothing pending behind" and "the answer accepted for a server-issued request is the one posted by the session it was
// sent to" are statements about every way a request can end, not only about the answered one. The scenarios below
// drive ListRoots / SendRequest into every failure path of every server kind and judge three things only:
//
//	(1) a call that returns without an error returns an answer the addressed session posted for exactly this
//	    request (never another request's late answer, never another session's);
//	(2) once every call of a scenario has returned, the pending table (VerifPendingServerRequests) is empty;
//	(3) a following well-formed request on a session that is still alive and answering returns that session's roots.
//
// Time never decides: a call that has not returned after the watchdog makes the rest of the part inconclusive.
package main

import (
	"context"
	"encoding/json"
	"errors"
	"fmt"
	"io"
	"math"
	"strings"
	"sync"
	"sync/atomic"
	"time"

	mcp "trpc.group/trpc-go/trpc-mcp-go"

	"verifharness/lib/kit"
	"verifharness/lib/peer"
	"verifharness/lib/sched"
	"verifharness/lib/vh"
)

const (
	callWatchdog = 40 * time.Second // a call that has not returned by then: inconclusive
	seeWatchdog  = 15 * time.Second // a request frame that has not reached the peer by then: scenario not exercised
	followUpWait = 25 * time.Second // context of a request that is meant to succeed
)

// ---------------------------------------------------------------------------------------------------------------
// stdio peer with a stdout that can stop being read

type gatedWriter struct {
	mu     sync.Mutex
	cond   *sync.Cond
	paused bool
	w      io.Writer
}

func (g *gatedWriter) Write(p []byte) (int, error) {
	g.mu.Lock()
	for g.paused {
		g.cond.Wait()
	}
	g.mu.Unlock()
	return g.w.Write(p)
}

func (g *gatedWriter) set(paused bool) {
	g.mu.Lock()
	g.paused = paused
	g.cond.Broadcast()
	g.mu.Unlock()
}

type stdioPeer struct {
	stdin  *io.PipeWriter
	gw     *gatedWriter
	rec    *peer.Recorder
	log    *kit.FrameLog
	cancel context.CancelFunc
	served chan error
	wmu    sync.Mutex
}

func dialStdio(in *kit.Instance) *stdioPeer {
	pr, pw := io.Pipe()
	sp := &stdioPeer{stdin: pw, rec: peer.NewRecorder(), log: kit.NewFrameLog(), served: make(chan error, 1)}
	sp.gw = &gatedWriter{w: sp.rec}
	sp.gw.cond = sync.NewCond(&sp.gw.mu)
	sctx, cancel := context.WithCancel(context.Background())
	sp.cancel = cancel
	go func() { sp.served <- in.ServeStdio(sctx, pr, sp.gw) }()
	go func() {
		i := 0
		for {
			ln, ok := sp.rec.Line(i, time.Hour)
			if !ok {
				select {
				case <-sctx.Done():
					sp.log.CloseLog()
					return
				default:
					time.Sleep(time.Millisecond)
					continue
				}
			}
			sp.log.Add("", string(ln), "")
			i++
		}
	}()
	return sp
}

func (sp *stdioPeer) writeLine(b []byte) error {
	sp.wmu.Lock()
	defer sp.wmu.Unlock()
	_, err := sp.stdin.Write(append(append([]byte{}, b...), '\n'))
	return err
}

func (sp *stdioPeer) closeStdin() { sp.stdin.Close() }

func (sp *stdioPeer) close() {
	sp.gw.set(false)
	sp.stdin.Close()
	select {
	case <-sp.served:
	case <-time.After(3 * time.Second):
	}
	sp.cancel()
	sp.rec.Close()
}

// ---------------------------------------------------------------------------------------------------------------
// reference peer: records every server-issued request it sees and answers it (or stays silent)

type seenReq struct {
	id       string // id as text (quotes stripped)
	rawID    string
	nonce    string
	posted   bool // this session posted an answer for it
	acked    bool // ... and the server acknowledged the post with a 2xx status (HTTP kinds)
	consumed bool // a call has returned this answer
}

type fpeer struct {
	e      *fenv
	name   string
	c      *kit.RawConn // HTTP kinds: posts; first listening stream
	sc     *kit.RawConn // connection holding the current listening stream
	sp     *stdioPeer
	sid    string
	silent atomic.Bool

	mu    sync.Mutex
	seen  map[string]*seenReq
	order []*seenReq

	lent    context.Context
	ready   chan struct{}
	release chan struct{}

	stop chan struct{}
	wg   sync.WaitGroup
	dead atomic.Bool

	askMu sync.Mutex
	ask   *askCall // cancelshapes.go: the request the "ask" tool is to issue with its own request context
}

func idText(raw json.RawMessage) string {
	s := kit.CanonID(raw)
	return strings.Trim(s, `"`)
}

func (p *fpeer) respond(log *kit.FrameLog, stop chan struct{}) {
	defer p.wg.Done()
	i := 0
	for {
		select {
		case <-stop:
			return
		default:
		}
		f, ok := log.WaitFor(i, 50*time.Millisecond, func(f kit.Frame) bool { return f.Idx >= i })
		if !ok {
			if log.Closed() {
				time.Sleep(5 * time.Millisecond)
			}
			continue
		}
		i = f.Idx + 1
		var m struct {
			ID     json.RawMessage `json:"id"`
			Method string          `json:"method"`
			Params struct {
				Nonce  string `json:"nonce"`
				Silent bool   `json:"silent"`
			} `json:"params"`
		}
		if json.Unmarshal([]byte(f.Data), &m) != nil || m.Method != "roots/list" || m.ID == nil {
			continue
		}
		sr := &seenReq{id: idText(m.ID), rawID: kit.CanonID(m.ID), nonce: m.Params.Nonce}
		p.mu.Lock()
		if _, dup := p.seen[sr.id]; dup {
			p.mu.Unlock()
			p.e.r.Violation(fmt.Sprintf("C05|%s|failed-request|duplicate-delivery", p.e.kind), fmt.Sprintf("%s: a server-issued request arrived twice on the session's stream", p.e.kind), map[string]interface{}{"id": sr.id})
			continue
		}
		p.seen[sr.id] = sr
		p.order = append(p.order, sr)
		p.mu.Unlock()
		p.e.r.Count("failed_part_requests_seen_by_peers", 1)
		if !p.silent.Load() && !m.Params.Silent {
			p.answer(sr, "")
		}
	}
}

// post sends one message from this session; status 0 on stdio.
func (p *fpeer) post(body []byte) int {
	if p.sp != nil {
		_ = p.sp.writeLine(body)
		return 0
	}
	ctx, cancel := context.WithTimeout(context.Background(), 30*time.Second)
	defer cancel()
	ex := p.c.Post(ctx, body, kit.PostOpts{NoWait: true})
	if ex.HTTP == nil {
		return 0
	}
	return ex.HTTP.Status
}

func answerBody(rawID, uri, name string) []byte {
	return []byte(fmt.Sprintf(`{"jsonrpc":"2.0","id":%s,"result":{"roots":[{"uri":"file:///%s","name":"%s"}]}}`, rawID, uri, name))
}

// answer posts this session's answer to a request it has seen.
func (p *fpeer) answer(sr *seenReq, tag string) {
	p.mu.Lock()
	sr.posted = true
	p.mu.Unlock()
	st := p.post(answerBody(sr.rawID, p.name, p.name+"#"+sr.id+tag))
	if st >= 200 && st < 300 {
		p.mu.Lock()
		sr.acked = true
		p.mu.Unlock()
	}
}

func (p *fpeer) nSeen() int {
	p.mu.Lock()
	defer p.mu.Unlock()
	return len(p.order)
}

// awaitSeen waits for the request frame of a call: by nonce, or (ListRoots carries none) the first frame without a
// nonce at position >= from.
func (p *fpeer) awaitSeen(from int, nonce string, d time.Duration) *seenReq {
	deadline := time.Now().Add(d)
	for {
		p.mu.Lock()
		for i := from; i < len(p.order); i++ {
			if p.order[i].nonce == nonce {
				sr := p.order[i]
				p.mu.Unlock()
				return sr
			}
		}
		p.mu.Unlock()
		if time.Now().After(deadline) {
			return nil
		}
		time.Sleep(500 * time.Microsecond)
	}
}

func (p *fpeer) unanswered(max int) []*seenReq {
	p.mu.Lock()
	defer p.mu.Unlock()
	var out []*seenReq
	for _, sr := range p.order {
		if !sr.posted && len(out) < max {
			out = append(out, sr)
		}
	}
	return out
}

func (p *fpeer) pauseRead() {
	switch {
	case p.sp != nil:
		p.sp.gw.set(true)
	case p.e.kind == kit.LSSE:
		p.c.PauseLegacy()
	default:
		p.sc.Get.Pause()
	}
}

func (p *fpeer) resumeRead() {
	switch {
	case p.sp != nil:
		p.sp.gw.set(false)
	case p.e.kind == kit.LSSE:
		p.c.ResumeLegacy()
	default:
		p.sc.Get.Resume()
	}
}

func (p *fpeer) log() *kit.FrameLog {
	if p.sp != nil {
		return p.sp.log
	}
	return p.sc.Log
}

// openStream opens (or re-opens) the Streamable listening stream of this session on a fresh connection.
func (p *fpeer) openStream() error {
	ctx := context.Background()
	c2, err := p.e.in.Dial(ctx)
	if err != nil {
		return err
	}
	c2.SessionID = p.sid
	if _, err := c2.OpenGet(ctx); err != nil {
		return err
	}
	p.sc = c2
	p.wg.Add(1)
	go p.respond(c2.Log, p.stop)
	return nil
}

func (p *fpeer) closeStream() {
	switch {
	case p.sp != nil:
		p.sp.closeStdin()
	case p.e.kind == kit.LSSE:
		p.c.Close()
	default:
		p.sc.Get.Close()
	}
}

func (p *fpeer) shutdown() {
	if p.dead.Swap(true) {
		return
	}
	close(p.release)
	close(p.stop)
	if p.sp != nil {
		p.sp.close()
	} else {
		if p.sc != nil && p.sc != p.c {
			p.sc.Close()
		}
		p.c.Close()
	}
	p.wg.Wait()
}

// ---------------------------------------------------------------------------------------------------------------
// environment: one server instance, its peers, the calls

type fenv struct {
	r    *vh.Run
	kind kit.Kind
	in   *kit.Instance
	ctl  *sched.Controller

	pmu   sync.Mutex
	peers map[string]*fpeer

	byMu     sync.RWMutex
	byPaused bool
	leaked   int // pending entries found at the previous checkpoint (reported there)
	stuck    atomic.Bool
	nonce    atomic.Int64
}

func (e *fenv) peerByName(n string) *fpeer {
	e.pmu.Lock()
	defer e.pmu.Unlock()
	return e.peers[n]
}

func newFenv(r *vh.Run, kind kit.Kind) *fenv {
	e := &fenv{r: r, kind: kind, in: kit.Start(kind, kit.Opts{}), peers: map[string]*fpeer{}}
	// "lend": the handler hands its context (which carries the session) to the harness and stays inside the call
	// until released, so that the harness can issue server requests inside that session with contexts of its choice.
	e.in.RegisterTool(mcp.NewTool("lend", mcp.WithString("peer")), func(ctx context.Context, req *mcp.CallToolRequest) (*mcp.CallToolResult, error) {
		name, _ := req.Params.Arguments["peer"].(string)
		p := e.peerByName(name)
		if p == nil {
			return mcp.NewTextResult("unknown peer"), nil
		}
		p.lent = ctx
		close(p.ready)
		select {
		case <-p.release:
		case <-ctx.Done():
		}
		return mcp.NewTextResult("lent"), nil
	})
	e.registerAsk()
	return e
}

func (e *fenv) newPeer(name string, withStream bool) *fpeer {
	ctx := context.Background()
	p := &fpeer{e: e, name: name, seen: map[string]*seenReq{}, ready: make(chan struct{}), release: make(chan struct{}), stop: make(chan struct{})}
	e.pmu.Lock()
	e.peers[name] = p
	e.pmu.Unlock()
	lend := []byte(fmt.Sprintf(`{"jsonrpc":"2.0","id":"lend-%s","method":"tools/call","params":{"name":"lend","arguments":{"peer":"%s"}}}`, name, name))
	if e.kind == kit.Stdio {
		p.sp = dialStdio(e.in)
		p.sid = "stdio"
		_ = p.sp.writeLine(kit.InitBody(`"init-0"`, ""))
		if _, ok := p.sp.log.WaitFor(0, 30*time.Second, func(f kit.Frame) bool {
			id, has, hasMethod := kit.FrameID(f.Data)
			return has && !hasMethod && id == `"init-0"`
		}); !ok {
			e.r.Fatal("stdio handshake: no answer to initialize")
		}
		_ = p.sp.writeLine([]byte(kit.InitializedBody))
		p.wg.Add(1)
		go p.respond(p.sp.log, p.stop)
		_ = p.sp.writeLine(lend)
	} else {
		c, err := e.in.Dial(ctx)
		if err != nil {
			e.r.Fatal("dial: %v", err)
		}
		if err := c.Handshake(ctx); err != nil {
			e.r.Fatal("handshake: %v", err)
		}
		p.c, p.sc, p.sid = c, c, c.SessionID
		if e.kind.IsStreamable() {
			if withStream {
				if _, err := c.OpenGet(ctx); err != nil {
					e.r.Fatal("GET: %v", err)
				}
			}
		}
		if !e.kind.IsStreamable() || withStream {
			p.wg.Add(1)
			go p.respond(c.Log, p.stop)
		}
		go func() {
			lctx, cancel := context.WithCancel(context.Background())
			go func() { <-p.release; time.Sleep(2 * time.Second); cancel() }()
			c.Post(lctx, lend, kit.PostOpts{NoWait: true})
		}()
	}
	select {
	case <-p.ready:
	case <-time.After(60 * time.Second):
		e.r.Fatal("%s: the lend tool was not entered within 60 s", e.kind)
	}
	return p
}

func (e *fenv) close() {
	e.pmu.Lock()
	var ps []*fpeer
	for _, p := range e.peers {
		ps = append(ps, p)
	}
	e.pmu.Unlock()
	for _, p := range ps {
		p.shutdown()
	}
	e.in.Close()
}

type callSpec struct {
	api    string // ListRoots | SendRequest
	sid    string
	params interface{}
	nonce  string
}

type outcome struct {
	cs    callSpec
	err   error
	names []string
	raw   string
}

func (e *fenv) newNonce() string { return fmt.Sprintf("fx-%s-%d", e.kind, e.nonce.Add(1)) }

func (e *fenv) sendSpec(p *fpeer, silent bool, pad int) callSpec {
	n := e.newNonce()
	params := map[string]interface{}{"nonce": n}
	if silent {
		params["silent"] = true
	}
	if pad > 0 {
		params["pad"] = strings.Repeat("P", pad)
	}
	return callSpec{api: "SendRequest", sid: p.sid, params: params, nonce: n}
}

func (e *fenv) do(ctx context.Context, scen string, cs callSpec) (o outcome) {
	o.cs = cs
	defer func() {
		if x := recover(); x != nil {
			o.err = fmt.Errorf("panic: %v", x)
			e.r.Violation(fmt.Sprintf("C05|%s|failed-request|%s|panic", e.kind, scen), fmt.Sprintf("%s: %s panicked: %v", e.kind, cs.api, x), nil)
		}
	}()
	switch cs.api {
	case "ListRoots":
		var res *mcp.ListRootsResult
		switch {
		case e.in.Server != nil:
			res, o.err = e.in.Server.ListRoots(ctx)
		case e.in.SSE != nil:
			res, o.err = e.in.SSE.ListRoots(ctx)
		default:
			res, o.err = e.in.Stdio.ListRoots(ctx)
		}
		if o.err == nil && res != nil {
			for _, rt := range res.Roots {
				o.names = append(o.names, rt.Name)
			}
		}
	default:
		req := &mcp.JSONRPCRequest{JSONRPC: "2.0", Params: cs.params}
		req.Method = "roots/list"
		var raw *json.RawMessage
		switch {
		case e.in.Server != nil:
			raw, o.err = e.in.Server.SendRequest(ctx, cs.sid, req)
		case e.in.SSE != nil:
			raw, o.err = e.in.SSE.SendRequest(ctx, cs.sid, req)
		default:
			raw, o.err = e.in.Stdio.SendRequest(ctx, req)
		}
		if o.err == nil && raw != nil {
			o.raw = string(*raw)
			if len(o.raw) > 300 {
				o.raw = o.raw[:300]
			}
			var res mcp.ListRootsResult
			if json.Unmarshal(*raw, &res) == nil {
				for _, rt := range res.Roots {
					o.names = append(o.names, rt.Name)
				}
			}
		}
	}
	return o
}

func (e *fenv) goDo(ctx context.Context, scen string, cs callSpec) <-chan outcome {
	ch := make(chan outcome, 1)
	go func() { ch <- e.do(ctx, scen, cs) }()
	return ch
}

func (e *fenv) await(scen string, ch <-chan outcome) (outcome, bool) {
	select {
	case o := <-ch:
		return o, true
	case <-time.After(callWatchdog):
		if !e.stuck.Swap(true) {
			e.r.Inconclusive(fmt.Sprintf("%s/%s: a server-issued request had not returned %v after its context ended; the rest of this part is not judged", e.kind, scen, callWatchdog))
		}
		return outcome{}, false
	}
}

// validSuccess: a call that returned without error must carry the answer the addressed session posted for exactly
// this request. wantID, when known, is the id the request was seen with on the session's stream.
func (e *fenv) validSuccess(scen string, p *fpeer, o outcome, wantID string) bool {
	bad := func(why string) bool {
		pn := "(no session)"
		if p != nil {
			pn = p.name
		}
		e.r.Violation(fmt.Sprintf("C05|%s|failed-request|%s|accepted-answer-not-the-sessions-answer-to-this-request", e.kind, scen),
			fmt.Sprintf("%s: %s in session %s returned %v without error, but %s", e.kind, o.cs.api, pn, o.names, why),
			map[string]interface{}{"api": o.cs.api, "session": pn, "returned": o.names, "raw": o.raw, "nonce": o.cs.nonce, "want_id": wantID})
		return false
	}
	if p == nil {
		return bad("there is no session that could have answered")
	}
	if len(o.names) != 1 {
		return bad("the result is not the one-root answer the session posts")
	}
	parts := strings.SplitN(o.names[0], "#", 3)
	if len(parts) < 2 || parts[0] != p.name {
		return bad("the answer was posted by another session")
	}
	p.mu.Lock()
	defer p.mu.Unlock()
	sr := p.seen[parts[1]]
	switch {
	case sr == nil:
		return bad("the session never saw a request with that id")
	case !sr.posted:
		return bad("the session never posted an answer for that id")
	case sr.nonce != o.cs.nonce:
		return bad("the answer belongs to a different request (nonce differs)")
	case wantID != "" && sr.id != wantID:
		return bad("the answer is the (late) answer to a different request of the session")
	case sr.consumed:
		return bad("the same answer was already returned to another call")
	}
	sr.consumed = true
	return true
}

// judgeFail judges a call issued on a failure path; it reports whether the call returned an error.
func (e *fenv) judgeFail(scen string, p *fpeer, o outcome, wantID string) bool {
	e.r.Eval(1)
	if o.err != nil {
		e.r.Count(fmt.Sprintf("failed_calls_%s", e.kind), 1)
		e.r.SetAdd("failure_texts_"+string(e.kind), errClass(o.err))
		return true
	}
	if e.validSuccess(scen, p, o, wantID) {
		e.r.Count(fmt.Sprintf("calls_on_failure_path_answered_anyway_%s", e.kind), 1)
	}
	return false
}

func errClass(err error) string {
	s := err.Error()
	for _, k := range []string{"queue full", "MessageChannel full", "context done while sending", "context canceled", "deadline exceeded", "no GET SSE connection", "listening stream closed",
		"session not found", "marshal", "serialize", "no session available", "client session", "request timeout", "failed to send request via SSE"} {
		if strings.Contains(s, k) {
			return k
		}
	}
	if len(s) > 60 {
		s = s[:60]
	}
	return s
}

func isFull(err error) bool { return err != nil && strings.Contains(err.Error(), "full") }

func (e *fenv) pauseBy() {
	if !e.byPaused {
		e.byMu.Lock()
		e.byPaused = true
	}
}

func (e *fenv) resumeBy() {
	if e.byPaused {
		e.byPaused = false
		e.byMu.Unlock()
	}
}

// checkpoint: every call of the scenario has returned (and the bystander is between two calls): nothing is pending.
func (e *fenv) checkpoint(scen string, exercised bool) {
	if e.stuck.Load() {
		return
	}
	was := e.byPaused
	e.pauseBy()
	n := mcp.VerifPendingServerRequests(e.in.Srv())
	if !was {
		e.resumeBy()
	}
	e.r.Eval(1)
	// entries left behind by an earlier scenario have been reported there: a scenario answers for its own only
	before := e.leaked
	e.leaked = n
	switch {
	case n > before:
		e.r.Violation(fmt.Sprintf("C05|%s|failed-request|%s|pending-table-not-empty", e.kind, scen),
			fmt.Sprintf("%s: %d server-issued request(s) still pending although every ListRoots / SendRequest call of scenario %q has returned", e.kind, n, scen),
			map[string]interface{}{"pending": n, "pending_before_scenario": before, "scenario": scen})
	case n != 0:
		e.r.Count("failure_scenarios_judged_on_top_of_earlier_leak", 1)
	case exercised:
		e.r.Distinct(fmt.Sprintf("failed-request|%s|%s", e.kind, scen))
		e.r.Count("failure_scenarios_with_empty_pending_table", 1)
	default:
		e.r.Count("failure_scenarios_not_exercised", 1)
		e.r.SetAdd("not_exercised", fmt.Sprintf("%s/%s", e.kind, scen))
	}
}

// followUp: a well-formed ListRoots on a live, answering session returns that session's roots.
func (e *fenv) followUp(scen string, p *fpeer) {
	if e.stuck.Load() {
		return
	}
	deadline := time.Now().Add(20 * time.Second)
	for {
		from := p.nSeen()
		ctx, cancel := context.WithTimeout(p.lent, followUpWait)
		o, ok := e.await(scen, e.goDo(ctx, scen, callSpec{api: "ListRoots", sid: p.sid}))
		cancel()
		if !ok {
			return
		}
		if isFull(o.err) && time.Now().Before(deadline) {
			// the outgoing queue is still draining: a refusal, not a failure of the session
			time.Sleep(20 * time.Millisecond)
			continue
		}
		e.judgeLive(scen, p, o, from, "")
		return
	}
}

// judgeLive judges a request that is meant to succeed.
func (e *fenv) judgeLive(scen string, p *fpeer, o outcome, from int, wantID string) {
	e.r.Eval(1)
	if o.err == nil {
		if e.validSuccess(scen, p, o, wantID) {
			e.r.Count(fmt.Sprintf("well_formed_requests_answered_%s", e.kind), 1)
			e.r.Distinct(fmt.Sprintf("follow-up-ok|%s|%s", e.kind, scen))
		}
		return
	}
	slow := errors.Is(o.err, context.DeadlineExceeded) || errors.Is(o.err, context.Canceled) || strings.Contains(o.err.Error(), "timeout") || isFull(o.err)
	if slow {
		// only a corroborated failure counts: the session's answer was acknowledged by the server and the call failed all the same
		sr := p.awaitSeen(from, o.cs.nonce, 0)
		acked := false
		if sr != nil {
			p.mu.Lock()
			acked = sr.acked
			p.mu.Unlock()
		}
		if !acked {
			e.r.Inconclusive(fmt.Sprintf("%s/%s: a well-formed request ended with %q before the session's answer was acknowledged (load?)", e.kind, scen, errClass(o.err)))
			return
		}
	}
	e.r.Violation(fmt.Sprintf("C05|%s|failed-request|%s|following-request-failed", e.kind, scen),
		fmt.Sprintf("%s: a well-formed %s in live session %s failed after scenario %q: %v", e.kind, o.cs.api, p.name, scen, o.err),
		map[string]interface{}{"error": o.err.Error(), "session": p.name})
}

// bystander: another session keeps asking for its roots while the victim's requests fail.
func (e *fenv) bystander(q *fpeer, stop chan struct{}, done *sync.WaitGroup) {
	defer done.Done()
	for {
		select {
		case <-stop:
			return
		default:
		}
		e.byMu.RLock()
		if !e.stuck.Load() {
			from := q.nSeen()
			ctx, cancel := context.WithTimeout(q.lent, followUpWait)
			o := e.do(ctx, "bystander", callSpec{api: "ListRoots", sid: q.sid})
			cancel()
			e.judgeLive("bystander", q, o, from, "")
		}
		e.byMu.RUnlock()
		time.Sleep(3 * time.Millisecond)
	}
}

// ---------------------------------------------------------------------------------------------------------------
// scenarios

// ctxAlreadyDone: the context is cancelled / past its deadline before the call. Where the send path selects between
// a ready queue and a done context the outcome is random, hence many repetitions.
func (e *fenv) ctxAlreadyDone(p *fpeer, n int) {
	const scen = "ctx-already-done"
	errs := 0
	for i := 0; i < n && !e.stuck.Load(); i++ {
		var ctx context.Context
		var cancel context.CancelFunc
		if i%3 == 2 {
			ctx, cancel = context.WithDeadline(p.lent, time.Now().Add(-time.Second))
		} else {
			ctx, cancel = context.WithCancel(p.lent)
			cancel()
		}
		cs := callSpec{api: "ListRoots", sid: p.sid}
		if i%2 == 1 {
			cs = e.sendSpec(p, false, 0)
		}
		o, ok := e.await(scen, e.goDo(ctx, scen, cs))
		cancel()
		if !ok {
			return
		}
		if e.judgeFail(scen, p, o, "") {
			errs++
		}
	}
	e.r.Count(fmt.Sprintf("ctx_already_done_errors_%s", e.kind), int64(errs))
	e.checkpoint(scen, errs > 0)
	e.followUp(scen, p)
}

// duringWrite: the context is cancelled while the request is half written.
func (e *fenv) duringWrite(p *fpeer, reps int) {
	const scen = "cancelled-while-being-written"
	var points []string
	switch {
	case e.kind == kit.Stdio:
		points = []string{"stdio.write.mid"}
	case e.kind.IsStreamable():
		points = []string{"sse.write.afterid", "sse.write.beforeterm"}
	default:
		return // the legacy writer has no yield point; see backPressure (cancelled while queued behind a stalled stream)
	}
	e.pauseBy()
	defer e.resumeBy()
	reached := 0
	for rep := 0; rep < reps && !e.stuck.Load(); rep++ {
		for _, pt := range points {
			for api := 0; api < 2; api++ {
				cs := callSpec{api: "ListRoots", sid: p.sid}
				if api == 1 {
					cs = e.sendSpec(p, false, 0)
				}
				e.ctl.Hold(pt)
				ctx, cancel := context.WithCancel(p.lent)
				ch := e.goDo(ctx, scen, cs)
				ok := e.ctl.AwaitWaiting(pt, 1, seeWatchdog) >= 1
				cancel()
				var o outcome
				got := false
				if ok {
					reached++
					// an implementation may or may not return before the write completes
					select {
					case o = <-ch:
						got = true
						e.r.Count("returned_while_write_was_held", 1)
					case <-time.After(300 * time.Millisecond):
					}
				}
				e.ctl.Release(pt)
				if !got {
					if o, got = e.await(scen, ch); !got {
						return
					}
				}
				e.judgeFail(scen, p, o, "")
			}
		}
	}
	e.r.Count(fmt.Sprintf("cancelled_mid_write_%s", e.kind), int64(reached))
	e.checkpoint(scen, reached > 0)
	e.followUp(scen, p)
}

// whileWaiting: the request has reached the peer, which does not answer; the context is cancelled / runs out. Then
// the answer arrives late — while the next request of the same session is pending.
func (e *fenv) whileWaiting(p, other *fpeer, n int) {
	exercised := map[string]int{}
	for i := 0; i < n && !e.stuck.Load(); i++ {
		scen := "cancelled-while-waiting"
		if i%2 == 1 {
			scen = "deadline-while-waiting"
		}
		p.silent.Store(true)
		cs := callSpec{api: "ListRoots", sid: p.sid}
		if (i/2)%2 == 1 {
			cs = e.sendSpec(p, false, 0)
		}
		from := p.nSeen()
		var ctx context.Context
		var cancel context.CancelFunc
		if i%2 == 1 {
			ctx, cancel = context.WithTimeout(p.lent, 30*time.Millisecond)
		} else {
			ctx, cancel = context.WithCancel(p.lent)
		}
		ch := e.goDo(ctx, scen, cs)
		x := p.awaitSeen(from, cs.nonce, seeWatchdog)
		cancel2 := cancel
		if i%2 == 0 {
			cancel()
		}
		o, ok := e.await(scen, ch)
		cancel2()
		if !ok {
			p.silent.Store(false)
			return
		}
		if e.judgeFail(scen, p, o, "") && x != nil {
			exercised[scen]++
		}
		if x == nil {
			p.silent.Store(false)
			continue
		}
		// the next request Y is pending when X's answer finally arrives (from the session, and a copy from another one)
		ys := callSpec{api: "ListRoots", sid: p.sid}
		if (i/2)%2 == 0 {
			ys = e.sendSpec(p, false, 0)
		}
		fromY := p.nSeen()
		yctx, ycancel := context.WithTimeout(p.lent, followUpWait)
		ych := e.goDo(yctx, scen, ys)
		y := p.awaitSeen(fromY, ys.nonce, seeWatchdog)
		p.answer(x, "#LATE")
		if other != nil {
			other.post(answerBody(x.rawID, other.name, "FORGED-BY-"+other.name+"#"+x.id))
		}
		e.r.Count("late_answers_posted", 1)
		p.silent.Store(false)
		wantY := ""
		if y != nil {
			wantY = y.id
			p.answer(y, "")
		}
		oy, ok := e.await(scen, ych)
		ycancel()
		if !ok {
			return
		}
		e.judgeLive(scen+"+late-answer", p, oy, fromY, wantY)
	}
	p.silent.Store(false)
	for _, scen := range []string{"cancelled-while-waiting", "deadline-while-waiting"} {
		e.checkpoint(scen, exercised[scen] > 0)
	}
}

// badParams: the request cannot be encoded.
func (e *fenv) badParams(p *fpeer, reps int) {
	const scen = "params-not-encodable"
	errs := 0
	for i := 0; i < reps && !e.stuck.Load(); i++ {
		for _, bad := range []interface{}{
			map[string]interface{}{"nonce": "bad", "c": make(chan int)},
			map[string]interface{}{"nonce": "bad", "f": math.NaN()},
			map[string]interface{}{"nonce": "bad", "fn": func() {}},
			[]interface{}{math.Inf(1)},
		} {
			ctx, cancel := context.WithTimeout(p.lent, 150*time.Millisecond)
			o, ok := e.await(scen, e.goDo(ctx, scen, callSpec{api: "SendRequest", sid: p.sid, params: bad, nonce: "bad"}))
			cancel()
			if !ok {
				return
			}
			if e.judgeFail(scen, p, o, "") {
				errs++
			}
		}
	}
	e.checkpoint(scen, errs > 0)
	e.followUp(scen, p)
}

// unknownSession: no such session / no session in the context.
func (e *fenv) unknownSession(p *fpeer, reps int) {
	const scen = "unknown-session"
	errs := 0
	for i := 0; i < reps && !e.stuck.Load(); i++ {
		var calls []struct {
			ctx context.Context
			cs  callSpec
		}
		add := func(ctx context.Context, cs callSpec) {
			calls = append(calls, struct {
				ctx context.Context
				cs  callSpec
			}{ctx, cs})
		}
		add(context.Background(), callSpec{api: "ListRoots"}) // no session in the context
		cs := e.sendSpec(p, false, 0)
		if e.kind == kit.Stdio {
			add(context.Background(), cs) // SendRequest without a session
		} else {
			cs.sid = fmt.Sprintf("no-such-session-%d", i)
			add(p.lent, cs)
			cs2 := e.sendSpec(p, false, 0)
			cs2.sid = ""
			add(context.Background(), cs2)
		}
		for _, c := range calls {
			ctx, cancel := context.WithTimeout(c.ctx, 300*time.Millisecond)
			o, ok := e.await(scen, e.goDo(ctx, scen, c.cs))
			cancel()
			if !ok {
				return
			}
			if e.judgeFail(scen, nil, o, "") {
				errs++
			}
		}
	}
	e.checkpoint(scen, errs > 0)
	e.followUp(scen, p)
}

// noStream: a Streamable session that has not opened its listening stream.
func (e *fenv) noStream(reps int) {
	const scen = "no-listening-stream"
	if !e.kind.IsStreamable() {
		return
	}
	v := e.newPeer("nostream", false)
	errs := 0
	for i := 0; i < reps && !e.stuck.Load(); i++ {
		cs := callSpec{api: "ListRoots", sid: v.sid}
		if i%2 == 1 {
			cs = e.sendSpec(v, false, 0)
		}
		ctx, cancel := context.WithTimeout(v.lent, 300*time.Millisecond)
		o, ok := e.await(scen, e.goDo(ctx, scen, cs))
		cancel()
		if !ok {
			return
		}
		if e.judgeFail(scen, v, o, "") {
			errs++
		}
	}
	e.checkpoint(scen, errs > 0)
	if err := v.openStream(); err != nil {
		e.r.Inconclusive(fmt.Sprintf("%s/%s: the listening stream could not be opened afterwards: %v", e.kind, scen, err))
		return
	}
	e.followUp(scen, v)
}

// endedMidRequest: while a request is pending the peer closes its listening stream (legacy: that ends the session;
// stdio: stdin reaches EOF) or deletes the session (Streamable DELETE).
func (e *fenv) endedMidRequest(how string, rounds int, reuse *fpeer) {
	scen := "stream-closed-by-peer-mid-request"
	if how == "delete" {
		scen = "session-deleted-mid-request"
	}
	exercised := 0
	var v *fpeer
	for i := 0; i < rounds && !e.stuck.Load(); i++ {
		switch {
		case reuse != nil:
			v = reuse
		case v == nil || how == "delete" || e.kind == kit.LSSE:
			v = e.newPeer(fmt.Sprintf("v-%s-%d", how, i), true)
		}
		v.silent.Store(true)
		cs := callSpec{api: "ListRoots", sid: v.sid}
		if i%2 == 1 {
			cs = e.sendSpec(v, false, 0)
		}
		from := v.nSeen()
		ctx, cancel := context.WithTimeout(v.lent, followUpWait)
		ch := e.goDo(ctx, scen, cs)
		x := v.awaitSeen(from, cs.nonce, seeWatchdog)
		if x != nil {
			exercised++
			if how == "delete" {
				st := 0
				dctx, dcancel := context.WithTimeout(context.Background(), 30*time.Second)
				if ex := v.c.Post(dctx, nil, kit.PostOpts{Method: "DELETE", NoWait: true}); ex.HTTP != nil {
					st = ex.HTTP.Status
				}
				dcancel()
				e.r.SetAdd("delete_status", fmt.Sprint(st))
			} else {
				v.closeStream()
			}
			if (i/2)%2 == 0 {
				// the session answers all the same, after the end of its stream / session: whether the answer still
				// counts is left open; what is returned must be this answer or an error
				v.answer(x, "")
			}
		}
		v.silent.Store(false)
		cancel()
		o, ok := e.await(scen, ch)
		if !ok {
			return
		}
		wantID := ""
		if x != nil {
			wantID = x.id
		}
		e.judgeFail(scen, v, o, wantID)
		if x == nil {
			continue
		}
		// requests after the end
		if how == "delete" || e.kind != kit.SJSON && e.kind != kit.SSSE {
			for k := 0; k < 2; k++ {
				cs := callSpec{api: "ListRoots", sid: v.sid}
				if k == 1 {
					cs = e.sendSpec(v, false, 0)
				}
				ctx, cancel := context.WithTimeout(v.lent, 300*time.Millisecond)
				o, ok := e.await(scen, e.goDo(ctx, scen, cs))
				cancel()
				if !ok {
					return
				}
				e.judgeFail(scen, v, o, "")
			}
			e.checkpoint(scen, true)
			continue
		}
		// Streamable, stream closed: the session lives on; with a new listening stream it is served again
		e.checkpoint(scen, true)
		if err := v.openStream(); err != nil {
			e.r.Inconclusive(fmt.Sprintf("%s/%s: the listening stream could not be re-opened: %v", e.kind, scen, err))
			return
		}
		e.followUp(scen, v)
	}
	if exercised == 0 {
		e.checkpoint(scen, false)
	}
}

// backPressure: the peer stops reading its stream. Legacy / stdio: the session's outgoing queue fills up and the
// send is refused; Streamable: the write itself stalls until the peer reads again.
func (e *fenv) backPressure(p *fpeer, depth int) {
	const scen = "peer-not-reading"
	p.silent.Store(true)
	defer p.silent.Store(false)
	exercised := false
	if e.kind.IsStreamable() {
		p.pauseRead()
		g := depth
		chs := make([]<-chan outcome, g)
		cancels := make([]context.CancelFunc, g)
		for i := 0; i < g; i++ {
			var ctx context.Context
			ctx, cancels[i] = context.WithTimeout(p.lent, 100*time.Millisecond)
			cs := e.sendSpec(p, true, 1<<20)
			if i%4 == 3 {
				cs = callSpec{api: "ListRoots", sid: p.sid}
			}
			chs[i] = e.goDo(ctx, scen, cs)
		}
		time.Sleep(500 * time.Millisecond)
		outs := make([]*outcome, g)
		stalled := 0
		for i := range chs {
			select {
			case o := <-chs[i]:
				outs[i] = &o
			default:
				stalled++
			}
		}
		p.resumeRead()
		for i := range chs {
			if outs[i] == nil {
				o, ok := e.await(scen, chs[i])
				if !ok {
					return
				}
				outs[i] = &o
			}
			cancels[i]()
		}
		for _, o := range outs {
			e.judgeFail(scen, p, *o, "")
		}
		e.r.Count("streamable_calls_stalled_in_write_until_peer_read_again", int64(stalled))
		exercised = stalled > 0
	} else {
		p.pauseRead()
		pad, tries := 256<<10, 900
		if e.kind == kit.Stdio {
			pad, tries = 64, 400
		}
		full := 0
		for i := 0; i < tries && full < 5 && !e.stuck.Load(); i++ {
			ctx, cancel := context.WithTimeout(p.lent, 3*time.Millisecond)
			o, ok := e.await(scen, e.goDo(ctx, scen, e.sendSpec(p, true, pad)))
			cancel()
			if !ok {
				p.resumeRead()
				return
			}
			e.judgeFail(scen, p, o, "")
			if isFull(o.err) {
				full++
			}
		}
		// with the queue full: requests with a live context
		for i := 0; i < depth && !e.stuck.Load(); i++ {
			cs := callSpec{api: "ListRoots", sid: p.sid}
			if i%2 == 1 {
				cs = e.sendSpec(p, true, 0)
			}
			ctx, cancel := context.WithTimeout(p.lent, 200*time.Millisecond)
			o, ok := e.await(scen, e.goDo(ctx, scen, cs))
			cancel()
			if !ok {
				p.resumeRead()
				return
			}
			e.judgeFail(scen, p, o, "")
			if isFull(o.err) {
				full++
			}
		}
		e.r.Count(fmt.Sprintf("refused_queue_full_%s", e.kind), int64(full))
		exercised = full > 0
		p.resumeRead()
		if e.kind == kit.LSSE {
			// answers wait for queue space: once this ping is answered everything queued before it has been written
			fid := fmt.Sprintf(`"drain-%d"`, e.nonce.Add(1))
			from := p.log().Len()
			p.post([]byte(`{"jsonrpc":"2.0","id":` + fid + `,"method":"ping"}`))
			p.log().WaitFor(from, 30*time.Second, func(f kit.Frame) bool {
				id, has, hasMethod := kit.FrameID(f.Data)
				return has && !hasMethod && id == fid
			})
		}
	}
	// the requests abandoned above reach the peer now; it answers some of them, far too late
	time.Sleep(50 * time.Millisecond)
	late := p.unanswered(25)
	for _, sr := range late {
		p.answer(sr, "#LATE")
	}
	e.r.Count("late_answers_posted", int64(len(late)))
	p.silent.Store(false)
	e.checkpoint(scen, exercised)
	e.followUp(scen, p)
}

// storm: all of the above at once, from several goroutines, against one session.
func (e *fenv) storm(p *fpeer, workers, iters int) {
	const scen = "concurrent-mix"
	var wg sync.WaitGroup
	var errs atomic.Int64
	for w := 0; w < workers; w++ {
		wg.Add(1)
		go func(w int) {
			defer wg.Done()
			rng := e.r.Rand(fmt.Sprintf("c05-storm-%s-%d", e.kind, w))
			for i := 0; i < iters && !e.stuck.Load(); i++ {
				op := rng.Intn(8)
				var ctx context.Context
				var cancel context.CancelFunc
				cs := e.sendSpec(p, false, 0)
				vp := p
				live := false
				switch op {
				case 0:
					ctx, cancel = context.WithCancel(p.lent)
					cancel()
					cs = callSpec{api: "ListRoots", sid: p.sid}
				case 1:
					ctx, cancel = context.WithCancel(p.lent)
					cancel()
				case 2:
					ctx, cancel = context.WithDeadline(p.lent, time.Now().Add(-time.Millisecond))
				case 3:
					cs = e.sendSpec(p, true, rng.Intn(4)*4096)
					ctx, cancel = context.WithTimeout(p.lent, time.Duration(1+rng.Intn(5))*time.Millisecond)
				case 4:
					cs = callSpec{api: "SendRequest", sid: p.sid, nonce: "bad", params: map[string]interface{}{"nonce": "bad", "c": make(chan int)}}
					ctx, cancel = context.WithTimeout(p.lent, 50*time.Millisecond)
				case 5:
					ctx, cancel = context.WithTimeout(p.lent, 100*time.Millisecond)
					if e.kind == kit.Stdio {
						ctx, cancel = context.WithTimeout(context.Background(), 100*time.Millisecond)
					} else {
						cs.sid = "nobody"
					}
					vp = nil
				case 6:
					live = true
					ctx, cancel = context.WithTimeout(p.lent, followUpWait)
				case 7:
					cs = e.sendSpec(p, true, 0)
					ctx, cancel = context.WithCancel(p.lent)
				}
				from := p.nSeen()
				ch := e.goDo(ctx, scen, cs)
				if op == 7 {
					if sr := p.awaitSeen(from, cs.nonce, seeWatchdog); sr != nil && rng.Intn(2) == 0 {
						// answer and cancel race
						go p.answer(sr, "")
					}
					cancel()
				}
				o, ok := e.await(scen, ch)
				cancel()
				if !ok {
					return
				}
				if live {
					e.judgeLive(scen, p, o, from, "")
				} else if e.judgeFail(scen, vp, o, "") {
					errs.Add(1)
				}
			}
		}(w)
	}
	wg.Wait()
	e.checkpoint(scen, errs.Load() > 0)
	e.followUp(scen, p)
}

// failures runs every scenario against one server kind.
func failures(r *vh.Run, kind kit.Kind) {
	e := newFenv(r, kind)
	defer e.close()
	e.ctl = sched.New(90*time.Second, r.Seed)
	e.ctl.Install()
	defer sched.Uninstall()

	p := e.newPeer("victim", true)
	var other *fpeer
	stop := make(chan struct{})
	var by sync.WaitGroup
	if kind != kit.Stdio {
		other = e.newPeer("bystander", true)
		by.Add(1)
		go e.bystander(other, stop, &by)
	}
	defer func() {
		e.resumeBy()
		close(stop)
		by.Wait()
	}()
	time.Sleep(50 * time.Millisecond) // legacy: notifications/initialized is processed asynchronously

	e.ctxAlreadyDone(p, r.Pick(90, 1500))
	e.duringWrite(p, r.Pick(3, 40))
	e.whileWaiting(p, other, r.Pick(8, 120))
	e.cancelShapes(p, r.Pick(1, 5))
	e.badParams(p, r.Pick(3, 40))
	e.unknownSession(p, r.Pick(3, 40))
	e.storm(p, r.Pick(4, 8), r.Pick(40, 500))
	e.noStream(r.Pick(6, 60))
	e.backPressure(p, r.Pick(24, 64))
	if kind.IsStreamable() {
		e.endedMidRequest("close", r.Pick(4, 24), nil)
		e.endedMidRequest("delete", r.Pick(4, 24), nil)
	} else if kind == kit.LSSE {
		e.endedMidRequest("close", r.Pick(4, 24), nil)
	}
	// the victim's own stream ends last (stdio: this ends the only session)
	if kind != kit.SJSON && kind != kit.SSSE {
		e.endedMidRequest("close", 1, p)
	}
	if e.ctl.GaveUp() > 0 {
		r.Count("yield_holds_given_up", int64(e.ctl.GaveUp()))
	}
	r.Sample(map[string]interface{}{"part": "failed-requests", "kind": kind, "stuck": e.stuck.Load()})
}
