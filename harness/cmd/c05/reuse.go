// C05, fourth part: WHAT is delivered is the value AT THE TIME OF THE SEND CALL. "A notification sent to a session ... is
// delivered once, in sending order, on that session's stream and on no other session's" — the notification that was sent
// is the method and the params the caller handed over when the send call was made; once the call has returned the caller
// owns its arguments again and may reuse them. An application that keeps ONE params map, fills it for recipient A, sends,
// refills it for recipient B and sends again must find A's payload on A's stream and B's on B's — also when the addressed
// session's outgoing pump (legacy SSE: notification channel + pump goroutine; stdio: notification channel + writer
// goroutine) gets round to encoding A's notification only after the map has been rewritten.
//
// Workload: 1-3 "application" goroutines, each with ONE params map, send through every public sending path of the server
// kind to 1-6 sessions (alternating between sessions, staying on one session, or at random). The map is (re)filled before
// every send and scribbled over immediately after the call has returned: TOP-LEVEL keys only are replaced / added /
// deleted (the library copies the top level of the map, not the values; nested maps / slices are always fresh values and
// never written to after they were handed over). Reader regimes: prompt (pump idle), slow, paused-then-resumed, and
// "gate" (legacy SSE / stdio: the notification at the head of every session's queue carries a value whose MarshalJSON
// blocks until the whole batch has been sent and scribbled over — the pump is provably busy).
//
// Oracle, per session stream: every frame of the method is, by its nonce, one of the sends; it was addressed to this
// session; its params are equal (as JSON values) to the snapshot of the map taken right before the call; every send that
// returned nil arrives exactly once on every session it addressed, the ones of one (application, session) in sending
// order. A payload addressed to another session, a missing one, a duplicated one, or one that was never the argument of
// a call (the scribble) is a violation.
package main

import (
	"context"
	"crypto/sha256"
	"encoding/hex"
	"encoding/json"
	"fmt"
	"sort"
	"strings"
	"sync"
	"sync/atomic"
	"time"

	mcp "trpc.group/trpc-go/trpc-mcp-go"

	"verifharness/lib/kit"
	"verifharness/lib/vh"
)

const reuseMethod = "notifications/reuse"

// rGate: a params value whose encoding blocks until released (keeps an asynchronous pump busy, deterministically).
type rGate struct {
	once    sync.Once
	entered chan struct{}
	release chan struct{}
}

func newRGate() *rGate { return &rGate{entered: make(chan struct{}), release: make(chan struct{})} }

func (g *rGate) MarshalJSON() ([]byte, error) {
	g.once.Do(func() { close(g.entered) })
	<-g.release
	return []byte(`"gate"`), nil
}

type rSend struct {
	nonce   string
	api     string
	app     int
	seq     int
	targets map[int]bool // sessions the send addressed
	snap    string       // digest of the canonical JSON of the params at call time
	snapS   string       // bounded copy for witnesses
	err     string
	count   int // broadcast / filtered: reported number of sessions reached
}

func canonDigest(v interface{}) (digest, short string) {
	b, err := json.Marshal(v)
	if err != nil {
		return "unencodable:" + err.Error(), ""
	}
	h := sha256.Sum256(b)
	s := string(b)
	if len(s) > 400 {
		s = s[:400] + "…"
	}
	return hex.EncodeToString(h[:]), s
}

type rCfg struct {
	sessions int
	apps     int
	n        int    // sends per application
	pattern  string // alternate | same | random
	reader   string // prompt | slow | paused | gate
	bigEvery int    // every k-th send carries a 64 KiB top-level value (0: never)
	meta     bool   // every 3rd send carries a plain-map "_meta" (a fresh map each time)
	plain    bool   // the application only refills its map for the next send (no scribbling in between)
}

func (c rCfg) key(kind kit.Kind) string {
	return fmt.Sprintf("reuse|%s|sessions=%d|apps=%d|n=%d|%s|reader=%s|big=%d|meta=%v|%s", kind, c.sessions, c.apps, c.n, c.pattern, c.reader, c.bigEvery, c.meta, map[bool]string{true: "refill-only", false: "scribble+refill"}[c.plain])
}

// rPeer: a pressure peer plus the legacy session's notification channel (lent by a handler).
type rPeer struct {
	*pPeer
	lch chan<- *mcp.JSONRPCNotification // legacy SSE: the session's NotificationChannel()
}

func reusePeers(r *vh.Run, kind kit.Kind, n int) ([]*rPeer, func()) {
	pp, closeAll := pressPeers(r, kind, n)
	out := make([]*rPeer, len(pp))
	for i, p := range pp {
		out[i] = &rPeer{pPeer: p}
	}
	if kind == kit.LSSE {
		var mu sync.Mutex
		chans := map[string]chan<- *mcp.JSONRPCNotification{}
		pp[0].in.RegisterTool(mcp.NewTool("rlend"), func(ctx context.Context, req *mcp.CallToolRequest) (*mcp.CallToolResult, error) {
			if s, ok := mcp.GetSessionFromContext(ctx); ok {
				if nc, ok := s.(interface {
					NotificationChannel() chan<- *mcp.JSONRPCNotification
				}); ok {
					mu.Lock()
					chans[s.GetID()] = nc.NotificationChannel()
					mu.Unlock()
				}
			}
			return mcp.NewTextResult("lent"), nil
		})
		for _, p := range out {
			id := fmt.Sprintf(`"rlend-%s"`, p.name)
			p.c.Post(context.Background(), []byte(fmt.Sprintf(`{"jsonrpc":"2.0","id":%s,"method":"tools/call","params":{"name":"rlend","arguments":{}}}`, id)), kit.PostOpts{WantID: id, Wait: 30 * time.Second})
			mu.Lock()
			p.lch = chans[p.sid]
			mu.Unlock()
			if p.lch == nil {
				closeAll()
				r.Fatal("reuse: legacy SSE: the handler context of session %s carries no session with a notification channel", p.name)
			}
		}
	}
	return out, closeAll
}

func reuseAPIs(kind kit.Kind) []string {
	switch {
	case kind.IsStreamable():
		return []string{"Server.SendNotification", "Server.BroadcastNotification", "Server.SendFilteredNotification", "Server.SendNotification"}
	case kind == kit.LSSE:
		return []string{"SSEServer.SendNotification", "session.NotificationChannel<-NewJSONRPCNotificationFromMap", "SSEServer.SendNotification", "NewJSONRPCNotificationFromMap;rewrite;session.NotificationChannel<-"}
	default:
		return []string{"session.NotificationChannel<-NewJSONRPCNotificationFromMap", "NewJSONRPCNotificationFromMap;rewrite;session.NotificationChannel<-"}
	}
}

// rFill rewrites the ONE map for send (app, i) addressed to `forName`: top-level keys only.
func rFill(params map[string]interface{}, cfg rCfg, nonce, forName string, app, i int) {
	for k := range params {
		if strings.HasPrefix(k, "opt") || k == "pad" || k == "_meta" || k == "scribbled" {
			delete(params, k)
		}
	}
	params["nonce"] = nonce
	params["for"] = forName
	params["seq"] = i
	params["app"] = app
	params[fmt.Sprintf("opt%d", i%3)] = fmt.Sprintf("v-%d-%d", app, i)
	params["nested"] = map[string]interface{}{"n": nonce, "for": forName} // a fresh value, never written to afterwards
	params["list"] = []interface{}{i, forName}
	if cfg.bigEvery > 0 && i%cfg.bigEvery == cfg.bigEvery-1 {
		params["pad"] = pressPad
	}
	if cfg.meta && i%3 == 1 {
		params["_meta"] = map[string]interface{}{"progressToken": nonce}
	}
}

// rScribble: what an application is free to do with its own map once the send call has returned.
func rScribble(params map[string]interface{}, app, i int) {
	params["nonce"] = fmt.Sprintf("scribble-%d-%d", app, i)
	params["for"] = "nobody"
	delete(params, "seq")
	delete(params, fmt.Sprintf("opt%d", i%3))
	delete(params, "pad")
	delete(params, "_meta")
	params["nested"] = "gone"
	params["list"] = nil
	params["scribbled"] = true
}

func (p *rPeer) queue(n *mcp.JSONRPCNotification) error {
	if p.lch != nil {
		select {
		case p.lch <- n:
			return nil
		default:
			return fmt.Errorf("notification channel full")
		}
	}
	select {
	case p.nch <- *n:
		return nil
	default:
		return fmt.Errorf("notification channel full")
	}
}

// rNotify sends a notification with a FRESH map through the kind's plain path (fences, gates).
func (p *rPeer) rNotify(params map[string]interface{}) (err error) {
	defer func() {
		if x := recover(); x != nil {
			err = fmt.Errorf("panic: %v", x)
		}
	}()
	switch {
	case p.in.Server != nil:
		return p.in.Server.SendNotification(p.sid, reuseMethod, params)
	case p.in.SSE != nil:
		return p.in.SSE.SendNotification(p.sid, reuseMethod, params)
	default:
		return p.queue(mcp.NewJSONRPCNotificationFromMap(reuseMethod, params))
	}
}

// rDo performs one send with the application's map. scribble is called at the point where the application is free to
// rewrite its map ("...;rewrite;..." paths: between construction and queueing; otherwise the caller does it on return).
func rDo(api string, p *rPeer, peers []*rPeer, filter map[string]bool, params map[string]interface{}, scribble func()) (count int, err error) {
	defer func() {
		if x := recover(); x != nil {
			err = fmt.Errorf("panic: %v", x)
		}
	}()
	switch api {
	case "Server.SendNotification":
		return 1, p.in.Server.SendNotification(p.sid, reuseMethod, params)
	case "Server.BroadcastNotification":
		return p.in.Server.BroadcastNotification(reuseMethod, params)
	case "Server.SendFilteredNotification":
		okc, _, e := p.in.Server.SendFilteredNotification(reuseMethod, params, func(id string) bool { return filter[id] })
		return okc, e
	case "SSEServer.SendNotification":
		return 1, p.in.SSE.SendNotification(p.sid, reuseMethod, params)
	case "session.NotificationChannel<-NewJSONRPCNotificationFromMap":
		return 1, p.queue(mcp.NewJSONRPCNotificationFromMap(reuseMethod, params))
	case "NewJSONRPCNotificationFromMap;rewrite;session.NotificationChannel<-":
		n := mcp.NewJSONRPCNotificationFromMap(reuseMethod, params)
		scribble()
		return 1, p.queue(n)
	}
	return 0, fmt.Errorf("unknown api %s", api)
}

func reuse(r *vh.Run, kind kit.Kind, scen int, cfg rCfg) (deliveredTotal int) {
	key := cfg.key(kind)
	peers, closeAll := reusePeers(r, kind, cfg.sessions)
	defer closeAll()
	apis := reuseAPIs(kind)

	var gates []*rGate
	releaseGates := func() {
		for _, g := range gates {
			select {
			case <-g.release:
			default:
				close(g.release)
			}
		}
	}
	defer releaseGates()
	if cfg.reader == "gate" {
		if kind.IsStreamable() {
			r.Fatal("reuse: the gate regime needs an asynchronous pump")
		}
		for _, p := range peers {
			g := newRGate()
			gates = append(gates, g)
			if err := p.rNotify(map[string]interface{}{"nonce": fmt.Sprintf("rgate-%s-%d-%s", kind, scen, p.name), "g": g}); err != nil {
				r.Inconclusive(fmt.Sprintf("%s: the gate notification could not be queued (%v); scenario not judged", key, err))
				return
			}
		}
		for i, g := range gates {
			select {
			case <-g.entered:
			case <-time.After(30 * time.Second):
				r.Inconclusive(fmt.Sprintf("%s: the pump of session %s did not pick up the gate notification within 30 s; scenario not judged", key, peers[i].name))
				return
			}
		}
	}
	if cfg.reader == "paused" {
		for _, p := range peers {
			p.pause()
		}
	}

	var mu sync.Mutex
	var sends []*rSend
	var progress atomic.Int64
	var appsWG sync.WaitGroup
	appsDone := make(chan struct{})
	for a := 0; a < cfg.apps; a++ {
		appsWG.Add(1)
		go func(a int) {
			defer appsWG.Done()
			rng := r.Rand(fmt.Sprintf("c05-reuse-%s-%d-app-%d", kind, scen, a))
			params := map[string]interface{}{} // THE map of this application
			local := make([]*rSend, 0, cfg.n)
			cur := a % len(peers)
			for i := 0; i < cfg.n; i++ {
				switch cfg.pattern {
				case "alternate":
					cur = (a + i) % len(peers)
				case "random":
					cur = rng.Intn(len(peers))
				case "same":
					// a run of consecutive sends to one session, then the next session
					if i > 0 && i%8 == 0 {
						cur = (cur + 1) % len(peers)
					}
				}
				p := peers[cur]
				api := apis[rng.Intn(len(apis))]
				rec := &rSend{nonce: fmt.Sprintf("ru-%s-%d-%d-%d", kind, scen, a, i), api: api, app: a, seq: i, targets: map[int]bool{}}
				forName := p.name
				var filter map[string]bool
				switch api {
				case "Server.BroadcastNotification":
					forName = "all"
					for _, q := range peers {
						rec.targets[q.idx] = true
					}
				case "Server.SendFilteredNotification":
					filter = map[string]bool{p.sid: true}
					rec.targets[p.idx] = true
					names := []string{p.name}
					for _, q := range peers {
						if q != p && rng.Intn(3) == 0 {
							filter[q.sid] = true
							rec.targets[q.idx] = true
							names = append(names, q.name)
						}
					}
					sort.Strings(names)
					forName = strings.Join(names, "+")
				default:
					rec.targets[p.idx] = true
				}
				rFill(params, cfg, rec.nonce, forName, a, i)
				rec.snap, rec.snapS = canonDigest(params) // the value at the time of the call
				scribbled := false
				cnt, err := rDo(api, p, peers, filter, params, func() { rScribble(params, a, i); scribbled = true })
				if !scribbled && !cfg.plain {
					rScribble(params, a, i) // the call has returned: the map is the application's again
				}
				rec.count = cnt
				if err != nil {
					rec.err = err.Error()
				}
				local = append(local, rec)
				progress.Add(1)
				if cfg.reader == "slow" && rec.err != "" {
					time.Sleep(100 * time.Microsecond)
				}
			}
			mu.Lock()
			sends = append(sends, local...)
			mu.Unlock()
		}(a)
	}
	go func() { appsWG.Wait(); close(appsDone) }()

	switch cfg.reader {
	case "slow":
		on := false
		for done := false; !done; {
			select {
			case <-appsDone:
				done = true
			case <-time.After(time.Duration(1+2*boolInt(on)) * time.Millisecond):
				on = !on
				for _, p := range peers {
					if on {
						p.pause()
					} else {
						p.resume()
					}
				}
			}
		}
	case "paused":
		start, last, lastAt := time.Now(), int64(-1), time.Now()
		for done := false; !done; {
			select {
			case <-appsDone:
				done = true
			case <-time.After(10 * time.Millisecond):
				if v := progress.Load(); v != last {
					last, lastAt = v, time.Now()
				} else if time.Since(lastAt) > 300*time.Millisecond {
					done = true // a synchronous writer waits for the reader
				}
				if time.Since(start) > 4*time.Second {
					done = true
				}
			}
		}
		time.Sleep(30 * time.Millisecond)
	}
	for _, p := range peers {
		p.resume()
	}
	select {
	case <-appsDone:
	case <-time.After(pressWatchdog):
		r.Inconclusive(fmt.Sprintf("%s: the applications had not finished %v after the peers resumed reading; scenario not judged", key, pressWatchdog))
		return
	}
	// every send has returned and every map has been scribbled over: only now may a gated pump go on
	releaseGates()

	// quiescence by order: a closing fence per session
	for _, p := range peers {
		fn := fmt.Sprintf("rfence-%s-%d-%s", kind, scen, p.name)
		sent := false
		giveUp := time.Now().Add(60 * time.Second)
		for !sent && time.Now().Before(giveUp) {
			if sent = p.rNotify(map[string]interface{}{"nonce": fn}) == nil; !sent {
				time.Sleep(5 * time.Millisecond)
			}
		}
		if _, ok := p.log().WaitFor(0, time.Until(giveUp)+time.Second, func(f kit.Frame) bool {
			return strings.Contains(headOf(f.Data), fn)
		}); !sent || !ok {
			r.Inconclusive(fmt.Sprintf("%s: the closing fence did not reach session %s within 60 s; scenario not judged", key, p.name))
			return
		}
	}

	byNonce := map[string]*rSend{}
	for _, s := range sends {
		byNonce[s.nonce] = s
	}
	type rArr struct{ sess, idx int }
	arrivals := map[string][]rArr{}
	sigBase := fmt.Sprintf("C05|%s|reuse", kind)
	framesSeen := 0
	for _, p := range peers {
		for _, f := range p.log().Since(0) {
			if !strings.Contains(headOf(f.Data), reuseMethod) {
				continue
			}
			var m struct {
				Method string                 `json:"method"`
				Params map[string]interface{} `json:"params"`
			}
			if json.Unmarshal([]byte(f.Data), &m) != nil || m.Method != reuseMethod {
				continue
			}
			nonce, _ := m.Params["nonce"].(string)
			if strings.HasPrefix(nonce, "rfence-") || strings.HasPrefix(nonce, "rgate-") {
				continue
			}
			framesSeen++
			dg, short := canonDigest(m.Params)
			s := byNonce[nonce]
			if s == nil {
				r.Violation(sigBase+"|payload-was-never-the-argument-of-a-send", fmt.Sprintf("%s: session %s received a %s frame whose params were never the argument of any send call (they are what the application wrote into its own map after a send had returned)", key, p.name, reuseMethod),
					map[string]interface{}{"scenario": key, "session": p.name, "received_params": short})
				continue
			}
			w := map[string]interface{}{"scenario": key, "api": s.api, "nonce": nonce, "arrived_on": p.name, "app": s.app, "seq": s.seq, "params_at_call_time": s.snapS, "received_params": short}
			if !s.targets[p.idx] {
				r.Violation(fmt.Sprintf("%s|%s|delivered-to-other-session", sigBase, s.api), fmt.Sprintf("%s: a payload that was sent to other session(s) only arrived on the stream of session %s", key, p.name), w)
				continue
			}
			if dg != s.snap {
				r.Violation(fmt.Sprintf("%s|%s|payload-differs-from-the-value-at-call-time", sigBase, s.api), fmt.Sprintf("%s: the params delivered to session %s are not the params the map held when the send call was made", key, p.name), w)
			}
			arrivals[nonce] = append(arrivals[nonce], rArr{p.idx, f.Idx})
		}
	}

	sort.Slice(sends, func(i, j int) bool {
		if sends[i].app != sends[j].app {
			return sends[i].app < sends[j].app
		}
		return sends[i].seq < sends[j].seq
	})
	accepted, refused, delivered := 0, 0, 0
	lastIdx := map[[2]int]int{}
	perAPI := map[string]int{}
	reusedAcrossSessions, reusedSameSession := 0, 0
	prevTarget := map[int]int{}
	for _, s := range sends {
		r.Eval(1)
		if s.err != "" {
			refused++
			r.SetAdd("reuse_send_errors", errClass(fmt.Errorf("%s", s.err)))
			continue // may or may not have arrived; an arrival was judged above
		}
		accepted++
		one := -1
		if len(s.targets) == 1 {
			for t := range s.targets {
				one = t
			}
			if pt, ok := prevTarget[s.app]; ok {
				if pt == one {
					reusedSameSession++
				} else {
					reusedAcrossSessions++
				}
			}
		}
		prevTarget[s.app] = one
		reached := 0
		for t := range s.targets {
			n, idx := 0, -1
			for _, a := range arrivals[s.nonce] {
				if a.sess == t {
					n++
					idx = a.idx
				}
			}
			w := map[string]interface{}{"scenario": key, "api": s.api, "nonce": s.nonce, "session": peers[t].name, "app": s.app, "seq": s.seq, "params_at_call_time": s.snapS}
			switch {
			case n == 0 && (len(s.targets) == 1 || s.count == len(s.targets)):
				r.Violation(fmt.Sprintf("%s|%s|reported-success-not-delivered", sigBase, s.api), fmt.Sprintf("%s: the send returned nil but what was sent never arrived on the stream of session %s (the closing fence sent after it did)", key, peers[t].name), w)
			case n > 1:
				w["times"] = n
				r.Violation(fmt.Sprintf("%s|%s|duplicate-delivery", sigBase, s.api), fmt.Sprintf("%s: one notification arrived %d times on the stream of session %s", key, n, peers[t].name), w)
			case n == 1:
				reached++
				delivered++
				perAPI[s.api]++
				k := [2]int{s.app, t}
				if l, ok := lastIdx[k]; ok && idx < l {
					r.Violation(fmt.Sprintf("%s|%s|reordered", sigBase, s.api), fmt.Sprintf("%s: of two notifications one application sent one after the other to session %s the later one arrived first", key, peers[t].name), w)
				} else {
					lastIdx[k] = idx
				}
			}
		}
		if len(s.targets) > 1 && s.count != reached {
			r.Violation(fmt.Sprintf("%s|%s|count-differs", sigBase, s.api), fmt.Sprintf("%s: %s reported %d sessions reached, %d of the selected streams received what was sent", key, s.api, s.count, reached),
				map[string]interface{}{"scenario": key, "nonce": s.nonce, "reported": s.count, "received": reached, "selected": len(s.targets)})
		}
	}
	r.Count("reuse_sends_with_a_reused_map_"+string(kind), int64(len(sends)))
	r.Count("reuse_sends_accepted_"+string(kind), int64(accepted))
	r.Count("reuse_sends_refused_"+string(kind), int64(refused))
	r.Count("reuse_deliveries_equal_to_call_time_value_"+string(kind), int64(delivered))
	r.Count("reuse_consecutive_sends_to_different_sessions_"+string(kind), int64(reusedAcrossSessions))
	r.Count("reuse_consecutive_sends_to_the_same_session_"+string(kind), int64(reusedSameSession))
	r.Max("reuse_sessions_"+string(kind), int64(len(peers)))
	for api, n := range perAPI {
		r.Count(fmt.Sprintf("reuse_delivered|%s|%s", kind, api), int64(n))
	}
	if refused > 0 {
		r.SetAdd("reuse_scenarios_with_refused_sends", key)
	}
	if delivered > 0 {
		r.Distinct(key)
		r.SetAdd("reuse_schedules_"+string(kind), "reader="+cfg.reader)
	} else {
		r.Count("reuse_scenarios_without_a_delivery", 1)
	}
	r.Sample(map[string]interface{}{"part": "reuse", "scenario": key, "sends_with_reused_map": len(sends), "accepted": accepted, "failed": refused, "frames": framesSeen,
		"delivered_equal_to_call_time_value": delivered, "consecutive_to_other_session": reusedAcrossSessions, "consecutive_to_same_session": reusedSameSession, "per_api": perAPI})
	return delivered
}

// ---------------------------------------------------------------------------------------------------------------
// in-call senders (Streamable, SSE answers): a tool handler reuses one map for SendCustomNotification /
// SendNotification(NewNotification(..)) / NewNotification;rewrite;SendNotification on its request's own stream.

type icSend struct {
	nonce string
	api   string
	snap  string
	snapS string
	err   string
}

func reuseInCall(r *vh.Run, kind kit.Kind, nSess, callsPerSess, n int, meta bool) {
	key := fmt.Sprintf("reuse-incall|%s|sessions=%d|calls=%d|n=%d|meta=%v", kind, nSess, callsPerSess, n, meta)
	peers, closeAll := reusePeers(r, kind, nSess)
	defer closeAll()
	in := peers[0].in
	var mu sync.Mutex
	calls := map[string][]*icSend{}
	noSender := atomic.Int64{}
	apis := []string{"sender.SendCustomNotification", "sender.SendNotification(NewNotification)", "NewNotification;rewrite;sender.SendNotification", "Server.NewNotification;rewrite;sender.SendNotification"}
	cfg := rCfg{meta: meta}
	in.RegisterTool(mcp.NewTool("reuse-incall", mcp.WithString("call")), func(ctx context.Context, req *mcp.CallToolRequest) (*mcp.CallToolResult, error) {
		call, _ := req.Params.Arguments["call"].(string)
		sender, ok := mcp.GetNotificationSender(ctx)
		if !ok {
			noSender.Add(1)
			return mcp.NewTextResult("no sender"), nil
		}
		params := map[string]interface{}{}
		var local []*icSend
		for i := 0; i < n; i++ {
			api := apis[i%len(apis)]
			rec := &icSend{nonce: fmt.Sprintf("ic-%s-%d", call, i), api: api}
			rFill(params, cfg, rec.nonce, call, 0, i)
			rec.snap, rec.snapS = canonDigest(params)
			var err error
			func() {
				defer func() {
					if x := recover(); x != nil {
						err = fmt.Errorf("panic: %v", x)
					}
				}()
				switch api {
				case "sender.SendCustomNotification":
					err = sender.SendCustomNotification(reuseMethod, params)
				case "sender.SendNotification(NewNotification)":
					err = sender.SendNotification(mcp.NewNotification(reuseMethod, params))
				case "NewNotification;rewrite;sender.SendNotification":
					nt := mcp.NewNotification(reuseMethod, params)
					rScribble(params, 0, i)
					err = sender.SendNotification(nt)
				default:
					jn := in.Server.NewNotification(reuseMethod, params)
					rScribble(params, 0, i)
					err = sender.SendNotification(&jn.Notification)
				}
			}()
			rScribble(params, 0, i)
			if err != nil {
				rec.err = err.Error()
			}
			local = append(local, rec)
		}
		mu.Lock()
		calls[call] = local
		mu.Unlock()
		return mcp.NewTextResult("done"), nil
	})
	type got struct {
		call   string
		sess   int
		isSSE  bool
		frames []string
	}
	var gots []got
	var wg sync.WaitGroup
	for _, p := range peers {
		for c := 0; c < callsPerSess; c++ {
			wg.Add(1)
			go func(p *rPeer, c int) {
				defer wg.Done()
				call := fmt.Sprintf("%s-%s-%d", kind, p.name, c)
				id := fmt.Sprintf(`"ric-%s"`, call)
				ctx, cancel := context.WithTimeout(context.Background(), 90*time.Second)
				defer cancel()
				ex := p.c.Post(ctx, []byte(fmt.Sprintf(`{"jsonrpc":"2.0","id":%s,"method":"tools/call","params":{"name":"reuse-incall","arguments":{"call":%q}}}`, id, call)),
					kit.PostOpts{WantID: id, Wait: 90 * time.Second, Accept: "application/json, text/event-stream"})
				g := got{call: call, sess: p.idx, frames: ex.Frames}
				if ex.HTTP != nil {
					g.isSSE = ex.HTTP.IsSSE
				}
				mu.Lock()
				gots = append(gots, g)
				mu.Unlock()
			}(p, c)
		}
	}
	wg.Wait()
	sigBase := fmt.Sprintf("C05|%s|reuse-incall", kind)
	delivered, judgedCalls := 0, 0
	perAPI := map[string]int{}
	for _, g := range gots {
		mu.Lock()
		local := calls[g.call]
		mu.Unlock()
		if !g.isSSE || local == nil {
			r.Count("reuse_incall_calls_not_answered_as_event_stream_"+string(kind), 1)
			continue
		}
		judgedCalls++
		want := map[string]*icSend{}
		for _, s := range local {
			want[s.nonce] = s
		}
		seen := map[string]int{}
		lastSeq := -1
		for _, f := range g.frames {
			if !strings.Contains(headOf(f), reuseMethod) {
				continue
			}
			var m struct {
				Method string                 `json:"method"`
				Params map[string]interface{} `json:"params"`
			}
			if json.Unmarshal([]byte(f), &m) != nil || m.Method != reuseMethod {
				continue
			}
			nonce, _ := m.Params["nonce"].(string)
			dg, short := canonDigest(m.Params)
			s := want[nonce]
			if s == nil {
				sym := "payload-was-never-the-argument-of-a-send"
				if strings.HasPrefix(nonce, "ic-") {
					sym = "delivered-to-other-request-stream"
				}
				r.Violation(sigBase+"|"+sym, fmt.Sprintf("%s: the answer stream of call %s carries a notification that this call never sent", key, g.call), map[string]interface{}{"scenario": key, "call": g.call, "received_params": short})
				continue
			}
			seen[nonce]++
			if dg != s.snap {
				r.Violation(fmt.Sprintf("%s|%s|payload-differs-from-the-value-at-call-time", sigBase, s.api), fmt.Sprintf("%s: the params delivered are not the params the map held when the call was made", key),
					map[string]interface{}{"scenario": key, "call": g.call, "api": s.api, "nonce": nonce, "params_at_call_time": s.snapS, "received_params": short})
			}
			var seq int
			fmt.Sscanf(nonce[strings.LastIndex(nonce, "-")+1:], "%d", &seq)
			if seq < lastSeq {
				r.Violation(fmt.Sprintf("%s|%s|reordered", sigBase, s.api), fmt.Sprintf("%s: in-call notifications of one handler arrived out of sending order", key), map[string]interface{}{"scenario": key, "call": g.call, "nonce": nonce})
			}
			lastSeq = seq
		}
		for _, s := range local {
			r.Eval(1)
			if s.err != "" {
				r.SetAdd("reuse_incall_send_errors", errClass(fmt.Errorf("%s", s.err)))
				continue
			}
			switch seen[s.nonce] {
			case 0:
				r.Violation(fmt.Sprintf("%s|%s|reported-success-not-delivered", sigBase, s.api), fmt.Sprintf("%s: an in-call send returned nil but what was sent is not on the request's answer stream", key),
					map[string]interface{}{"scenario": key, "call": g.call, "api": s.api, "nonce": s.nonce, "params_at_call_time": s.snapS})
			case 1:
				delivered++
				perAPI[s.api]++
			default:
				r.Violation(fmt.Sprintf("%s|%s|duplicate-delivery", sigBase, s.api), fmt.Sprintf("%s: an in-call notification arrived %d times", key, seen[s.nonce]), map[string]interface{}{"scenario": key, "call": g.call, "nonce": s.nonce})
			}
		}
	}
	// nothing of it on any listening stream
	for _, p := range peers {
		for _, f := range p.log().Since(0) {
			if strings.Contains(headOf(f.Data), reuseMethod) {
				r.Violation(sigBase+"|delivered-on-a-listening-stream", fmt.Sprintf("%s: an in-call notification arrived on the listening stream of session %s", key, p.name), map[string]interface{}{"scenario": key, "frame": headOf(f.Data)})
			}
		}
	}
	r.Count("reuse_incall_deliveries_equal_to_call_time_value_"+string(kind), int64(delivered))
	r.Count("reuse_incall_calls_judged_"+string(kind), int64(judgedCalls))
	r.Count("reuse_incall_handlers_without_sender_"+string(kind), noSender.Load())
	for api, c := range perAPI {
		r.Count(fmt.Sprintf("reuse_delivered|%s|%s", kind, api), int64(c))
	}
	if delivered > 0 {
		r.Distinct(key)
	}
	r.Sample(map[string]interface{}{"part": "reuse-incall", "scenario": key, "calls": len(gots), "calls_judged": judgedCalls, "delivered_equal_to_call_time_value": delivered, "per_api": perAPI})
}

// reusePart: the scenario list of one server kind.
// gateOnly selects the gate scenarios (legacy SSE / stdio): in them the application's map is never written to while a
// pump may be encoding, so that even a library that aliases the map yields an orderly verdict with witnesses instead of
// dying of a concurrent map access; they run in a child process of their own.
func reusePart(r *vh.Run, kind kit.Kind, gateOnly bool) {
	var cfgs []rCfg
	async := !kind.IsStreamable()
	cfgs = append(cfgs,
		rCfg{2, 1, 60, "alternate", "prompt", 0, false, false},
		rCfg{1, 1, 60, "same", "prompt", 0, true, true},
		rCfg{3, 2, r.Pick(200, 1500), "alternate", "slow", 16, true, false},
		rCfg{2, 1, 600, "alternate", "paused", 1, false, true},
		rCfg{4, 2, r.Pick(150, 1000), "random", "paused", 8, true, false},
		rCfg{3, 1, 300, "same", "slow", 0, true, true},
	)
	if async {
		cfgs = append(cfgs,
			rCfg{2, 1, 80, "alternate", "gate", 0, false, true},
			rCfg{1, 1, 80, "same", "gate", 0, true, true},
			rCfg{2, 1, 80, "alternate", "gate", 0, true, false},
			rCfg{4, 2, 120, "random", "gate", 8, true, false},
			rCfg{3, 3, 60, "same", "gate", 0, false, true},
		)
	}
	if !r.Quick() {
		rng := r.Rand("c05-reuse-" + string(kind))
		readers := []string{"prompt", "slow", "paused"}
		if async {
			readers = append(readers, "gate", "gate")
		}
		for i := 0; i < 16; i++ {
			rd := readers[rng.Intn(len(readers))]
			n := []int{80, 300, 1500}[rng.Intn(3)]
			if rd == "gate" {
				n = 40 + rng.Intn(80)
			}
			cfgs = append(cfgs, rCfg{1 + rng.Intn(6), 1 + rng.Intn(3), n, []string{"alternate", "same", "random"}[rng.Intn(3)], rd, []int{0, 1, 4, 16}[rng.Intn(4)], rng.Intn(2) == 0, rng.Intn(2) == 0})
		}
	}
	total, ran := 0, 0
	for i, c := range cfgs {
		if (c.reader == "gate") == gateOnly {
			total += reuse(r, kind, i, c)
			ran++
		}
	}
	if ran > 0 && total == 0 {
		r.Inconclusive(fmt.Sprintf("reuse %s (gate=%v): not one notification sent with a reused params map was delivered in %d scenarios; nothing observed, nothing claimed", kind, gateOnly, ran))
	}
	if kind.IsStreamable() && !gateOnly {
		reuseInCall(r, kind, 3, 2, r.Pick(40, 400), true)
	}
}
