// C05, failed requests, continued: the SHAPES in which the context of an UNANSWERED server-issued request can end.
// "A request that times out, is cancelled or answered leaves nothing pending behind" does not say how the context came
// to its end: cancelled without ever having had a deadline (context.WithCancel, a cancelled parent, the request context
// of a tool call the client walked away from), a deadline, a far deadline plus an earlier cancel; before the send, while
// the (silent) peer is waited for, or at the same moment the answer is posted. Every combination is driven through
// ListRoots and SendRequest on every server kind.
//
// Judged on observed facts only:
//   - the call returned: an error is fine; a success must be the session's own answer to exactly this request (the rules
//     of validSuccess), which is impossible where the session had not posted one yet;
//   - once every call of a shape has returned the pending table is empty (checkpoint);
//   - the answer posted late for the ended request is not handed to the next request of the session (probe);
//   - a call that has NOT returned long after its context was OBSERVED to be done (cancelWatch, hundreds of times what
//     the library needs), while the same session served a row of complete request/answer round trips issued after that
//     moment, and whose entry is still counted by the pending table, is a cancelled request that left something
//     pending behind. Anything less (no round trips, table empty) is inconclusive.
package main

import (
	"context"
	"fmt"
	"strings"
	"time"

	mcp "trpc.group/trpc-go/trpc-mcp-go"

	"verifharness/lib/kit"
)

const (
	cancelWatch  = 10 * time.Second // the library returns within microseconds of ctx.Done; see the header
	cancelProbes = 8                // complete round trips the session must have served after the context was done
)

type askCall struct {
	cs          callSpec
	entered     chan struct{}
	ctxDone     chan struct{}
	out         chan outcome
	hasDeadline bool
}

type ctxKey string

// registerAsk: the "ask" tool issues the prepared request with ITS OWN request context and stays in the call until the
// request has returned; the harness abandons the tools/call while the request is unanswered.
func (e *fenv) registerAsk() {
	e.in.RegisterTool(mcp.NewTool("ask", mcp.WithString("peer")), func(ctx context.Context, req *mcp.CallToolRequest) (*mcp.CallToolResult, error) {
		name, _ := req.Params.Arguments["peer"].(string)
		p := e.peerByName(name)
		if p == nil {
			return mcp.NewTextResult("unknown peer"), nil
		}
		p.askMu.Lock()
		a := p.ask
		p.ask = nil
		p.askMu.Unlock()
		if a == nil {
			return mcp.NewTextResult("nothing to ask"), nil
		}
		_, a.hasDeadline = ctx.Deadline()
		close(a.entered)
		go func() { <-ctx.Done(); close(a.ctxDone) }()
		a.out <- e.do(ctx, "unanswered/abandoned-tool-call", a.cs)
		return mcp.NewTextResult("asked"), nil
	})
}

// probe: one complete, manually answered request of the (otherwise silent) session; it must return the session's answer
// to exactly that request — in particular not the late answer of an earlier one.
func (e *fenv) probe(scen string, p *fpeer) bool {
	ys := e.sendSpec(p, false, 0)
	from := p.nSeen()
	ctx, cancel := context.WithTimeout(p.lent, followUpWait)
	defer cancel()
	ch := e.goDo(ctx, scen, ys)
	want := ""
	if y := p.awaitSeen(from, ys.nonce, seeWatchdog); y != nil {
		want = y.id
		p.answer(y, "")
	}
	o, ok := e.await(scen, ch)
	if !ok {
		return false
	}
	e.judgeLive(scen+"+probe", p, o, from, want)
	return o.err == nil
}

func (e *fenv) pendingNow() int {
	was := e.byPaused
	e.pauseBy()
	n := mcp.VerifPendingServerRequests(e.in.Srv())
	if !was {
		e.resumeBy()
	}
	return n
}

// cancelCase runs one (shape, timing, api) combination. exercised: the context was seen done while the request was
// unanswered and the call was judged; stop: do not go on with this family.
func (e *fenv) cancelCase(p *fpeer, shape, timing, api string, seq int) (exercised, violated, stop bool) {
	scen := "unanswered/" + shape
	cs := callSpec{api: "ListRoots", sid: p.sid}
	if api == "SendRequest" {
		cs = e.sendSpec(p, false, 0)
	}
	from := p.nSeen()

	var (
		ctx      context.Context
		trigger  = func() {}
		cleanup  []context.CancelFunc
		done     <-chan struct{}
		ch       <-chan outcome
		hasDL    bool
		ask      *askCall
		issuedBy = "harness"
	)
	defer func() {
		for _, c := range cleanup {
			c()
		}
	}()
	switch shape {
	case "cancel-no-deadline":
		c, cancel := context.WithCancel(p.lent)
		ctx, trigger = c, cancel
	case "parent-cancelled-no-deadline":
		parent, pcancel := context.WithCancel(p.lent)
		c, ccancel := context.WithCancel(context.WithValue(parent, ctxKey("c05"), seq))
		ctx, trigger = c, pcancel
		cleanup = append(cleanup, ccancel)
	case "deadline":
		d := time.Now().Add(40 * time.Millisecond)
		if timing == "before-send" {
			d = time.Now().Add(-time.Millisecond)
		}
		c, cancel := context.WithDeadline(p.lent, d)
		ctx = c
		cleanup = append(cleanup, cancel)
	case "far-deadline-then-cancel":
		c, cancel := context.WithTimeout(p.lent, time.Hour)
		ctx, trigger = c, cancel
	case "abandoned-tool-call":
		ask = &askCall{cs: cs, entered: make(chan struct{}), ctxDone: make(chan struct{}), out: make(chan outcome, 1)}
		p.askMu.Lock()
		p.ask = ask
		p.askMu.Unlock()
		actx, abandon := context.WithCancel(context.Background())
		trigger = abandon
		body := []byte(fmt.Sprintf(`{"jsonrpc":"2.0","id":"ask-%d","method":"tools/call","params":{"name":"ask","arguments":{"peer":"%s"}}}`, seq, p.name))
		go p.c.Post(actx, body, kit.PostOpts{NoWait: true})
		issuedBy = "tool handler"
		select {
		case <-ask.entered:
		case <-time.After(seeWatchdog):
			abandon()
			e.r.Count("abandoned_tool_call_never_entered", 1)
			return false, false, false
		}
		hasDL = ask.hasDeadline
		done, ch = ask.ctxDone, ask.out
	}
	if ctx != nil {
		_, hasDL = ctx.Deadline()
		done = ctx.Done()
		if timing == "before-send" {
			trigger()
		}
		ch = e.goDo(ctx, scen, cs)
	}

	var x *seenReq
	answeredAtCancel := false
	if timing != "before-send" {
		x = p.awaitSeen(from, cs.nonce, seeWatchdog)
		if x != nil && timing == "with-answer" {
			answeredAtCancel = true
			ansDone := make(chan struct{})
			go func() {
				defer close(ansDone)
				if seq%4 < 2 { // otherwise the answer races with the end of the context from the other side
					select {
					case <-done:
					case <-time.After(seeWatchdog):
					}
				}
				p.answer(x, "")
			}()
			defer func() { <-ansDone }()
		}
		trigger()
	}

	// phase 1: the context is observed done (or the call is back before that)
	var o outcome
	returned, sawDone := false, false
	select {
	case o = <-ch:
		returned = true
	case <-done:
		sawDone = true
	case <-time.After(seeWatchdog + 5*time.Second):
	}
	if !returned && !sawDone {
		// the end of the context never became visible (an abandoned call the server did not notice): not this scenario
		e.r.Count("context_end_never_observed", 1)
		if x != nil && !answeredAtCancel {
			p.answer(x, "#UNBLOCK")
		}
		var ok bool
		if o, ok = e.await(scen, ch); !ok {
			return false, false, true
		}
		if o.err == nil {
			e.validSuccess(scen, p, o, idOf(x))
		}
		return false, false, false
	}
	doneAt := time.Now()

	// phase 2: the call returns
	if !returned {
		select {
		case o = <-ch:
			returned = true
		case <-time.After(cancelWatch):
		}
	}
	if returned {
		if d := time.Since(doneAt); d > time.Second {
			e.r.Count("returned_more_than_1s_after_context_done", 1)
		}
		if x == nil {
			x = p.awaitSeen(from, cs.nonce, 0)
		}
		failed := e.judgeFail(scen, p, o, idOf(x))
		if failed {
			e.r.Count(fmt.Sprintf("unanswered_ended_with_error_%s", e.kind), 1)
		}
		exercised = sawDone || failed
		if exercised {
			e.r.Distinct(fmt.Sprintf("cancel-shape|%s|%s|%s|%s", e.kind, shape, timing, api))
			e.r.SetAdd("cancel_shapes_"+string(e.kind), fmt.Sprintf("%s/%s/%s/deadline=%v/by=%s/err=%v", shape, timing, api, hasDL, issuedBy, failed))
		}
		// the late answer of the ended request, then a request that must get its own answer
		if x != nil {
			p.mu.Lock()
			posted := x.posted
			p.mu.Unlock()
			if !posted {
				p.answer(x, "#LATE")
				e.r.Count("late_answers_posted", 1)
			}
		}
		if !e.probe(scen, p) && e.stuck.Load() {
			return exercised, false, true
		}
		return exercised, false, false
	}

	// phase 3: not back cancelWatch after the context was seen done. Was the session (and the process) alive meanwhile?
	okProbes := 0
	for k := 0; k < cancelProbes; k++ {
		if !e.probe(scen, p) {
			break
		}
		okProbes++
	}
	if e.stuck.Load() {
		return false, false, true
	}
	select {
	case o = <-ch:
		returned = true
	default:
	}
	gap := time.Since(doneAt)
	if returned {
		e.r.Count("slow_return_after_context_done", 1)
		e.r.Inconclusive(fmt.Sprintf("%s/%s: the call returned only %v after its context was done (load?); not judged", e.kind, scen, gap.Round(time.Millisecond)))
		if o.err == nil {
			e.validSuccess(scen, p, o, idOf(x))
		}
		return false, false, false
	}
	n := e.pendingNow()
	e.r.Eval(1)
	if x == nil {
		x = p.awaitSeen(from, cs.nonce, 0)
	}
	switch {
	case okProbes == cancelProbes && n > e.leaked:
		violated = true
		e.r.Violation(fmt.Sprintf("C05|%s|failed-request|%s|still-pending-after-context-done", e.kind, scen),
			fmt.Sprintf("%s: %s (issued by the %s, context: %s, deadline=%v, %s) had not returned %v after its context was done, although the same session served %d complete later requests in that time; %d request(s) pending",
				e.kind, api, issuedBy, shape, hasDL, timing, gap.Round(time.Millisecond), okProbes, n),
			map[string]interface{}{"api": api, "shape": shape, "timing": timing, "context_has_deadline": hasDL, "gap_ms": gap.Milliseconds(), "later_round_trips": okProbes, "pending": n, "request_seen_by_peer": x != nil})
	default:
		e.r.Inconclusive(fmt.Sprintf("%s/%s: a call had not returned %v after its context was done (later round trips served: %d/%d, pending: %d); not judged", e.kind, scen, gap.Round(time.Millisecond), okProbes, cancelProbes, n))
	}
	// let it go: the late answer
	if x != nil && !answeredAtCancel {
		p.answer(x, "#LATE")
		e.r.Count("late_answers_posted", 1)
	}
	var ok bool
	if o, ok = e.await(scen, ch); !ok {
		return false, violated, true
	}
	if o.err == nil {
		if violated && len(o.names) == 1 && strings.HasSuffix(o.names[0], "#LATE") {
			e.r.Violation(fmt.Sprintf("C05|%s|failed-request|%s|late-answer-accepted-after-context-done", e.kind, scen),
				fmt.Sprintf("%s: %s returned without error the answer the session posted %v after the request's context was done", e.kind, api, gap.Round(time.Millisecond)),
				map[string]interface{}{"api": api, "shape": shape, "timing": timing, "returned": o.names})
		}
		e.validSuccess(scen, p, o, idOf(x))
	}
	return false, violated, false
}

func idOf(x *seenReq) string {
	if x == nil {
		return ""
	}
	return x.id
}

// cancelShapes: the whole family against one session whose peer answers nothing by itself.
func (e *fenv) cancelShapes(p *fpeer, reps int) {
	if e.stuck.Load() {
		return
	}
	shapes := []string{"cancel-no-deadline", "parent-cancelled-no-deadline", "deadline", "far-deadline-then-cancel"}
	if e.kind.IsStreamable() {
		shapes = append(shapes, "abandoned-tool-call")
	}
	p.silent.Store(true)
	defer p.silent.Store(false)
	seq, violations, cases := 0, 0, 0
	exercised := map[string]int{}
family:
	for rep := 0; rep < reps; rep++ {
		for _, shape := range shapes {
			for _, timing := range []string{"before-send", "while-waiting", "with-answer"} {
				if shape == "abandoned-tool-call" && timing == "before-send" {
					continue
				}
				for _, api := range []string{"ListRoots", "SendRequest"} {
					seq++
					ex, bad, stop := e.cancelCase(p, shape, timing, api, seq)
					cases++
					if ex {
						exercised[shape]++
					}
					if bad {
						violations++
					}
					// a library that holds on to cancelled requests costs up to its own time limit per case
					if stop || violations >= 2 || e.stuck.Load() {
						break family
					}
				}
			}
		}
	}
	p.silent.Store(false)
	e.r.Count(fmt.Sprintf("unanswered_context_shape_cases_%s", e.kind), int64(cases))
	for _, shape := range shapes {
		e.checkpoint("unanswered/"+shape, exercised[shape] > 0)
	}
	e.r.Sample(map[string]interface{}{"part": "failed-requests/unanswered-context-shapes", "kind": e.kind, "cases": cases, "exercised_per_shape": exercised, "violations": violations})
	e.followUp("unanswered-context-shapes", p)
}
