// C05 — server-initiated traffic reaches exactly the addressed session.
package main

import (
	"context"
	"encoding/json"
	"fmt"
	"os"
	"runtime/debug"
	"strings"
	"sync"
	"sync/atomic"
	"time"

	mcp "trpc.group/trpc-go/trpc-mcp-go"

	"verifharness/lib/kit"
	"verifharness/lib/vh"
)

type peerSess struct {
	name string
	c    *kit.RawConn
}

func nonceOf(f string) string {
	if i := strings.Index(f, `"nonce":"`); i >= 0 {
		rest := f[i+9:]
		if j := strings.Index(rest, `"`); j >= 0 {
			return rest[:j]
		}
	}
	return ""
}

func openPeers(r *vh.Run, in *kit.Instance, n int, withStream bool) []*peerSess {
	ctx := context.Background()
	var out []*peerSess
	for i := 0; i < n; i++ {
		c, err := in.Dial(ctx)
		if err != nil {
			r.Fatal("dial: %v", err)
		}
		if err := c.Handshake(ctx); err != nil {
			r.Fatal("handshake: %v", err)
		}
		if in.Kind.IsStreamable() && withStream {
			if _, err := c.OpenGet(ctx); err != nil {
				r.Fatal("GET: %v", err)
			}
		}
		out = append(out, &peerSess{name: fmt.Sprintf("p%d", i), c: c})
	}
	// legacy: the initialized notification is processed asynchronously
	time.Sleep(50 * time.Millisecond)
	return out
}

type sendRec struct {
	nonce  string
	target string // session id, "" for broadcast
	sender int
	seq    int
	ok     bool
	count  int // broadcast / filtered success count
	kind   string
	filter map[string]bool
}

func safe(r *vh.Run, where string, f func()) {
	defer func() {
		if p := recover(); p != nil {
			r.Violation("C05|panic|"+where, fmt.Sprintf("%s panicked: %v", where, p), map[string]interface{}{"stack": string(debug.Stack())})
		}
	}()
	f()
}

// notifications: many senders, many sessions.
func notifications(r *vh.Run, kind kit.Kind, nSess, nSenders, perSender int, bigEvery int) {
	in := kit.Start(kind, kit.Opts{})
	defer in.Close()
	kit.StdFixture(in)
	peers := openPeers(r, in, nSess, true)
	// two more sessions that never open a listening stream (Streamable): they can never be reached
	var mute []*peerSess
	if kind.IsStreamable() {
		mute = openPeers(r, in, 2, false)
	}
	defer func() {
		for _, p := range append(peers, mute...) {
			p.c.Close()
		}
	}()
	byID := map[string]*peerSess{}
	for _, p := range peers {
		byID[p.c.SessionID] = p
	}
	var mu sync.Mutex
	var recs []sendRec
	var wg sync.WaitGroup
	var nseq atomic.Int64
	for s := 0; s < nSenders; s++ {
		wg.Add(1)
		go func(s int) {
			defer wg.Done()
			rng := r.Rand(fmt.Sprintf("c05-%s-sender-%d", kind, s))
			for i := 0; i < perSender; i++ {
				nonce := fmt.Sprintf("n-%s-%d-%d", kind, s, nseq.Add(1))
				params := map[string]interface{}{"nonce": nonce}
				if bigEvery > 0 && i%bigEvery == bigEvery-1 {
					params["pad"] = strings.Repeat("P", 1<<(10+rng.Intn(12))) // 1 KiB .. 2 MiB
				}
				rec := sendRec{nonce: nonce, sender: s, seq: i}
				choice := rng.Intn(10)
				if in.Server == nil {
					choice = 0 // legacy SSE server only has SendNotification
				}
				switch {
				case choice < 6:
					tgt := peers[rng.Intn(len(peers))]
					rec.kind, rec.target = "send", tgt.c.SessionID
					safe(r, "SendNotification", func() {
						var err error
						if in.Server != nil {
							err = in.Server.SendNotification(tgt.c.SessionID, "notifications/verif", params)
						} else {
							err = in.SSE.SendNotification(tgt.c.SessionID, "notifications/verif", params)
						}
						rec.ok = err == nil
					})
				case choice < 8:
					rec.kind = "broadcast"
					safe(r, "BroadcastNotification", func() {
						n, err := in.Server.BroadcastNotification("notifications/verif", params)
						rec.ok, rec.count = err == nil, n
					})
				default:
					rec.kind = "filtered"
					rec.filter = map[string]bool{}
					for _, p := range peers {
						if rng.Intn(2) == 0 {
							rec.filter[p.c.SessionID] = true
						}
					}
					if rng.Intn(3) == 0 && len(mute) > 0 {
						rec.filter[mute[0].c.SessionID] = true
					}
					f := rec.filter
					safe(r, "SendFilteredNotification", func() {
						okc, _, err := in.Server.SendFilteredNotification("notifications/verif", params, func(id string) bool { return f[id] })
						rec.ok, rec.count = err == nil || okc > 0, okc
					})
				}
				mu.Lock()
				recs = append(recs, rec)
				mu.Unlock()
			}
		}(s)
	}
	wg.Wait()
	// quiescence by order, not by time: one more notification per session after every sender has finished. A session's
	// stream carries its frames in sending order, so once a session has seen its fence everything sent to it before has
	// either arrived or never will. A fence that does not arrive within the watchdog leaves the batch unjudged.
	for i, p := range peers {
		fn := fmt.Sprintf("fence-%s-%d-%d", kind, nSess, i)
		sent := false
		giveUp := time.Now().Add(30 * time.Second)
		for !sent && time.Now().Before(giveUp) {
			var err error
			if in.Server != nil {
				err = in.Server.SendNotification(p.c.SessionID, "notifications/verif", map[string]interface{}{"nonce": fn})
			} else {
				err = in.SSE.SendNotification(p.c.SessionID, "notifications/verif", map[string]interface{}{"nonce": fn})
			}
			if sent = err == nil; !sent {
				time.Sleep(5 * time.Millisecond) // legacy: the notification channel may still be full
			}
		}
		if _, ok := p.c.Log.WaitFor(0, time.Until(giveUp)+time.Second, func(f kit.Frame) bool { return nonceOf(f.Data) == fn }); !sent || !ok {
			r.Inconclusive(fmt.Sprintf("%s notifications (%d sessions, %d senders): the closing fence did not reach session %s within 30 s; batch not judged", kind, nSess, nSenders, p.name))
			return
		}
	}
	deadline := time.Now().Add(10 * time.Second)
	arrived := func() map[string]map[string][]int {
		m := map[string]map[string][]int{} // session -> nonce -> arrival indices
		for _, p := range peers {
			pm := map[string][]int{}
			for _, f := range p.c.Log.Since(0) {
				if n := nonceOf(f.Data); n != "" {
					pm[n] = append(pm[n], f.Idx)
				}
			}
			m[p.c.SessionID] = pm
		}
		return m
	}
	var arr map[string]map[string][]int
	for {
		arr = arrived()
		missing := 0
		for _, rc := range recs {
			if rc.kind == "send" && rc.ok && len(arr[rc.target][rc.nonce]) == 0 {
				missing++
			}
		}
		if missing == 0 || time.Now().After(deadline) {
			break
		}
		time.Sleep(10 * time.Millisecond)
	}
	time.Sleep(50 * time.Millisecond)
	arr = arrived()
	delivered := 0
	lastIdx := map[string]int{} // sender|target -> last arrival index
	for _, rc := range recs {
		r.Eval(1)
		switch rc.kind {
		case "send":
			for sid, pm := range arr {
				n := len(pm[rc.nonce])
				switch {
				case sid == rc.target && rc.ok && n == 0:
					r.Violation(fmt.Sprintf("C05|%s|send|reported-success-not-delivered", kind), fmt.Sprintf("%s: SendNotification returned nil but the frame never arrived on the session's stream", kind), map[string]interface{}{"nonce": rc.nonce})
				case sid == rc.target && n > 1:
					r.Violation(fmt.Sprintf("C05|%s|send|duplicate-delivery", kind), fmt.Sprintf("%s: notification delivered %d times", kind, n), map[string]interface{}{"nonce": rc.nonce})
				case sid == rc.target && !rc.ok && n > 0:
					// failed send that arrived anyway: harmless for the statement (delivered once), not judged
				case sid != rc.target && n > 0:
					r.Violation(fmt.Sprintf("C05|%s|send|delivered-to-other-session", kind), fmt.Sprintf("%s: a notification addressed to one session arrived on another session's stream", kind), map[string]interface{}{"nonce": rc.nonce, "addressed": rc.target, "arrived_on": sid})
				}
			}
			if rc.ok && len(arr[rc.target][rc.nonce]) == 1 {
				delivered++
				key := fmt.Sprintf("%d|%s", rc.sender, rc.target)
				idx := arr[rc.target][rc.nonce][0]
				if last, ok := lastIdx[key]; ok && idx < last {
					r.Violation(fmt.Sprintf("C05|%s|send|reordered", kind), fmt.Sprintf("%s: two notifications sent one after the other by one goroutine to one session arrived in the opposite order", kind), map[string]interface{}{"nonce": rc.nonce})
				}
				lastIdx[key] = idx
			}
		case "broadcast", "filtered":
			reached := 0
			for sid, pm := range arr {
				n := len(pm[rc.nonce])
				if n > 1 {
					r.Violation(fmt.Sprintf("C05|%s|%s|duplicate-delivery", kind, rc.kind), fmt.Sprintf("%s: %s delivered %d times to one session", kind, rc.kind, n), nil)
				}
				if n >= 1 {
					reached++
					if rc.kind == "filtered" && !rc.filter[sid] {
						r.Violation(fmt.Sprintf("C05|%s|filtered|delivered-to-unselected-session", kind), "a filtered notification reached a session the filter rejected", map[string]interface{}{"nonce": rc.nonce})
					}
				}
			}
			expect := len(peers)
			if rc.kind == "filtered" {
				expect = 0
				for _, p := range peers {
					if rc.filter[p.c.SessionID] {
						expect++
					}
				}
			}
			if reached != expect {
				r.Violation(fmt.Sprintf("C05|%s|%s|not-every-open-stream-reached", kind, rc.kind), fmt.Sprintf("%s: %s reached %d of the %d selected sessions with an open stream", kind, rc.kind, reached, expect), map[string]interface{}{"nonce": rc.nonce})
			}
			if rc.count != reached {
				r.Violation(fmt.Sprintf("C05|%s|%s|count-differs", kind, rc.kind), fmt.Sprintf("%s: %s reported %d sessions reached, %d streams received the frame", kind, rc.kind, rc.count, reached), map[string]interface{}{"nonce": rc.nonce, "reported": rc.count, "received": reached})
			} else {
				delivered += reached
			}
		}
	}
	r.Count("deliveries_"+string(kind), int64(delivered))
	if delivered == 0 {
		r.Violation(fmt.Sprintf("C05|%s|no-successful-delivery", kind), fmt.Sprintf("%s: not one of %d server-initiated notifications was delivered (every send failed)", kind, len(recs)), map[string]interface{}{"sends": len(recs)})
	} else {
		r.Distinct(fmt.Sprintf("notif|%s|sessions=%d|senders=%d", kind, nSess, nSenders))
	}
	if len(recs) > 0 {
		r.Sample(map[string]interface{}{"part": "notifications", "kind": kind, "sessions": nSess, "senders": nSenders, "sends": len(recs), "delivered": delivered})
	}
}

// roots: ListRoots inside a session must return that session's roots, even when another session posts a
// forged answer with the same request id first; nothing stays pending.
func roots(r *vh.Run, kind kit.Kind, nSess, rounds int) {
	in := kit.Start(kind, kit.Opts{})
	defer in.Close()
	kit.StdFixture(in)
	type out struct {
		Roots []string `json:"roots"`
		Err   string   `json:"err,omitempty"`
	}
	in.RegisterTool(mcp.NewTool("askroots", mcp.WithString("nonce"), mcp.WithNumber("timeout_ms")), func(ctx context.Context, req *mcp.CallToolRequest) (*mcp.CallToolResult, error) {
		ms, _ := req.Params.Arguments["timeout_ms"].(float64)
		if ms == 0 {
			ms = 8000
		}
		rctx, cancel := context.WithTimeout(ctx, time.Duration(ms)*time.Millisecond)
		defer cancel()
		var res *mcp.ListRootsResult
		var err error
		switch {
		case in.Server != nil:
			res, err = in.Server.ListRoots(rctx)
		case in.SSE != nil:
			res, err = in.SSE.ListRoots(rctx)
		default:
			res, err = in.Stdio.ListRoots(rctx)
		}
		o := out{}
		if err != nil {
			o.Err = err.Error()
		} else {
			for _, rt := range res.Roots {
				o.Roots = append(o.Roots, rt.Name)
			}
		}
		b, _ := json.Marshal(o)
		return mcp.NewTextResult(string(b)), nil
	})
	if kind == kit.Stdio {
		nSess = 1
	}
	peers := openPeers(r, in, nSess, true)
	defer func() {
		for _, p := range peers {
			p.c.Close()
		}
	}()
	ctx := context.Background()
	// every peer answers roots/list on its own stream with a root naming itself — after a delay, so that a
	// forger can be faster
	stop := make(chan struct{})
	var answering sync.WaitGroup
	forged := atomic.Int64{}
	for _, p := range peers {
		answering.Add(1)
		go func(p *peerSess) {
			defer answering.Done()
			i := 0
			for {
				select {
				case <-stop:
					return
				default:
				}
				f, ok := p.c.Log.WaitFor(i, 50*time.Millisecond, func(f kit.Frame) bool { return f.Idx >= i })
				if !ok {
					continue
				}
				i = f.Idx + 1
				var m struct {
					ID     json.RawMessage `json:"id"`
					Method string          `json:"method"`
				}
				if json.Unmarshal([]byte(f.Data), &m) != nil || m.Method != "roots/list" || m.ID == nil {
					continue
				}
				r.Count("roots_requests_seen_by_peers", 1)
				id := string(m.ID)
				// adversaries: every OTHER session posts an answer for this very id first
				for _, q := range peers {
					if q == p {
						continue
					}
					q.c.Post(ctx, []byte(fmt.Sprintf(`{"jsonrpc":"2.0","id":%s,"result":{"roots":[{"uri":"file:///forged","name":"FORGED-BY-%s"}]}}`, id, q.name)), kit.PostOpts{NoWait: true})
					forged.Add(1)
				}
				time.Sleep(20 * time.Millisecond)
				p.c.Post(ctx, []byte(fmt.Sprintf(`{"jsonrpc":"2.0","id":%s,"result":{"roots":[{"uri":"file:///%s","name":"%s"}]}}`, id, p.name, p.name)), kit.PostOpts{NoWait: true})
			}
		}(p)
	}
	for round := 0; round < rounds; round++ {
		var wg sync.WaitGroup
		for _, p := range peers {
			wg.Add(1)
			go func(p *peerSess, round int) {
				defer wg.Done()
				id := fmt.Sprintf(`"ask-%s-%d"`, p.name, round)
				ex := p.c.Post(ctx, []byte(fmt.Sprintf(`{"jsonrpc":"2.0","id":%s,"method":"tools/call","params":{"name":"askroots","arguments":{"nonce":"x"}}}`, id)), kit.PostOpts{WantID: id, Wait: 20 * time.Second})
				r.Eval(1)
				var o out
				text := ""
				for _, f := range ex.Frames {
					var m struct {
						Result struct {
							Content []struct {
								Text string `json:"text"`
							} `json:"content"`
						} `json:"result"`
					}
					if json.Unmarshal([]byte(f), &m) == nil && len(m.Result.Content) == 1 {
						text = m.Result.Content[0].Text
					}
				}
				if json.Unmarshal([]byte(text), &o) != nil {
					r.Violation(fmt.Sprintf("C05|%s|roots|call-failed", kind), fmt.Sprintf("%s: the tool that asks for roots got no usable answer: %v", kind, ex.Frames), nil)
					return
				}
				switch {
				case o.Err != "":
					r.Violation(fmt.Sprintf("C05|%s|roots|request-failed", kind), fmt.Sprintf("%s: ListRoots inside session %s failed although the session answers on its stream: %s", kind, p.name, o.Err), map[string]interface{}{"error": o.Err})
				case len(o.Roots) != 1 || o.Roots[0] != p.name:
					r.Violation(fmt.Sprintf("C05|%s|roots|answer-from-other-session-accepted", kind), fmt.Sprintf("%s: ListRoots issued in session %s returned %v — an answer posted by another session with the same request id was accepted", kind, p.name, o.Roots),
						map[string]interface{}{"session": p.name, "returned": o.Roots})
				default:
					r.Count("roots_results_own_"+string(kind), 1)
					r.Distinct(fmt.Sprintf("roots|%s|sessions=%d", kind, nSess))
				}
			}(p, round)
		}
		wg.Wait()
	}
	// a request that is cancelled / times out leaves nothing pending: ask with a short timeout while peers stay silent
	close(stop)
	answering.Wait()
	for _, p := range peers[:1] {
		id := `"ask-timeout"`
		p.c.Post(ctx, []byte(fmt.Sprintf(`{"jsonrpc":"2.0","id":%s,"method":"tools/call","params":{"name":"askroots","arguments":{"nonce":"x","timeout_ms":100}}}`, id)), kit.PostOpts{WantID: id, Wait: 10 * time.Second})
	}
	time.Sleep(50 * time.Millisecond)
	if n := mcp.VerifPendingServerRequests(in.Srv()); n != 0 {
		r.Violation(fmt.Sprintf("C05|%s|pending-table-not-empty", kind), fmt.Sprintf("%s: %d server-issued requests still pending after every request was answered, cancelled or timed out", kind, n), nil)
	} else {
		r.Distinct(fmt.Sprintf("pending-empty|%s", kind))
	}
	r.Count("forged_answers_posted", forged.Load())
	r.Sample(map[string]interface{}{"part": "roots", "kind": kind, "sessions": nSess, "rounds": rounds, "forged_answers": forged.Load()})
}

func main() {
	kit.MaybeServeStdioChild()
	kit.Silence()
	if vh.ChildRole() == "c05" {
		cr := vh.NewChildRun("C05")
		run(cr, os.Getenv("C05_PART"))
		cr.ExportAndExit()
	}
	r := vh.NewRun("C05", "exploration")
	var wg sync.WaitGroup
	for _, part := range []string{"notif-streamable", "notif-legacy", "roots-streamable", "roots-legacy", "roots-stdio",
		"fail-streamable", "fail-streamable-sse", "fail-legacy", "fail-stdio", "press-streamable", "press-legacy", "press-stdio",
		"reuse-streamable", "reuse-streamable-sse", "reuse-legacy", "reuse-legacy-gate", "reuse-stdio", "reuse-stdio-gate"} {
		wg.Add(1)
		go func(part string) {
			defer wg.Done()
			res := r.SpawnChild("c05", part, os.Args[1:], append(r.ChildEnvFor(), "C05_PART="+part), nil, 12*time.Minute)
			cr := r.Merge(res.Stdout())
			if !cr.Done {
				stderr := res.Stderr()
				if res.TimedOut {
					r.Inconclusive("part " + part + " hit the watchdog")
				} else {
					r.Violation(fmt.Sprintf("C05|%s|process-death|%s", part, vh.FirstLibFrame(stderr)), fmt.Sprintf("%s: process died: %s", part, vh.CrashLine(stderr)), map[string]interface{}{"stderr_tail": tail(stderr)})
				}
			}
		}(part)
	}
	wg.Wait()
	r.Finish("raw peers, one per session, each with its listening stream (Streamable GET / legacy SSE / stdio): 1-8 sender goroutines issue SendNotification / BroadcastNotification / SendFilteredNotification with unique nonces (payloads up to 2 MiB) to 1-16 sessions plus two sessions without a stream; per stream the received multiset must equal the successful sends addressed to it, in per-sender order, counts must equal the streams reached; ListRoots from a tool handler in every session while every OTHER session posts a forged answer with the same request id first; pending tables read through the verif hook at quiescence. Failed server-issued requests (failures.go), per server kind (Streamable JSON and SSE answers, legacy SSE, stdio): ListRoots / SendRequest issued inside a session with a context that is already cancelled / past its deadline (many repetitions), cancelled while the request is half written (yield points sse.write.*, stdio.write.mid), cancelled / timed out while the peer stays silent, refused or stalled because the peer stopped reading its stream (legacy event queue, stdio message channel full; Streamable write stalls), no listening stream, stream closed by the peer / session deleted / stdin closed mid-request, params that cannot be encoded, unknown or missing session, a seeded concurrent mix of all of these — with the answers of abandoned requests posted late (also by another session) while the next request of the session is pending, and another session asking for its roots throughout. Judged: a call that returns without error returns the answer the addressed session posted for exactly that request; after every call of a scenario has returned the pending table has not grown; a following well-formed ListRoots returns the session's roots. Unanswered requests by context shape (cancelshapes.go), per server kind: ListRoots / SendRequest to a session whose peer stays silent, with a context cancelled without a deadline (WithCancel, cancelled parent, the request context of a tools/call the client abandons - Streamable), with a deadline, with a far deadline and an earlier cancel; ended before the send, while waiting, or together with the answer; the answer is then posted late and the next request must get its own answer; a call that is still blocked and still counted as pending 10 s after its context was observed done, while the same session served 8 complete later requests, is a violation (anything less is inconclusive). Queue pressure (pressure.go), per server kind (Streamable listening stream, legacy SSE, stdio through the session's notification channel): one goroutine sends 150 / 1 000 / 5 000 sequentially numbered notifications (small, 64 KiB, every k-th 64 KiB) to one session whose peer reads promptly, slowly (reading switched off and on every few ms) or not at all for a while and then resumes; the same with 3-16 sessions and two sender goroutines per session bursting at once while server-issued roots/list requests and the answers to the peer's own tools/call requests share the stream; a send may be refused (queue full): the peer must receive exactly the notifications whose send returned nil, each once, none refused as full, those of one (session, sender) in strictly increasing sequence order, nothing on another session's stream; a server-issued request that returned nil was seen once by its session and returned that session's answer to it. Distinct = (part, server kind, sessions, senders), (server kind, failure scenario actually exercised) and (server kind, burst shape, n, payload, reader regime) with at least one delivery; refused sends / senders that waited for the reader are counted per scenario. Reused arguments (reuse.go), per server kind: 1-3 application goroutines, each with ONE params map, send through every sending path of the kind (Server.SendNotification / BroadcastNotification / SendFilteredNotification; SSEServer.SendNotification; the session's notification channel fed with NewJSONRPCNotificationFromMap, also built first and queued after the map was rewritten; in-call senders SendCustomNotification / SendNotification(NewNotification) / Server.NewNotification on the request's own event stream) to 1-6 sessions, alternating between sessions, staying on one, or at random; the map is refilled before every send and scribbled over as soon as the call has returned (top-level keys replaced, added, deleted; nested values are fresh per send and never written to); readers prompt / slow / paused-then-resumed and, on legacy SSE and stdio, a gate (the head of every session's queue carries a value whose encoding blocks until the whole batch has been sent and scribbled over, so the pump is provably busy); judged: every frame is, by nonce, one of the sends, addressed to this session, with params equal as JSON value to the snapshot taken right before the call; every send that returned nil arrives exactly once per addressed session, in per-(application, session) order. Distinct adds (server kind, sessions, applications, n, pattern, reader regime, payload mix) with at least one delivery.",
		[]string{"membership (sessions, streams) is fixed while a batch of broadcasts runs", "notification quiescence is established by a closing fence notification per session (frames of one stream arrive in sending order); a fence that does not arrive leaves the batch unjudged", "pressure scenarios: a legacy SSE / stdio part in which no send was ever refused is reported inconclusive (no queue filled); senders or interleaved requests that have not returned 180 s after the peer resumed leave the scenario unjudged", "a failed request's call is given 40 s to return after its context ended before the part is declared inconclusive", "the tool handler's context (carrying the session) stays usable for server-issued requests while the handler has not returned",
			"reused arguments: what is sent is the value of the params map when the send call is made (top level; the library documents no deep copy, so values nested inside the map are never written to after a send); a notification constructor (NewNotification / NewJSONRPCNotificationFromMap) likewise captures the map's top level when it is called"})
}

func tail(s string) string {
	if len(s) > 3000 {
		return s[len(s)-3000:]
	}
	return s
}

func run(r *vh.Run, part string) {
	switch part {
	case "notif-streamable":
		for _, cfg := range [][3]int{{1, 1, 40}, {4, 4, 60}, {16, 8, r.Pick(60, 2500)}} {
			notifications(r, kit.SJSON, cfg[0], cfg[1], cfg[2], 7)
		}
		notifications(r, kit.SSSE, 8, 4, r.Pick(80, 3000), 5)
	case "notif-legacy":
		for _, cfg := range [][3]int{{1, 1, 40}, {8, 4, r.Pick(60, 2500)}} {
			notifications(r, kit.LSSE, cfg[0], cfg[1], cfg[2], 9)
		}
	case "roots-streamable":
		roots(r, kit.SJSON, 1, r.Pick(3, 80))
		roots(r, kit.SJSON, 4, r.Pick(5, 200))
	case "roots-legacy":
		roots(r, kit.LSSE, 1, r.Pick(3, 80))
		roots(r, kit.LSSE, 4, r.Pick(5, 200))
	case "roots-stdio":
		roots(r, kit.Stdio, 1, r.Pick(5, 200))
	case "fail-streamable":
		failures(r, kit.SJSON)
	case "fail-streamable-sse":
		failures(r, kit.SSSE)
	case "fail-legacy":
		failures(r, kit.LSSE)
	case "fail-stdio":
		failures(r, kit.Stdio)
	case "press-streamable":
		pressurePart(r, kit.SJSON)
		if !r.Quick() {
			pressurePart(r, kit.SSSE)
		}
	case "press-legacy":
		pressurePart(r, kit.LSSE)
	case "press-stdio":
		pressurePart(r, kit.Stdio)
	case "reuse-streamable":
		reusePart(r, kit.SJSON, false)
	case "reuse-streamable-sse":
		reusePart(r, kit.SSSE, false)
	case "reuse-legacy":
		reusePart(r, kit.LSSE, false)
	case "reuse-legacy-gate":
		reusePart(r, kit.LSSE, true)
	case "reuse-stdio":
		reusePart(r, kit.Stdio, false)
	case "reuse-stdio-gate":
		reusePart(r, kit.Stdio, true)
	}
}
