// C05, third part: the ORDER clause under QUEUE PRESSURE. "A notification sent to a session ... is delivered once, in
// sending order, on that session's stream and on no other session's" is a statement about every number of sends and
// every reading speed of the peer, also about the ones that fill the server's outgoing queues (legacy SSE: 100-slot
// notification channel + 100-slot event queue drained by two pumps; stdio: 100-slot notification channel + 100-slot
// message channel drained by one pump; Streamable: synchronous writes under the stream's write lock, back pressure of the
// connection). The scenarios: one goroutine sends 150 / 1 000 / 5 000 sequentially numbered notifications (small, 64 KiB,
// mixed) to one session whose peer reads promptly / slowly (reading is switched off and on every few ms) / not at all
// for a while and then resumes; the same with several sessions (and two sender goroutines per session) bursting at once
// while server-issued roots/list requests and the answers to the peer's own tools/call requests share the stream.
//
// A send may be REFUSED (returns an error: queue full). Judged, per session:
//
//	(1) a notification whose send returned nil arrives exactly once on the addressed session's stream;
//	(2) the accepted notifications of one sender goroutine arrive in sending order (strictly increasing sequence
//	    numbers per (session, sender));
//	(3) nothing arrives on another session's stream, nothing arrives twice, a send refused as "full" does not arrive;
//	(4) a server-issued request whose call returned nil was seen once by the addressed session only and the value
//	    returned is that session's answer to exactly that request.
//
// Time never decides: quiescence is established by a closing fence notification per session; pauses and watchdogs only
// shape the workload or make the scenario inconclusive.
package main

import (
	"context"
	"encoding/json"
	"fmt"
	"runtime"
	"sort"
	"strings"
	"sync"
	"sync/atomic"
	"time"

	mcp "trpc.group/trpc-go/trpc-mcp-go"

	"verifharness/lib/kit"
	"verifharness/lib/vh"
)

const (
	pressMethod   = "notifications/press"
	pressWatchdog = 180 * time.Second
)

type pSend struct {
	nonce  string
	sess   int
	sender int
	seq    int
	err    string // "" = the send returned nil
}

type pReq struct {
	nonce string
	sess  int
	err   string
	names []string
}

type pPeer struct {
	idx     int
	name    string
	kind    kit.Kind
	in      *kit.Instance
	c       *kit.RawConn
	sp      *stdioPeer
	sid     string
	lent    context.Context
	nch     chan<- mcp.JSONRPCNotification
	release chan struct{}
	stop    chan struct{}
	wg      sync.WaitGroup
	answers atomic.Int64
}

func (p *pPeer) log() *kit.FrameLog {
	if p.sp != nil {
		return p.sp.log
	}
	return p.c.Log
}

func (p *pPeer) pause() {
	switch {
	case p.sp != nil:
		p.sp.gw.set(true)
	case p.kind == kit.LSSE:
		p.c.PauseLegacy()
	default:
		p.c.Get.Pause()
	}
}

func (p *pPeer) resume() {
	switch {
	case p.sp != nil:
		p.sp.gw.set(false)
	case p.kind == kit.LSSE:
		p.c.ResumeLegacy()
	default:
		p.c.Get.Resume()
	}
}

// notify sends one notification to this peer's session through the server's public sending path.
func (p *pPeer) notify(params map[string]interface{}) (err error) {
	defer func() {
		if x := recover(); x != nil {
			err = fmt.Errorf("panic: %v", x)
		}
	}()
	switch {
	case p.in.Server != nil:
		return p.in.Server.SendNotification(p.sid, pressMethod, params)
	case p.in.SSE != nil:
		return p.in.SSE.SendNotification(p.sid, pressMethod, params)
	default:
		// the stdio server has no SendNotification: a handler sends through its session's notification channel
		select {
		case p.nch <- *mcp.NewJSONRPCNotificationFromMap(pressMethod, params):
			return nil
		default:
			return fmt.Errorf("notification channel full")
		}
	}
}

// request issues one roots/list inside this peer's session; the peer answers with a root named <peer>#<nonce>.
func (p *pPeer) request(ctx context.Context, nonce string) (names []string, err error) {
	defer func() {
		if x := recover(); x != nil {
			err = fmt.Errorf("panic: %v", x)
		}
	}()
	req := &mcp.JSONRPCRequest{JSONRPC: "2.0", Params: map[string]interface{}{"nonce": nonce}}
	req.Method = "roots/list"
	var raw *json.RawMessage
	switch {
	case p.in.Server != nil:
		raw, err = p.in.Server.SendRequest(ctx, p.sid, req)
	case p.in.SSE != nil:
		raw, err = p.in.SSE.SendRequest(ctx, p.sid, req)
	default:
		raw, err = p.in.Stdio.SendRequest(p.ctxIn(ctx), req)
	}
	if err != nil || raw == nil {
		return nil, err
	}
	var res mcp.ListRootsResult
	if json.Unmarshal(*raw, &res) == nil {
		for _, rt := range res.Roots {
			names = append(names, rt.Name)
		}
	}
	return names, nil
}

// ctxIn: the lent handler context (it carries the stdio session) bounded like ctx.
func (p *pPeer) ctxIn(ctx context.Context) context.Context {
	c, cancel := context.WithCancel(p.lent)
	go func() {
		<-ctx.Done()
		cancel()
	}()
	return c
}

func (p *pPeer) post(body []byte) {
	if p.sp != nil {
		_ = p.sp.writeLine(body)
		return
	}
	ctx, cancel := context.WithTimeout(context.Background(), 60*time.Second)
	defer cancel()
	p.c.Post(ctx, body, kit.PostOpts{NoWait: true})
}

type pHead struct {
	ID     json.RawMessage `json:"id"`
	Method string          `json:"method"`
	Params struct {
		Nonce string `json:"nonce"`
	} `json:"params"`
}

func headOf(s string) string {
	if len(s) > 160 {
		return s[:160]
	}
	return s
}

// respond answers every roots/list request seen on the peer's stream.
func (p *pPeer) respond() {
	defer p.wg.Done()
	lg := p.log()
	i := 0
	for {
		select {
		case <-p.stop:
			return
		default:
		}
		f, ok := lg.WaitFor(i, 50*time.Millisecond, func(f kit.Frame) bool { return f.Idx >= i })
		if !ok {
			if lg.Closed() {
				time.Sleep(5 * time.Millisecond)
			}
			continue
		}
		i = f.Idx + 1
		if !strings.Contains(headOf(f.Data), `"roots/list"`) {
			continue
		}
		var m pHead
		if json.Unmarshal([]byte(f.Data), &m) != nil || m.Method != "roots/list" || m.ID == nil {
			continue
		}
		p.answers.Add(1)
		p.post([]byte(fmt.Sprintf(`{"jsonrpc":"2.0","id":%s,"result":{"roots":[{"uri":"file:///%s","name":"%s#%s"}]}}`, kit.CanonID(m.ID), p.name, p.name, m.Params.Nonce)))
	}
}

func (p *pPeer) shutdown() {
	close(p.stop)
	if p.release != nil {
		close(p.release)
	}
	p.resume()
	if p.sp != nil {
		p.sp.close()
	} else {
		p.c.Close()
	}
	p.wg.Wait()
}

// pressPeers opens n sessions (HTTP kinds: one server, n sessions; stdio: n servers with one session each).
func pressPeers(r *vh.Run, kind kit.Kind, n int) (peers []*pPeer, closeAll func()) {
	ctx := context.Background()
	var ins []*kit.Instance
	if kind != kit.Stdio {
		in := kit.Start(kind, kit.Opts{})
		kit.StdFixture(in)
		ins = append(ins, in)
		for i := 0; i < n; i++ {
			c, err := in.Dial(ctx)
			if err != nil {
				r.Fatal("press: dial: %v", err)
			}
			if err := c.Handshake(ctx); err != nil {
				r.Fatal("press: handshake: %v", err)
			}
			if kind.IsStreamable() {
				if _, err := c.OpenGet(ctx); err != nil {
					r.Fatal("press: GET: %v", err)
				}
			}
			peers = append(peers, &pPeer{idx: i, name: fmt.Sprintf("q%d", i), kind: kind, in: in, c: c, sid: c.SessionID, stop: make(chan struct{})})
		}
		time.Sleep(50 * time.Millisecond) // legacy: notifications/initialized is processed asynchronously
	} else {
		for i := 0; i < n; i++ {
			in := kit.Start(kind, kit.Opts{})
			kit.StdFixture(in)
			ins = append(ins, in)
			p := &pPeer{idx: i, name: fmt.Sprintf("q%d", i), kind: kind, in: in, sid: "stdio", stop: make(chan struct{}), release: make(chan struct{})}
			lentCh := make(chan context.Context, 1)
			in.RegisterTool(mcp.NewTool("plend"), func(ctx context.Context, req *mcp.CallToolRequest) (*mcp.CallToolResult, error) {
				select {
				case lentCh <- ctx:
				default:
				}
				select {
				case <-p.release:
				case <-ctx.Done():
				}
				return mcp.NewTextResult("lent"), nil
			})
			p.sp = dialStdio(in)
			_ = p.sp.writeLine(kit.InitBody(`"init-0"`, ""))
			if _, ok := p.sp.log.WaitFor(0, 30*time.Second, func(f kit.Frame) bool {
				id, has, hasMethod := kit.FrameID(f.Data)
				return has && !hasMethod && id == `"init-0"`
			}); !ok {
				r.Fatal("press: stdio handshake: no answer to initialize")
			}
			_ = p.sp.writeLine([]byte(kit.InitializedBody))
			_ = p.sp.writeLine([]byte(`{"jsonrpc":"2.0","id":"plend","method":"tools/call","params":{"name":"plend","arguments":{}}}`))
			select {
			case p.lent = <-lentCh:
			case <-time.After(60 * time.Second):
				r.Fatal("press: stdio: the lending tool was not entered within 60 s")
			}
			s, ok := mcp.GetSessionFromContext(p.lent)
			if !ok {
				r.Fatal("press: stdio: the handler context carries no session")
			}
			nc, ok := s.(interface {
				NotificationChannel() chan<- mcp.JSONRPCNotification
			})
			if !ok {
				r.Fatal("press: stdio: the session has no notification channel")
			}
			p.nch = nc.NotificationChannel()
			peers = append(peers, p)
		}
	}
	for _, p := range peers {
		p.wg.Add(1)
		go p.respond()
	}
	return peers, func() {
		for _, p := range peers {
			p.shutdown()
		}
		for _, in := range ins {
			in.Close()
		}
	}
}

type pressCfg struct {
	sessions int
	senders  int    // sender goroutines per session
	n        int    // notifications per sender
	bigEvery int    // 0: all small; 1: all 64 KiB; k: every k-th 64 KiB
	reader   string // prompt | slow | paused
	traffic  bool   // server-issued requests and the peer's own requests interleaved
}

func (c pressCfg) key(kind kit.Kind) string {
	shape := "single"
	if c.sessions > 1 || c.senders > 1 {
		shape = fmt.Sprintf("multi-%dx%d", c.sessions, c.senders)
	}
	pay := "small"
	switch {
	case c.bigEvery == 1:
		pay = "64KiB"
	case c.bigEvery > 1:
		pay = fmt.Sprintf("64KiB-every-%d", c.bigEvery)
	}
	tr := ""
	if c.traffic {
		tr = "|traffic"
	}
	return fmt.Sprintf("press|%s|%s|n=%d|%s|reader=%s%s", kind, shape, c.n, pay, c.reader, tr)
}

func (c pressCfg) class() string {
	if c.sessions > 1 || c.senders > 1 {
		return "press-multi"
	}
	return "press-single"
}

var pressPad = strings.Repeat("P", 64<<10)

// pressure runs one burst scenario and judges it; it returns the number of refused sends.
func pressure(r *vh.Run, kind kit.Kind, scen int, cfg pressCfg) (refusedTotal int) {
	key := cfg.key(kind)
	class := cfg.class()
	peers, closeAll := pressPeers(r, kind, cfg.sessions)
	defer closeAll()

	var mu sync.Mutex
	var sends []*pSend
	var reqs []*pReq
	var progress atomic.Int64
	var sendersWG, trafficWG sync.WaitGroup
	sendersDone := make(chan struct{})
	ownPosted := atomic.Int64{}

	if cfg.reader == "paused" {
		for _, p := range peers {
			p.pause()
		}
	}
	for _, p := range peers {
		for s := 0; s < cfg.senders; s++ {
			sendersWG.Add(1)
			go func(p *pPeer, s int) {
				defer sendersWG.Done()
				local := make([]*pSend, 0, cfg.n)
				for i := 0; i < cfg.n; i++ {
					rec := &pSend{nonce: fmt.Sprintf("pz-%s-%d-%s-%d-%d", kind, scen, p.name, s, i), sess: p.idx, sender: s, seq: i}
					params := map[string]interface{}{"nonce": rec.nonce}
					if cfg.bigEvery > 0 && i%cfg.bigEvery == cfg.bigEvery-1 {
						params["pad"] = pressPad
					}
					if err := p.notify(params); err != nil {
						rec.err = err.Error()
					}
					local = append(local, rec)
					progress.Add(1)
					if cfg.reader == "slow" {
						// keeps the queue hovering around full instead of overrunning it at once
						if rec.err != "" {
							time.Sleep(100 * time.Microsecond)
						} else {
							runtime.Gosched()
						}
					}
				}
				mu.Lock()
				sends = append(sends, local...)
				mu.Unlock()
			}(p, s)
		}
		if cfg.traffic {
			trafficWG.Add(2)
			go func(p *pPeer) { // server-issued requests on the same stream
				defer trafficWG.Done()
				for k := 0; k < 400; k++ {
					select {
					case <-sendersDone:
						if k >= 8 {
							return
						}
					default:
					}
					rq := &pReq{nonce: fmt.Sprintf("pr-%s-%d-%s-%d", kind, scen, p.name, k), sess: p.idx}
					ctx, cancel := context.WithTimeout(context.Background(), 20*time.Second)
					names, err := p.request(ctx, rq.nonce)
					cancel()
					rq.names = names
					if err != nil {
						rq.err = err.Error()
						time.Sleep(2 * time.Millisecond)
					}
					mu.Lock()
					reqs = append(reqs, rq)
					mu.Unlock()
				}
			}(p)
			go func(p *pPeer) { // the peer's own requests: their answers share the stream (legacy SSE, stdio)
				defer trafficWG.Done()
				for k := 0; k < 300; k++ {
					select {
					case <-sendersDone:
						if k >= 16 {
							return
						}
					default:
					}
					p.post(kit.EchoCallBody(fmt.Sprintf(`"own-%d-%s-%d"`, scen, p.name, k), fmt.Sprintf("own-%d-%s-%d", scen, p.name, k), "x", nil))
					ownPosted.Add(1)
					time.Sleep(time.Millisecond)
				}
			}(p)
		}
	}
	go func() { sendersWG.Wait(); close(sendersDone) }()

	// the reader's regime while the burst runs
	blocked := false
	switch cfg.reader {
	case "slow":
		on := false
		for done := false; !done; {
			select {
			case <-sendersDone:
				done = true
			case <-time.After(time.Duration(1+2*boolInt(on)) * time.Millisecond):
				on = !on
				for _, p := range peers {
					if on {
						p.pause()
					} else {
						p.resume()
					}
				}
			}
		}
	case "paused":
		// resume once the senders have finished, or have made no progress for a while (a synchronous writer waits for
		// the reader), or after 4 s at the latest
		start, last, lastAt := time.Now(), int64(-1), time.Now()
		for done := false; !done; {
			select {
			case <-sendersDone:
				done = true
			case <-time.After(10 * time.Millisecond):
				if v := progress.Load(); v != last {
					last, lastAt = v, time.Now()
				} else if time.Since(lastAt) > 300*time.Millisecond {
					blocked, done = true, true
				}
				if time.Since(start) > 4*time.Second {
					done = true
				}
			}
		}
		time.Sleep(50 * time.Millisecond) // "pauses for a while"
	}
	for _, p := range peers {
		p.resume()
	}
	select {
	case <-sendersDone:
	case <-time.After(pressWatchdog):
		r.Inconclusive(fmt.Sprintf("%s: the senders had not finished %v after the peer resumed reading; scenario not judged", key, pressWatchdog))
		return 0
	}
	tdone := make(chan struct{})
	go func() { trafficWG.Wait(); close(tdone) }()
	select {
	case <-tdone:
	case <-time.After(pressWatchdog):
		r.Inconclusive(fmt.Sprintf("%s: the interleaved requests had not returned %v after the burst; scenario not judged", key, pressWatchdog))
		return 0
	}

	// quiescence by order: a closing fence per session (sent like every other notification)
	for _, p := range peers {
		fn := fmt.Sprintf("pfence-%s-%d-%s", kind, scen, p.name)
		sent := false
		giveUp := time.Now().Add(60 * time.Second)
		for !sent && time.Now().Before(giveUp) {
			if sent = p.notify(map[string]interface{}{"nonce": fn}) == nil; !sent {
				time.Sleep(5 * time.Millisecond) // the queue is still draining
			}
		}
		if _, ok := p.log().WaitFor(0, time.Until(giveUp)+time.Second, func(f kit.Frame) bool {
			return strings.Contains(headOf(f.Data), fn)
		}); !sent || !ok {
			r.Inconclusive(fmt.Sprintf("%s: the closing fence did not reach session %s within 60 s; scenario not judged", key, p.name))
			return 0
		}
	}

	byNonce := map[string]*pSend{}
	for _, s := range sends {
		byNonce[s.nonce] = s
	}
	reqByNonce := map[string]*pReq{}
	for _, q := range reqs {
		reqByNonce[q.nonce] = q
	}
	type arrival struct{ sess, idx int }
	var arr, reqArr map[string][]arrival
	ownAnswers := 0
	collect := func() {
		arr, reqArr, ownAnswers = map[string][]arrival{}, map[string][]arrival{}, 0
		for _, p := range peers {
			for _, f := range p.log().Since(0) {
				h := headOf(f.Data)
				switch {
				case strings.Contains(h, pressMethod):
					if n := nonceOf(h); n != "" {
						arr[n] = append(arr[n], arrival{p.idx, f.Idx})
					}
				case strings.Contains(h, `"roots/list"`):
					if n := nonceOf(h); n != "" {
						reqArr[n] = append(reqArr[n], arrival{p.idx, f.Idx})
					}
				case strings.Contains(h, `"id":"own-`):
					ownAnswers++
				}
			}
		}
	}
	deadline := time.Now().Add(10 * time.Second)
	for {
		collect()
		missing := 0
		for _, s := range sends {
			if s.err == "" && len(arr[s.nonce]) == 0 {
				missing++
			}
		}
		if missing == 0 || time.Now().After(deadline) {
			break
		}
		time.Sleep(20 * time.Millisecond)
	}

	// ---- judgement: notifications
	accepted, refused, failedOther, delivered := 0, 0, 0, 0
	sort.Slice(sends, func(i, j int) bool {
		a, b := sends[i], sends[j]
		if a.sess != b.sess {
			return a.sess < b.sess
		}
		if a.sender != b.sender {
			return a.sender < b.sender
		}
		return a.seq < b.seq
	})
	type lastT struct{ seq, idx int }
	last := map[[2]int]lastT{}
	maxRun := 0 // longest run of consecutive accepted sends of one sender (backlog proxy)
	run := 0
	for _, s := range sends {
		r.Eval(1)
		own, other := 0, -1
		ownIdx := -1
		for _, a := range arr[s.nonce] {
			if a.sess == s.sess {
				own++
				ownIdx = a.idx
			} else {
				other = a.sess
			}
		}
		w := map[string]interface{}{"scenario": key, "nonce": s.nonce, "session": s.sess, "sender": s.sender, "seq": s.seq, "send_error": s.err}
		if other >= 0 {
			w["arrived_on_session"] = other
			r.Violation(fmt.Sprintf("C05|%s|%s|send|delivered-to-other-session", kind, class), fmt.Sprintf("%s: a notification addressed to one session arrived on another session's stream", key), w)
		}
		if own > 1 {
			w["times"] = own
			r.Violation(fmt.Sprintf("C05|%s|%s|send|duplicate-delivery", kind, class), fmt.Sprintf("%s: a notification was delivered %d times on the session's stream", key, own), w)
		}
		switch {
		case s.err == "":
			accepted++
			run++
			if run > maxRun {
				maxRun = run
			}
			if own == 0 {
				r.Violation(fmt.Sprintf("C05|%s|%s|send|reported-success-not-delivered", kind, class), fmt.Sprintf("%s: the send returned nil but the notification never arrived on the session's stream (the closing fence sent after it did)", key), w)
				continue
			}
			delivered++
			k := [2]int{s.sess, s.sender}
			if l, ok := last[k]; ok && ownIdx < l.idx {
				w["previous_seq"], w["previous_arrival_index"], w["arrival_index"] = l.seq, l.idx, ownIdx
				r.Violation(fmt.Sprintf("C05|%s|%s|send|reordered", kind, class), fmt.Sprintf("%s: notification seq %d, sent by the same goroutine to the same session after seq %d (both sends returned nil), arrived before it", key, s.seq, l.seq), w)
			}
			if l, ok := last[k]; !ok || ownIdx > l.idx {
				last[k] = lastT{s.seq, ownIdx}
			}
		case strings.Contains(s.err, "full"):
			refused++
			run = 0
			if own > 0 {
				r.Violation(fmt.Sprintf("C05|%s|%s|send|refused-send-delivered", kind, class), fmt.Sprintf("%s: the send was refused (%s) and the notification arrived all the same", key, s.err), w)
			}
		default:
			failedOther++ // failed inside the write: may or may not have arrived (once)
			run = 0
			r.SetAdd("press_other_send_errors", errClass(fmt.Errorf("%s", s.err)))
		}
	}

	// ---- judgement: server-issued requests interleaved with the burst
	reqOK, reqFailed := 0, 0
	for _, q := range reqs {
		r.Eval(1)
		own, other := 0, -1
		for _, a := range reqArr[q.nonce] {
			if a.sess == q.sess {
				own++
			} else {
				other = a.sess
			}
		}
		w := map[string]interface{}{"scenario": key, "nonce": q.nonce, "session": q.sess, "error": q.err, "returned": q.names}
		if other >= 0 {
			r.Violation(fmt.Sprintf("C05|%s|%s|request|delivered-to-other-session", kind, class), fmt.Sprintf("%s: a server-issued request arrived on another session's stream", key), w)
		}
		if own > 1 {
			r.Violation(fmt.Sprintf("C05|%s|%s|request|duplicate-delivery", kind, class), fmt.Sprintf("%s: a server-issued request arrived %d times", key, own), w)
		}
		if q.err != "" {
			reqFailed++
			r.SetAdd("press_request_errors", errClass(fmt.Errorf("%s", q.err)))
			continue
		}
		want := fmt.Sprintf("%s#%s", peers[q.sess].name, q.nonce)
		if own == 0 || len(q.names) != 1 || q.names[0] != want {
			r.Violation(fmt.Sprintf("C05|%s|%s|request|accepted-answer-not-the-sessions-answer-to-this-request", kind, class), fmt.Sprintf("%s: a server-issued request returned %v without error; the addressed session's answer to it is %q (request seen %d times on its stream)", key, q.names, want, own), w)
			continue
		}
		reqOK++
	}

	r.Count("press_sends_accepted_"+string(kind), int64(accepted))
	r.Count("press_sends_refused_"+string(kind), int64(refused))
	r.Count("press_sends_failed_otherwise_"+string(kind), int64(failedOther))
	r.Count("press_delivered_"+string(kind), int64(delivered))
	r.Count("press_requests_answered_"+string(kind), int64(reqOK))
	r.Count("press_requests_failed_"+string(kind), int64(reqFailed))
	r.Count("press_own_request_answers_seen_on_streams_"+string(kind), int64(ownAnswers))
	r.Max("press_longest_accepted_run_"+string(kind), int64(maxRun))
	if refused > 0 {
		r.SetAdd("press_scenarios_with_refused_sends", key)
	}
	if blocked {
		r.SetAdd("press_scenarios_where_the_sender_waited_for_the_reader", key)
	}
	if delivered > 0 {
		r.Distinct(key)
	} else {
		r.Count("press_scenarios_without_a_delivery", 1)
	}
	r.Sample(map[string]interface{}{"part": "pressure", "scenario": key, "sends": len(sends), "accepted": accepted, "refused_full": refused, "failed_otherwise": failedOther,
		"delivered_in_order": delivered, "sender_waited_for_reader": blocked, "requests_answered": reqOK, "requests_failed": reqFailed, "own_posts": ownPosted.Load(), "own_answers_on_stream": ownAnswers})
	return refused
}

func boolInt(b bool) int {
	if b {
		return 1
	}
	return 0
}

// pressurePart: the scenario list of one server kind.
func pressurePart(r *vh.Run, kind kit.Kind) {
	cfgs := []pressCfg{
		{1, 1, 150, 0, "prompt", false},
		{1, 1, 150, 1, "paused", false},
		{1, 1, 150, 0, "slow", false},
		{1, 1, 1000, 0, "slow", false},
		{1, 1, 1000, 8, "paused", false},
		{1, 1, 1000, 0, "prompt", true},
		{1, 1, 5000, 0, "paused", false},
		{1, 1, 5000, 32, "slow", false},
		{4, 1, 150, 4, "slow", true},
		{4, 2, 1000, 16, "paused", true},
		{3, 2, 5000, 0, "slow", true},
	}
	if !r.Quick() {
		cfgs = append(cfgs,
			pressCfg{1, 1, 1000, 1, "paused", false},
			pressCfg{1, 1, 1000, 1, "slow", true},
			pressCfg{1, 1, 5000, 4, "paused", true},
			pressCfg{1, 1, 5000, 8, "slow", false},
			pressCfg{1, 1, 5000, 0, "prompt", false},
			pressCfg{8, 2, 5000, 64, "slow", true},
			pressCfg{8, 2, 1000, 8, "paused", true},
			pressCfg{16, 1, 150, 1, "paused", true},
		)
		// a seeded tail: random shapes of the same family
		rng := r.Rand("c05-press-" + string(kind))
		for i := 0; i < 12; i++ {
			n := []int{150, 1000, 5000}[rng.Intn(3)]
			big := []int{0, 1, 4, 16, 64}[rng.Intn(5)]
			if n == 5000 && big == 1 {
				big = 8
			}
			cfgs = append(cfgs, pressCfg{1 + rng.Intn(6), 1 + rng.Intn(2), n, big, []string{"prompt", "slow", "paused"}[rng.Intn(3)], rng.Intn(2) == 0})
		}
	}
	refused := 0
	for i, c := range cfgs {
		refused += pressure(r, kind, i, c)
	}
	if refused == 0 && !kind.IsStreamable() {
		r.Inconclusive(fmt.Sprintf("pressure %s: no send was ever refused, i.e. no outgoing queue filled in any of %d burst scenarios", kind, len(cfgs)))
	}
}
