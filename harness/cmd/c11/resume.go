// resume.go — HOW a listening stream is opened, as a dimension of every scenario of this check.
//
// A real client does not reconnect with a plain GET: once it has received an event it sends the id of the last one
// in a Last-Event-ID header, and the server's handler then runs a resumption step right after it registered the
// stream. Every family of this check therefore opens its streams in one of four ways:
//
//	plain    no Last-Event-ID (a client that has not received anything yet)
//	last     the id of the event received last by this session's client (on whichever stream it had then)
//	stale    an id really received earlier, but not the last one
//	garbage  an id the server never issued (plausible-looking, numeric, over-long, odd characters)
//
// The ids are real: every session is primed first (a first stream, two notifications delivered on it and read).
//
// Besides, one family exists only because of that step: a RESUMED stream A that has registered and is parked at get.T
// — headers at the peer, post-registration (resumption) step not yet run — is superseded by B; then the two
// handlers are let go in either order (B runs to completion first, then A continues; or A continues while B is
// itself still parked before its step), or B is closed by its own peer before A continues and a third stream opens.
//
// The oracle is the one of the overlap schedules (overlap.go, property text only): sends placed between the steps
// succeed and are delivered exactly once, on a stream that no stream whose headers were at the peer clearly follows;
// at the end a send succeeds and arrives on exactly one stream, every other opened stream has ended, exactly one
// stream is registered, a further send arrives on the survivor only. The "stream/resumed" notices a server writes on
// a resumed stream are extra frames: deliveries are matched by nonce, the notices are only counted.
package main

import (
	"context"
	"fmt"
	"math/rand"
	"strings"
	"time"

	mcp "trpc.group/trpc-go/trpc-mcp-go"

	"verifharness/lib/sched"
	"verifharness/lib/vh"
)

type openMode int

const (
	mPlain openMode = iota
	mLast
	mStale
	mGarbage
)

var allModes = []openMode{mPlain, mLast, mStale, mGarbage}

func (m openMode) String() string {
	switch m {
	case mLast:
		return "last"
	case mStale:
		return "stale"
	case mGarbage:
		return "garbage"
	}
	return "plain"
}

// modeSuffix names the way the streams of a scenario were opened; all-plain keeps the scenario's historical name.
func modeSuffix(ms ...openMode) string {
	plain := true
	n := make([]string, len(ms))
	for i, m := range ms {
		n[i] = m.String()
		if m != mPlain {
			plain = false
		}
	}
	if plain {
		return ""
	}
	return ",open=" + strings.Join(n, ">")
}

// stormMode: most reconnects of a free-running client carry the last id; the others occur too.
func stormMode(rng *rand.Rand) openMode {
	switch x := rng.Intn(10); {
	case x < 5:
		return mLast
	case x < 7:
		return mPlain
	case x < 9:
		return mStale
	}
	return mGarbage
}

// ids the server never issued
var garbageIDs = []string{
	"evt-1-999999999",           // the implementation's own format, never issued
	"zz-unknown",                // free text
	"0",                         //
	"-1",                        //
	"18446744073709551616",      // 2^64
	"evt-",                      // truncated
	strings.Repeat("9", 2000),   // over-long
	"../../x?y=%00&z",           // characters that mean something elsewhere
	"{\"id\":1}",                // JSON
	"evt-9999999999999-1 evt-1", // two tokens
}

func (e *env) noteID(id string) {
	e.idmu.Lock()
	e.ids = append(e.ids, id)
	e.idmu.Unlock()
}

func (e *env) knownIDs() int {
	e.idmu.Lock()
	defer e.idmu.Unlock()
	return len(e.ids)
}

// resumeID returns the Last-Event-ID value for the mode and the mode actually realised (a client that has not
// received enough events cannot send a last / stale id: the GET is then plain and counted as such).
func (e *env) resumeID(m openMode) (string, openMode) {
	e.idmu.Lock()
	defer e.idmu.Unlock()
	n := len(e.ids)
	switch {
	case m == mLast && n > 0:
		return e.ids[n-1], mLast
	case m == mStale && n > 1:
		e.staleN++
		return e.ids[(e.staleN*7)%(n-1)], mStale
	case m == mGarbage:
		e.garbN++
		return garbageIDs[(e.garbN+len(e.sid)+int(e.sid[0]))%len(garbageIDs)], mGarbage
	}
	if m != mPlain {
		e.r.Count("open_mode_not_realisable_no_event_id_received", 1)
	}
	return "", mPlain
}

// openAs issues the GET in the given way and returns once the response headers were received.
func (e *env) openAs(name string, m openMode) (*tracked, error) {
	hdr := map[string]string{"Accept": "text/event-stream", "Mcp-Session-Id": e.sid}
	id, eff := e.resumeID(m)
	if eff != mPlain {
		hdr["Last-Event-ID"] = id
	}
	s, re := e.hp.OpenStream(context.Background(), "GET", e.in.URL(), hdr, 1024)
	if s == nil {
		return nil, fmt.Errorf("GET (%s) refused: status %d %s", eff, re.Status, re.Err)
	}
	e.r.Count("streams_opened_"+eff.String(), 1)
	t := track(name, s, e)
	t.mode = eff
	return t, nil
}

// prime gives the session its history: a first listening stream — opened the only way a fresh client can, without
// Last-Event-ID — on which two notifications are delivered and read, so that the client holds a current and an
// older event id. The stream is then closed by the peer and its registration awaited (watchdog only).
func (e *env) prime() {
	n0 := mcp.VerifListeningStreams(e.in.Server)
	p, err := e.openAs("P0", mPlain)
	if err != nil {
		e.r.Fatal("open the first stream of a session: %v", err)
	}
	if e.expectOn("first-stream", "1", p) && e.expectOn("first-stream", "2", p) {
		// the id travels in the same event as the nonce; the reader goroutine notes it before it publishes the nonce
		if e.knownIDs() >= 2 {
			e.r.Count("sessions_primed_with_real_event_ids", 1)
		} else {
			e.r.Count("sessions_primed_but_events_carried_no_id", 1)
		}
	}
	p.s.Close()
	for dl := time.Now().Add(5 * time.Second); mcp.VerifListeningStreams(e.in.Server) > n0 && time.Now().Before(dl); {
		time.Sleep(time.Millisecond)
	}
}

// beginAs: see begin (overlap.go); the GET is issued in the given way.
func (e *env) beginAs(name string, m openMode) *ostream {
	o := &ostream{name: name, ready: make(chan struct{})}
	o.startSeq = lclock.Add(1)
	go func() {
		t, err := e.openAs(name, m)
		o.t, o.err = t, err
		o.hdrSeq = lclock.Add(1)
		close(o.ready)
	}()
	return o
}

// pickMode: the way one stream of an overlap schedule is opened, by the schedule's open class.
func pickMode(class string, rng *rand.Rand) openMode {
	switch class {
	case "plain":
		return mPlain
	case "last":
		return mLast
	}
	return allModes[rng.Intn(len(allModes))] // "mixed"
}

// settled waits (sync aid, never judged) until the handler of a stream opened with a Last-Event-ID has had the time
// to run its post-registration step: the server under test writes a notice on such a stream. It reports whether
// the notice was seen.
func settled(t *tracked) bool {
	if t.mode == mPlain {
		return false
	}
	for dl := time.Now().Add(300 * time.Millisecond); time.Now().Before(dl); {
		t.mu.Lock()
		n := t.notices
		t.mu.Unlock()
		if n > 0 {
			return true
		}
		time.Sleep(500 * time.Microsecond)
	}
	return false
}

// settle: the same for a handler that was let go at get.T.
func (o *ov) settle(s *ostream) {
	if s.t.mode == mPlain {
		time.Sleep(3 * time.Millisecond)
		return
	}
	if settled(s.t) {
		o.r.Count("resume_post_registration_step_seen_complete", 1)
	}
}

// start opens a stream of the schedule and waits until it is parked at get.T (n-th waiter) with its headers at the peer.
func (o *ov) startParkedAtT(name string, m openMode, n int) *ostream {
	s := o.e.beginAs(name, m)
	o.streams = append(o.streams, s)
	if !s.awaitReady(20 * time.Second) {
		o.inconclusive("the GET of stream " + name + " did not answer")
		return nil
	}
	if s.t == nil {
		o.violation("open-refused", fmt.Sprintf("the GET of stream %s was refused: %v", name, s.err), nil)
		return nil
	}
	if o.ctl.AwaitWaiting("get.T", n, 8*time.Second) < n {
		o.inconclusive("the handler of stream " + name + " did not reach get.T")
		return nil
	}
	o.step("open %s (%s): registered, headers received, parked at T before its post-registration step", name, s.t.mode)
	return s
}

func (o *ov) letGoT(i int, name string) bool {
	if !o.ctl.ReleaseOne("get.T", i) {
		o.inconclusive("the handler of stream " + name + " parked at get.T was gone (held longer than the controller allows)")
		return false
	}
	o.step("let %s go on from T", name)
	return true
}

// resumeSuperseded: [P open;] A registers and parks at T; B registers (superseding A) and parks at T; then `order`.
func resumeSuperseded(r *vh.Run, mA, mB openMode, order string, keepP bool, idx int) {
	if ovViolations.Load() >= ovViolationCap {
		r.Count("overlap_schedules_skipped_failure_established", 1)
		return
	}
	pre := "closed-by-peer"
	if keepP {
		pre = "open"
	}
	scn := fmt.Sprintf("resume-superseded|open=%s>%s,predecessor=%s,order=%s", mA, mB, pre, order)
	o := newOv(r, scn, sched.New(12*time.Second, r.Seed+int64(idx)))
	defer o.close()
	if keepP {
		// the stream the client had before is still open when A arrives: A's registration supersedes it
		p := o.e.beginAs("P", mLast)
		o.streams = append(o.streams, p)
		if !p.awaitReady(20*time.Second) || p.t == nil {
			o.inconclusive("stream P could not be opened")
			return
		}
		o.step("open P (%s)", p.t.mode)
		o.midSend("P-alone")
	}
	o.ctl.Hold("get.T")
	a := o.startParkedAtT("A", mA, 1)
	if a == nil {
		return
	}
	o.midSend("A-parked-at-T")
	b := o.startParkedAtT("B", mB, 2)
	if b == nil {
		return
	}
	if a.t.mode != mPlain {
		r.Count("resumed_stream_superseded_before_its_post_registration_step", 1)
	}
	o.midSend("A-and-B-parked-at-T")
	switch order {
	case "B-then-A":
		if !o.letGoT(1, "B") {
			return
		}
		o.settle(b)
		o.midSend("B-complete,A-parked-at-T")
		if !o.letGoT(0, "A") {
			return
		}
		o.midSend("while-A-continues")
		a.t.ended(10 * time.Second)
		o.midSend("after-A-continued")
	case "A-then-B":
		if !o.letGoT(0, "A") {
			return
		}
		o.midSend("while-A-continues,B-parked-at-T")
		a.t.ended(10 * time.Second)
		o.midSend("after-A-continued,B-parked-at-T")
		if !o.letGoT(0, "B") {
			return
		}
		o.settle(b)
		o.midSend("B-complete")
	case "B-gone-then-A":
		// B ends for a reason of its own (its peer leaves) and removes itself; A continues afterwards; the client reconnects
		if !o.letGoT(1, "B") {
			return
		}
		o.settle(b)
		o.midSend("B-complete,A-parked-at-T")
		// the peer leaves only after it has read what was sent to it: an event cut off by the peer's own departure
		// would say nothing about the server. Not read within the watchdog: B stays, the judgement decides.
		if m := o.sends[len(o.sends)-1]; o.waitAnywhere(m.nonce, 10*time.Second) == nil {
			o.step("the send was not read on any stream; B stays open")
			break
		}
		b.t.s.Close()
		o.step("peer closes B")
		for dl := time.Now().Add(5 * time.Second); mcp.VerifListeningStreams(o.in.Server) > 0 && time.Now().Before(dl); {
			time.Sleep(time.Millisecond)
		}
		if mcp.VerifListeningStreams(o.in.Server) > 0 {
			o.inconclusive("the server did not notice that B's peer left")
			return
		}
		if !o.letGoT(0, "A") {
			return
		}
		a.t.ended(10 * time.Second)
		c := o.startParkedAtT("C", mLast, 1)
		if c == nil {
			return
		}
		o.midSend("C-parked-at-T")
	}
	o.releaseAll()
	w := o.judge()
	if w == nil {
		return
	}
	r.Distinct(scn)
	r.Count("schedules_realised", 1)
	r.Count("resume_schedules_judged", 1)
	for _, m := range o.sends {
		if m.judged {
			r.Count("resume_mid_sends_delivered", 1)
		}
	}
	r.SetAdd("resume_survivor", order+": "+w.name)
	if mA == mLast && keepP && mB == mLast && order != "B-gone-then-A" {
		r.Sample(map[string]interface{}{"scenario": scn, "schedule": o.trace, "survivor": w.name})
	}
}

func resumeAll(r *vh.Run) {
	idx := 0
	for rep := 0; rep < r.Pick(1, 3); rep++ {
		for _, mA := range allModes {
			for _, mB := range allModes {
				for _, order := range []string{"B-then-A", "A-then-B", "B-gone-then-A"} {
					for _, keepP := range []bool{true, false} {
						idx++
						resumeSuperseded(r, mA, mB, order, keepP, idx)
					}
				}
			}
		}
	}
	if ovViolations.Load() == 0 {
		r.Require(r.Counter("resume_schedules_judged") > 0 && r.Counter("resumed_stream_superseded_before_its_post_registration_step") > 0 &&
			r.Counter("streams_opened_last") > 0 && r.Counter("streams_opened_stale") > 0 && r.Counter("streams_opened_garbage") > 0,
			"no schedule with a resumed stream superseded before its post-registration step could be judged (judged=%d, resumed+superseded=%d, opened last/stale/garbage=%d/%d/%d)",
			r.Counter("resume_schedules_judged"), r.Counter("resumed_stream_superseded_before_its_post_registration_step"),
			r.Counter("streams_opened_last"), r.Counter("streams_opened_stale"), r.Counter("streams_opened_garbage"))
	}
}
