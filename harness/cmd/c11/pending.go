// pending.go — everything that belongs to the LIVE stream keeps working across the LATE exit of a replaced stream.
//
// The other families of this check judge the stream table and the delivery of notifications. A listening stream also
// carries the server's own REQUESTS (Server.SendRequest, Server.ListRoots): the frame goes out on the stream, the
// caller stays pending until the client answers by POST. "A stream that ends for any reason removes only itself":
// the exit of an old, replaced stream A — however late it runs — must not touch what was sent on its successor B.
//
// Here the teardown of A (the code of its handler after it woke from cancellation) is DELAYED past the registration
// of B by one of
//
//	stalled-peer        A's peer (a raw TCP connection) stops reading in the middle of a very large event: the writer
//	                    of that event is blocked in the socket write and holds A's write lock, A's handler waits for it;
//	                    released by the peer reading on (drain: A then ends with the server's end of stream — the handler
//	                    has returned) or by the peer dropping the connection (drop: the writer fails);
//	writer-held@P       a writer of A is parked by the yield controller between the lines of an event (P =
//	                    sse.write.afterid / sse.write.beforeterm), holding A's write lock; every other writer (those of B)
//	                    is passed through the point; A is replaced while its peer is still connected, or its peer left first;
//	handler-held@get.E  A's handler itself is parked right after it woke, before its teardown.
//
// While the teardown is delayed — B's response headers have been received, A's handler is known to have woken — the
// server issues requests for the session: SendRequest with an id of its own and with a generated id (custom method),
// and ListRoots from inside a tool handler (roots/list). Each must be delivered on B. Then the teardown is released
// and has run (observed: A ended by the server; where the peer is gone: the writer returned, plus a pause). Only then
// the client answers each request by POST. More requests are issued after the teardown, and after B itself was
// replaced by a stream C that resumes with the last event id received on B.
//
// Oracle (property text): every request issued after the live stream's headers were received is delivered on that
// stream and returns the client's answer — not an error, not a nil result, and not before the client answered; plus
// the oracles of the other families (notification delivered on the live stream only, the live stream stays
// registered). A context running out is a watchdog: inconclusive. A delay that could not be set up (or did not last
// until the requests were out) makes the schedule inconclusive and is counted.
package main

import (
	"bufio"
	"context"
	"encoding/json"
	"fmt"
	"io"
	"net"
	"net/http"
	"runtime/debug"
	"strings"
	"sync"
	"time"

	mcp "trpc.group/trpc-go/trpc-mcp-go"

	"verifharness/lib/kit"
	"verifharness/lib/sched"
	"verifharness/lib/vh"
)

// reqFrame is a server-to-client request frame as received on a stream.
type reqFrame struct {
	id     string // raw JSON of the id member
	method string
	nonce  string // params.nonce when present
}

func parseReqFrame(data string) (reqFrame, bool) {
	if len(data) > 1<<20 || !strings.Contains(data, `"method"`) || !strings.Contains(data, `"id"`) {
		return reqFrame{}, false
	}
	var m struct {
		ID     json.RawMessage `json:"id"`
		Method string          `json:"method"`
		Params json.RawMessage `json:"params"`
	}
	if json.Unmarshal([]byte(data), &m) != nil || m.Method == "" || len(m.ID) == 0 || string(m.ID) == "null" {
		return reqFrame{}, false
	}
	f := reqFrame{id: string(m.ID), method: m.Method}
	var p struct {
		Nonce string `json:"nonce"`
	}
	if len(m.Params) > 0 && json.Unmarshal(m.Params, &p) == nil {
		f.nonce = p.Nonce
	}
	return f, true
}

// waitReq waits until a request frame accepted by match was received on the stream.
func (t *tracked) waitReq(match func(reqFrame) bool, d time.Duration) (reqFrame, bool) {
	tm := time.AfterFunc(d, func() { t.mu.Lock(); t.cond.Broadcast(); t.mu.Unlock() })
	defer tm.Stop()
	deadline := time.Now().Add(d)
	t.mu.Lock()
	defer t.mu.Unlock()
	for {
		for _, f := range t.reqs {
			if match(f) {
				return f, true
			}
		}
		if t.done || !time.Now().Before(deadline) {
			return reqFrame{}, false
		}
		t.cond.Wait()
	}
}

func (t *tracked) hasReq(match func(reqFrame) bool) bool {
	t.mu.Lock()
	defer t.mu.Unlock()
	for _, f := range t.reqs {
		if match(f) {
			return true
		}
	}
	return false
}

// ---- a listening stream over a raw TCP connection whose reading the scenario controls byte by byte ----

type rawStream struct {
	conn net.Conn
	resp *http.Response
	got  int
}

func openRaw(in *kit.Instance, sid, lastID string) (*rawStream, error) {
	conn, err := net.DialTimeout("tcp", in.TS.Listener.Addr().String(), 10*time.Second)
	if err != nil {
		return nil, err
	}
	if tc, ok := conn.(*net.TCPConn); ok {
		_ = tc.SetReadBuffer(32 << 10) // a small receive window: what the peer does not read stays with the server
	}
	req := "GET " + in.Path + " HTTP/1.1\r\nHost: rawpeer\r\nAccept: text/event-stream\r\nMcp-Session-Id: " + sid + "\r\n"
	if lastID != "" {
		req += "Last-Event-ID: " + lastID + "\r\n"
	}
	_ = conn.SetDeadline(time.Now().Add(15 * time.Second))
	if _, err := io.WriteString(conn, req+"\r\n"); err != nil {
		conn.Close()
		return nil, err
	}
	resp, err := http.ReadResponse(bufio.NewReaderSize(conn, 4096), nil)
	if err != nil {
		conn.Close()
		return nil, err
	}
	if resp.StatusCode != 200 {
		conn.Close()
		return nil, fmt.Errorf("status %d", resp.StatusCode)
	}
	_ = conn.SetDeadline(time.Time{})
	return &rawStream{conn: conn, resp: resp}, nil
}

// readIntoBigEvent reads until at least min bytes were received and the bytes read last are all filler: the peer
// is then in the middle of the large event, whose writer has not finished.
func (s *rawStream) readIntoBigEvent(min int, d time.Duration) bool {
	_ = s.conn.SetReadDeadline(time.Now().Add(d))
	defer s.conn.SetReadDeadline(time.Time{})
	buf := make([]byte, 32<<10)
	for {
		n, err := s.resp.Body.Read(buf)
		s.got += n
		if n >= 512 && s.got >= min && strings.Trim(string(buf[n-512:n]), "x") == "" {
			return true
		}
		if err != nil {
			return false
		}
	}
}

// drain reads on to the end of the stream; true when the server ended it properly (the handler has returned).
func (s *rawStream) drain(d time.Duration) bool {
	if tc, ok := s.conn.(*net.TCPConn); ok {
		_ = tc.SetReadBuffer(8 << 20)
	}
	_ = s.conn.SetReadDeadline(time.Now().Add(d))
	n, err := io.Copy(io.Discard, s.resp.Body)
	s.got += int(n)
	return err == nil
}

func (s *rawStream) drop() { s.conn.Close() }

// ---- server requests ----

const (
	kInt   = "SendRequest,own-id"
	kGen   = "SendRequest,generated-id"
	kRoots = "ListRoots-in-tool-handler"
)

var allReqKinds = []string{kInt, kGen, kRoots}

type rootsOutcome struct {
	res *mcp.ListRootsResult
	err error
	pan string
}

var rootsCalls sync.Map // nonce -> chan rootsOutcome

// pendingFixture: the tool whose handler asks the client for its roots.
func pendingFixture(in *kit.Instance) {
	in.RegisterTool(mcp.NewTool("askroots", mcp.WithString("nonce", mcp.Required())), func(ctx context.Context, req *mcp.CallToolRequest) (res *mcp.CallToolResult, err error) {
		nonce, _ := req.Params.Arguments["nonce"].(string)
		var out rootsOutcome
		defer func() {
			if x := recover(); x != nil {
				out.pan = fmt.Sprintf("%v\n%s", x, debug.Stack())
				res, err = mcp.NewTextResult("panicked"), nil
			}
			if ch, ok := rootsCalls.Load(nonce); ok {
				ch.(chan rootsOutcome) <- out
			}
		}()
		rctx, cancel := context.WithTimeout(ctx, 25*time.Second)
		defer cancel()
		out.res, out.err = in.Server.ListRoots(rctx)
		return mcp.NewTextResult("asked"), nil
	})
}

type preq struct {
	kind, phase, nonce string
	frame              reqFrame
	onLive             bool
	done               chan struct{}
	raw                *json.RawMessage
	roots              *mcp.ListRootsResult
	err                error
	pan                string
	watchdog           bool
	answerStatus       int
}

func (q *preq) returned() bool {
	select {
	case <-q.done:
		return true
	default:
		return false
	}
}

func (q *preq) outcome() string {
	switch {
	case !q.returned():
		return "still pending"
	case q.pan != "":
		return "panicked: " + q.pan
	case q.err != nil:
		return "error: " + q.err.Error()
	case q.kind == kRoots && q.roots == nil, q.kind != kRoots && q.raw == nil:
		return "nil result, nil error"
	case q.kind == kRoots:
		b, _ := json.Marshal(q.roots)
		return "result " + string(b)
	}
	return "result " + string(*q.raw)
}

// pend is one schedule, on its own server.
type pend struct {
	r     *vh.Run
	in    *kit.Instance
	e     *env
	ctl   *sched.Controller
	scn   string
	trace []string
	reqs  []*preq
	used  map[string]bool // roots/list frame ids already attributed
	bad   bool
	fam   string // family name in signatures / counters; "" = pending-across-old-teardown
}

func (p *pend) step(f string, a ...interface{}) { p.trace = append(p.trace, fmt.Sprintf(f, a...)) }

func (p *pend) inconclusive(what string) {
	if p.fam != "" {
		p.r.Count(p.fam+"_schedules_inconclusive", 1)
		p.r.Inconclusive(p.fam + ": " + p.scn + ": " + what + " [" + strings.Join(p.tail(), "; ") + "]")
		return
	}
	p.r.Count("pending_schedules_inconclusive", 1)
	p.r.Inconclusive(p.scn + ": " + what + " [" + strings.Join(p.trace, "; ") + "]")
}

// tail: the last steps of a long schedule.
func (p *pend) tail() []string {
	if len(p.trace) > 24 {
		return append([]string{fmt.Sprintf("... %d earlier steps ...", len(p.trace)-24)}, p.trace[len(p.trace)-24:]...)
	}
	return p.trace
}

func (p *pend) violation(q *preq, symptom, what string) {
	if !p.bad && p.fam == "" {
		pendBad++
	}
	p.bad = true
	fam := p.fam
	if fam == "" {
		fam = "pending-across-old-teardown"
	}
	w := map[string]interface{}{"scenario": p.scn, "schedule": p.tail(), "registered_streams": mcp.VerifListeningStreams(p.in.Server),
		"pending_server_requests": mcp.VerifPendingServerRequests(p.in.Server)}
	sig := "C11|" + fam + "|" + p.scn
	if q != nil {
		w["request"] = map[string]interface{}{"api": q.kind, "issued": q.phase, "frame_id": q.frame.id, "frame_method": q.frame.method,
			"delivered_on_live_stream": q.onLive, "outcome": q.outcome(), "answer_post_status": q.answerStatus}
		sig += "|" + q.kind + "@" + q.phase
	}
	p.r.Violation(sig+"|"+symptom, p.scn+": "+what, w)
}

func (p *pend) post(body string, d time.Duration) int {
	ctx, cancel := context.WithTimeout(context.Background(), d)
	defer cancel()
	re := p.e.hp.Do(ctx, "POST", p.in.URL(), map[string]string{"Content-Type": "application/json", "Accept": "application/json, text/event-stream", "Mcp-Session-Id": p.e.sid}, []byte(body))
	return re.Status
}

// issue starts a server request of the kind and waits until its frame was received on the live stream.
// It returns nil when the schedule cannot go on.
func (p *pend) issue(kind, phase string, live, old *tracked) *preq {
	q := &preq{kind: kind, phase: phase, nonce: newNonce("rq"), done: make(chan struct{})}
	p.step("server issues %s (%s)", kind, phase)
	p.r.Count("server_requests_issued_on_live_stream", 1)
	var match func(reqFrame) bool
	switch kind {
	case kInt, kGen:
		rq := &mcp.JSONRPCRequest{JSONRPC: "2.0", Params: map[string]interface{}{"nonce": q.nonce}}
		rq.Method = "verif/ask"
		if kind == kInt {
			rq.ID = int64(7_000_000 + reqCtr.Add(1))
		}
		go func() {
			defer close(q.done)
			defer func() {
				if x := recover(); x != nil {
					q.pan = fmt.Sprintf("%v\n%s", x, debug.Stack())
				}
			}()
			ctx, cancel := context.WithTimeout(context.Background(), 25*time.Second)
			defer cancel()
			q.raw, q.err = p.in.Server.SendRequest(ctx, p.e.sid, rq)
			q.watchdog = q.err != nil && ctx.Err() != nil
		}()
		match = func(f reqFrame) bool { return f.nonce == q.nonce }
	case kRoots:
		ch := make(chan rootsOutcome, 1)
		rootsCalls.Store(q.nonce, ch)
		go p.post(`{"jsonrpc":"2.0","id":"call-`+q.nonce+`","method":"tools/call","params":{"name":"askroots","arguments":{"nonce":"`+q.nonce+`"}}}`, 40*time.Second)
		go func() {
			defer close(q.done)
			defer rootsCalls.Delete(q.nonce)
			select {
			case o := <-ch:
				q.roots, q.err, q.pan = o.res, o.err, o.pan
				q.watchdog = o.err != nil && (strings.Contains(o.err.Error(), context.DeadlineExceeded.Error()) || strings.Contains(o.err.Error(), context.Canceled.Error()))
			case <-time.After(40 * time.Second):
				q.err, q.watchdog = fmt.Errorf("the tool handler calling ListRoots did not return"), true
			}
		}()
		match = func(f reqFrame) bool { return f.method == "roots/list" && !p.used[f.id] }
	}
	f, ok := live.waitReq(match, 10*time.Second)
	if ok {
		q.frame, q.onLive = f, true
		if kind == kRoots {
			p.used[f.id] = true
		}
		p.step("request frame %s id=%s received on %s", f.method, f.id, live.name)
		p.reqs = append(p.reqs, q)
		return q
	}
	// not on the live stream
	p.r.Eval(1)
	switch {
	case q.returned() && !q.watchdog:
		p.violation(q, "failed", fmt.Sprintf("a server request (%s) issued %s, after the live stream's headers had been received, did not go out on it: %s", kind, phase, q.outcome()))
	case old != nil && old.hasReq(match):
		p.violation(q, "delivered-on-old-stream", fmt.Sprintf("a server request (%s) issued %s was written to the replaced stream %s instead of the live stream %s", kind, phase, old.name, live.name))
	default:
		p.inconclusive(fmt.Sprintf("the frame of a server request (%s, %s) was not seen on the live stream within the watchdog; call: %s", kind, phase, q.outcome()))
	}
	return nil
}

// earlyReturns: the client has not answered anything yet — a call that has returned cannot carry the client's answer.
func (p *pend) earlyReturns(when string) {
	for _, q := range p.reqs {
		if q.answerStatus != 0 || !q.returned() {
			continue
		}
		q.answerStatus = -1 // judged
		p.r.Eval(1)
		if q.watchdog {
			p.inconclusive("a pending server request ran into its watchdog before the client answered")
			continue
		}
		p.violation(q, "returned-before-client-answered", fmt.Sprintf("a server request (%s) issued %s and delivered on the live stream returned %s, before the client had answered: %s", q.kind, q.phase, when, q.outcome()))
	}
}

// answerAll: the client answers every request still open by POST; each call must return that answer.
func (p *pend) answerAll() {
	for _, q := range p.reqs {
		if q.answerStatus != 0 {
			continue
		}
		tag := strings.Trim(q.frame.id, `"`)
		var body string
		if q.kind == kRoots {
			body = fmt.Sprintf(`{"jsonrpc":"2.0","id":%s,"result":{"roots":[{"uri":"file:///r-%s","name":"r-%s"}]}}`, q.frame.id, tag, tag)
		} else {
			body = fmt.Sprintf(`{"jsonrpc":"2.0","id":%s,"result":{"answer":"%s"}}`, q.frame.id, q.nonce)
		}
		q.answerStatus = p.post(body, 15*time.Second)
		p.step("client answers id=%s by POST (status %d)", q.frame.id, q.answerStatus)
		if q.answerStatus == 0 {
			q.answerStatus = -2
		}
		select {
		case <-q.done:
		case <-time.After(20 * time.Second):
		}
		p.r.Eval(1)
		switch {
		case !q.returned() || q.watchdog:
			p.inconclusive(fmt.Sprintf("a server request (%s, %s) did not return within the watchdog after the client answered (POST status %d)", q.kind, q.phase, q.answerStatus))
			continue
		case q.pan != "":
			p.violation(q, "panicked", "the call of a server request panicked: "+q.pan)
			continue
		case q.err != nil:
			p.violation(q, "failed", fmt.Sprintf("a server request (%s) issued %s, delivered on the live stream and answered by the client, failed: %v", q.kind, q.phase, q.err))
			continue
		case q.kind == kRoots && q.roots == nil, q.kind != kRoots && q.raw == nil:
			p.violation(q, "nil-result", fmt.Sprintf("a server request (%s) issued %s, delivered on the live stream and answered by the client, returned neither a result nor an error", q.kind, q.phase))
			continue
		case q.kind == kRoots && (len(q.roots.Roots) != 1 || q.roots.Roots[0].Name != "r-"+tag):
			p.violation(q, "wrong-answer", fmt.Sprintf("ListRoots returned %s, the client answered r-%s", q.outcome(), tag))
			continue
		case q.kind != kRoots && !strings.Contains(string(*q.raw), `"`+q.nonce+`"`):
			p.violation(q, "wrong-answer", fmt.Sprintf("SendRequest returned %s, the client answered %s", q.outcome(), q.nonce))
			continue
		}
		p.r.Count("server_requests_answered_and_returned_the_answer", 1)
		if q.phase == "while-old-teardown-delayed" {
			p.r.Count("server_requests_pending_across_old_teardown_answered", 1)
		}
		if p.fam != "" {
			p.r.Distinct(p.fam + "|" + p.scn + "|" + q.kind + "@" + q.phase)
			continue
		}
		p.r.Distinct("pending|" + p.scn + "|" + q.kind + "@" + q.phase)
	}
}

// passThrough lets every goroutine but the first one parked at the point go on (the point stays held for the first).
func passThrough(ctl *sched.Controller, point string) (stop func()) {
	done, fin := make(chan struct{}), make(chan struct{})
	go func() {
		defer close(fin)
		for {
			select {
			case <-done:
				return
			default:
			}
			if ctl.AwaitWaiting(point, 2, 10*time.Millisecond) >= 2 {
				ctl.ReleaseOne(point, 1)
			}
		}
	}()
	return func() { close(done); <-fin }
}

const bigEvent = 16 << 20

// schedules of this family that were refuted; once the failure is established the rest is skipped (a refuted schedule
// can cost several watchdog waits)
var pendBad int

const pendBadCap = 8

// pendingAcross runs one schedule. delay: "stalled-peer" | "writer-held@<point>" | "handler-held@get.E";
// variant: stalled-peer: "drain" | "drop"; otherwise "replaced-while-connected" | "peer-left-first".
func pendingAcross(r *vh.Run, delay, variant string, mA, mB openMode, kinds []string, idx int) {
	scn := delay + "," + variant + modeSuffix(mA, mB)
	if pendBad >= pendBadCap {
		r.Count("pending_schedules_skipped_failure_established", 1)
		return
	}
	in := kit.Start(kit.SJSON, kit.Opts{})
	ctl := sched.New(30*time.Second, r.Seed+int64(idx))
	ctl.Install()
	pendingFixture(in)
	p := &pend{r: r, in: in, ctl: ctl, scn: scn, used: map[string]bool{}}
	p.e = newEnv(r, in, ctl)
	e := p.e
	var a, b, c *tracked
	var ra *rawStream
	defer func() {
		for _, pt := range []string{"get.H", "get.T", "get.E", "sse.write.afterid", "sse.write.beforeterm"} {
			ctl.Release(pt)
		}
		if ra != nil {
			ra.drop()
		}
		for _, t := range []*tracked{a, b, c} {
			if t != nil {
				t.s.Close()
			}
		}
		for dl := time.Now().Add(3 * time.Second); mcp.VerifListeningStreams(in.Server) > 0 && time.Now().Before(dl); {
			time.Sleep(time.Millisecond)
		}
		sched.Uninstall()
		in.Close()
	}()
	r.Count("pending_schedules_started", 1)
	defer func() { tm("pending " + scn) }()

	// ---- stream A, and what will delay its teardown ----
	var heldWriter chan struct{} // closed when the writer inside an event on A has returned
	stopPass := func() {}
	defer func() { stopPass() }()
	point := strings.TrimPrefix(delay, "writer-held@")
	if delay == "stalled-peer" {
		id, eff := e.resumeID(mA)
		var err error
		if ra, err = openRaw(in, e.sid, id); err != nil {
			r.Fatal("open A (raw): %v", err)
		}
		r.Count("streams_opened_"+eff.String(), 1)
		p.step("open A (%s) over a raw connection", eff)
		if e.registered(1, 3*time.Second) != 1 {
			p.inconclusive("stream A did not register")
			return
		}
		heldWriter = make(chan struct{})
		go func() {
			defer close(heldWriter)
			defer func() { recover() }()
			in.Server.SendNotification(e.sid, "notifications/big", map[string]interface{}{"data": strings.Repeat("x", bigEvent)})
		}()
		if !ra.readIntoBigEvent(128<<10, 15*time.Second) {
			p.inconclusive("the peer of A did not get into the large event")
			return
		}
		p.step("a %d MB notification is being written to A; A's peer stops reading after %d KB", bigEvent>>20, ra.got>>10)
	} else {
		var err error
		if a, err = e.openAs("A", mA); err != nil {
			r.Fatal("open A: %v", err)
		}
		settled(a)
		p.step("open A (%s)", a.mode)
		if e.registered(1, 3*time.Second) != 1 {
			p.inconclusive("stream A did not register")
			return
		}
		e.expectOn("pending:"+scn, "baseline-on-A", a)
	}
	eBefore := ctl.Hits("get.E")
	switch {
	case delay == "handler-held@get.E":
		ctl.Hold("get.E")
	case delay != "stalled-peer":
		ctl.Hold(point)
		heldWriter = make(chan struct{})
		go func() { defer close(heldWriter); e.send("parked-on-A") }()
		if ctl.AwaitWaiting(point, 1, 10*time.Second) < 1 {
			p.inconclusive("the writer on A did not reach " + point)
			return
		}
		p.step("a writer on A is parked at %s (holds A's write lock)", point)
		stopPass = passThrough(ctl, point)
	}
	if variant == "peer-left-first" {
		go a.s.Close()
		p.step("A's peer leaves")
		if ctl.AwaitHits("get.E", eBefore+1, 10*time.Second) < eBefore+1 {
			p.inconclusive("A's handler did not notice that its peer left")
			return
		}
	}

	// ---- stream B replaces A ----
	var err error
	if b, err = e.openAs("B", mB); err != nil {
		p.violation(nil, "open-refused", "the GET of stream B was refused: "+err.Error())
		return
	}
	p.step("open B (%s): headers received", b.mode)
	if ctl.AwaitHits("get.E", eBefore+1, 10*time.Second) < eBefore+1 {
		p.inconclusive("A's handler did not wake after B registered")
		return
	}
	delayed := func() bool {
		switch {
		case delay == "handler-held@get.E":
			return ctl.AwaitWaiting("get.E", 1, 0) >= 1
		case delay == "stalled-peer":
		default:
			if ctl.AwaitWaiting(point, 1, 0) < 1 {
				return false
			}
		}
		select {
		case <-heldWriter:
			return false
		default:
			return true
		}
	}
	if delay == "handler-held@get.E" && ctl.AwaitWaiting("get.E", 1, 10*time.Second) < 1 {
		p.inconclusive("A's handler did not reach get.E")
		return
	}
	if !delayed() {
		p.inconclusive("the delay of A's teardown did not last until B was open")
		return
	}
	p.step("A's handler has woken; its teardown is delayed")

	// ---- while A's teardown is delayed: traffic for the session belongs to B ----
	e.expectOn("pending:"+scn, "old-teardown-delayed", b, a)
	for _, k := range kinds {
		if p.issue(k, "while-old-teardown-delayed", b, a) == nil {
			return
		}
	}
	if !delayed() {
		p.inconclusive("the delay of A's teardown ended before the server requests were out")
		return
	}
	r.Count("replaced_stream_teardowns_delayed", 1)
	r.Count("replaced_stream_teardowns_delayed:"+delay, 1)
	r.Count("server_requests_pending_when_old_teardown_released", int64(len(p.reqs)))
	p.earlyReturns("while the replaced stream's teardown was still delayed")

	// ---- release the teardown and let it run ----
	observed := false
	switch {
	case delay == "stalled-peer" && variant == "drain":
		p.step("A's peer reads on")
		observed = ra.drain(30 * time.Second)
	case delay == "stalled-peer":
		p.step("A's peer drops its connection")
		ra.drop()
	case delay == "handler-held@get.E":
		p.step("release A's handler")
		ctl.Release("get.E")
	default:
		stopPass()
		stopPass = func() {}
		p.step("release the writer parked on A")
		ctl.Release(point)
	}
	if heldWriter != nil {
		select {
		case <-heldWriter:
		case <-time.After(20 * time.Second):
			p.inconclusive("the writer inside an event on A did not return after the release")
			return
		}
	}
	if a != nil && variant != "peer-left-first" {
		observed = a.ended(15 * time.Second)
	}
	if observed {
		r.Count("replaced_stream_teardowns_seen_complete_by_end_of_stream", 1)
		p.step("A ended by the server: its handler has returned")
		time.Sleep(5 * time.Millisecond)
	} else {
		if variant == "drain" || (a != nil && variant != "peer-left-first") {
			p.inconclusive("stream A was not ended by the server within the watchdog after its teardown was released")
			return
		}
		r.Count("replaced_stream_teardowns_released_peer_gone", 1)
		time.Sleep(60 * time.Millisecond) // A's peer is gone: nothing shows the handler's return; the writer has returned
		p.step("the writer on A has returned; pause")
	}
	if n := mcp.VerifListeningStreams(in.Server); n < 1 {
		p.violation(nil, "old-exit-evicted-successor", "after the replaced stream's handler finished its delayed teardown, the session has no registered listening stream although the newer stream is open")
	}
	p.earlyReturns("when the replaced stream's delayed teardown ran")
	e.expectOn("pending:"+scn, "after-old-teardown", b, a)
	// requests issued only now join the ones that were pending across the teardown
	for _, k := range kinds {
		if p.issue(k, "after-old-teardown", b, a) == nil {
			return
		}
	}
	p.answerAll()

	// ---- the live stream is itself replaced by a resuming client; its state must be intact ----
	if c, err = e.openAs("C", mLast); err != nil {
		p.violation(nil, "open-refused", "the GET of stream C (Last-Event-ID: last id received on B) was refused: "+err.Error())
		return
	}
	settled(c)
	p.step("open C (%s): headers received", c.mode)
	if e.expectOn("pending:"+scn, "after-resume-on-C", c, b) {
		r.Count("live_stream_resumed_after_old_teardown", 1)
	}
	if q := p.issue(kinds[idx%len(kinds)], "after-live-stream-resumed", c, b); q == nil {
		return
	}
	p.answerAll()
	if !p.bad {
		r.Count("pending_schedules_judged", 1)
		r.Count("schedules_realised", 1)
		if mA == mLast && mB == mLast && variant != "peer-left-first" && variant != "drop" {
			r.Sample(map[string]interface{}{"scenario": "pending-across-old-teardown|" + scn, "schedule": p.trace})
		}
	}
}

func pendingAll(r *vh.Run) {
	type dv struct{ delay, variant string }
	base := []dv{
		{"stalled-peer", "drain"}, {"stalled-peer", "drop"},
		{"writer-held@sse.write.afterid", "replaced-while-connected"}, {"writer-held@sse.write.afterid", "peer-left-first"},
		{"writer-held@sse.write.beforeterm", "replaced-while-connected"}, {"writer-held@sse.write.beforeterm", "peer-left-first"},
		{"handler-held@get.E", "replaced-while-connected"}, {"handler-held@get.E", "peer-left-first"},
	}
	rng := r.Rand("pending")
	idx := 0
	for rep := 0; rep < r.Pick(1, 2); rep++ {
		for _, x := range base {
			var pairs [][2]openMode
			if r.Quick() {
				pairs = [][2]openMode{{mPlain, mPlain}, {mLast, mLast}, {mPlain, mLast}, {mLast, mPlain}, {allModes[rng.Intn(4)], allModes[rng.Intn(4)]}}
			} else {
				for _, ma := range allModes {
					for _, mb := range allModes {
						pairs = append(pairs, [2]openMode{ma, mb})
					}
				}
			}
			for _, m := range pairs {
				idx++
				kinds := append([]string{}, allReqKinds...)
				rng.Shuffle(len(kinds), func(i, j int) { kinds[i], kinds[j] = kinds[j], kinds[i] })
				pendingAcross(r, x.delay, x.variant, m[0], m[1], kinds, idx)
			}
		}
	}
	clean := true
	for _, d := range []string{"stalled-peer", "writer-held@sse.write.afterid", "writer-held@sse.write.beforeterm", "handler-held@get.E"} {
		if r.Counter("replaced_stream_teardowns_delayed:"+d) == 0 {
			clean = false
		}
	}
	r.Require(pendBad > 0 || clean && r.Counter("server_requests_pending_when_old_teardown_released") > 0,
		"pending-across-old-teardown: not every way of delaying a replaced stream's teardown could be set up with server requests pending on the live stream (delayed=%d, pending at release=%d)",
		r.Counter("replaced_stream_teardowns_delayed"), r.Counter("server_requests_pending_when_old_teardown_released"))
}
